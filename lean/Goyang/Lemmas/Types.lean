import Goyang.Model.Types
import Goyang.Spec.Types
/-
Helper lemmas for property C09 (Goyang/Props/C09.lean): the typedef lookup of the impl model is
sound for the binding relation of the specification; frame and monotonicity lemmas for the overlay
steps of `Type.resolve`.
-/
namespace Goyang.Lemmas.Types
open Goyang.Model Goyang.Model.Types Goyang.Spec.Types

/-! ## The dictionary of one statement -/

theorem kinds_agree (k : String) : typedeferKinds.contains k = scopeKinds.contains k := by
  simp only [typedeferKinds, scopeKinds, List.contains_cons, List.contains_nil, Bool.or_false]
  ac_rfl

theorem findIn_eq (n : Stmt) (name : String) : findIn n name = (declared n name).getLast? := by
  unfold findIn declared
  rw [kinds_agree]
  split
  · simp only [Stmt.all, List.filter_filter]
    congr 1
    apply List.filter_congr
    intro x _
    exact Bool.and_comm _ _
  · simp

theorem findIn_some {n : Stmt} {name : String} {td : Stmt} (h : findIn n name = some td) :
    td ∈ declared n name := by
  rw [findIn_eq] at h
  exact List.mem_of_getLast? h

theorem findIn_none {n : Stmt} {name : String} (h : findIn n name = none) : declared n name = [] := by
  rw [findIn_eq] at h
  exact List.getLast?_eq_none_iff.mp h

/-- A statement that cannot hold typedefs declares none. -/
theorem declared_of_not_scope {n : Stmt} {name : String} (h : scopeKinds.contains n.kw = false) :
    declared n name = [] := by
  unfold declared; rw [h]; simp

/-! ## The walk over the ancestors -/

theorem findInScope_some {root : Mod} {name : String} :
    ∀ {sc : List Stmt} {r : TdRef}, findInScope root name sc = some r →
      ∃ pre n up, sc = pre ++ n :: up ∧ (∀ x ∈ pre, declared x name = []) ∧
        r.td ∈ declared n name ∧ r.root = root ∧ r.scope = n :: up := by
  intro sc
  induction sc with
  | nil => intro r h; simp [findInScope] at h
  | cons n up ih =>
    intro r h
    unfold findInScope at h
    split at h
    · rename_i td htd
      cases h
      exact ⟨[], n, up, rfl, by simp, findIn_some htd, rfl, rfl⟩
    · rename_i hnone
      obtain ⟨pre, n', up', hsc, hpre, htd, hr, hs⟩ := ih h
      refine ⟨n :: pre, n', up', by rw [hsc]; rfl, ?_, htd, hr, hs⟩
      intro x hx
      cases hx with
      | head => exact findIn_none hnone
      | tail _ hx => exact hpre x hx

theorem findInScope_none {root : Mod} {name : String} :
    ∀ {sc : List Stmt}, findInScope root name sc = none → ∀ x ∈ sc, declared x name = [] := by
  intro sc
  induction sc with
  | nil => intro _ x hx; cases hx
  | cons n up ih =>
    intro h x hx
    unfold findInScope at h
    split at h
    · cases h
    · rename_i hnone
      cases hx with
      | head => exact findIn_none hnone
      | tail _ hx => exact ih h x hx

/-! ## The walk over a module and its submodules -/

theorem firstHit_found {α σ : Type} (f : α → σ → Lookup × σ) :
    ∀ (l : List α) (s s' : σ) (r : TdRef), firstHit f l s = (.found r, s') →
      ∃ a ∈ l, ∃ s1 s2, f a s1 = (.found r, s2) := by
  intro l
  induction l with
  | nil => intro s s' r h; simp [firstHit] at h
  | cons a rest ih =>
    intro s s' r h
    unfold firstHit at h
    split at h
    · rename_i s1 hfa
      obtain ⟨b, hb, s2, s3, hf⟩ := ih _ _ _ h
      exact ⟨b, List.mem_cons_of_mem _ hb, s2, s3, hf⟩
    · rename_i hne
      refine ⟨a, List.mem_cons_self, s, s', ?_⟩
      rw [← h]

theorem firstHit_found' {α σ : Type} (f : α → σ → Lookup × σ) (l : List α) (s : σ) (r : TdRef)
    (h : (firstHit f l s).1 = .found r) : ∃ a ∈ l, ∃ s1 s2, f a s1 = (.found r, s2) :=
  firstHit_found f l s (firstHit f l s).2 r (by rw [← h])

/-- A linked include target is what the registry resolves one of the include statements to. -/
theorem includeTargets_sub (env : Env) (m im : Mod) (h : im ∈ env.includeTargets m) :
    Includes env.reg m im := by
  unfold Env.includeTargets Identity.includeTargets at h
  unfold Includes includesOf
  rw [List.mem_filterMap] at h ⊢
  obtain ⟨⟨s, i⟩, hmem, hsome⟩ := h
  simp only at hsome
  refine ⟨s, ?_, ?_⟩
  · exact (List.mem_zipIdx hmem).2.2 ▸ List.getElem_mem _
  · split at hsome
    · exact hsome
    · cases hsome

theorem findInModule_sound (env : Env) (name : String) :
    ∀ (fuel : Nat) (m : Mod) (seen seen' : List Nat) (r : TdRef),
      findInModule env name fuel m seen = (.found r, seen') →
        IncludesStar env.reg m r.root ∧ r.td ∈ declared r.root.stmt name ∧ r.scope = [r.root.stmt] := by
  intro fuel
  induction fuel with
  | zero => intro m seen seen' r h; simp [findInModule] at h
  | succ fuel ih =>
    intro m seen seen' r h
    unfold findInModule at h
    split at h
    · simp at h
    · split at h
      · rename_i td htd
        simp only [Prod.mk.injEq, Lookup.found.injEq] at h
        obtain ⟨hr, _⟩ := h
        subst hr
        exact ⟨IncludesStar.refl _, findIn_some htd, rfl⟩
      · obtain ⟨im, him, s1, s2, hf⟩ := firstHit_found _ _ _ _ _ h
        obtain ⟨hstar, htd, hsc⟩ := ih im s1 s2 r hf
        exact ⟨IncludesStar.head (includeTargets_sub env m im him) hstar, htd, hsc⟩

theorem findInModule_sound' (env : Env) (name : String) (fuel : Nat) (m : Mod) (seen : List Nat) (r : TdRef)
    (h : (findInModule env name fuel m seen).1 = .found r) :
    IncludesStar env.reg m r.root ∧ r.td ∈ declared r.root.stmt name ∧ r.scope = [r.root.stmt] :=
  findInModule_sound env name fuel m seen (findInModule env name fuel m seen).2 r (by rw [← h])

theorem findLocalModules_sound (env : Env) (root : Mod) (name : String) (r : TdRef)
    (h : findLocalModules env root name = .found r) :
    InUnit env.reg root r.root ∧ r.td ∈ declared r.root.stmt name ∧ r.scope = [r.root.stmt] := by
  unfold findLocalModules at h
  simp only at h
  obtain ⟨m, hm, s1, s2, hf⟩ := firstHit_found' _ _ _ _ h
  obtain ⟨hstar, htd, hsc⟩ := findInModule_sound env name _ m s1 s2 r hf
  refine ⟨?_, htd, hsc⟩
  split at hm
  · rename_i b hb
    cases hm with
    | head => exact Or.inl hstar
    | tail _ hm =>
      have hm' : m ∈ (env.reg.getModule b).toList := hm
      rw [Option.mem_toList] at hm'
      exact Or.inr ⟨b, m, hb, hm', hstar⟩
  · cases hm with
    | head => exact Or.inl hstar
    | tail _ hm => cases hm

/-! ## Built-in names -/

theorem builtin_agree (n : String) : (builtin? n).isSome = builtinNames.contains n := by
  unfold builtin? builtinTable builtinNames
  simp only [Option.isSome_map, List.find?, List.contains_cons, List.contains_nil, Bool.or_false]
  by_cases h0 : n = "int8"
  · subst h0; decide
  by_cases h1 : n = "int16"
  · subst h1; decide
  by_cases h2 : n = "int32"
  · subst h2; decide
  by_cases h3 : n = "int64"
  · subst h3; decide
  by_cases h4 : n = "uint8"
  · subst h4; decide
  by_cases h5 : n = "uint16"
  · subst h5; decide
  by_cases h6 : n = "uint32"
  · subst h6; decide
  by_cases h7 : n = "uint64"
  · subst h7; decide
  by_cases h8 : n = "decimal64"
  · subst h8; decide
  by_cases h9 : n = "string"
  · subst h9; decide
  by_cases h10 : n = "boolean"
  · subst h10; decide
  by_cases h11 : n = "enumeration"
  · subst h11; decide
  by_cases h12 : n = "bits"
  · subst h12; decide
  by_cases h13 : n = "binary"
  · subst h13; decide
  by_cases h14 : n = "leafref"
  · subst h14; decide
  by_cases h15 : n = "identityref"
  · subst h15; decide
  by_cases h16 : n = "empty"
  · subst h16; decide
  by_cases h17 : n = "union"
  · subst h17; decide
  by_cases h18 : n = "instance-identifier"
  · subst h18; decide
  simp only [beq_false_of_ne (Ne.symm h0), beq_false_of_ne h0, beq_false_of_ne (Ne.symm h1), beq_false_of_ne h1, beq_false_of_ne (Ne.symm h2), beq_false_of_ne h2, beq_false_of_ne (Ne.symm h3), beq_false_of_ne h3, beq_false_of_ne (Ne.symm h4), beq_false_of_ne h4, beq_false_of_ne (Ne.symm h5), beq_false_of_ne h5, beq_false_of_ne (Ne.symm h6), beq_false_of_ne h6, beq_false_of_ne (Ne.symm h7), beq_false_of_ne h7, beq_false_of_ne (Ne.symm h8), beq_false_of_ne h8, beq_false_of_ne (Ne.symm h9), beq_false_of_ne h9, beq_false_of_ne (Ne.symm h10), beq_false_of_ne h10, beq_false_of_ne (Ne.symm h11), beq_false_of_ne h11, beq_false_of_ne (Ne.symm h12), beq_false_of_ne h12, beq_false_of_ne (Ne.symm h13), beq_false_of_ne h13, beq_false_of_ne (Ne.symm h14), beq_false_of_ne h14, beq_false_of_ne (Ne.symm h15), beq_false_of_ne h15, beq_false_of_ne (Ne.symm h16), beq_false_of_ne h16, beq_false_of_ne (Ne.symm h17), beq_false_of_ne h17, beq_false_of_ne (Ne.symm h18), beq_false_of_ne h18]
  rfl

theorem builtin_none {n : String} (h : builtin? n = none) : builtinNames.contains n = false := by
  rw [← builtin_agree, h]; rfl

theorem builtin_some {n : String} {y : YType} (h : builtin? n = some y) : builtinNames.contains n = true := by
  rw [← builtin_agree, h]; rfl

/-- The YangType of a built-in: its own root, named and of the kind of the built-in. -/
theorem builtin_shape {n : String} {y : YType} (h : builtin? n = some y) :
    y.name = n ∧ y.kind = n ∧ y.root = none ∧ y.units = "" ∧ y.hasDefault = false ∧ y.default = "" ∧
    y.path = "" ∧ y.pattern = [] ∧ y.enum = none ∧ y.bit = none ∧ y.members = [] ∧ y.fractionDigits = 0 := by
  unfold builtin? at h
  rw [Option.map_eq_some_iff] at h
  obtain ⟨⟨n', r⟩, hf, hy⟩ := h
  have hn : n' = n := by
    have := List.find?_some hf
    simpa using this
  subst hy
  subst hn
  exact ⟨rfl, rfl, rfl, rfl, rfl, rfl, rfl, rfl, rfl, rfl, rfl, rfl⟩

/-! ## Errors of the overlays -/

theorem mem_appendNewErrs (x : Err) : ∀ (new have_ : List Err),
    x ∈ appendNewErrs have_ new ↔ x ∈ have_ ∨ x ∈ new := by
  intro new
  induction new with
  | nil => intro have_; simp [appendNewErrs]
  | cons q rest ih =>
    intro have_
    unfold appendNewErrs
    split
    · rename_i hc
      have hq : q ∈ have_ := by
        obtain ⟨o, ho, hoq⟩ := List.any_eq_true.mp hc
        exact (of_decide_eq_true hoq) ▸ ho
      rw [ih]
      constructor
      · rintro (h | h)
        · exact Or.inl h
        · exact Or.inr (List.mem_cons_of_mem _ h)
      · rintro (h | h)
        · exact Or.inl h
        · cases h with
          | head => exact Or.inl hq
          | tail _ h => exact Or.inr h
    · rw [ih]
      simp only [List.mem_append, List.mem_cons, List.not_mem_nil, or_false]
      exact or_assoc

theorem appendNewErrs_eq_nil {have_ new : List Err} (h : appendNewErrs have_ new = []) : have_ = [] ∧ new = [] := by
  constructor
  · cases hq : have_ with
    | nil => rfl
    | cons a l =>
      have : a ∈ appendNewErrs have_ new := (mem_appendNewErrs a new have_).mpr (Or.inl (by rw [hq]; exact List.mem_cons_self))
      rw [h] at this; cases this
  · cases hq : new with
    | nil => rfl
    | cons a l =>
      have : a ∈ appendNewErrs have_ new := (mem_appendNewErrs a new have_).mpr (Or.inr (by rw [hq]; exact List.mem_cons_self))
      rw [h] at this; cases this

theorem flatMap_errs_nil {members : List Res} (h : members.flatMap (·.errs) = []) :
    ∀ r ∈ members, r.errs = [] := by
  intro r hr
  rw [List.flatMap_eq_nil_iff] at h
  exact h r hr

/-- An error-free `Type.resolve` got as far as its member types, and they are error-free. -/
theorem overlayType_errs_nil {env : Env} {root : Mod} {t : Stmt} {src : Source} {tdY : YType}
    {members : List Res} (h : (overlayType env root t src tdY members).errs = []) :
    ∀ r ∈ members, r.errs = [] := by
  unfold overlayType at h
  simp only at h
  split at h
  · simp at h
  · split at h
    · simp at h
    · simp only [stepMembers] at h
      exact flatMap_errs_nil (appendNewErrs_eq_nil h).2

/-- The keyword of a statement picked by `one?` / `all`. -/
theorem kw_of_one {s : Stmt} {k : String} {c : Stmt} (h : s.one? k = some c) : c.kw = k := by
  unfold Stmt.one? at h
  have := List.find?_some h
  simpa using this

theorem kw_of_all {s : Stmt} {k : String} {c : Stmt} (h : c ∈ s.all k) : c.kw = k := by
  unfold Stmt.all at h
  have := (List.mem_filter.mp h).2
  simpa using this

theorem type_not_scope {c : Stmt} (h : c.kw = "type") : scopeKinds.contains c.kw = false := by
  rw [h]; decide

/-! ## Frame lemmas: what each overlay step leaves alone -/

@[simp] theorem stepRequireInstance_name (t : Stmt) (s : St) : (stepRequireInstance t s).1.name = s.1.name := by
  unfold stepRequireInstance; (try simp only []); repeat' (first | rfl | split)
@[simp] theorem stepRequireInstance_kind (t : Stmt) (s : St) : (stepRequireInstance t s).1.kind = s.1.kind := by
  unfold stepRequireInstance; (try simp only []); repeat' (first | rfl | split)
@[simp] theorem stepRequireInstance_units (t : Stmt) (s : St) : (stepRequireInstance t s).1.units = s.1.units := by
  unfold stepRequireInstance; (try simp only []); repeat' (first | rfl | split)
@[simp] theorem stepRequireInstance_default (t : Stmt) (s : St) : (stepRequireInstance t s).1.default = s.1.default := by
  unfold stepRequireInstance; (try simp only []); repeat' (first | rfl | split)
@[simp] theorem stepRequireInstance_hasDefault (t : Stmt) (s : St) : (stepRequireInstance t s).1.hasDefault = s.1.hasDefault := by
  unfold stepRequireInstance; (try simp only []); repeat' (first | rfl | split)
@[simp] theorem stepRequireInstance_fractionDigits (t : Stmt) (s : St) : (stepRequireInstance t s).1.fractionDigits = s.1.fractionDigits := by
  unfold stepRequireInstance; (try simp only []); repeat' (first | rfl | split)
@[simp] theorem stepRequireInstance_path (t : Stmt) (s : St) : (stepRequireInstance t s).1.path = s.1.path := by
  unfold stepRequireInstance; (try simp only []); repeat' (first | rfl | split)
@[simp] theorem stepRequireInstance_pattern (t : Stmt) (s : St) : (stepRequireInstance t s).1.pattern = s.1.pattern := by
  unfold stepRequireInstance; (try simp only []); repeat' (first | rfl | split)
@[simp] theorem stepRequireInstance_enum (t : Stmt) (s : St) : (stepRequireInstance t s).1.enum = s.1.enum := by
  unfold stepRequireInstance; (try simp only []); repeat' (first | rfl | split)
@[simp] theorem stepRequireInstance_bit (t : Stmt) (s : St) : (stepRequireInstance t s).1.bit = s.1.bit := by
  unfold stepRequireInstance; (try simp only []); repeat' (first | rfl | split)
@[simp] theorem stepRequireInstance_members (t : Stmt) (s : St) : (stepRequireInstance t s).1.members = s.1.members := by
  unfold stepRequireInstance; (try simp only []); repeat' (first | rfl | split)
@[simp] theorem stepRequireInstance_identityBase (t : Stmt) (s : St) : (stepRequireInstance t s).1.identityBase = s.1.identityBase := by
  unfold stepRequireInstance; (try simp only []); repeat' (first | rfl | split)
@[simp] theorem stepRequireInstance_posixPattern (t : Stmt) (s : St) : (stepRequireInstance t s).1.posixPattern = s.1.posixPattern := by
  unfold stepRequireInstance; (try simp only []); repeat' (first | rfl | split)
@[simp] theorem stepRequireInstance_range (t : Stmt) (s : St) : (stepRequireInstance t s).1.range = s.1.range := by
  unfold stepRequireInstance; (try simp only []); repeat' (first | rfl | split)
@[simp] theorem stepRequireInstance_length (t : Stmt) (s : St) : (stepRequireInstance t s).1.length = s.1.length := by
  unfold stepRequireInstance; (try simp only []); repeat' (first | rfl | split)
@[simp] theorem stepPath_name (t : Stmt) (s : St) : (stepPath t s).1.name = s.1.name := by
  unfold stepPath; (try simp only []); repeat' (first | rfl | split)
@[simp] theorem stepPath_kind (t : Stmt) (s : St) : (stepPath t s).1.kind = s.1.kind := by
  unfold stepPath; (try simp only []); repeat' (first | rfl | split)
@[simp] theorem stepPath_units (t : Stmt) (s : St) : (stepPath t s).1.units = s.1.units := by
  unfold stepPath; (try simp only []); repeat' (first | rfl | split)
@[simp] theorem stepPath_default (t : Stmt) (s : St) : (stepPath t s).1.default = s.1.default := by
  unfold stepPath; (try simp only []); repeat' (first | rfl | split)
@[simp] theorem stepPath_hasDefault (t : Stmt) (s : St) : (stepPath t s).1.hasDefault = s.1.hasDefault := by
  unfold stepPath; (try simp only []); repeat' (first | rfl | split)
@[simp] theorem stepPath_fractionDigits (t : Stmt) (s : St) : (stepPath t s).1.fractionDigits = s.1.fractionDigits := by
  unfold stepPath; (try simp only []); repeat' (first | rfl | split)
@[simp] theorem stepPath_pattern (t : Stmt) (s : St) : (stepPath t s).1.pattern = s.1.pattern := by
  unfold stepPath; (try simp only []); repeat' (first | rfl | split)
@[simp] theorem stepPath_enum (t : Stmt) (s : St) : (stepPath t s).1.enum = s.1.enum := by
  unfold stepPath; (try simp only []); repeat' (first | rfl | split)
@[simp] theorem stepPath_bit (t : Stmt) (s : St) : (stepPath t s).1.bit = s.1.bit := by
  unfold stepPath; (try simp only []); repeat' (first | rfl | split)
@[simp] theorem stepPath_members (t : Stmt) (s : St) : (stepPath t s).1.members = s.1.members := by
  unfold stepPath; (try simp only []); repeat' (first | rfl | split)
@[simp] theorem stepPath_identityBase (t : Stmt) (s : St) : (stepPath t s).1.identityBase = s.1.identityBase := by
  unfold stepPath; (try simp only []); repeat' (first | rfl | split)
@[simp] theorem stepPath_posixPattern (t : Stmt) (s : St) : (stepPath t s).1.posixPattern = s.1.posixPattern := by
  unfold stepPath; (try simp only []); repeat' (first | rfl | split)
@[simp] theorem stepPath_range (t : Stmt) (s : St) : (stepPath t s).1.range = s.1.range := by
  unfold stepPath; (try simp only []); repeat' (first | rfl | split)
@[simp] theorem stepPath_length (t : Stmt) (s : St) : (stepPath t s).1.length = s.1.length := by
  unfold stepPath; (try simp only []); repeat' (first | rfl | split)
@[simp] theorem stepPath_optionalInstance (t : Stmt) (s : St) : (stepPath t s).1.optionalInstance = s.1.optionalInstance := by
  unfold stepPath; (try simp only []); repeat' (first | rfl | split)
@[simp] theorem stepKind_name (env : Env) (root : Mod) (t : Stmt) (src : Source) (dec : Bool) (s : St) : (stepKind env root t src dec s).1.name = s.1.name := by
  unfold stepKind; (try simp only []); repeat' (first | rfl | split)
@[simp] theorem stepKind_kind (env : Env) (root : Mod) (t : Stmt) (src : Source) (dec : Bool) (s : St) : (stepKind env root t src dec s).1.kind = s.1.kind := by
  unfold stepKind; (try simp only []); repeat' (first | rfl | split)
@[simp] theorem stepKind_units (env : Env) (root : Mod) (t : Stmt) (src : Source) (dec : Bool) (s : St) : (stepKind env root t src dec s).1.units = s.1.units := by
  unfold stepKind; (try simp only []); repeat' (first | rfl | split)
@[simp] theorem stepKind_default (env : Env) (root : Mod) (t : Stmt) (src : Source) (dec : Bool) (s : St) : (stepKind env root t src dec s).1.default = s.1.default := by
  unfold stepKind; (try simp only []); repeat' (first | rfl | split)
@[simp] theorem stepKind_hasDefault (env : Env) (root : Mod) (t : Stmt) (src : Source) (dec : Bool) (s : St) : (stepKind env root t src dec s).1.hasDefault = s.1.hasDefault := by
  unfold stepKind; (try simp only []); repeat' (first | rfl | split)
@[simp] theorem stepKind_path (env : Env) (root : Mod) (t : Stmt) (src : Source) (dec : Bool) (s : St) : (stepKind env root t src dec s).1.path = s.1.path := by
  unfold stepKind; (try simp only []); repeat' (first | rfl | split)
@[simp] theorem stepKind_pattern (env : Env) (root : Mod) (t : Stmt) (src : Source) (dec : Bool) (s : St) : (stepKind env root t src dec s).1.pattern = s.1.pattern := by
  unfold stepKind; (try simp only []); repeat' (first | rfl | split)
@[simp] theorem stepKind_enum (env : Env) (root : Mod) (t : Stmt) (src : Source) (dec : Bool) (s : St) : (stepKind env root t src dec s).1.enum = s.1.enum := by
  unfold stepKind; (try simp only []); repeat' (first | rfl | split)
@[simp] theorem stepKind_bit (env : Env) (root : Mod) (t : Stmt) (src : Source) (dec : Bool) (s : St) : (stepKind env root t src dec s).1.bit = s.1.bit := by
  unfold stepKind; (try simp only []); repeat' (first | rfl | split)
@[simp] theorem stepKind_members (env : Env) (root : Mod) (t : Stmt) (src : Source) (dec : Bool) (s : St) : (stepKind env root t src dec s).1.members = s.1.members := by
  unfold stepKind; (try simp only []); repeat' (first | rfl | split)
@[simp] theorem stepKind_posixPattern (env : Env) (root : Mod) (t : Stmt) (src : Source) (dec : Bool) (s : St) : (stepKind env root t src dec s).1.posixPattern = s.1.posixPattern := by
  unfold stepKind; (try simp only []); repeat' (first | rfl | split)
@[simp] theorem stepKind_length (env : Env) (root : Mod) (t : Stmt) (src : Source) (dec : Bool) (s : St) : (stepKind env root t src dec s).1.length = s.1.length := by
  unfold stepKind; (try simp only []); repeat' (first | rfl | split)
@[simp] theorem stepKind_optionalInstance (env : Env) (root : Mod) (t : Stmt) (src : Source) (dec : Bool) (s : St) : (stepKind env root t src dec s).1.optionalInstance = s.1.optionalInstance := by
  unfold stepKind; (try simp only []); repeat' (first | rfl | split)
@[simp] theorem stepRange_name (t : Stmt) (dec : Bool) (s : St) : (stepRange t dec s).1.name = s.1.name := by
  unfold stepRange; (try simp only []); repeat' (first | rfl | split)
@[simp] theorem stepRange_kind (t : Stmt) (dec : Bool) (s : St) : (stepRange t dec s).1.kind = s.1.kind := by
  unfold stepRange; (try simp only []); repeat' (first | rfl | split)
@[simp] theorem stepRange_units (t : Stmt) (dec : Bool) (s : St) : (stepRange t dec s).1.units = s.1.units := by
  unfold stepRange; (try simp only []); repeat' (first | rfl | split)
@[simp] theorem stepRange_default (t : Stmt) (dec : Bool) (s : St) : (stepRange t dec s).1.default = s.1.default := by
  unfold stepRange; (try simp only []); repeat' (first | rfl | split)
@[simp] theorem stepRange_hasDefault (t : Stmt) (dec : Bool) (s : St) : (stepRange t dec s).1.hasDefault = s.1.hasDefault := by
  unfold stepRange; (try simp only []); repeat' (first | rfl | split)
@[simp] theorem stepRange_fractionDigits (t : Stmt) (dec : Bool) (s : St) : (stepRange t dec s).1.fractionDigits = s.1.fractionDigits := by
  unfold stepRange; (try simp only []); repeat' (first | rfl | split)
@[simp] theorem stepRange_path (t : Stmt) (dec : Bool) (s : St) : (stepRange t dec s).1.path = s.1.path := by
  unfold stepRange; (try simp only []); repeat' (first | rfl | split)
@[simp] theorem stepRange_pattern (t : Stmt) (dec : Bool) (s : St) : (stepRange t dec s).1.pattern = s.1.pattern := by
  unfold stepRange; (try simp only []); repeat' (first | rfl | split)
@[simp] theorem stepRange_enum (t : Stmt) (dec : Bool) (s : St) : (stepRange t dec s).1.enum = s.1.enum := by
  unfold stepRange; (try simp only []); repeat' (first | rfl | split)
@[simp] theorem stepRange_bit (t : Stmt) (dec : Bool) (s : St) : (stepRange t dec s).1.bit = s.1.bit := by
  unfold stepRange; (try simp only []); repeat' (first | rfl | split)
@[simp] theorem stepRange_members (t : Stmt) (dec : Bool) (s : St) : (stepRange t dec s).1.members = s.1.members := by
  unfold stepRange; (try simp only []); repeat' (first | rfl | split)
@[simp] theorem stepRange_identityBase (t : Stmt) (dec : Bool) (s : St) : (stepRange t dec s).1.identityBase = s.1.identityBase := by
  unfold stepRange; (try simp only []); repeat' (first | rfl | split)
@[simp] theorem stepRange_posixPattern (t : Stmt) (dec : Bool) (s : St) : (stepRange t dec s).1.posixPattern = s.1.posixPattern := by
  unfold stepRange; (try simp only []); repeat' (first | rfl | split)
@[simp] theorem stepRange_length (t : Stmt) (dec : Bool) (s : St) : (stepRange t dec s).1.length = s.1.length := by
  unfold stepRange; (try simp only []); repeat' (first | rfl | split)
@[simp] theorem stepRange_optionalInstance (t : Stmt) (dec : Bool) (s : St) : (stepRange t dec s).1.optionalInstance = s.1.optionalInstance := by
  unfold stepRange; (try simp only []); repeat' (first | rfl | split)
@[simp] theorem stepLength_name (t : Stmt) (s : St) : (stepLength t s).1.name = s.1.name := by
  unfold stepLength; (try simp only []); repeat' (first | rfl | split)
@[simp] theorem stepLength_kind (t : Stmt) (s : St) : (stepLength t s).1.kind = s.1.kind := by
  unfold stepLength; (try simp only []); repeat' (first | rfl | split)
@[simp] theorem stepLength_units (t : Stmt) (s : St) : (stepLength t s).1.units = s.1.units := by
  unfold stepLength; (try simp only []); repeat' (first | rfl | split)
@[simp] theorem stepLength_default (t : Stmt) (s : St) : (stepLength t s).1.default = s.1.default := by
  unfold stepLength; (try simp only []); repeat' (first | rfl | split)
@[simp] theorem stepLength_hasDefault (t : Stmt) (s : St) : (stepLength t s).1.hasDefault = s.1.hasDefault := by
  unfold stepLength; (try simp only []); repeat' (first | rfl | split)
@[simp] theorem stepLength_fractionDigits (t : Stmt) (s : St) : (stepLength t s).1.fractionDigits = s.1.fractionDigits := by
  unfold stepLength; (try simp only []); repeat' (first | rfl | split)
@[simp] theorem stepLength_path (t : Stmt) (s : St) : (stepLength t s).1.path = s.1.path := by
  unfold stepLength; (try simp only []); repeat' (first | rfl | split)
@[simp] theorem stepLength_pattern (t : Stmt) (s : St) : (stepLength t s).1.pattern = s.1.pattern := by
  unfold stepLength; (try simp only []); repeat' (first | rfl | split)
@[simp] theorem stepLength_enum (t : Stmt) (s : St) : (stepLength t s).1.enum = s.1.enum := by
  unfold stepLength; (try simp only []); repeat' (first | rfl | split)
@[simp] theorem stepLength_bit (t : Stmt) (s : St) : (stepLength t s).1.bit = s.1.bit := by
  unfold stepLength; (try simp only []); repeat' (first | rfl | split)
@[simp] theorem stepLength_members (t : Stmt) (s : St) : (stepLength t s).1.members = s.1.members := by
  unfold stepLength; (try simp only []); repeat' (first | rfl | split)
@[simp] theorem stepLength_identityBase (t : Stmt) (s : St) : (stepLength t s).1.identityBase = s.1.identityBase := by
  unfold stepLength; (try simp only []); repeat' (first | rfl | split)
@[simp] theorem stepLength_posixPattern (t : Stmt) (s : St) : (stepLength t s).1.posixPattern = s.1.posixPattern := by
  unfold stepLength; (try simp only []); repeat' (first | rfl | split)
@[simp] theorem stepLength_range (t : Stmt) (s : St) : (stepLength t s).1.range = s.1.range := by
  unfold stepLength; (try simp only []); repeat' (first | rfl | split)
@[simp] theorem stepLength_optionalInstance (t : Stmt) (s : St) : (stepLength t s).1.optionalInstance = s.1.optionalInstance := by
  unfold stepLength; (try simp only []); repeat' (first | rfl | split)
@[simp] theorem stepEnum_name (t : Stmt) (s : St) : (stepEnum t s).1.name = s.1.name := by
  unfold stepEnum; (try simp only []); repeat' (first | rfl | split)
@[simp] theorem stepEnum_kind (t : Stmt) (s : St) : (stepEnum t s).1.kind = s.1.kind := by
  unfold stepEnum; (try simp only []); repeat' (first | rfl | split)
@[simp] theorem stepEnum_units (t : Stmt) (s : St) : (stepEnum t s).1.units = s.1.units := by
  unfold stepEnum; (try simp only []); repeat' (first | rfl | split)
@[simp] theorem stepEnum_default (t : Stmt) (s : St) : (stepEnum t s).1.default = s.1.default := by
  unfold stepEnum; (try simp only []); repeat' (first | rfl | split)
@[simp] theorem stepEnum_hasDefault (t : Stmt) (s : St) : (stepEnum t s).1.hasDefault = s.1.hasDefault := by
  unfold stepEnum; (try simp only []); repeat' (first | rfl | split)
@[simp] theorem stepEnum_fractionDigits (t : Stmt) (s : St) : (stepEnum t s).1.fractionDigits = s.1.fractionDigits := by
  unfold stepEnum; (try simp only []); repeat' (first | rfl | split)
@[simp] theorem stepEnum_path (t : Stmt) (s : St) : (stepEnum t s).1.path = s.1.path := by
  unfold stepEnum; (try simp only []); repeat' (first | rfl | split)
@[simp] theorem stepEnum_pattern (t : Stmt) (s : St) : (stepEnum t s).1.pattern = s.1.pattern := by
  unfold stepEnum; (try simp only []); repeat' (first | rfl | split)
@[simp] theorem stepEnum_bit (t : Stmt) (s : St) : (stepEnum t s).1.bit = s.1.bit := by
  unfold stepEnum; (try simp only []); repeat' (first | rfl | split)
@[simp] theorem stepEnum_members (t : Stmt) (s : St) : (stepEnum t s).1.members = s.1.members := by
  unfold stepEnum; (try simp only []); repeat' (first | rfl | split)
@[simp] theorem stepEnum_identityBase (t : Stmt) (s : St) : (stepEnum t s).1.identityBase = s.1.identityBase := by
  unfold stepEnum; (try simp only []); repeat' (first | rfl | split)
@[simp] theorem stepEnum_posixPattern (t : Stmt) (s : St) : (stepEnum t s).1.posixPattern = s.1.posixPattern := by
  unfold stepEnum; (try simp only []); repeat' (first | rfl | split)
@[simp] theorem stepEnum_range (t : Stmt) (s : St) : (stepEnum t s).1.range = s.1.range := by
  unfold stepEnum; (try simp only []); repeat' (first | rfl | split)
@[simp] theorem stepEnum_length (t : Stmt) (s : St) : (stepEnum t s).1.length = s.1.length := by
  unfold stepEnum; (try simp only []); repeat' (first | rfl | split)
@[simp] theorem stepEnum_optionalInstance (t : Stmt) (s : St) : (stepEnum t s).1.optionalInstance = s.1.optionalInstance := by
  unfold stepEnum; (try simp only []); repeat' (first | rfl | split)
@[simp] theorem stepBit_name (t : Stmt) (s : St) : (stepBit t s).1.name = s.1.name := by
  unfold stepBit; (try simp only []); repeat' (first | rfl | split)
@[simp] theorem stepBit_kind (t : Stmt) (s : St) : (stepBit t s).1.kind = s.1.kind := by
  unfold stepBit; (try simp only []); repeat' (first | rfl | split)
@[simp] theorem stepBit_units (t : Stmt) (s : St) : (stepBit t s).1.units = s.1.units := by
  unfold stepBit; (try simp only []); repeat' (first | rfl | split)
@[simp] theorem stepBit_default (t : Stmt) (s : St) : (stepBit t s).1.default = s.1.default := by
  unfold stepBit; (try simp only []); repeat' (first | rfl | split)
@[simp] theorem stepBit_hasDefault (t : Stmt) (s : St) : (stepBit t s).1.hasDefault = s.1.hasDefault := by
  unfold stepBit; (try simp only []); repeat' (first | rfl | split)
@[simp] theorem stepBit_fractionDigits (t : Stmt) (s : St) : (stepBit t s).1.fractionDigits = s.1.fractionDigits := by
  unfold stepBit; (try simp only []); repeat' (first | rfl | split)
@[simp] theorem stepBit_path (t : Stmt) (s : St) : (stepBit t s).1.path = s.1.path := by
  unfold stepBit; (try simp only []); repeat' (first | rfl | split)
@[simp] theorem stepBit_pattern (t : Stmt) (s : St) : (stepBit t s).1.pattern = s.1.pattern := by
  unfold stepBit; (try simp only []); repeat' (first | rfl | split)
@[simp] theorem stepBit_enum (t : Stmt) (s : St) : (stepBit t s).1.enum = s.1.enum := by
  unfold stepBit; (try simp only []); repeat' (first | rfl | split)
@[simp] theorem stepBit_members (t : Stmt) (s : St) : (stepBit t s).1.members = s.1.members := by
  unfold stepBit; (try simp only []); repeat' (first | rfl | split)
@[simp] theorem stepBit_identityBase (t : Stmt) (s : St) : (stepBit t s).1.identityBase = s.1.identityBase := by
  unfold stepBit; (try simp only []); repeat' (first | rfl | split)
@[simp] theorem stepBit_posixPattern (t : Stmt) (s : St) : (stepBit t s).1.posixPattern = s.1.posixPattern := by
  unfold stepBit; (try simp only []); repeat' (first | rfl | split)
@[simp] theorem stepBit_range (t : Stmt) (s : St) : (stepBit t s).1.range = s.1.range := by
  unfold stepBit; (try simp only []); repeat' (first | rfl | split)
@[simp] theorem stepBit_length (t : Stmt) (s : St) : (stepBit t s).1.length = s.1.length := by
  unfold stepBit; (try simp only []); repeat' (first | rfl | split)
@[simp] theorem stepBit_optionalInstance (t : Stmt) (s : St) : (stepBit t s).1.optionalInstance = s.1.optionalInstance := by
  unfold stepBit; (try simp only []); repeat' (first | rfl | split)
@[simp] theorem stepPattern_name (t : Stmt) (s : St) : (stepPattern t s).1.name = s.1.name := by
  unfold stepPattern; (try simp only []); repeat' (first | rfl | split)
@[simp] theorem stepPattern_kind (t : Stmt) (s : St) : (stepPattern t s).1.kind = s.1.kind := by
  unfold stepPattern; (try simp only []); repeat' (first | rfl | split)
@[simp] theorem stepPattern_units (t : Stmt) (s : St) : (stepPattern t s).1.units = s.1.units := by
  unfold stepPattern; (try simp only []); repeat' (first | rfl | split)
@[simp] theorem stepPattern_default (t : Stmt) (s : St) : (stepPattern t s).1.default = s.1.default := by
  unfold stepPattern; (try simp only []); repeat' (first | rfl | split)
@[simp] theorem stepPattern_hasDefault (t : Stmt) (s : St) : (stepPattern t s).1.hasDefault = s.1.hasDefault := by
  unfold stepPattern; (try simp only []); repeat' (first | rfl | split)
@[simp] theorem stepPattern_fractionDigits (t : Stmt) (s : St) : (stepPattern t s).1.fractionDigits = s.1.fractionDigits := by
  unfold stepPattern; (try simp only []); repeat' (first | rfl | split)
@[simp] theorem stepPattern_path (t : Stmt) (s : St) : (stepPattern t s).1.path = s.1.path := by
  unfold stepPattern; (try simp only []); repeat' (first | rfl | split)
@[simp] theorem stepPattern_enum (t : Stmt) (s : St) : (stepPattern t s).1.enum = s.1.enum := by
  unfold stepPattern; (try simp only []); repeat' (first | rfl | split)
@[simp] theorem stepPattern_bit (t : Stmt) (s : St) : (stepPattern t s).1.bit = s.1.bit := by
  unfold stepPattern; (try simp only []); repeat' (first | rfl | split)
@[simp] theorem stepPattern_members (t : Stmt) (s : St) : (stepPattern t s).1.members = s.1.members := by
  unfold stepPattern; (try simp only []); repeat' (first | rfl | split)
@[simp] theorem stepPattern_identityBase (t : Stmt) (s : St) : (stepPattern t s).1.identityBase = s.1.identityBase := by
  unfold stepPattern; (try simp only []); repeat' (first | rfl | split)
@[simp] theorem stepPattern_posixPattern (t : Stmt) (s : St) : (stepPattern t s).1.posixPattern = s.1.posixPattern := by
  unfold stepPattern; (try simp only []); repeat' (first | rfl | split)
@[simp] theorem stepPattern_range (t : Stmt) (s : St) : (stepPattern t s).1.range = s.1.range := by
  unfold stepPattern; (try simp only []); repeat' (first | rfl | split)
@[simp] theorem stepPattern_length (t : Stmt) (s : St) : (stepPattern t s).1.length = s.1.length := by
  unfold stepPattern; (try simp only []); repeat' (first | rfl | split)
@[simp] theorem stepPattern_optionalInstance (t : Stmt) (s : St) : (stepPattern t s).1.optionalInstance = s.1.optionalInstance := by
  unfold stepPattern; (try simp only []); repeat' (first | rfl | split)
@[simp] theorem stepPosix_name (env : Env) (pps : List Stmt) (s : St) : (stepPosix env pps s).1.name = s.1.name := by
  unfold stepPosix; (try simp only []); repeat' (first | rfl | split)
@[simp] theorem stepPosix_kind (env : Env) (pps : List Stmt) (s : St) : (stepPosix env pps s).1.kind = s.1.kind := by
  unfold stepPosix; (try simp only []); repeat' (first | rfl | split)
@[simp] theorem stepPosix_units (env : Env) (pps : List Stmt) (s : St) : (stepPosix env pps s).1.units = s.1.units := by
  unfold stepPosix; (try simp only []); repeat' (first | rfl | split)
@[simp] theorem stepPosix_default (env : Env) (pps : List Stmt) (s : St) : (stepPosix env pps s).1.default = s.1.default := by
  unfold stepPosix; (try simp only []); repeat' (first | rfl | split)
@[simp] theorem stepPosix_hasDefault (env : Env) (pps : List Stmt) (s : St) : (stepPosix env pps s).1.hasDefault = s.1.hasDefault := by
  unfold stepPosix; (try simp only []); repeat' (first | rfl | split)
@[simp] theorem stepPosix_fractionDigits (env : Env) (pps : List Stmt) (s : St) : (stepPosix env pps s).1.fractionDigits = s.1.fractionDigits := by
  unfold stepPosix; (try simp only []); repeat' (first | rfl | split)
@[simp] theorem stepPosix_path (env : Env) (pps : List Stmt) (s : St) : (stepPosix env pps s).1.path = s.1.path := by
  unfold stepPosix; (try simp only []); repeat' (first | rfl | split)
@[simp] theorem stepPosix_pattern (env : Env) (pps : List Stmt) (s : St) : (stepPosix env pps s).1.pattern = s.1.pattern := by
  unfold stepPosix; (try simp only []); repeat' (first | rfl | split)
@[simp] theorem stepPosix_enum (env : Env) (pps : List Stmt) (s : St) : (stepPosix env pps s).1.enum = s.1.enum := by
  unfold stepPosix; (try simp only []); repeat' (first | rfl | split)
@[simp] theorem stepPosix_bit (env : Env) (pps : List Stmt) (s : St) : (stepPosix env pps s).1.bit = s.1.bit := by
  unfold stepPosix; (try simp only []); repeat' (first | rfl | split)
@[simp] theorem stepPosix_members (env : Env) (pps : List Stmt) (s : St) : (stepPosix env pps s).1.members = s.1.members := by
  unfold stepPosix; (try simp only []); repeat' (first | rfl | split)
@[simp] theorem stepPosix_identityBase (env : Env) (pps : List Stmt) (s : St) : (stepPosix env pps s).1.identityBase = s.1.identityBase := by
  unfold stepPosix; (try simp only []); repeat' (first | rfl | split)
@[simp] theorem stepPosix_range (env : Env) (pps : List Stmt) (s : St) : (stepPosix env pps s).1.range = s.1.range := by
  unfold stepPosix; (try simp only []); repeat' (first | rfl | split)
@[simp] theorem stepPosix_length (env : Env) (pps : List Stmt) (s : St) : (stepPosix env pps s).1.length = s.1.length := by
  unfold stepPosix; (try simp only []); repeat' (first | rfl | split)
@[simp] theorem stepPosix_optionalInstance (env : Env) (pps : List Stmt) (s : St) : (stepPosix env pps s).1.optionalInstance = s.1.optionalInstance := by
  unfold stepPosix; (try simp only []); repeat' (first | rfl | split)
@[simp] theorem stepMembers_name (ms : List Res) (s : St) : (stepMembers ms s).1.name = s.1.name := by
  unfold stepMembers; (try simp only []); repeat' (first | rfl | split)
@[simp] theorem stepMembers_kind (ms : List Res) (s : St) : (stepMembers ms s).1.kind = s.1.kind := by
  unfold stepMembers; (try simp only []); repeat' (first | rfl | split)
@[simp] theorem stepMembers_units (ms : List Res) (s : St) : (stepMembers ms s).1.units = s.1.units := by
  unfold stepMembers; (try simp only []); repeat' (first | rfl | split)
@[simp] theorem stepMembers_default (ms : List Res) (s : St) : (stepMembers ms s).1.default = s.1.default := by
  unfold stepMembers; (try simp only []); repeat' (first | rfl | split)
@[simp] theorem stepMembers_hasDefault (ms : List Res) (s : St) : (stepMembers ms s).1.hasDefault = s.1.hasDefault := by
  unfold stepMembers; (try simp only []); repeat' (first | rfl | split)
@[simp] theorem stepMembers_fractionDigits (ms : List Res) (s : St) : (stepMembers ms s).1.fractionDigits = s.1.fractionDigits := by
  unfold stepMembers; (try simp only []); repeat' (first | rfl | split)
@[simp] theorem stepMembers_path (ms : List Res) (s : St) : (stepMembers ms s).1.path = s.1.path := by
  unfold stepMembers; (try simp only []); repeat' (first | rfl | split)
@[simp] theorem stepMembers_pattern (ms : List Res) (s : St) : (stepMembers ms s).1.pattern = s.1.pattern := by
  unfold stepMembers; (try simp only []); repeat' (first | rfl | split)
@[simp] theorem stepMembers_enum (ms : List Res) (s : St) : (stepMembers ms s).1.enum = s.1.enum := by
  unfold stepMembers; (try simp only []); repeat' (first | rfl | split)
@[simp] theorem stepMembers_bit (ms : List Res) (s : St) : (stepMembers ms s).1.bit = s.1.bit := by
  unfold stepMembers; (try simp only []); repeat' (first | rfl | split)
@[simp] theorem stepMembers_identityBase (ms : List Res) (s : St) : (stepMembers ms s).1.identityBase = s.1.identityBase := by
  unfold stepMembers; (try simp only []); repeat' (first | rfl | split)
@[simp] theorem stepMembers_posixPattern (ms : List Res) (s : St) : (stepMembers ms s).1.posixPattern = s.1.posixPattern := by
  unfold stepMembers; (try simp only []); repeat' (first | rfl | split)
@[simp] theorem stepMembers_range (ms : List Res) (s : St) : (stepMembers ms s).1.range = s.1.range := by
  unfold stepMembers; (try simp only []); repeat' (first | rfl | split)
@[simp] theorem stepMembers_length (ms : List Res) (s : St) : (stepMembers ms s).1.length = s.1.length := by
  unfold stepMembers; (try simp only []); repeat' (first | rfl | split)
@[simp] theorem stepMembers_optionalInstance (ms : List Res) (s : St) : (stepMembers ms s).1.optionalInstance = s.1.optionalInstance := by
  unfold stepMembers; (try simp only []); repeat' (first | rfl | split)
@[simp] theorem fixRoot_name (y : YType) : (fixRoot y).name = y.name := by
  unfold fixRoot; repeat' (first | rfl | split)
@[simp] theorem copyOf_name (y : YType) : y.copyOf.name = y.name := rfl
@[simp] theorem fixRoot_kind (y : YType) : (fixRoot y).kind = y.kind := by
  unfold fixRoot; repeat' (first | rfl | split)
@[simp] theorem copyOf_kind (y : YType) : y.copyOf.kind = y.kind := rfl
@[simp] theorem fixRoot_units (y : YType) : (fixRoot y).units = y.units := by
  unfold fixRoot; repeat' (first | rfl | split)
@[simp] theorem copyOf_units (y : YType) : y.copyOf.units = y.units := rfl
@[simp] theorem fixRoot_default (y : YType) : (fixRoot y).default = y.default := by
  unfold fixRoot; repeat' (first | rfl | split)
@[simp] theorem copyOf_default (y : YType) : y.copyOf.default = y.default := rfl
@[simp] theorem fixRoot_hasDefault (y : YType) : (fixRoot y).hasDefault = y.hasDefault := by
  unfold fixRoot; repeat' (first | rfl | split)
@[simp] theorem copyOf_hasDefault (y : YType) : y.copyOf.hasDefault = y.hasDefault := rfl
@[simp] theorem fixRoot_fractionDigits (y : YType) : (fixRoot y).fractionDigits = y.fractionDigits := by
  unfold fixRoot; repeat' (first | rfl | split)
@[simp] theorem copyOf_fractionDigits (y : YType) : y.copyOf.fractionDigits = y.fractionDigits := rfl
@[simp] theorem fixRoot_path (y : YType) : (fixRoot y).path = y.path := by
  unfold fixRoot; repeat' (first | rfl | split)
@[simp] theorem copyOf_path (y : YType) : y.copyOf.path = y.path := rfl
@[simp] theorem fixRoot_pattern (y : YType) : (fixRoot y).pattern = y.pattern := by
  unfold fixRoot; repeat' (first | rfl | split)
@[simp] theorem copyOf_pattern (y : YType) : y.copyOf.pattern = y.pattern := rfl
@[simp] theorem fixRoot_enum (y : YType) : (fixRoot y).enum = y.enum := by
  unfold fixRoot; repeat' (first | rfl | split)
@[simp] theorem copyOf_enum (y : YType) : y.copyOf.enum = y.enum := rfl
@[simp] theorem fixRoot_bit (y : YType) : (fixRoot y).bit = y.bit := by
  unfold fixRoot; repeat' (first | rfl | split)
@[simp] theorem copyOf_bit (y : YType) : y.copyOf.bit = y.bit := rfl
@[simp] theorem fixRoot_members (y : YType) : (fixRoot y).members = y.members := by
  unfold fixRoot; repeat' (first | rfl | split)
@[simp] theorem copyOf_members (y : YType) : y.copyOf.members = y.members := rfl
@[simp] theorem fixRoot_identityBase (y : YType) : (fixRoot y).identityBase = y.identityBase := by
  unfold fixRoot; repeat' (first | rfl | split)
@[simp] theorem copyOf_identityBase (y : YType) : y.copyOf.identityBase = y.identityBase := rfl
@[simp] theorem fixRoot_posixPattern (y : YType) : (fixRoot y).posixPattern = y.posixPattern := by
  unfold fixRoot; repeat' (first | rfl | split)
@[simp] theorem copyOf_posixPattern (y : YType) : y.copyOf.posixPattern = y.posixPattern := rfl
@[simp] theorem fixRoot_range (y : YType) : (fixRoot y).range = y.range := by
  unfold fixRoot; repeat' (first | rfl | split)
@[simp] theorem copyOf_range (y : YType) : y.copyOf.range = y.range := rfl
@[simp] theorem fixRoot_length (y : YType) : (fixRoot y).length = y.length := by
  unfold fixRoot; repeat' (first | rfl | split)
@[simp] theorem copyOf_length (y : YType) : y.copyOf.length = y.length := rfl
@[simp] theorem fixRoot_optionalInstance (y : YType) : (fixRoot y).optionalInstance = y.optionalInstance := by
  unfold fixRoot; repeat' (first | rfl | split)
@[simp] theorem copyOf_optionalInstance (y : YType) : y.copyOf.optionalInstance = y.optionalInstance := rfl

/-! ## Errors only grow -/

theorem stepRequireInstance_errs_nil {t : Stmt} {s : St} (h : (stepRequireInstance t s).2 = []) : s.2 = [] := by
  unfold stepRequireInstance at h
  repeat' (first | exact h | (simp at h; done) | split at h)
theorem stepPath_errs (t : Stmt) (s : St) : (stepPath t s).2 = s.2 := by
  unfold stepPath; repeat' (first | rfl | split)
theorem stepKind_errs_nil {env : Env} {root : Mod} {t : Stmt} {src : Source} {dec : Bool} {s : St}
    (h : (stepKind env root t src dec s).2 = []) : s.2 = [] := by
  unfold stepKind at h
  simp only [] at h
  repeat' (first | exact h | (simp at h; done) | split at h)
theorem stepRange_errs_nil {t : Stmt} {dec : Bool} {s : St} (h : (stepRange t dec s).2 = []) : s.2 = [] := by
  unfold stepRange at h
  repeat' (first | exact h | (simp at h; done) | split at h)
theorem stepLength_errs_nil {t : Stmt} {s : St} (h : (stepLength t s).2 = []) : s.2 = [] := by
  unfold stepLength at h
  repeat' (first | exact h | (simp at h; done) | split at h)
theorem stepEnum_errs_nil {t : Stmt} {s : St} (h : (stepEnum t s).2 = []) : s.2 = [] := by
  unfold stepEnum at h
  split at h
  · exact h
  · exact (List.append_eq_nil_iff.mp h).1
theorem stepBit_errs_nil {t : Stmt} {s : St} (h : (stepBit t s).2 = []) : s.2 = [] := by
  unfold stepBit at h
  split at h
  · exact h
  · exact (List.append_eq_nil_iff.mp h).1
theorem stepPattern_errs (t : Stmt) (s : St) : (stepPattern t s).2 = s.2 := rfl
theorem stepPosix_errs_nil {env : Env} {pps : List Stmt} {s : St} (h : (stepPosix env pps s).2 = []) : s.2 = [] :=
  (List.append_eq_nil_iff.mp h).1
theorem stepMembers_errs_nil {ms : List Res} {s : St} (h : (stepMembers ms s).2 = []) : s.2 = [] :=
  (appendNewErrs_eq_nil h).1

/-- The state after the kind switch, in an error-free overlay. -/
theorem overlayLocal_errs_nil {env : Env} {root : Mod} {t : Stmt} {src : Source} {tdY : YType} {s : St}
    (h : (overlayLocal env root t src tdY s).2 = []) :
    (stepKind env root t src (isDecimal64 t tdY) s).2 = [] := by
  unfold overlayLocal at h
  simp only [] at h
  rw [stepPattern_errs] at h
  exact stepRange_errs_nil (stepLength_errs_nil (stepEnum_errs_nil (stepBit_errs_nil h)))

/-! ## The shape of an error-free overlay -/

/-- The state `Type.resolve` starts its kind switch with. -/
def startSt (t : Stmt) (tdY : YType) : St := stepPath t (stepRequireInstance t (tdY.copyOf, []))

theorem overlayType_ok {env : Env} {root : Mod} {t : Stmt} {src : Source} {tdY : YType} {ms : List Res} {y : YType}
    (h : overlayType env root t src tdY ms = { ty := some y, errs := [] }) :
    ¬ ((isDecimal64 t tdY && tdY.fractionDigits != 0 && (t.one? "fraction-digits").isSome) = true) ∧
    ∃ pps, posixPatterns env root t = some pps ∧
      y = fixRoot (stepMembers ms (stepPosix env pps (overlayLocal env root t src tdY (startSt t tdY)))).1 ∧
      (stepMembers ms (stepPosix env pps (overlayLocal env root t src tdY (startSt t tdY)))).2 = [] := by
  unfold overlayType at h
  simp only [] at h
  split at h
  · simp at h
  · rename_i hc
    refine ⟨hc, ?_⟩
    split at h
    · simp at h
    · rename_i pps hp
      simp only [Res.mk.injEq, Option.some.injEq] at h
      exact ⟨pps, hp, h.1.symm, h.2⟩

/-! ## What the overlay steps set -/

theorem stepPath_path (t : Stmt) (s : St) :
    (stepPath t s).1.path = ((t.argOf? "path").getD s.1.path) := by
  unfold stepPath Stmt.argOf?
  split <;> rename_i h <;> simp [h]

theorem stepEnum_enum (t : Stmt) (s : St) :
    (stepEnum t s).1.enum =
      if (t.all "enum").isEmpty then s.1.enum else some (enumFold newEnum "value" (t.all "enum")).1 := by
  unfold stepEnum
  split <;> rename_i h
  · simp [h]
  · cases hq : t.all "enum" with
    | nil => exact absurd hq (by simpa using h)
    | cons a l => simp

theorem stepBit_bit (t : Stmt) (s : St) :
    (stepBit t s).1.bit =
      if (t.all "bit").isEmpty then s.1.bit else some (enumFold newBits "position" (t.all "bit")).1 := by
  unfold stepBit
  split <;> rename_i h
  · simp [h]
  · cases hq : t.all "bit" with
    | nil => exact absurd hq (by simpa using h)
    | cons a l => simp

theorem mem_appendNew (p : String) : ∀ (new have_ : List String),
    p ∈ appendNew have_ new ↔ p ∈ have_ ∨ p ∈ new := by
  intro new
  induction new with
  | nil => intro have_; simp [appendNew]
  | cons q rest ih =>
    intro have_
    unfold appendNew
    split
    · rename_i hc
      rw [ih]
      have hq : q ∈ have_ := by simpa using hc
      constructor
      · rintro (h | h)
        · exact Or.inl h
        · exact Or.inr (List.mem_cons_of_mem _ h)
      · rintro (h | h)
        · exact Or.inl h
        · cases h with
          | head => exact Or.inl hq
          | tail _ h => exact Or.inr h
    · rw [ih]
      simp only [List.mem_append, List.mem_cons, List.not_mem_nil, or_false]
      exact or_assoc

/-- How a fraction-digits argument is read: `asRangeInt(1, 18)` (0 when it is rejected). -/
def parseFd (f : Stmt) : Nat :=
  match Number.asRangeInt (some (bytesOf f.arg)) 1 18 with
  | .ok i => i.toNat
  | .error _ => 0

/-- fraction-digits in an error-free kind switch: a statement is only accepted on a direct
decimal64, a derived type keeps what it inherits. -/
theorem stepKind_fd {env : Env} {root : Mod} {t : Stmt} {src : Source} {dec : Bool} {s : St}
    (hs : s.2 = []) (h : (stepKind env root t src dec s).2 = [])
    (hc : ¬ ((dec && s.1.fractionDigits != 0 && (t.one? "fraction-digits").isSome) = true)) :
    (stepKind env root t src dec s).1.fractionDigits =
      match t.one? "fraction-digits" with
      | some f => parseFd f
      | none => s.1.fractionDigits := by
  unfold stepKind at h ⊢
  simp only [] at h ⊢
  split at h
  · rename_i h1
    rw [if_pos h1]
    cases hfd : t.one? "fraction-digits" with
    | none => rfl
    | some f => rw [hfd] at hc; simp [h1] at hc
  · rename_i h1
    rw [if_neg h1]
    split at h
    · rename_i h2
      rw [if_pos h2]
      cases hfd : t.one? "fraction-digits" with
      | none =>
        rw [hfd] at h
        simp [Number.asRangeInt, hs] at h
      | some f =>
        rw [hfd] at h
        simp only [Option.map_some] at h ⊢
        unfold parseFd
        cases hi : Number.asRangeInt (some (bytesOf f.arg)) 1 18 with
        | ok i => rfl
        | error e => rw [hi] at h; try (simp at h)
    · rename_i h2
      rw [if_neg h2]
      split at h
      · simp [hs] at h
      · rename_i h3
        rw [if_neg h3]
        have : t.one? "fraction-digits" = none := by
          cases hq : t.one? "fraction-digits" with
          | none => rfl
          | some f => rw [hq] at h3; simp at h3
        rw [this]
        repeat' (first | rfl | split)

/-! ## Typedef.resolve -/

@[simp] theorem tdCopy_kind (td : Stmt) (y : YType) : (tdCopy td y).kind = y.kind := by
  unfold tdCopy; repeat' (first | rfl | split)
@[simp] theorem tdCopy_units (td : Stmt) (y : YType) : (tdCopy td y).units = y.units := by
  unfold tdCopy; repeat' (first | rfl | split)
@[simp] theorem tdCopy_default (td : Stmt) (y : YType) : (tdCopy td y).default = y.default := by
  unfold tdCopy; repeat' (first | rfl | split)
@[simp] theorem tdCopy_hasDefault (td : Stmt) (y : YType) : (tdCopy td y).hasDefault = y.hasDefault := by
  unfold tdCopy; repeat' (first | rfl | split)
@[simp] theorem tdCopy_fractionDigits (td : Stmt) (y : YType) : (tdCopy td y).fractionDigits = y.fractionDigits := by
  unfold tdCopy; repeat' (first | rfl | split)
@[simp] theorem tdCopy_path (td : Stmt) (y : YType) : (tdCopy td y).path = y.path := by
  unfold tdCopy; repeat' (first | rfl | split)
@[simp] theorem tdCopy_pattern (td : Stmt) (y : YType) : (tdCopy td y).pattern = y.pattern := by
  unfold tdCopy; repeat' (first | rfl | split)
@[simp] theorem tdCopy_enum (td : Stmt) (y : YType) : (tdCopy td y).enum = y.enum := by
  unfold tdCopy; repeat' (first | rfl | split)
@[simp] theorem tdCopy_bit (td : Stmt) (y : YType) : (tdCopy td y).bit = y.bit := by
  unfold tdCopy; repeat' (first | rfl | split)
@[simp] theorem tdCopy_members (td : Stmt) (y : YType) : (tdCopy td y).members = y.members := by
  unfold tdCopy; repeat' (first | rfl | split)
@[simp] theorem tdCopy_identityBase (td : Stmt) (y : YType) : (tdCopy td y).identityBase = y.identityBase := by
  unfold tdCopy; repeat' (first | rfl | split)
@[simp] theorem tdCopy_posixPattern (td : Stmt) (y : YType) : (tdCopy td y).posixPattern = y.posixPattern := by
  unfold tdCopy; repeat' (first | rfl | split)
@[simp] theorem tdCopy_range (td : Stmt) (y : YType) : (tdCopy td y).range = y.range := by
  unfold tdCopy; repeat' (first | rfl | split)
@[simp] theorem tdCopy_length (td : Stmt) (y : YType) : (tdCopy td y).length = y.length := by
  unfold tdCopy; repeat' (first | rfl | split)
@[simp] theorem tdCopy_optionalInstance (td : Stmt) (y : YType) : (tdCopy td y).optionalInstance = y.optionalInstance := by
  unfold tdCopy; repeat' (first | rfl | split)
@[simp] theorem tdUnits_name (td : Stmt) (y : YType) : (tdUnits td y).name = y.name := by
  unfold tdUnits; repeat' (first | rfl | split)
@[simp] theorem tdUnits_kind (td : Stmt) (y : YType) : (tdUnits td y).kind = y.kind := by
  unfold tdUnits; repeat' (first | rfl | split)
@[simp] theorem tdUnits_default (td : Stmt) (y : YType) : (tdUnits td y).default = y.default := by
  unfold tdUnits; repeat' (first | rfl | split)
@[simp] theorem tdUnits_hasDefault (td : Stmt) (y : YType) : (tdUnits td y).hasDefault = y.hasDefault := by
  unfold tdUnits; repeat' (first | rfl | split)
@[simp] theorem tdUnits_fractionDigits (td : Stmt) (y : YType) : (tdUnits td y).fractionDigits = y.fractionDigits := by
  unfold tdUnits; repeat' (first | rfl | split)
@[simp] theorem tdUnits_path (td : Stmt) (y : YType) : (tdUnits td y).path = y.path := by
  unfold tdUnits; repeat' (first | rfl | split)
@[simp] theorem tdUnits_pattern (td : Stmt) (y : YType) : (tdUnits td y).pattern = y.pattern := by
  unfold tdUnits; repeat' (first | rfl | split)
@[simp] theorem tdUnits_enum (td : Stmt) (y : YType) : (tdUnits td y).enum = y.enum := by
  unfold tdUnits; repeat' (first | rfl | split)
@[simp] theorem tdUnits_bit (td : Stmt) (y : YType) : (tdUnits td y).bit = y.bit := by
  unfold tdUnits; repeat' (first | rfl | split)
@[simp] theorem tdUnits_members (td : Stmt) (y : YType) : (tdUnits td y).members = y.members := by
  unfold tdUnits; repeat' (first | rfl | split)
@[simp] theorem tdUnits_identityBase (td : Stmt) (y : YType) : (tdUnits td y).identityBase = y.identityBase := by
  unfold tdUnits; repeat' (first | rfl | split)
@[simp] theorem tdUnits_posixPattern (td : Stmt) (y : YType) : (tdUnits td y).posixPattern = y.posixPattern := by
  unfold tdUnits; repeat' (first | rfl | split)
@[simp] theorem tdUnits_range (td : Stmt) (y : YType) : (tdUnits td y).range = y.range := by
  unfold tdUnits; repeat' (first | rfl | split)
@[simp] theorem tdUnits_length (td : Stmt) (y : YType) : (tdUnits td y).length = y.length := by
  unfold tdUnits; repeat' (first | rfl | split)
@[simp] theorem tdUnits_optionalInstance (td : Stmt) (y : YType) : (tdUnits td y).optionalInstance = y.optionalInstance := by
  unfold tdUnits; repeat' (first | rfl | split)
@[simp] theorem tdDefault_name (td : Stmt) (y : YType) : (tdDefault td y).name = y.name := by
  unfold tdDefault; repeat' (first | rfl | split)
@[simp] theorem tdDefault_kind (td : Stmt) (y : YType) : (tdDefault td y).kind = y.kind := by
  unfold tdDefault; repeat' (first | rfl | split)
@[simp] theorem tdDefault_units (td : Stmt) (y : YType) : (tdDefault td y).units = y.units := by
  unfold tdDefault; repeat' (first | rfl | split)
@[simp] theorem tdDefault_fractionDigits (td : Stmt) (y : YType) : (tdDefault td y).fractionDigits = y.fractionDigits := by
  unfold tdDefault; repeat' (first | rfl | split)
@[simp] theorem tdDefault_path (td : Stmt) (y : YType) : (tdDefault td y).path = y.path := by
  unfold tdDefault; repeat' (first | rfl | split)
@[simp] theorem tdDefault_pattern (td : Stmt) (y : YType) : (tdDefault td y).pattern = y.pattern := by
  unfold tdDefault; repeat' (first | rfl | split)
@[simp] theorem tdDefault_enum (td : Stmt) (y : YType) : (tdDefault td y).enum = y.enum := by
  unfold tdDefault; repeat' (first | rfl | split)
@[simp] theorem tdDefault_bit (td : Stmt) (y : YType) : (tdDefault td y).bit = y.bit := by
  unfold tdDefault; repeat' (first | rfl | split)
@[simp] theorem tdDefault_members (td : Stmt) (y : YType) : (tdDefault td y).members = y.members := by
  unfold tdDefault; repeat' (first | rfl | split)
@[simp] theorem tdDefault_identityBase (td : Stmt) (y : YType) : (tdDefault td y).identityBase = y.identityBase := by
  unfold tdDefault; repeat' (first | rfl | split)
@[simp] theorem tdDefault_posixPattern (td : Stmt) (y : YType) : (tdDefault td y).posixPattern = y.posixPattern := by
  unfold tdDefault; repeat' (first | rfl | split)
@[simp] theorem tdDefault_range (td : Stmt) (y : YType) : (tdDefault td y).range = y.range := by
  unfold tdDefault; repeat' (first | rfl | split)
@[simp] theorem tdDefault_length (td : Stmt) (y : YType) : (tdDefault td y).length = y.length := by
  unfold tdDefault; repeat' (first | rfl | split)
@[simp] theorem tdDefault_optionalInstance (td : Stmt) (y : YType) : (tdDefault td y).optionalInstance = y.optionalInstance := by
  unfold tdDefault; repeat' (first | rfl | split)
@[simp] theorem tdRoot_name (ty y : YType) : (tdRoot ty y).name = y.name := by
  unfold tdRoot; repeat' (first | rfl | split)
@[simp] theorem tdRoot_kind (ty y : YType) : (tdRoot ty y).kind = y.kind := by
  unfold tdRoot; repeat' (first | rfl | split)
@[simp] theorem tdRoot_units (ty y : YType) : (tdRoot ty y).units = y.units := by
  unfold tdRoot; repeat' (first | rfl | split)
@[simp] theorem tdRoot_default (ty y : YType) : (tdRoot ty y).default = y.default := by
  unfold tdRoot; repeat' (first | rfl | split)
@[simp] theorem tdRoot_hasDefault (ty y : YType) : (tdRoot ty y).hasDefault = y.hasDefault := by
  unfold tdRoot; repeat' (first | rfl | split)
@[simp] theorem tdRoot_fractionDigits (ty y : YType) : (tdRoot ty y).fractionDigits = y.fractionDigits := by
  unfold tdRoot; repeat' (first | rfl | split)
@[simp] theorem tdRoot_path (ty y : YType) : (tdRoot ty y).path = y.path := by
  unfold tdRoot; repeat' (first | rfl | split)
@[simp] theorem tdRoot_pattern (ty y : YType) : (tdRoot ty y).pattern = y.pattern := by
  unfold tdRoot; repeat' (first | rfl | split)
@[simp] theorem tdRoot_enum (ty y : YType) : (tdRoot ty y).enum = y.enum := by
  unfold tdRoot; repeat' (first | rfl | split)
@[simp] theorem tdRoot_bit (ty y : YType) : (tdRoot ty y).bit = y.bit := by
  unfold tdRoot; repeat' (first | rfl | split)
@[simp] theorem tdRoot_members (ty y : YType) : (tdRoot ty y).members = y.members := by
  unfold tdRoot; repeat' (first | rfl | split)
@[simp] theorem tdRoot_identityBase (ty y : YType) : (tdRoot ty y).identityBase = y.identityBase := by
  unfold tdRoot; repeat' (first | rfl | split)
@[simp] theorem tdRoot_posixPattern (ty y : YType) : (tdRoot ty y).posixPattern = y.posixPattern := by
  unfold tdRoot; repeat' (first | rfl | split)
@[simp] theorem tdRoot_range (ty y : YType) : (tdRoot ty y).range = y.range := by
  unfold tdRoot; repeat' (first | rfl | split)
@[simp] theorem tdRoot_length (ty y : YType) : (tdRoot ty y).length = y.length := by
  unfold tdRoot; repeat' (first | rfl | split)
@[simp] theorem tdRoot_optionalInstance (ty y : YType) : (tdRoot ty y).optionalInstance = y.optionalInstance := by
  unfold tdRoot; repeat' (first | rfl | split)

theorem tdIdentity_frame {env : Env} {root : Mod} {tt : Stmt} {y y' : YType} (h : tdIdentity env root tt y = some y') :
    y'.name = y.name ∧ y'.kind = y.kind ∧ y'.units = y.units ∧ y'.default = y.default ∧ y'.hasDefault = y.hasDefault ∧
    y'.fractionDigits = y.fractionDigits ∧ y'.path = y.path ∧ y'.pattern = y.pattern ∧ y'.enum = y.enum ∧
    y'.bit = y.bit ∧ y'.members = y.members := by
  unfold tdIdentity at h
  split at h
  · cases h; exact ⟨rfl, rfl, rfl, rfl, rfl, rfl, rfl, rfl, rfl, rfl, rfl⟩
  · split at h
    · cases h; exact ⟨rfl, rfl, rfl, rfl, rfl, rfl, rfl, rfl, rfl, rfl, rfl⟩
    · cases h

theorem tdUnits_units (td : Stmt) (y : YType) : (tdUnits td y).units = (td.argOf? "units").getD y.units := by
  unfold tdUnits Stmt.argOf?
  split <;> rename_i h <;> simp [h]

theorem tdDefault_default (td : Stmt) (y : YType) : (tdDefault td y).default = (td.argOf? "default").getD y.default := by
  unfold tdDefault Stmt.argOf?
  split <;> rename_i h <;> simp [h]

theorem tdDefault_hasDefault (td : Stmt) (y : YType) :
    (tdDefault td y).hasDefault = ((td.argOf? "default").isSome || y.hasDefault) := by
  unfold tdDefault Stmt.argOf?
  split <;> rename_i h <;> simp [h]

theorem typedefOverlay_ok {env : Env} {root : Mod} {td tt : Stmt} {ty y : YType}
    (h : typedefOverlay env root td tt ty = { ty := some y, errs := [] }) :
    y.name = td.arg ∧ y.kind = ty.kind ∧
    y.units = (td.argOf? "units").getD ty.units ∧
    y.hasDefault = ((td.argOf? "default").isSome || ty.hasDefault) ∧
    y.default = (td.argOf? "default").getD ty.default ∧
    y.path = ty.path ∧ y.pattern = ty.pattern ∧ y.enum = ty.enum ∧ y.bit = ty.bit ∧
    y.members = ty.members ∧ y.fractionDigits = ty.fractionDigits := by
  unfold typedefOverlay at h
  split at h
  · simp at h
  · rename_i y' hy'
    simp only [Res.mk.injEq, Option.some.injEq, and_true] at h
    obtain ⟨h1, h2, h3, h4, h5, h6, h7, h8, h9, h10, h11⟩ := tdIdentity_frame hy'
    subst h
    refine ⟨?_, ?_, ?_, ?_, ?_, ?_, ?_, ?_, ?_, ?_, ?_⟩
    · simp [h1, tdCopy]
    · simp [h2]
    · simp [h3, tdUnits_units]
    · simp [h5, tdDefault_hasDefault]
    · simp [h4, tdDefault_default]
    · simp [h7]
    · simp [h8]
    · simp [h9]
    · simp [h10]
    · simp [h11]
    · simp [h6]

/-! ## One level of `Type.resolve`, error-free -/

@[simp] theorem startSt_frame_kind (t : Stmt) (y : YType) : (startSt t y).1.kind = y.kind := by simp [startSt]
@[simp] theorem startSt_frame_units (t : Stmt) (y : YType) : (startSt t y).1.units = y.units := by simp [startSt]
@[simp] theorem startSt_frame_default (t : Stmt) (y : YType) : (startSt t y).1.default = y.default := by simp [startSt]
@[simp] theorem startSt_frame_hasDefault (t : Stmt) (y : YType) : (startSt t y).1.hasDefault = y.hasDefault := by simp [startSt]
@[simp] theorem startSt_frame_pattern (t : Stmt) (y : YType) : (startSt t y).1.pattern = y.pattern := by simp [startSt]
@[simp] theorem startSt_frame_enum (t : Stmt) (y : YType) : (startSt t y).1.enum = y.enum := by simp [startSt]
@[simp] theorem startSt_frame_bit (t : Stmt) (y : YType) : (startSt t y).1.bit = y.bit := by simp [startSt]
@[simp] theorem startSt_frame_members (t : Stmt) (y : YType) : (startSt t y).1.members = y.members := by simp [startSt]
@[simp] theorem startSt_frame_fd (t : Stmt) (y : YType) : (startSt t y).1.fractionDigits = y.fractionDigits := by simp [startSt]
theorem startSt_path (t : Stmt) (y : YType) : (startSt t y).1.path = (t.argOf? "path").getD y.path := by
  simp [startSt, stepPath_path]

/-- What one error-free `Type.resolve` step makes of the YangType of the typedef it is based on. -/
theorem overlay_attrs {env : Env} {root : Mod} {t : Stmt} {src : Source} {tdY : YType} {ms : List Res} {y : YType}
    (h : overlayType env root t src tdY ms = { ty := some y, errs := [] }) :
    y.kind = tdY.kind ∧ y.units = tdY.units ∧ y.hasDefault = tdY.hasDefault ∧ y.default = tdY.default ∧
    y.path = (t.argOf? "path").getD tdY.path ∧
    y.pattern = appendNew tdY.pattern ((t.all "pattern").map Stmt.arg) ∧
    y.enum = (if (t.all "enum").isEmpty then tdY.enum else some (enumFold newEnum "value" (t.all "enum")).1) ∧
    y.bit = (if (t.all "bit").isEmpty then tdY.bit else some (enumFold newBits "position" (t.all "bit")).1) ∧
    y.fractionDigits = (match t.one? "fraction-digits" with
      | some f => parseFd f
      | none => tdY.fractionDigits) ∧
    y.members = addMembers tdY.members ms := by
  obtain ⟨hc, pps, _, hy, herrs⟩ := overlayType_ok h
  have hk := overlayLocal_errs_nil (stepPosix_errs_nil (stepMembers_errs_nil herrs))
  have hs : (startSt t tdY).2 = [] := stepKind_errs_nil hk
  have hfd := stepKind_fd hs hk (by simpa using hc)
  subst hy
  refine ⟨?_, ?_, ?_, ?_, ?_, ?_, ?_, ?_, ?_, ?_⟩
  · simp [overlayLocal]
  · simp [overlayLocal]
  · simp [overlayLocal]
  · simp [overlayLocal]
  · simp [overlayLocal, startSt_path]
  · simp [overlayLocal, stepPattern]
  · simp [overlayLocal, stepEnum_enum]
  · simp [overlayLocal, stepBit_bit]
  · simp only [overlayLocal, fixRoot_fractionDigits, stepMembers_fractionDigits, stepPosix_fractionDigits,
      stepPattern_fractionDigits, stepBit_fractionDigits, stepEnum_fractionDigits, stepLength_fractionDigits,
      stepRange_fractionDigits]
    rw [hfd]
    simp
  · simp [overlayLocal, stepMembers]

/-! ## Union members -/

theorem addMembers_sub : ∀ (rs : List Res) (have_ : List YType), ∀ m ∈ have_, m ∈ addMembers have_ rs := by
  intro rs
  induction rs with
  | nil => intro have_ m hm; simpa [addMembers] using hm
  | cons r rest ih =>
    intro have_ m hm
    unfold addMembers
    split
    · split
      · exact ih have_ m hm
      · exact ih _ m (List.mem_append_left _ hm)
    · exact ih have_ m hm

theorem addMembers_mem : ∀ (rs : List Res) (have_ : List YType) (m : YType),
    m ∈ addMembers have_ rs → m ∈ have_ ∨ ∃ r ∈ rs, r.ty = some m := by
  intro rs
  induction rs with
  | nil => intro have_ m hm; exact Or.inl (by simpa [addMembers] using hm)
  | cons r rest ih =>
    intro have_ m hm
    unfold addMembers at hm
    split at hm
    · rename_i m0 hm0
      split at hm
      · rcases ih have_ m hm with h | ⟨r', hr', h⟩
        · exact Or.inl h
        · exact Or.inr ⟨r', List.mem_cons_of_mem _ hr', h⟩
      · rcases ih _ m hm with h | ⟨r', hr', h⟩
        · rw [List.mem_append, List.mem_singleton] at h
          rcases h with h | h
          · exact Or.inl h
          · exact Or.inr ⟨r, List.mem_cons_self, by rw [h, hm0]⟩
        · exact Or.inr ⟨r', List.mem_cons_of_mem _ hr', h⟩
    · rcases ih have_ m hm with h | ⟨r', hr', h⟩
      · exact Or.inl h
      · exact Or.inr ⟨r', List.mem_cons_of_mem _ hr', h⟩

/-- Every resolved member is in the list, or was left out because an `Equal` one is. -/
theorem addMembers_covers : ∀ (rs : List Res) (have_ : List YType) (r : Res) (m : YType),
    r ∈ rs → r.ty = some m → ∃ m' ∈ addMembers have_ rs, m' = m ∨ m.equal m' = true := by
  intro rs
  induction rs with
  | nil => intro _ r _ hr; cases hr
  | cons r0 rest ih =>
    intro have_ r m hr hm
    unfold addMembers
    cases hr with
    | head =>
      rw [hm]
      simp only
      split
      · rename_i hany
        obtain ⟨m', hm', heq⟩ := List.any_eq_true.mp hany
        exact ⟨m', addMembers_sub rest have_ m' hm', Or.inr heq⟩
      · exact ⟨m, addMembers_sub rest _ m (List.mem_append_right _ (List.mem_singleton.mpr rfl)), Or.inl rfl⟩
    | tail _ hr =>
      split
      · split
        · exact ih have_ r m hr hm
        · exact ih _ r m hr hm
      · exact ih have_ r m hr hm

/-- A resolution without errors has set `YangType`. -/
theorem resolve_ty_some (env : Env) : ∀ (fuel : Nat) (root : Mod) (scope : List Stmt) (t : Stmt) (stack : List TypeKey),
    (resolveTypeF env fuel root scope t stack).errs = [] →
    ∃ y, resolveTypeF env fuel root scope t stack = { ty := some y, errs := [] } := by
  intro fuel root scope t stack h
  have hov : ∀ {src : Source} {tdY : YType} {ms : List Res}, ∃ y, (overlayType env root t src tdY ms).ty = some y := by
    intro src tdY ms
    unfold overlayType
    simp only []
    split
    · exact ⟨_, rfl⟩
    · split <;> exact ⟨_, rfl⟩
  cases fuel with
  | zero => simp [resolveTypeF] at h
  | succ fuel =>
    unfold resolveTypeF at h ⊢
    simp only at h ⊢
    split
    · rename_i hc; rw [if_pos hc] at h; simp at h
    · rename_i hc
      rw [if_neg hc] at h
      split
      · rename_i e hl; rw [hl] at h; simp at h
      · rename_i y0 hl
        rw [hl] at h
        simp only at h
        obtain ⟨y, hy⟩ := hov (src := .builtin) (tdY := y0)
          (ms := (t.all "type").map fun ut => resolveTypeF env fuel root (t :: scope) ut (typeKey root t :: stack))
        exact ⟨y, by rw [← hy, ← h]⟩
      · rename_i src r hl
        rw [hl] at h
        simp only at h
        split
        · rename_i htt; rw [htt] at h; simp at h
        · rename_i tt htt
          rw [htt] at h
          simp only at h
          split
          · rename_i hb; rw [if_pos hb] at h; simp only at h; rw [h] at hb; simp at hb
          · rename_i hb
            rw [if_neg hb] at h
            split
            · rename_i hty; rw [hty] at h; simp at h
            · rename_i bty hty
              rw [hty] at h
              simp only at h
              split
              · rename_i hne; rw [if_pos hne] at h; simp only at h; rw [h] at hne; simp at hne
              · rename_i hne
                rw [if_neg hne] at h
                split
                · rename_i hn; rw [hn] at h; simp at h
                · rename_i tdY htdY
                  rw [htdY] at h
                  simp only at h
                  obtain ⟨y, hy⟩ := hov (src := src) (tdY := tdY)
                    (ms := (t.all "type").map fun ut => resolveTypeF env fuel root (t :: scope) ut (typeKey root t :: stack))
                  exact ⟨y, by rw [← hy, ← h]⟩

/-- The member types of one error-free `Type.resolve` step. -/
theorem level_members {env : Env} {fuel : Nat} {root : Mod} {scope : List Stmt} {t : Stmt} {stk : List TypeKey}
    {src : Source} {tdY y : YType}
    (h : overlayType env root t src tdY
      ((t.all "type").map fun ut => resolveTypeF env fuel root (t :: scope) ut stk) = { ty := some y, errs := [] }) :
    (∀ m ∈ y.members, m ∈ tdY.members ∨
      ∃ ut ∈ t.all "type", resolveTypeF env fuel root (t :: scope) ut stk = { ty := some m, errs := [] }) ∧
    (∀ ut ∈ t.all "type", ∃ m, resolveTypeF env fuel root (t :: scope) ut stk = { ty := some m, errs := [] } ∧
      ∃ m' ∈ y.members, m' = m ∨ m.equal m' = true) ∧
    (∀ m ∈ tdY.members, m ∈ y.members) := by
  have herr : ∀ ut ∈ t.all "type", (resolveTypeF env fuel root (t :: scope) ut stk).errs = [] := by
    intro ut hut
    have he : (overlayType env root t src tdY
      ((t.all "type").map fun ut => resolveTypeF env fuel root (t :: scope) ut stk)).errs = [] := by rw [h]
    exact overlayType_errs_nil he _ (List.mem_map_of_mem (f := fun ut => resolveTypeF env fuel root (t :: scope) ut stk) hut)
  have hmem := (overlay_attrs h).2.2.2.2.2.2.2.2.2
  refine ⟨?_, ?_, ?_⟩
  · intro m hm
    rw [hmem] at hm
    rcases addMembers_mem _ _ _ hm with h1 | ⟨r, hr, hty⟩
    · exact Or.inl h1
    · obtain ⟨ut, hut, rfl⟩ := List.mem_map.mp hr
      obtain ⟨y', hy'⟩ := resolve_ty_some env fuel root (t :: scope) ut stk (herr ut hut)
      refine Or.inr ⟨ut, hut, ?_⟩
      rw [hy'] at hty ⊢
      simp only [Option.some.injEq] at hty
      rw [hty]
  · intro ut hut
    obtain ⟨m, hm⟩ := resolve_ty_some env fuel root (t :: scope) ut stk (herr ut hut)
    refine ⟨m, hm, ?_⟩
    rw [hmem]
    exact addMembers_covers _ _ _ m
      (List.mem_map_of_mem (f := fun ut => resolveTypeF env fuel root (t :: scope) ut stk) hut) (by rw [hm])
  · intro m hm
    rw [hmem]
    exact addMembers_sub _ _ m hm

/-! ## A finite derivation excludes cycles -/

theorem binds_not_builtin {reg : Registry} {root : Mod} {scope : List Stmt} {name : String} {m : Mod} {td : Stmt}
    {sc : List Stmt} (h : Binds reg root scope name m td sc) : builtinNames.contains name = false := by
  cases h <;> assumption

/-- In an unambiguous schema, below a resolvable type statement every chain of `Uses` steps ends.
(`Unambiguous` holds of no registry — `Goyang.Props.C09.unambiguous_false` —; the usable forms are
`resolvable_acc'` / `resolvable_not_cyclic'` of Lemmas/TypesComplete.lean over `UnambiguousBelow`.) -/
theorem resolvable_acc {reg : Registry} (hU : Unambiguous reg) :
    ∀ {root : Mod} {scope : List Stmt} {t : Stmt}, Resolvable reg root scope t →
      Acc (fun b a => Uses reg a b) (root, scope, t)
  | root, scope, t, .builtin hb hm => by
    constructor
    intro y hy
    cases hy with
    | base m td sc tt hbind _ => rw [binds_not_builtin hbind] at hb; cases hb
    | member ut hut => exact resolvable_acc hU (hm ut hut)
  | root, scope, t, .derived m td sc tt hbind htt hbase hm => by
    constructor
    intro y hy
    cases hy with
    | base m' td' sc' tt' hbind' htt' =>
      obtain ⟨h1, h2, h3⟩ := hU _ _ _ _ _ _ _ _ _ hbind hbind'
      subst h1 h2 h3
      rw [htt] at htt'
      cases htt'
      exact resolvable_acc hU hbase
    | member ut hut => exact resolvable_acc hU (hm ut hut)

theorem usesPlus_snoc {reg : Registry} {a b c : Site} (h : UsesPlus reg a b) (hbc : Uses reg b c) : UsesPlus reg a c := by
  induction h with
  | one hab => exact UsesPlus.cons hab (UsesPlus.one hbc)
  | cons hab _ ih => exact UsesPlus.cons hab (ih hbc)

theorem acc_usesPlus {reg : Registry} {a b : Site} (ha : Acc (fun b a => Uses reg a b) a) (h : UsesPlus reg a b) :
    Acc (fun b a => Uses reg a b) b := by
  induction h with
  | one hab => exact ha.inv hab
  | cons hab _ ih => exact ih (ha.inv hab)

theorem acc_no_cycle {reg : Registry} {a : Site} (ha : Acc (fun b a => Uses reg a b) a) : ¬ UsesPlus reg a a := by
  induction ha with
  | intro x _ ih =>
    intro hcyc
    cases hcyc with
    | one hxx => exact ih x hxx (UsesPlus.one hxx)
    | cons hxy hyx => exact ih _ hxy (usesPlus_snoc hyx hxy)

theorem resolvable_not_cyclic {reg : Registry} (hU : Unambiguous reg) {root : Mod} {scope : List Stmt} {t : Stmt}
    (h : Resolvable reg root scope t) : ¬ Cyclic reg (root, scope, t) := by
  rintro ⟨b, hb, hcyc⟩
  have hacc := resolvable_acc hU h
  rcases hb with rfl | hb
  · exact acc_no_cycle hacc hcyc
  · exact acc_no_cycle (acc_usesPlus hacc hb) hcyc

end Goyang.Lemmas.Types
