import Goyang.Lemmas.TypesComplete
import Goyang.Lemmas.TypesRestr
/-
"The specification accepts the type statement" (`Admissible`: a finite derivation along which every
restriction is admissible) and its equivalence with an error-free `Type.resolve` (property C09,
`resolve_complete`, `resolve_errors_iff`).
-/
namespace Goyang.Lemmas.TypesAdm
open Goyang.Model Goyang.Model.Types Goyang.Spec.Types Goyang.Lemmas.Types Goyang.Lemmas.TypesFuel
  Goyang.Lemmas.TypesDefs Goyang.Lemmas.TypesComplete Goyang.Lemmas.TypesRestr

/-- `Admissible env root scope t a`: the specification accepts the type statement `t` (written in
module `root` inside `scope`): it has a finite derivation — it names a built-in type, or a typedef,
as `Binds` says, whose own type statement is accepted —, its member types are accepted, and the
restrictions stated along the derivation are admissible (`typeOk` for every type statement over the
attributes of what it is based on, `typedefOk` for every typedef: the decidable side conditions of
Goyang/Lemmas/TypesRestr.lean).  `a` = kind, fraction-digits, range and length of the denoted type
(`memAttrs` names those of the member types). -/
inductive Admissible (env : Env) : Mod → List Stmt → Stmt → Attrs → Prop
  | builtin {root : Mod} {scope : List Stmt} {t : Stmt} (y : YType) (memAttrs : Stmt → Attrs) :
      builtin? t.arg = some y →
      typeOk env root t true (attrsOf y) = true →
      (∀ ut ∈ t.all "type", Admissible env root (t :: scope) ut (memAttrs ut)) →
      Admissible env root scope t (typeNext t (attrsOf y))
  | derived {root : Mod} {scope : List Stmt} {t : Stmt} (m : Mod) (td : Stmt) (sc : List Stmt) (tt : Stmt)
      (a : Attrs) (memAttrs : Stmt → Attrs) :
      Binds env.reg root scope t.arg m td sc → td.one? "type" = some tt →
      Admissible env m (td :: sc) tt a → typedefOk env m tt = true →
      typeOk env root t false a = true →
      (∀ ut ∈ t.all "type", Admissible env root (t :: scope) ut (memAttrs ut)) →
      Admissible env root scope t (typeNext t a)

/-- What the specification accepts has a finite derivation. -/
theorem admissible_resolvable {env : Env} :
    ∀ {root : Mod} {scope : List Stmt} {t : Stmt} {a : Attrs}, Admissible env root scope t a → Resolvable env.reg root scope t
  | _, _, _, _, .builtin _ _ hy _ hm =>
    Resolvable.builtin (builtin_some hy) (fun ut hut => admissible_resolvable (hm ut hut))
  | _, _, _, _, .derived m td sc tt _ _ hb htt hbase _ _ hm =>
    Resolvable.derived m td sc tt hb htt (admissible_resolvable hbase) (fun ut hut => admissible_resolvable (hm ut hut))

theorem lookup_typedef_src {env : Env} {root : Mod} {scope : List Stmt} {t : Stmt} {src : Source} {r : TdRef}
    (hl : lookup env root scope t = .typedef src r) : (src == Source.builtin) = false := by
  unfold lookup at hl
  split at hl
  · cases hl
  · simp only at hl
    split at hl
    · split at hl
      · cases hl; rfl
      · split at hl
        · cases hl; rfl
        · cases hl
        · cases hl
    · split at hl
      · cases hl
      · split at hl
        · cases hl; rfl
        · cases hl
        · cases hl

theorem res_eq {r : Res} {y : YType} (h1 : r.ty = some y) (h2 : r.errs = []) : r = { ty := some y, errs := [] } := by
  cases r; simp only at h1 h2; rw [h1, h2]

/-- One accepted level on top of error-free members is error-free. -/
theorem overlay_of_ok {env : Env} {root : Mod} {t : Stmt} {src : Source} {tdY : YType} {ms : List Res}
    (hok : typeOk env root t (src == .builtin) (attrsOf tdY) = true) (hms : ∀ r ∈ ms, r.errs = []) :
    ∃ y, overlayType env root t src tdY ms = { ty := some y, errs := [] } ∧ attrsOf y = typeNext t (attrsOf tdY) := by
  obtain ⟨y, hy, ha⟩ := overlayType_attrs_of_ok (ms := ms) hok
  refine ⟨y, res_eq hy ?_, ha⟩
  apply List.eq_nil_iff_forall_not_mem.mpr
  intro e he
  obtain ⟨r, hr, her⟩ := overlayType_errs_of_ok hok e he
  rw [hms r hr] at her
  cases her

/-- **Completeness**: what the specification accepts is resolved without error, to a type with the
attributes the specification computes. -/
theorem resolve_admissible (env : Env) (s0 : Site) (hS : Standing env s0) :
    ∀ (fuel : Nat) (root : Mod) (scope : List Stmt) (t : Stmt) (stack : List TypeKey) (a : Attrs),
      InSet env root scope t → PartOfSchema env.reg root → t.kw = "type" → Admissible env root scope t a →
      UsesStar env.reg s0 (root, scope, t) → StackOk env.reg s0 (root, scope, t) stack →
      stack.Nodup → (∀ k ∈ stack, k ∈ allTypeKeys env.reg) →
      (allTypeKeys env.reg).length + 1 ≤ fuel + stack.length →
      ∃ y, resolveTypeF env fuel root scope t stack = { ty := some y, errs := [] } ∧ attrsOf y = a := by
  intro fuel
  induction fuel with
  | zero =>
    intro root scope t stack _ _ _ _ _ _ _ hnd hsub hlen
    have := nodup_subset_length stack (allTypeKeys env.reg) hnd hsub
    omega
  | succ fuel ih =>
    intro root scope t stack a hin hsch hkw hadm hs0 hst hnd hsub hlen
    obtain ⟨hroot, ht, hscope⟩ := hin
    have hres := admissible_resolvable hadm
    have hacc := resolvable_acc' hres (hS.unamb.step hs0)
    by_cases hc : stack.contains (typeKey root t) = true
    · exfalso
      have hmem : typeKey root t ∈ stack := by simpa using hc
      obtain ⟨a', hka, hsa, hplus⟩ := hst _ hmem
      have hac : a' = (root, scope, t) := hS.keys a' _ hsa hplus hka
      rw [hac] at hplus
      exact acc_no_cycle hacc hplus
    · have hc' : stack.contains (typeKey root t) = false := by simpa using hc
      have hnotin : typeKey root t ∉ stack := by simpa using hc
      have hnd' : (typeKey root t :: stack).Nodup := List.nodup_cons.mpr ⟨hnotin, hnd⟩
      have hsub' : ∀ k ∈ typeKey root t :: stack, k ∈ allTypeKeys env.reg := by
        intro k hk
        cases hk with
        | head => exact key_mem hroot ht hkw
        | tail _ hk => exact hsub k hk
      have hlen' : (allTypeKeys env.reg).length + 1 ≤ fuel + (typeKey root t :: stack).length := by
        simp only [List.length_cons]; omega
      have hmembers : ∀ (memAttrs : Stmt → Attrs),
          (∀ ut ∈ t.all "type", Admissible env root (t :: scope) ut (memAttrs ut)) →
          ∀ r ∈ memberRes env fuel root scope t stack, r.errs = [] := by
        intro memAttrs hm r hr
        unfold memberRes at hr
        obtain ⟨ut, hut, rfl⟩ := List.mem_map.mp hr
        have huse : Uses env.reg (root, scope, t) (root, t :: scope, ut) := Uses.member ut hut
        obtain ⟨y, hy, _⟩ := ih root (t :: scope) ut (typeKey root t :: stack) (memAttrs ut)
          ⟨hroot, child_below ht (all_mem_subs hut), by
            intro s hs
            cases hs with
            | head => exact ht
            | tail _ hs => exact hscope s hs⟩
          hsch (kw_of_all hut) (hm ut hut) (UsesStar.tail hs0 huse) (hst.push hs0 huse) hnd' hsub' hlen'
        rw [hy]
      cases hadm with
      | builtin y memAttrs hy hok hm =>
        have hl : lookup env root scope t = .builtin y := by unfold lookup; rw [hy]
        rw [resolve_builtin hc' hl]
        exact overlay_of_ok (src := .builtin) hok (hmembers memAttrs hm)
      | derived m td sc tt a0 memAttrs hbind htt hbase htdok hok hm =>
        obtain ⟨src, r, hl⟩ := lookup_complete env hS.seqId hS.linked hS.imports root hroot hsch scope t hbind
        have hb' := lookup_binds env root scope t (type_not_scope hkw) src r hl
        obtain ⟨e1, e2, e3⟩ := hS.unamb _ hs0 _ _ _ _ _ _ hbind hb'
        subst e1 e2 e3
        obtain ⟨hr1, hr2, hr3⟩ := lookup_inSet ⟨hroot, ht, hscope⟩ hl
        have huse : Uses env.reg (root, scope, t) (r.root, r.td :: r.scope, tt) := Uses.base r.root r.td r.scope tt hbind htt
        obtain ⟨bty, hbty, hba⟩ := ih r.root (r.td :: r.scope) tt (typeKey root t :: stack) a0
          ⟨hr1, child_below hr2 (one_mem_subs htt), by
            intro s hs
            cases hs with
            | head => exact hr2
            | tail _ hs => exact hr3 s hs⟩
          (binds_partOfSchema hsch hbind) (kw_of_one htt) hbase (UsesStar.tail hs0 huse) (hst.push hs0 huse) hnd' hsub' hlen'
        obtain ⟨tdY, htdY, hta⟩ := typedefOverlay_of_ok (td := r.td) (ty := bty) htdok
        rw [resolve_typedef hc' hl htt]
        simp only [hbty, htdY, List.isEmpty_nil, Bool.not_true, Bool.false_eq_true, if_false]
        have hsrc := lookup_typedef_src hl
        have hok' : typeOk env root t (src == .builtin) (attrsOf tdY) = true := by rw [hsrc, hta, hba]; exact hok
        obtain ⟨y, hy, hya⟩ := overlay_of_ok hok' (hmembers memAttrs hm)
        exact ⟨y, hy, by rw [hya, hta, hba]⟩

/-- **Soundness of acceptance**: an error-free resolution is of a type statement the
specification accepts, and the resolved type has the attributes the specification computes. -/
theorem resolve_ok_admissible (env : Env) :
    ∀ (fuel : Nat) (root : Mod) (scope : List Stmt) (t : Stmt) (stack : List TypeKey) (y : YType),
      scopeKinds.contains t.kw = false →
      resolveTypeF env fuel root scope t stack = { ty := some y, errs := [] } →
      Admissible env root scope t (attrsOf y) := by
  intro fuel
  induction fuel with
  | zero => intro root scope t stack y _ h; simp [resolveTypeF] at h
  | succ fuel ih =>
    intro root scope t stack y ht h
    by_cases hc : stack.contains (typeKey root t) = true
    · have hin : typeKey root t ∈ stack := by simpa using hc
      unfold resolveTypeF at h
      simp [hin] at h
    · have hc' : stack.contains (typeKey root t) = false := by simpa using hc
      have hnotin : typeKey root t ∉ stack := by simpa using hc
      -- attributes of the member types
      let memAttrs : Stmt → Attrs := fun ut =>
        match (resolveTypeF env fuel root (t :: scope) ut (typeKey root t :: stack)).ty with
        | some ym => attrsOf ym
        | none => ⟨"", 0, [], []⟩
      have hmem : ∀ {src : Source} {tdY : YType},
          (overlayType env root t src tdY (memberRes env fuel root scope t stack)).errs = [] →
          ∀ ut ∈ t.all "type", Admissible env root (t :: scope) ut (memAttrs ut) := by
        intro src tdY ho ut hut
        have he := overlayType_errs_nil ho _ (List.mem_map_of_mem (f := fun ut =>
          resolveTypeF env fuel root (t :: scope) ut (typeKey root t :: stack)) hut)
        obtain ⟨ym, hym⟩ := resolve_ty_some env fuel _ _ _ _ he
        have := ih root (t :: scope) ut _ ym (type_not_scope (kw_of_all hut)) hym
        have hma : memAttrs ut = attrsOf ym := by simp only [memAttrs, hym]
        rw [hma]; exact this
      cases hl : lookup env root scope t with
      | error e =>
        unfold resolveTypeF at h
        simp [hnotin, hl] at h
      | builtin y0 =>
        rw [resolve_builtin hc' hl] at h
        have herrs : (overlayType env root t .builtin y0 (memberRes env fuel root scope t stack)).errs = [] := by rw [h]
        have hok := typeOk_of_errs_nil herrs
        obtain ⟨y', hy', hya⟩ := overlayType_attrs_of_ok (ms := memberRes env fuel root scope t stack) hok
        rw [h] at hy'
        simp only [Option.some.injEq] at hy'
        subst hy'
        rw [hya]
        exact Admissible.builtin y0 memAttrs (lookup_builtin hl) hok (hmem herrs)
      | typedef src r =>
        cases htt : r.td.one? "type" with
        | none =>
          unfold resolveTypeF at h
          simp [hnotin, hl, htt] at h
        | some tt =>
          rw [resolve_typedef hc' hl htt] at h
          simp only at h
          split at h
          · rename_i hbase
            simp only [Res.mk.injEq] at h
            rw [h.2] at hbase
            simp at hbase
          · rename_i hbase
            split at h
            · simp at h
            · rename_i bty hbty
              have hbase' : resolveTypeF env fuel r.root (r.td :: r.scope) tt (typeKey root t :: stack)
                  = { ty := some bty, errs := [] } :=
                res_eq hbty (by simpa using hbase)
              split at h
              · rename_i hne
                simp only [Res.mk.injEq] at h
                rw [h.2] at hne
                simp at hne
              · rename_i htdr
                split at h
                · simp at h
                · rename_i tdY htdY
                  have htde : (typedefOverlay env r.root r.td tt bty).errs = [] := by simpa using htdr
                  have htdok := typedefOk_of_errs_nil htde
                  obtain ⟨tdY', htd', hta⟩ := typedefOverlay_of_ok (td := r.td) (ty := bty) htdok
                  have : tdY' = tdY := by rw [htd'] at htdY; simpa using htdY
                  subst this
                  have herrs : (overlayType env root t src tdY' (memberRes env fuel root scope t stack)).errs = [] := by rw [h]
                  have hok := typeOk_of_errs_nil herrs
                  obtain ⟨y', hy', hya⟩ := overlayType_attrs_of_ok (ms := memberRes env fuel root scope t stack) hok
                  rw [h] at hy'
                  simp only [Option.some.injEq] at hy'
                  subst hy'
                  rw [hya, hta]
                  have hsrc := lookup_typedef_src hl
                  rw [hsrc, hta] at hok
                  exact Admissible.derived r.root r.td r.scope tt (attrsOf bty) memAttrs
                    (lookup_binds env root scope t ht src r hl) htt
                    (ih r.root (r.td :: r.scope) tt _ bty (type_not_scope (kw_of_one htt)) hbase')
                    htdok hok (hmem herrs)

end Goyang.Lemmas.TypesAdm
