import Goyang.Lemmas.TypesSpecChain
import Goyang.Lemmas.TypesAssign
import Goyang.Lemmas.TypesAssignFold
import Goyang.Lemmas.TypesStrBridge
import Goyang.Lemmas.TypesEnumRfc
import Goyang.Lemmas.TypesFdRfc
import Goyang.Lemmas.TypesSpecClaim
/-
C09: the enum table, bit table and fraction-digits of an error-free resolution agree with what the
executable specification (`inherit k ls`) computes for the same derivation chain — for chains whose
integer arguments (`value`, `position`, `fraction-digits`) are canonically written (`CanonInt`:
optional `-`, decimal digits, no superfluous leading zero).  Outside that form the two readings
differ (`value 010` is 8 for Go's `ParseInt` with base 0 and 10 for `parseIntLit`): Props/C09.lean
`agreesWithFull_fails_noncanonical`.

* `chain_enum_some` / `chain_bit_some` / `chain_fd_some`: along the layers of an `ok` chain
  (`Forall₂ LayerOf`) what is stated was readable (`assignValues … = some`, `toNat? = some`).
* `written_of_canon`: canonical arguments are `Written` (the literal form property C14 / C15 speak about).
* `enum_agree`, `bit_agree`, `fd_agree`: the three agreements.
-/
namespace Goyang.Lemmas.TypesAgreeFull
open Goyang.Model Goyang.Model.Types Goyang.Spec.Types Goyang.Lemmas.Types
open Goyang.Lemmas.TypesSpecChain Goyang.Lemmas.TypesAssign Goyang.Lemmas.TypesStrBridge
open Goyang.Lemmas.TypesEnumRfc (chainEnums_ty_cons chainEnums_td_cons chainBits_ty_cons chainBits_td_cons)
open Goyang.Lemmas.TypesFdRfc (chainFd_ty_some chainFd_ty_none chainFd_td_cons)

/-- Every integer argument the tables and fraction-digits of the chain are read from is canonically
written. -/
def CanonArgs (chain : List Link) : Prop :=
  (∀ es, chainEnums chain = some es → ∀ e ∈ es, ∀ a, e.argOf? "value" = some a → CanonInt a) ∧
  (∀ bs, chainBits chain = some bs → ∀ b ∈ bs, ∀ a, b.argOf? "position" = some a → CanonInt a) ∧
  (∀ f, chainFractionDigits chain = some f → CanonInt f.arg)

theorem written_of_canon {kw : String} {es : List Stmt}
    (h : ∀ e ∈ es, ∀ a, e.argOf? kw = some a → CanonInt a) : Goyang.Lemmas.TypesAssignFold.Written kw es := by
  intro e he a ha
  obtain ⟨l, hl, _, hb, hp⟩ := canonInt_lit (h e he a ha)
  exact ⟨l, hl, hb, hp⟩

/-! ## What an `ok` chain states was readable -/

theorem chain_enum_some {reg : Registry} {chain : List Link} {ls : List Layer}
    (h : List.Forall₂ (LayerOf reg) chain ls) :
    ∀ es, chainEnums chain = some es → ∃ tab, assignValues "value" (-2147483648) 2147483647 es = some tab := by
  induction h with
  | nil => intro es hes; simp [chainEnums] at hes
  | @cons link l chain' ls' hl _ ih =>
    intro es hes
    cases link with
    | td d => rw [chainEnums_td_cons] at hes; exact ih es hes
    | ty r s t =>
      rw [chainEnums_ty_cons] at hes
      split at hes
      · exact ih es hes
      · rename_i hne
        simp only [Option.some.injEq] at hes
        subst hes
        obtain ⟨_, _, _, _, _, he, _, _, _, _, _, hen, _⟩ := hl
        rw [if_neg hne] at he
        cases hq : assignValues "value" (-2147483648) 2147483647 (t.all "enum") with
        | some tab => exact ⟨tab, rfl⟩
        | none =>
          rw [hq] at he
          have := hen.mp he
          rw [this] at hne
          exact absurd rfl hne

theorem chain_bit_some {reg : Registry} {chain : List Link} {ls : List Layer}
    (h : List.Forall₂ (LayerOf reg) chain ls) :
    ∀ bs, chainBits chain = some bs → ∃ tab, assignValues "position" 0 4294967295 bs = some tab := by
  induction h with
  | nil => intro bs hbs; simp [chainBits] at hbs
  | @cons link l chain' ls' hl _ ih =>
    intro bs hbs
    cases link with
    | td d => rw [chainBits_td_cons] at hbs; exact ih bs hbs
    | ty r s t =>
      rw [chainBits_ty_cons] at hbs
      split at hbs
      · exact ih bs hbs
      · rename_i hne
        simp only [Option.some.injEq] at hbs
        subst hbs
        obtain ⟨_, _, _, _, _, _, hb, _, _, _, _, _, hbn⟩ := hl
        rw [if_neg hne] at hb
        cases hq : assignValues "position" 0 4294967295 (t.all "bit") with
        | some tab => exact ⟨tab, rfl⟩
        | none =>
          rw [hq] at hb
          have := hbn.mp hb
          rw [this] at hne
          exact absurd rfl hne

theorem chain_fd_some {reg : Registry} {chain : List Link} {ls : List Layer}
    (h : List.Forall₂ (LayerOf reg) chain ls) :
    ∀ f, chainFractionDigits chain = some f → ∃ n, f.arg.toNat? = some n ∧ 1 ≤ n ∧ n ≤ 18 := by
  induction h with
  | nil => intro f hf; simp [chainFractionDigits] at hf
  | @cons link l chain' ls' hl _ ih =>
    intro f hf
    cases link with
    | td d => rw [chainFd_td_cons] at hf; exact ih f hf
    | ty r s t =>
      cases hq : t.one? "fraction-digits" with
      | none => rw [chainFd_ty_none hq] at hf; exact ih f hf
      | some f0 =>
        rw [chainFd_ty_some hq] at hf
        simp only [Option.some.injEq] at hf
        subst hf
        obtain ⟨_, _, _, _, hfd, _, _, _, _, hfdn, hfdr, _, _⟩ := hl
        have harg : t.argOf? "fraction-digits" = some f0.arg := by
          unfold Stmt.argOf?; rw [hq]; rfl
        rw [harg] at hfd hfdn
        simp only [Option.bind_some] at hfd
        cases hn : f0.arg.toNat? with
        | some n => exact ⟨n, rfl, hfdr n (by rw [hfd, hn])⟩
        | none =>
          rw [hn] at hfd
          have := hfdn.mp hfd
          cases this

/-! ## The three agreements -/

/-- The enum table of the model (`toInt` lists the members last first) holds the values the
executable specification assigns. -/
theorem enum_agree {reg : Registry} {chain : List Link} {ls : List Layer} (k : String)
    (hfor : List.Forall₂ (LayerOf reg) chain ls) (hc : CanonArgs chain) {y : YType}
    (hen : y.enum = (chainEnums chain).map (fun es => (enumFold newEnum "value" es).1))
    (hE : ∀ es, chainEnums chain = some es → (enumFold newEnum "value" es).2 = []) :
    y.enum.map (·.toInt) = (inherit k ls).enum.map (fun tab => (toB tab).reverse) := by
  obtain ⟨_, _, _, _, _, j6, _, _⟩ := inherit_eq hfor k
  rw [hen, j6]
  cases hq : chainEnums chain with
  | none => rfl
  | some es =>
    obtain ⟨tab, htab⟩ := chain_enum_some hfor es hq
    obtain ⟨msS, hr, hto, _⟩ := Goyang.Lemmas.TypesAssignFold.enumFold_agrees_enum es
      (written_of_canon (hc.1 es hq)) (hE es hq)
    obtain ⟨ms', hr', ht', _⟩ := assignValues_some htab
    rw [hr] at hr'
    cases hr'
    simp only [Option.map_some, Option.bind_some, htab, hto, ht']

/-- … and so does the bit table. -/
theorem bit_agree {reg : Registry} {chain : List Link} {ls : List Layer} (k : String)
    (hfor : List.Forall₂ (LayerOf reg) chain ls) (hc : CanonArgs chain) {y : YType}
    (hbi : y.bit = (chainBits chain).map (fun bs => (enumFold newBits "position" bs).1))
    (hB : ∀ bs, chainBits chain = some bs → (enumFold newBits "position" bs).2 = []) :
    y.bit.map (·.toInt) = (inherit k ls).bit.map (fun tab => (toB tab).reverse) := by
  obtain ⟨_, _, _, _, _, _, j7, _⟩ := inherit_eq hfor k
  rw [hbi, j7]
  cases hq : chainBits chain with
  | none => rfl
  | some bs =>
    obtain ⟨tab, htab⟩ := chain_bit_some hfor bs hq
    obtain ⟨msS, hr, hto, _⟩ := Goyang.Lemmas.TypesAssignFold.enumFold_agrees_bits bs
      (written_of_canon (hc.2.1 bs hq)) (hB bs hq)
    obtain ⟨ms', hr', ht', _⟩ := assignValues_some htab
    rw [hr] at hr'
    cases hr'
    simp only [Option.map_some, Option.bind_some, htab, hto, ht']

/-- The fraction-digits of the model are those the executable specification reads. -/
theorem fd_agree {reg : Registry} {chain : List Link} {ls : List Layer} (k : String)
    (hfor : List.Forall₂ (LayerOf reg) chain ls) (hc : CanonArgs chain) {y : YType}
    (hfd : y.fractionDigits = ((chainFractionDigits chain).map parseFd).getD 0)
    (hF : ∀ f, chainFractionDigits chain = some f →
      ∃ i, Number.asRangeInt (some (bytesOf f.arg)) 1 18 = .ok i ∧ y.fractionDigits = i.toNat) :
    y.fractionDigits = (inherit k ls).fd := by
  obtain ⟨_, _, _, _, _, _, _, j8⟩ := inherit_eq hfor k
  rw [j8]
  cases hq : chainFractionDigits chain with
  | none => rw [hfd, hq]; rfl
  | some f =>
    obtain ⟨n, hn, _, _⟩ := chain_fd_some hfor f hq
    obtain ⟨i, hi, hy⟩ := hF f hq
    obtain ⟨l, ⟨hd, hip, hfp, hz⟩, _, hb, hnum⟩ := canonInt_toNat (hc.2.2 f hq) hn
    obtain ⟨h1, _, _⟩ := Goyang.Lemmas.TypesFdRfc.fd_written hd hip hfp hz hb hi
    simp only [Option.bind_some, hn, Option.getD_some]
    rw [hy]
    omega

/-- The derivation chain of a type statement that names a built-in type is the statement alone. -/
theorem derives_builtin {reg : Registry} {root : Mod} {scope : List Stmt} {t : Stmt} {kind : String} {chain : List Link}
    (hb : builtinNames.contains t.arg = true) (h : DerivesFrom reg root scope t kind chain) :
    chain = [.ty root scope t] := by
  cases h with
  | builtin _ => rfl
  | derived m td sc tt kind chain hbind _ _ =>
    rw [Goyang.Lemmas.Types.binds_not_builtin hbind] at hb
    cases hb

/-- A type statement that names a built-in type, has no member types and whose own enum / bit members
and fraction-digits are readable is inside the claim of the executable specification (used for
examples whose `chainOf` the kernel cannot evaluate because of `String.toNat!`). -/
theorem insideClaim_builtin {reg : Registry} {root : Mod} {scope : List Stmt} {t : Stmt}
    (hb : builtinNames.contains t.arg = true) (hm : t.all "type" = [])
    (hbind : ∃ k, bindType reg root scope t.arg = .builtin k)
    (he : t.all "enum" ≠ [] → assignValues "value" (-2147483648) 2147483647 (t.all "enum") ≠ none)
    (hbit : t.all "bit" ≠ [] → assignValues "position" 0 4294967295 (t.all "bit") ≠ none)
    (hfd : ∀ a, t.argOf? "fraction-digits" = some a → ∃ n, a.toNat? = some n ∧ 1 ≤ n ∧ n ≤ 18) :
    Goyang.Lemmas.TypesSpecClaim.InsideClaim reg (root, scope, t) := by
  intro site w hs
  have hsite : site = (root, scope, t) := by
    induction hs with
    | refl => rfl
    | tail _ hbc ih =>
      subst ih
      obtain ⟨ut, hut, _⟩ := Goyang.Lemmas.TypesSpecBind.uses_of_builtin hb hbc
      rw [hm] at hut
      cases hut
  intro hf
  subst hsite
  obtain ⟨k, hk⟩ := hbind
  cases hf with
  | ambiguous h => rw [hk] at h; cases h
  | noType m td sc h _ => rw [hk] at h; cases h
  | enumValues hne h => exact he hne h
  | bitPositions hne h => exact hbit hne h
  | fractionDigits a ha h =>
    obtain ⟨n, hn, h1⟩ := hfd a ha
    exact h n hn h1
  | restated ut fuel vis k' ls hut _ _ => rw [hm] at hut; cases hut

/-! ## A registry-level sufficient condition for `CanonArgs` -/

/-- Every `value` / `position` / `fraction-digits` argument of the loaded set is canonically written. -/
def CanonReg (reg : Registry) : Prop :=
  ∀ m ∈ reg.mods, ∀ s ∈ descendants m.stmt,
    (∀ a, s.argOf? "value" = some a → CanonInt a) ∧ (∀ a, s.argOf? "position" = some a → CanonInt a) ∧
    (∀ a, s.argOf? "fraction-digits" = some a → CanonInt a)

open Goyang.Lemmas.TypesFuel (child_below) in
/-- The type statements of a derivation chain of a reference that stands in the loaded set stand in the loaded set. -/
theorem derives_links_inSet {reg : Registry} {root : Mod} {scope : List Stmt} {t : Stmt} {kind : String} {chain : List Link}
    (h : DerivesFrom reg root scope t kind chain) :
    root ∈ reg.mods → t ∈ descendants root.stmt → (∀ s ∈ scope, s ∈ descendants root.stmt) →
    ∀ r s t', Link.ty r s t' ∈ chain → r ∈ reg.mods ∧ t' ∈ descendants r.stmt := by
  induction h with
  | builtin _ =>
    intro hroot ht _ r s t' hmem
    rw [List.mem_singleton] at hmem
    cases hmem
    exact ⟨hroot, ht⟩
  | @derived root scope t m td sc tt kind chain hbind htt _ ih =>
    intro hroot ht hscope r s t' hmem
    obtain ⟨hm, htd, hsc⟩ := Goyang.Lemmas.TypesSpecFuel.binds_inSet hroot hscope hbind
    rcases List.mem_cons.mp hmem with h1 | h1
    · cases h1
      exact ⟨hroot, ht⟩
    · rcases List.mem_cons.mp h1 with h2 | h2
      · cases h2
      · have htt' : tt ∈ td.subs := by
          unfold Stmt.one? at htt
          exact List.mem_of_find?_eq_some htt
        refine ih hm (child_below htd htt') ?_ r s t' h2
        intro x hx
        rcases List.mem_cons.mp hx with rfl | hx
        · exact htd
        · exact hsc x hx

theorem chainEnums_some {chain : List Link} {es : List Stmt} (h : chainEnums chain = some es) :
    ∃ r s t, Link.ty r s t ∈ chain ∧ es = t.all "enum" := by
  induction chain with
  | nil => simp [chainEnums] at h
  | cons link rest ih =>
    cases link with
    | td d =>
      rw [chainEnums_td_cons] at h
      obtain ⟨r, s, t, hm, he⟩ := ih h
      exact ⟨r, s, t, List.mem_cons_of_mem _ hm, he⟩
    | ty r s t =>
      rw [chainEnums_ty_cons] at h
      split at h
      · obtain ⟨r', s', t', hm, he⟩ := ih h
        exact ⟨r', s', t', List.mem_cons_of_mem _ hm, he⟩
      · simp only [Option.some.injEq] at h
        exact ⟨r, s, t, List.mem_cons_self, h.symm⟩

theorem chainBits_some {chain : List Link} {bs : List Stmt} (h : chainBits chain = some bs) :
    ∃ r s t, Link.ty r s t ∈ chain ∧ bs = t.all "bit" := by
  induction chain with
  | nil => simp [chainBits] at h
  | cons link rest ih =>
    cases link with
    | td d =>
      rw [chainBits_td_cons] at h
      obtain ⟨r, s, t, hm, he⟩ := ih h
      exact ⟨r, s, t, List.mem_cons_of_mem _ hm, he⟩
    | ty r s t =>
      rw [chainBits_ty_cons] at h
      split at h
      · obtain ⟨r', s', t', hm, he⟩ := ih h
        exact ⟨r', s', t', List.mem_cons_of_mem _ hm, he⟩
      · simp only [Option.some.injEq] at h
        exact ⟨r, s, t, List.mem_cons_self, h.symm⟩

theorem chainFd_some {chain : List Link} {f : Stmt} (h : chainFractionDigits chain = some f) :
    ∃ r s t, Link.ty r s t ∈ chain ∧ t.one? "fraction-digits" = some f := by
  induction chain with
  | nil => simp [chainFractionDigits] at h
  | cons link rest ih =>
    cases link with
    | td d =>
      rw [chainFd_td_cons] at h
      obtain ⟨r, s, t, hm, he⟩ := ih h
      exact ⟨r, s, t, List.mem_cons_of_mem _ hm, he⟩
    | ty r s t =>
      cases hq : t.one? "fraction-digits" with
      | none =>
        rw [chainFd_ty_none hq] at h
        obtain ⟨r', s', t', hm, he⟩ := ih h
        exact ⟨r', s', t', List.mem_cons_of_mem _ hm, he⟩
      | some f0 =>
        rw [chainFd_ty_some hq] at h
        simp only [Option.some.injEq] at h
        subst h
        exact ⟨r, s, t, List.mem_cons_self, hq⟩

open Goyang.Lemmas.TypesFuel (child_below) in
/-- In a loaded set all of whose integer arguments are canonically written, every derivation chain of
a reference that stands in the set has canonical arguments. -/
theorem canonArgs_of_canonReg {reg : Registry} (hc : CanonReg reg) {root : Mod} {scope : List Stmt} {t : Stmt}
    (hroot : root ∈ reg.mods) (ht : t ∈ descendants root.stmt) (hscope : ∀ s ∈ scope, s ∈ descendants root.stmt)
    {kind : String} {chain : List Link} (h : DerivesFrom reg root scope t kind chain) : CanonArgs chain := by
  have hin := derives_links_inSet h hroot ht hscope
  refine ⟨?_, ?_, ?_⟩
  · intro es hes e he a ha
    obtain ⟨r, s, t', hm, rfl⟩ := chainEnums_some hes
    obtain ⟨hr, ht'⟩ := hin r s t' hm
    have he' : e ∈ t'.subs := by
      unfold Stmt.all at he
      exact (List.mem_filter.mp he).1
    exact (hc r hr e (child_below ht' he')).1 a ha
  · intro bs hbs b hb a ha
    obtain ⟨r, s, t', hm, rfl⟩ := chainBits_some hbs
    obtain ⟨hr, ht'⟩ := hin r s t' hm
    have hb' : b ∈ t'.subs := by
      unfold Stmt.all at hb
      exact (List.mem_filter.mp hb).1
    exact (hc r hr b (child_below ht' hb')).2.1 a ha
  · intro f hf
    obtain ⟨r, s, t', hm, hq⟩ := chainFd_some hf
    obtain ⟨hr, ht'⟩ := hin r s t' hm
    have harg : t'.argOf? "fraction-digits" = some f.arg := by
      unfold Stmt.argOf?; rw [hq]; rfl
    exact (hc r hr t' ht').2.2 f.arg harg

end Goyang.Lemmas.TypesAgreeFull
