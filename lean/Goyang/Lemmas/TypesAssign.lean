import Goyang.Lemmas.TypesAssignDefs
/-
C09 ∘ C14, specification side, integer level: the executable specification's reading of enum values /
bit positions (`Spec.Types.assignValues`, a fold with a running maximum) is the declarative RFC 7950
assignment of property C14 (`Spec.Enum.valuesFrom` / `table` / `assign`) on the members read as
integers (`readMembers`), judged for distinct names and the range.
-/
namespace Goyang.Lemmas.TypesAssign
open Goyang.Model Goyang.Model.Types Goyang.Spec.Types

/-! ## the fold, named -/

/-- one step of the fold in `assignValues` -/
def step (kw : String) (lo hi : Int) (acc : Option (List (String × Int) × Option Int)) (m : Stmt) :
    Option (List (String × Int) × Option Int) :=
  match acc with
  | none => none
  | some (tab, highest) =>
    let v? : Option Int :=
      match m.argOf? kw with
      | some a => parseIntLit a
      | none => some (match highest with | some h => h + 1 | none => 0)
    match v? with
    | none => none
    | some v =>
      if v < lo || v > hi || tab.any (·.1 == m.arg) then none
      else some (tab ++ [(m.arg, v)], some (match highest with | some h => if v > h then v else h | none => v))

theorem assignValues_fold (kw : String) (lo hi : Int) (es : List Stmt) :
    assignValues kw lo hi es = (es.foldl (step kw lo hi) (some ([], none))).map (·.1) := rfl

theorem foldl_step_none (kw : String) (lo hi : Int) (es : List Stmt) :
    es.foldl (step kw lo hi) none = none := by
  induction es with
  | nil => rfl
  | cons m es ih => simpa [List.foldl_cons, step] using ih

/-! ## the running maximum -/

/-- the highest of the earlier values (`none`: there are none) -/
def hiOf : List Int → Option Int
  | [] => none
  | v :: vs => some (vs.foldl (fun a b => if a ≤ b then b else a) v)

theorem nextValue_hiOf (earlier : List Int) :
    Goyang.Spec.Enum.nextValue earlier = (match hiOf earlier with | some h => h + 1 | none => 0) := by
  cases earlier with
  | nil => rfl
  | cons v vs => simp [Goyang.Spec.Enum.nextValue, hiOf, Int.add_comm]

theorem hiOf_snoc (earlier : List Int) (v : Int) :
    hiOf (earlier ++ [v]) = some (match hiOf earlier with | some h => if v > h then v else h | none => v) := by
  cases earlier with
  | nil => rfl
  | cons w ws =>
    simp only [hiOf, List.cons_append, List.foldl_append, List.foldl_cons, List.foldl_nil]
    congr 1
    split <;> split <;> omega

/-- the value of a member given the earlier values -/
def valOf (earlier : List Int) (o : Option Int) : Int :=
  match o with
  | some v => v
  | none => Goyang.Spec.Enum.nextValue earlier

theorem valuesFrom_cons (earlier : List Int) (o : Option Int) (rest : List (Option Int)) :
    Goyang.Spec.Enum.valuesFrom earlier (o :: rest)
      = valOf earlier o :: Goyang.Spec.Enum.valuesFrom (earlier ++ [valOf earlier o]) rest := by
  cases o <;> rfl

/-! ## the fold as a recursion over the members read -/

/-- the fold of `assignValues`, over the members already read as integers -/
def go (lo hi : Int) (tab : List (String × Int)) (earlier : List Int) :
    List (String × Option Int) → Option (List (String × Int))
  | [] => some tab
  | (n, o) :: rest =>
    if valOf earlier o < lo ∨ valOf earlier o > hi ∨ n ∈ tab.map (·.1) then none
    else go lo hi (tab ++ [(n, valOf earlier o)]) (earlier ++ [valOf earlier o]) rest

/-- what one member reads as -/
def rd (kw : String) (m : Stmt) : Option (String × Option Int) :=
  match m.argOf? kw with
  | some a => (parseIntLit a).map fun v => (m.arg, some v)
  | none => some (m.arg, none)

theorem readMembers_nil (kw : String) : readMembers kw [] = some [] := rfl

theorem readMembers_cons (kw : String) (m : Stmt) (es : List Stmt) :
    readMembers kw (m :: es)
      = (rd kw m).bind fun x => (readMembers kw es).bind fun xs => some (x :: xs) := by
  unfold readMembers
  rw [List.mapM_cons]
  rfl

theorem any_name (tab : List (String × Int)) (n : String) :
    (tab.any (·.1 == n)) = true ↔ n ∈ tab.map (·.1) := by
  simp only [List.any_eq_true, beq_iff_eq, List.mem_map]

theorem step_some (kw : String) (lo hi : Int) (tab : List (String × Int)) (earlier : List Int) (m : Stmt) :
    step kw lo hi (some (tab, hiOf earlier)) m
      = (rd kw m).bind fun x =>
          if valOf earlier x.2 < lo ∨ valOf earlier x.2 > hi ∨ x.1 ∈ tab.map (·.1) then none
          else some (tab ++ [(x.1, valOf earlier x.2)], hiOf (earlier ++ [valOf earlier x.2])) := by
  have hcond : ∀ v : Int, (v < lo || v > hi || tab.any (·.1 == m.arg)) = true
      ↔ (v < lo ∨ v > hi ∨ m.arg ∈ tab.map (·.1)) := by
    intro v
    simp only [Bool.or_eq_true, decide_eq_true_eq, any_name, or_assoc]
  unfold step rd
  cases hk : m.argOf? kw with
  | some a =>
    cases hp : parseIntLit a with
    | none => simp only [hp, Option.map_none, Option.bind_none]
    | some v =>
      simp only [hp, Option.map_some, Option.bind_some]
      simp only [valOf, hiOf_snoc]
      by_cases hc : (v < lo ∨ v > hi ∨ m.arg ∈ tab.map (·.1))
      · rw [if_pos ((hcond v).2 hc), if_pos hc]
      · rw [if_neg (fun h => hc ((hcond v).1 h)), if_neg hc]
  | none =>
    simp only [Option.bind_some]
    simp only [valOf, hiOf_snoc, nextValue_hiOf]
    by_cases hc : ((match hiOf earlier with | some h => h + 1 | none => 0) < lo
        ∨ (match hiOf earlier with | some h => h + 1 | none => 0) > hi ∨ m.arg ∈ tab.map (·.1))
    · rw [if_pos ((hcond _).2 hc), if_pos hc]
    · rw [if_neg (fun h => hc ((hcond _).1 h)), if_neg hc]

theorem fold_eq_go (kw : String) (lo hi : Int) (es : List Stmt) :
    ∀ (tab : List (String × Int)) (earlier : List Int),
      (es.foldl (step kw lo hi) (some (tab, hiOf earlier))).map (·.1)
        = (readMembers kw es).bind (go lo hi tab earlier) := by
  induction es with
  | nil => intro tab earlier; rfl
  | cons m es ih =>
    intro tab earlier
    rw [List.foldl_cons, step_some, readMembers_cons]
    cases hr : rd kw m with
    | none => simp [foldl_step_none]
    | some x =>
      obtain ⟨n, o⟩ := x
      simp only [Option.bind_some]
      by_cases hc : (valOf earlier o < lo ∨ valOf earlier o > hi ∨ n ∈ tab.map (·.1))
      · rw [if_pos hc, foldl_step_none]
        cases readMembers kw es with
        | none => rfl
        | some ms => simp only [Option.bind_some, go]; rw [if_pos hc]; rfl
      · rw [if_neg hc, ih]
        cases readMembers kw es with
        | none => rfl
        | some ms => simp only [Option.bind_some, go]; rw [if_neg hc]

/-! ## the recursion is the declarative table, judged -/

/-- names zipped with the values from `earlier` on -/
def zipS (earlier : List Int) (ms : List (String × Option Int)) : List (String × Int) :=
  (ms.map (·.1)).zip (Goyang.Spec.Enum.valuesFrom earlier (ms.map (·.2)))

theorem zipS_nil (earlier : List Int) : zipS earlier [] = [] := rfl

theorem zipS_cons (earlier : List Int) (n : String) (o : Option Int) (rest : List (String × Option Int)) :
    zipS earlier ((n, o) :: rest) = (n, valOf earlier o) :: zipS (earlier ++ [valOf earlier o]) rest := by
  simp [zipS, valuesFrom_cons]

theorem zipS_empty (ms : List (String × Option Int)) : zipS [] ms = tableS ms := rfl

/-- the judgement `assignValues` passes on a table: distinct names, every value in the range -/
def Good (lo hi : Int) (t : List (String × Int)) : Prop :=
  (t.map (·.1)).Nodup ∧ ∀ p ∈ t, lo ≤ p.2 ∧ p.2 ≤ hi

instance (lo hi : Int) (t : List (String × Int)) : Decidable (Good lo hi t) := by
  unfold Good; exact inferInstance

theorem good_snoc (lo hi : Int) (tab : List (String × Int)) (n : String) (v : Int) :
    Good lo hi (tab ++ [(n, v)]) ↔ Good lo hi tab ∧ ¬ (v < lo ∨ v > hi ∨ n ∈ tab.map (·.1)) := by
  unfold Good
  rw [List.map_append, List.nodup_append]
  simp only [List.map_cons, List.map_nil, List.mem_append, List.mem_singleton]
  constructor
  · rintro ⟨⟨hn, _, hd⟩, hr⟩
    refine ⟨⟨hn, fun p hp => hr p (Or.inl hp)⟩, ?_⟩
    have := hr (n, v) (Or.inr rfl)
    rintro (h | h | h)
    · omega
    · omega
    · exact hd n h n rfl rfl
  · rintro ⟨⟨hn, hr⟩, hc⟩
    refine ⟨⟨hn, by simp, ?_⟩, ?_⟩
    · intro a ha b hb hab
      subst hb; subst hab
      exact hc (Or.inr (Or.inr ha))
    · rintro p (hp | rfl)
      · exact hr p hp
      · constructor <;> omega

theorem good_prefix (lo hi : Int) (tab rest : List (String × Int)) (h : Good lo hi (tab ++ rest)) :
    Good lo hi tab := by
  unfold Good at *
  rw [List.map_append, List.nodup_append] at h
  exact ⟨h.1.1, fun p hp => h.2 p (List.mem_append_left _ hp)⟩

theorem go_eq (lo hi : Int) (ms : List (String × Option Int)) :
    ∀ (tab : List (String × Int)) (earlier : List Int), Good lo hi tab →
      go lo hi tab earlier ms
        = if Good lo hi (tab ++ zipS earlier ms) then some (tab ++ zipS earlier ms) else none := by
  induction ms with
  | nil =>
    intro tab earlier hg
    simp [go, zipS_nil, hg]
  | cons x ms ih =>
    intro tab earlier hg
    obtain ⟨n, o⟩ := x
    have happ : tab ++ zipS earlier ((n, o) :: ms)
        = (tab ++ [(n, valOf earlier o)]) ++ zipS (earlier ++ [valOf earlier o]) ms := by
      rw [zipS_cons, List.append_assoc]; rfl
    rw [happ]
    unfold go
    by_cases hc : (valOf earlier o < lo ∨ valOf earlier o > hi ∨ n ∈ tab.map (·.1))
    · rw [if_pos hc, if_neg]
      intro hgood
      exact ((good_snoc lo hi tab n _).1 (good_prefix lo hi _ _ hgood)).2 hc
    · rw [if_neg hc]
      exact ih _ _ ((good_snoc lo hi tab n _).2 ⟨hg, hc⟩)

theorem good_nil (lo hi : Int) : Good lo hi [] := by
  unfold Good; simp

/-! ## E1 / E3 -/

theorem assignValues_eq_good (kw : String) (lo hi : Int) (es : List Stmt) :
    assignValues kw lo hi es
      = (readMembers kw es).bind fun ms => if Good lo hi (tableS ms) then some (tableS ms) else none := by
  rw [assignValues_fold]
  have h := fold_eq_go kw lo hi es [] []
  simp only [hiOf] at h
  rw [h]
  congr 1
  funext ms
  rw [go_eq lo hi ms [] [] (good_nil lo hi), List.nil_append, zipS_empty]

/-- E1: the executable specification's assignment is the RFC 7950 table of the members read, when the
names are distinct and every value is in the range; otherwise (or when a value argument is not an
integer literal) there is none. -/
theorem assignValues_eq (kw : String) (lo hi : Int) (es : List Stmt) :
    assignValues kw lo hi es
      = (readMembers kw es).bind fun ms =>
          if (((tableS ms).map (·.1)).Nodup ∧ ∀ p ∈ tableS ms, lo ≤ p.2 ∧ p.2 ≤ hi) then some (tableS ms)
          else none := by
  rw [assignValues_eq_good]
  congr 1

theorem assignValues_some_iff {kw : String} {lo hi : Int} {es : List Stmt} {tab : List (String × Int)} :
    assignValues kw lo hi es = some tab
      ↔ ∃ ms, readMembers kw es = some ms ∧ tab = tableS ms ∧ ((tableS ms).map (·.1)).Nodup
          ∧ ∀ p ∈ tableS ms, lo ≤ p.2 ∧ p.2 ≤ hi := by
  rw [assignValues_eq_good]
  constructor
  · intro h
    cases hr : readMembers kw es with
    | none => rw [hr] at h; simp at h
    | some ms =>
      rw [hr, Option.bind_some] at h
      by_cases hg : Good lo hi (tableS ms)
      · rw [if_pos hg] at h
        exact ⟨ms, rfl, (Option.some.inj h).symm, hg.1, hg.2⟩
      · rw [if_neg hg] at h; cases h
  · rintro ⟨ms, hr, rfl, hn, hrange⟩
    rw [hr, Option.bind_some, if_pos ⟨hn, hrange⟩]

/-- E3 -/
theorem assignValues_some {kw : String} {lo hi : Int} {es : List Stmt} {tab : List (String × Int)}
    (h : assignValues kw lo hi es = some tab) :
    ∃ ms, readMembers kw es = some ms ∧ tab = tableS ms ∧ ((tableS ms).map (·.1)).Nodup
      ∧ ∀ p ∈ tableS ms, lo ≤ p.2 ∧ p.2 ≤ hi :=
  assignValues_some_iff.1 h

/-! ## E4: names as bytes -/

theorem map_zip_bytes (ns : List String) (vs : List Int) :
    (ns.zip vs).map (fun p => (bytesOf p.1, p.2)) = (ns.map bytesOf).zip vs := by
  induction ns generalizing vs with
  | nil => simp
  | cons n ns ih =>
    cases vs with
    | nil => simp
    | cons v vs => simp [ih]

/-- E4 -/
theorem toB_tableS (ms : List (String × Option Int)) :
    toB (tableS ms) = Goyang.Spec.Enum.table (ms.map fun p => (bytesOf p.1, p.2)) := by
  unfold toB tableS Goyang.Spec.Enum.table
  rw [map_zip_bytes]
  simp [List.map_map, Function.comp_def]

/-! ## E7: the tie to `Spec.Enum.assign` -/

theorem toB_names {α : Type} (t : List (String × α)) : (toB t).map (·.1) = (t.map (·.1)).map bytesOf := by
  simp [toB, List.map_map, Function.comp_def]

theorem toB_values {α : Type} (t : List (String × α)) : (toB t).map (·.2) = t.map (·.2) := by
  simp [toB, List.map_map, Function.comp_def]

theorem nodup_map_bytes (hinj : ∀ s t : String, bytesOf s = bytesOf t → s = t) (l : List String) :
    (l.map bytesOf).Nodup ↔ l.Nodup := by
  unfold List.Nodup
  rw [List.pairwise_map]
  constructor
  · intro h; exact h.imp (fun hne heq => hne (by rw [heq]))
  · intro h; exact h.imp (fun hne heq => hne (hinj _ _ heq))

theorem toB_range (lo hi : Int) (t : List (String × Int)) :
    (∀ p ∈ toB t, lo ≤ p.2 ∧ p.2 ≤ hi) ↔ ∀ p ∈ t, lo ≤ p.2 ∧ p.2 ≤ hi := by
  unfold toB
  constructor
  · intro h p hp
    exact h (bytesOf p.1, p.2) (List.mem_map.2 ⟨p, hp, rfl⟩)
  · intro h q hq
    obtain ⟨p, hp, rfl⟩ := List.mem_map.1 hq
    exact h p hp

theorem valid_bits (hinj : ∀ s t : String, bytesOf s = bytesOf t → s = t) (t : List (String × Int)) :
    Goyang.Spec.Enum.Valid .bits (toB t) ↔ Good 0 4294967295 t := by
  unfold Goyang.Spec.Enum.Valid Good
  rw [toB_names, nodup_map_bytes hinj, toB_range]
  simp [Goyang.Spec.Enum.Kind.uniqueValues, Goyang.Spec.Enum.Kind.min, Goyang.Spec.Enum.Kind.max]

theorem valid_enum (hinj : ∀ s t : String, bytesOf s = bytesOf t → s = t) (t : List (String × Int)) :
    Goyang.Spec.Enum.Valid .enumeration (toB t)
      ↔ Good (-2147483648) 2147483647 t ∧ (t.map (·.2)).Nodup := by
  unfold Goyang.Spec.Enum.Valid Good
  rw [toB_names, nodup_map_bytes hinj, toB_range, toB_values]
  simp only [Goyang.Spec.Enum.Kind.uniqueValues, Goyang.Spec.Enum.Kind.min, Goyang.Spec.Enum.Kind.max,
    forall_const]
  constructor
  · rintro ⟨a, b, c⟩; exact ⟨⟨a, c⟩, b⟩
  · rintro ⟨⟨a, c⟩, b⟩; exact ⟨a, b, c⟩

/-- E7, bits: with positions in the uint32 range, `assignValues` is exactly the RFC 7950 assignment of
property C14. -/
theorem assignValues_eq_assign_bits (hinj : ∀ s t : String, bytesOf s = bytesOf t → s = t)
    (kw : String) (es : List Stmt) :
    (assignValues kw 0 4294967295 es).map toB
      = (readMembers kw es).bind fun ms =>
          Goyang.Spec.Enum.assign .bits (ms.map fun p => (bytesOf p.1, p.2)) := by
  rw [assignValues_eq_good]
  cases readMembers kw es with
  | none => rfl
  | some ms =>
    simp only [Option.bind_some]
    unfold Goyang.Spec.Enum.assign
    rw [← toB_tableS]
    by_cases hg : Good 0 4294967295 (tableS ms)
    · rw [if_pos hg, if_pos ((valid_bits hinj _).2 hg)]; rfl
    · rw [if_neg hg, if_neg (fun h => hg ((valid_bits hinj _).1 h))]; rfl

/-- E7, enumeration: with values in the int32 range, `assignValues` followed by the check that the
values are distinct (which the executable specification makes separately, in `chainInClaim`) is
exactly the RFC 7950 assignment of property C14. -/
theorem assignValues_eq_assign_enum (hinj : ∀ s t : String, bytesOf s = bytesOf t → s = t)
    (kw : String) (es : List Stmt) :
    ((assignValues kw (-2147483648) 2147483647 es).filter fun tab => decide ((tab.map (·.2)).Nodup)).map toB
      = (readMembers kw es).bind fun ms =>
          Goyang.Spec.Enum.assign .enumeration (ms.map fun p => (bytesOf p.1, p.2)) := by
  rw [assignValues_eq_good]
  cases readMembers kw es with
  | none => rfl
  | some ms =>
    simp only [Option.bind_some]
    unfold Goyang.Spec.Enum.assign
    rw [← toB_tableS]
    by_cases hg : Good (-2147483648) 2147483647 (tableS ms)
    · rw [if_pos hg]
      by_cases hv : ((tableS ms).map (·.2)).Nodup
      · rw [if_pos ((valid_enum hinj _).2 ⟨hg, hv⟩)]
        simp [Option.filter, hv]
      · rw [if_neg (fun h => hv ((valid_enum hinj _).1 h).2)]
        simp [Option.filter, hv]
    · rw [if_neg hg, if_neg (fun h => hg ((valid_enum hinj _).1 h).1)]; rfl

/-! ## E8: not vacuous -/

example : Goyang.Spec.Enum.valuesFrom [] [none, some 5, none] = [0, 5, 6] := by decide

example : tableS [("a", none), ("b", some 5), ("c", none)] = [("a", 0), ("b", 5), ("c", 6)] := by decide

example : Goyang.Spec.Enum.assign .bits [([97], none), ([98], some 5), ([99], none)]
    = some [([97], 0), ([98], 5), ([99], 6)] := by decide

end Goyang.Lemmas.TypesAssign
