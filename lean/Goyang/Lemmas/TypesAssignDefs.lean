import Goyang.Spec.Types
import Goyang.Spec.Enum
import Goyang.Model.Types
/-
C09 ∘ C14, specification side: the vocabulary in which the executable specification's own reading of
enum values / bit positions (`Spec.Types.assignValues`) is tied to the RFC 7950 assignment of
property C14 (`Spec.Enum.table` / `assign`).  Theorems: Lemmas/TypesAssign.lean (integer level),
Lemmas/TypesAssignFold.lean (against the model's resolve loop).
-/
namespace Goyang.Lemmas.TypesAssign
open Goyang.Model Goyang.Model.Types Goyang.Spec.Types

/-- The members as the executable specification reads them: name and written value (`none` inside:
no `value` / `position` statement).  `none`: some value argument is not an integer literal
(`parseIntLit`). -/
def readMembers (kw : String) (es : List Stmt) : Option (List (String × Option Int)) :=
  es.mapM fun m =>
    match m.argOf? kw with
    | some a => (parseIntLit a).map fun v => (m.arg, some v)
    | none => some (m.arg, none)

/-- The RFC 7950 table of members read as integers (`Spec.Enum.table` with `String` names). -/
def tableS (ms : List (String × Option Int)) : List (String × Int) :=
  (ms.map (·.1)).zip (Goyang.Spec.Enum.valuesFrom [] (ms.map (·.2)))

/-- Names as the bytes the model and property C14 work with. -/
def toB {α : Type} (tab : List (String × α)) : List (Goyang.Spec.Enum.Name × α) := tab.map fun p => (bytesOf p.1, p.2)

end Goyang.Lemmas.TypesAssign
