import Goyang.Lemmas.TypesAssignDefs
import Goyang.Lemmas.TypesEnumRfc
/-
C09 ∘ C14, against the model's resolve loop: an error-free `enumFold` over members whose `value` /
`position` arguments are canonically written integers (`Written`) builds exactly the table the
executable specification's own reading of the members (`readMembers`, `tableS`) denotes, and
RFC 7950 (`Spec.Enum.assign`) accepts it.

* `written_members`: the written members, once as literals (what `enumFold_rfc` wants) and once as
  the integers `readMembers` reads; the two agree.
* `toB_tableS`: `tableS` is `Spec.Enum.table` up to the names being bytes.
* `enumFold_agrees` (+ `_enum`, `_bits`): the composition.
-/
namespace Goyang.Lemmas.TypesAssignFold
open Goyang.Model Goyang.Model.Types Goyang.Spec.Types Goyang.Lemmas.TypesAssign

open Goyang.Spec.Number (Lit) in
/-- every `kw` argument of the members is a canonically written integer, on which the executable
specification's reading (`parseIntLit`) is the literal's value -/
def Written (kw : String) (es : List Stmt) : Prop :=
  ∀ e ∈ es, ∀ a, e.argOf? kw = some a →
    ∃ l : Lit, Goyang.Lemmas.Enum.LitForm l ∧ bytesOf a = l.render ∧ parseIntLit a = some l.num

theorem readMembers_nil (kw : String) : readMembers kw [] = some [] := by
  simp [readMembers]

theorem readMembers_cons (kw : String) (e : Stmt) (rest : List Stmt) :
    readMembers kw (e :: rest)
      = (match e.argOf? kw with
          | some a => (parseIntLit a).map fun v => (e.arg, some v)
          | none => some (e.arg, none)).bind fun x =>
        (readMembers kw rest).bind fun xs => some (x :: xs) := by
  unfold readMembers
  rw [List.mapM_cons]
  rfl

open Goyang.Spec.Number (Lit) in
open Goyang.Lemmas.Enum (LitForm) in
/-- F1 -/
theorem written_members (kw : String) (es : List Stmt) (h : Written kw es) :
    ∃ (msL : List (Goyang.Spec.Enum.Name × Option Lit)) (msS : List (String × Option Int)),
      (∀ p ∈ msL, ∀ l, p.2 = some l → LitForm l) ∧
      es.map (fun e => (bytesOf e.arg, (e.argOf? kw).map bytesOf))
        = msL.map (fun p => (p.1, p.2.map Lit.render)) ∧
      readMembers kw es = some msS ∧
      msS.map (fun p => (bytesOf p.1, p.2)) = msL.map (fun p => (p.1, p.2.map Lit.num)) := by
  induction es with
  | nil => exact ⟨[], [], by simp, by simp, readMembers_nil kw, by simp⟩
  | cons e rest ih =>
    obtain ⟨msL, msS, hf, hw, hr, hm⟩ := ih (fun e' he' => h e' (List.mem_cons_of_mem _ he'))
    cases ha : e.argOf? kw with
    | none =>
      refine ⟨(bytesOf e.arg, none) :: msL, (e.arg, none) :: msS, ?_, ?_, ?_, ?_⟩
      · intro p hp l hl
        rcases List.mem_cons.mp hp with rfl | hp
        · cases hl
        · exact hf p hp l hl
      · simp only [List.map_cons, ha, Option.map_none, hw]
      · rw [readMembers_cons, ha, hr]; rfl
      · simp only [List.map_cons, Option.map_none, hm]
    | some a =>
      obtain ⟨l, hl, hb, hp⟩ := h e List.mem_cons_self a ha
      refine ⟨(bytesOf e.arg, some l) :: msL, (e.arg, some l.num) :: msS, ?_, ?_, ?_, ?_⟩
      · intro p hp' l' hl'
        rcases List.mem_cons.mp hp' with rfl | hp'
        · simp only [Option.some.injEq] at hl'; subst hl'; exact hl
        · exact hf p hp' l' hl'
      · simp only [List.map_cons, ha, Option.map_some, hw, hb]
      · rw [readMembers_cons, ha, hr]; simp only [hp]; rfl
      · simp only [List.map_cons, Option.map_some, hm]

theorem map_zip_left {α β γ : Type} (f : α → γ) (xs : List α) (ys : List β) :
    (xs.zip ys).map (fun p => (f p.1, p.2)) = (xs.map f).zip ys := by
  rw [List.zip_map_left]
  rfl

/-- F2 -/
theorem toB_tableS (ms : List (String × Option Int)) :
    toB (tableS ms) = Goyang.Spec.Enum.table (ms.map fun p => (bytesOf p.1, p.2)) := by
  unfold toB tableS Goyang.Spec.Enum.table
  rw [map_zip_left]
  simp only [List.map_map]
  rfl

/-- F3 -/
theorem enumFold_agrees (k : Goyang.Spec.Enum.Kind) (kw : String) (es : List Stmt) (hw : Written kw es)
    (herr : (enumFold (Goyang.Lemmas.Enum.new k) kw es).2 = []) :
    ∃ msS, readMembers kw es = some msS ∧
      (enumFold (Goyang.Lemmas.Enum.new k) kw es).1.toInt = (toB (tableS msS)).reverse ∧
      Goyang.Spec.Enum.assign k (msS.map fun p => (bytesOf p.1, p.2)) = some (toB (tableS msS)) := by
  obtain ⟨msL, msS, hf, hwr, hr, hm⟩ := written_members kw es hw
  obtain ⟨h1, h2⟩ := Goyang.Lemmas.TypesEnumRfc.enumFold_rfc k kw es msL hf hwr herr
  rw [← hm, ← toB_tableS] at h1 h2
  exact ⟨msS, hr, h2, h1⟩

/-- F4: enumerations (`enum` members, `value`) -/
theorem enumFold_agrees_enum (es : List Stmt) (hw : Written "value" es)
    (herr : (enumFold newEnum "value" es).2 = []) :
    ∃ msS, readMembers "value" es = some msS ∧
      (enumFold newEnum "value" es).1.toInt = (toB (tableS msS)).reverse ∧
      Goyang.Spec.Enum.assign .enumeration (msS.map fun p => (bytesOf p.1, p.2)) = some (toB (tableS msS)) :=
  enumFold_agrees .enumeration "value" es hw herr

/-- F4: bits (`bit` members, `position`) -/
theorem enumFold_agrees_bits (bs : List Stmt) (hw : Written "position" bs)
    (herr : (enumFold newBits "position" bs).2 = []) :
    ∃ msS, readMembers "position" bs = some msS ∧
      (enumFold newBits "position" bs).1.toInt = (toB (tableS msS)).reverse ∧
      Goyang.Spec.Enum.assign .bits (msS.map fun p => (bytesOf p.1, p.2)) = some (toB (tableS msS)) :=
  enumFold_agrees .bits "position" bs hw herr

end Goyang.Lemmas.TypesAssignFold
