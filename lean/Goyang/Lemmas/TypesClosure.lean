import Goyang.Lemmas.TypesDefs
/-
The executable closure under include statements (`withSubmodules`, `unitOf` of
Goyang/Spec/Types.lean) lists exactly what the relations `IncludesStar` / `InUnit` relate
(property C09).

Soundness needs nothing.  Completeness: one round `L ↦ addNew L (L.flatMap (includesOf reg))`
extends `L` at the end, keeps the sequence numbers of the list pairwise different and keeps the
list inside `reg.mods`; so the list never gets longer than `reg.mods`, a round that adds nothing
leaves a list closed under `includesOf`, and a non-empty start list cannot grow
`reg.mods.length` times.
-/
namespace Goyang.Lemmas.TypesClosure
open Goyang.Model Goyang.Spec.Types Goyang.Lemmas.TypesDefs Goyang.Lemmas.TypesFuel

/-! ## `addNew` -/

theorem any_seq_iff (acc : List Mod) (m : Mod) :
    acc.any (·.seq == m.seq) = true ↔ m.seq ∈ acc.map (·.seq) := by
  simp only [List.any_eq_true, List.mem_map, beq_iff_eq]

theorem addNew_cons (acc : List Mod) (m : Mod) (ms : List Mod) :
    addNew acc (m :: ms) = addNew (if acc.any (·.seq == m.seq) then acc else acc ++ [m]) ms := rfl

/-- `addNew` extends the list at the end, by some of the candidates. -/
theorem addNew_prefix : ∀ (ms acc : List Mod), ∃ t, addNew acc ms = acc ++ t ∧ ∀ x ∈ t, x ∈ ms
  | [], acc => ⟨[], by simp [addNew], by simp⟩
  | m :: ms, acc => by
    rw [addNew_cons]
    split
    · obtain ⟨t, h1, h2⟩ := addNew_prefix ms acc
      exact ⟨t, h1, fun x hx => List.mem_cons_of_mem _ (h2 x hx)⟩
    · obtain ⟨t, h1, h2⟩ := addNew_prefix ms (acc ++ [m])
      refine ⟨m :: t, by rw [h1]; simp, ?_⟩
      intro x hx
      cases hx with
      | head => exact List.mem_cons_self
      | tail _ hx => exact List.mem_cons_of_mem _ (h2 x hx)

theorem mem_addNew_of_mem {acc ms : List Mod} {x : Mod} (h : x ∈ acc) : x ∈ addNew acc ms := by
  obtain ⟨t, h1, _⟩ := addNew_prefix ms acc
  rw [h1]; exact List.mem_append_left _ h

theorem mem_addNew {acc ms : List Mod} {x : Mod} (h : x ∈ addNew acc ms) : x ∈ acc ∨ x ∈ ms := by
  obtain ⟨t, h1, h2⟩ := addNew_prefix ms acc
  rw [h1] at h
  rcases List.mem_append.mp h with h | h
  · exact Or.inl h
  · exact Or.inr (h2 x h)

theorem length_le_addNew (acc ms : List Mod) : acc.length ≤ (addNew acc ms).length := by
  obtain ⟨t, h1, _⟩ := addNew_prefix ms acc
  rw [h1, List.length_append]; omega

/-- A round that does not make the list longer does not change it. -/
theorem addNew_eq_of_length {acc ms : List Mod} (h : (addNew acc ms).length = acc.length) : addNew acc ms = acc := by
  obtain ⟨t, h1, _⟩ := addNew_prefix ms acc
  rw [h1, List.length_append] at h
  have : t = [] := List.eq_nil_of_length_eq_zero (by omega)
  rw [h1, this, List.append_nil]

/-- Sequence numbers stay pairwise different. -/
theorem addNew_nodup : ∀ (ms acc : List Mod), (acc.map (·.seq)).Nodup → ((addNew acc ms).map (·.seq)).Nodup
  | [], _, h => h
  | m :: ms, acc, h => by
    rw [addNew_cons]
    split
    · exact addNew_nodup ms acc h
    · rename_i hc
      apply addNew_nodup ms
      rw [any_seq_iff] at hc
      simp only [List.map_append, List.map_cons, List.map_nil]
      rw [List.nodup_append]
      refine ⟨h, by simp, ?_⟩
      intro a ha b hb
      rw [List.mem_singleton] at hb
      intro e
      exact hc (hb ▸ e ▸ ha)

/-- Every candidate is in the result, up to its sequence number. -/
theorem addNew_covers : ∀ (ms acc : List Mod) (m : Mod), m ∈ ms → m.seq ∈ (addNew acc ms).map (·.seq)
  | [], _, _, h => by cases h
  | m' :: ms, acc, m, h => by
    rw [addNew_cons]
    rcases List.mem_cons.mp h with rfl | h
    · have hin : m.seq ∈ (if acc.any (·.seq == m.seq) then acc else acc ++ [m]).map (·.seq) := by
        split
        · rename_i hc; exact (any_seq_iff acc m).mp hc
        · simp
      obtain ⟨x, hx, hxs⟩ := List.mem_map.mp hin
      exact List.mem_map.mpr ⟨x, mem_addNew_of_mem hx, hxs⟩
    · exact addNew_covers ms _ m h

/-! ## Soundness -/

theorem includesStar_tail {reg : Registry} {a b c : Mod} (h : IncludesStar reg a b) (hbc : Includes reg b c) :
    IncludesStar reg a c := by
  induction h with
  | refl a => exact IncludesStar.head hbc (IncludesStar.refl _)
  | head hab _ ih => exact IncludesStar.head hab (ih hbc)

theorem includeClosure_succ (reg : Registry) (n : Nat) (L : List Mod) :
    includeClosure reg (n + 1) L = includeClosure reg n (addNew L (L.flatMap (includesOf reg))) := rfl

/-- A property of modules that include statements preserve holds of the whole closure. -/
theorem includeClosure_sound (reg : Registry) (P : Mod → Prop) (hP : ∀ a b, P a → Includes reg a b → P b) :
    ∀ (n : Nat) (L : List Mod), (∀ x ∈ L, P x) → ∀ x ∈ includeClosure reg n L, P x
  | 0, _, h => h
  | n + 1, L, h => by
    rw [includeClosure_succ]
    apply includeClosure_sound reg P hP n
    intro x hx
    rcases mem_addNew hx with hx | hx
    · exact h x hx
    · obtain ⟨a, ha, hb⟩ := List.mem_flatMap.mp hx
      exact hP a x (h a ha) hb

/-- everything the executable closure lists is reachable through include statements -/
theorem withSubmodules_sound (reg : Registry) (ms : List Mod) (m : Mod) (h : m ∈ withSubmodules reg ms) :
    ∃ s ∈ ms, IncludesStar reg s m := by
  unfold withSubmodules at h
  refine includeClosure_sound reg (fun m => ∃ s ∈ ms, IncludesStar reg s m) ?_ _ _ ?_ m h
  · rintro a b ⟨s, hs, hsa⟩ hab
    exact ⟨s, hs, includesStar_tail hsa hab⟩
  · intro x hx
    rcases mem_addNew hx with hx | hx
    · cases hx
    · exact ⟨x, hx, IncludesStar.refl x⟩

/-! ## Completeness -/

/-- The list is closed under include statements. -/
def Closed (reg : Registry) (L : List Mod) : Prop := ∀ a ∈ L, ∀ b ∈ includesOf reg a, b ∈ L

theorem includesOf_mem {reg : Registry} {a b : Mod} (h : b ∈ includesOf reg a) : b ∈ reg.mods := by
  unfold includesOf at h
  obtain ⟨s, _, hs⟩ := List.mem_filterMap.mp h
  exact findModule_mem hs

theorem closed_star {reg : Registry} {L : List Mod} (hL : Closed reg L) {s m : Mod} (h : IncludesStar reg s m)
    (hs : s ∈ L) : m ∈ L := by
  induction h with
  | refl a => exact hs
  | head hab _ ih => exact ih (hL _ hs _ hab)

theorem mem_includeClosure_of_mem (reg : Registry) :
    ∀ (n : Nat) (L : List Mod) (x : Mod), x ∈ L → x ∈ includeClosure reg n L
  | 0, _, _, h => h
  | n + 1, L, x, h => by
    rw [includeClosure_succ]
    exact mem_includeClosure_of_mem reg n _ x (mem_addNew_of_mem h)

theorem includeClosure_fix (reg : Registry) (L : List Mod) (h : addNew L (L.flatMap (includesOf reg)) = L) :
    ∀ (n : Nat), includeClosure reg n L = L
  | 0 => rfl
  | n + 1 => by rw [includeClosure_succ, h]; exact includeClosure_fix reg L h n

/-- Pairwise different sequence numbers, all members loaded. -/
def Inv (reg : Registry) (L : List Mod) : Prop := (L.map (·.seq)).Nodup ∧ ∀ x ∈ L, x ∈ reg.mods

theorem Inv.length_le {reg : Registry} {L : List Mod} (h : Inv reg L) : L.length ≤ reg.mods.length := by
  have := nodup_subset_length (L.map (·.seq)) (reg.mods.map (·.seq)) h.1 (by
    intro x hx
    obtain ⟨a, ha, rfl⟩ := List.mem_map.mp hx
    exact List.mem_map_of_mem (h.2 a ha))
  simpa only [List.length_map] using this

theorem Inv.addNew {reg : Registry} {L ms : List Mod} (h : Inv reg L) (hms : ∀ x ∈ ms, x ∈ reg.mods) :
    Inv reg (addNew L ms) := by
  refine ⟨addNew_nodup ms L h.1, ?_⟩
  intro x hx
  rcases mem_addNew hx with hx | hx
  · exact h.2 x hx
  · exact hms x hx

/-- A loaded candidate is in the result. -/
theorem addNew_mem_of_seqId {reg : Registry} (hid : SeqId reg) {L ms : List Mod} (hL : ∀ x ∈ L, x ∈ reg.mods)
    (hms : ∀ x ∈ ms, x ∈ reg.mods) {m : Mod} (hm : m ∈ ms) : m ∈ addNew L ms := by
  obtain ⟨x, hx, hxs⟩ := List.mem_map.mp (addNew_covers ms L m hm)
  have hxr : x ∈ reg.mods := by
    rcases mem_addNew hx with h | h
    · exact hL x h
    · exact hms x h
  have : x = m := hid x hxr m (hms m hm) hxs
  exact this ▸ hx

theorem flatMap_includesOf_mem {reg : Registry} {L : List Mod} : ∀ x ∈ L.flatMap (includesOf reg), x ∈ reg.mods := by
  intro x hx
  obtain ⟨a, _, hb⟩ := List.mem_flatMap.mp hx
  exact includesOf_mem hb

theorem includeClosure_closed (reg : Registry) (hid : SeqId reg) :
    ∀ (n : Nat) (L : List Mod), Inv reg L → reg.mods.length + 1 ≤ n + L.length → Closed reg (includeClosure reg n L)
  | 0, L, hinv, hlen => by
    have := hinv.length_le
    omega
  | n + 1, L, hinv, hlen => by
    rw [includeClosure_succ]
    have hinv' : Inv reg (addNew L (L.flatMap (includesOf reg))) := hinv.addNew flatMap_includesOf_mem
    by_cases hl : (addNew L (L.flatMap (includesOf reg))).length = L.length
    · have heq := addNew_eq_of_length hl
      rw [heq, includeClosure_fix reg L heq n]
      intro a ha b hb
      have : b ∈ addNew L (L.flatMap (includesOf reg)) :=
        addNew_mem_of_seqId hid hinv.2 flatMap_includesOf_mem (List.mem_flatMap.mpr ⟨a, ha, hb⟩)
      rw [heq] at this
      exact this
    · have := length_le_addNew L (L.flatMap (includesOf reg))
      exact includeClosure_closed reg hid n _ hinv' (by omega)

/-- and it lists everything reachable (reg.mods.length rounds suffice: pigeonhole on sequence numbers) -/
theorem withSubmodules_complete (reg : Registry) (hid : SeqId reg) (ms : List Mod) (hms : ∀ s ∈ ms, s ∈ reg.mods)
    (s : Mod) (hs : s ∈ ms) (m : Mod) (h : IncludesStar reg s m) : m ∈ withSubmodules reg ms := by
  unfold withSubmodules
  have hinv : Inv reg (addNew [] ms) := Inv.addNew ⟨List.nodup_nil, fun x hx => by cases hx⟩ hms
  have hs0 : s ∈ addNew [] ms := addNew_mem_of_seqId hid (fun x hx => by cases hx) hms hs
  have hpos : 0 < (addNew [] ms).length := List.length_pos_of_mem hs0
  have hcl := includeClosure_closed reg hid reg.mods.length (addNew [] ms) hinv (by omega)
  exact closed_star hcl h (mem_includeClosure_of_mem reg _ _ s hs0)

/-! ## The unit of a reference -/

theorem mem_unitOf_iff (reg : Registry) (hid : SeqId reg) (root : Mod) (hroot : root ∈ reg.mods) (m : Mod) :
    m ∈ unitOf reg root ↔ InUnit reg root m := by
  unfold unitOf InUnit
  constructor
  · intro h
    obtain ⟨s, hs, hsm⟩ := withSubmodules_sound reg _ m h
    cases hs with
    | head => exact Or.inl hsm
    | tail _ hs =>
      split at hs
      · rename_i b hb
        have hs : s ∈ (reg.getModule b).toList := hs
        rw [Option.mem_toList] at hs
        exact Or.inr ⟨b, s, hb, hs, hsm⟩
      · cases hs
  · intro h
    have hmods : ∀ s ∈ root :: (match root.belongsTo? with
        | some b => (reg.getModule b).toList
        | none => []), s ∈ reg.mods := by
      intro s hs
      cases hs with
      | head => exact hroot
      | tail _ hs =>
        split at hs
        · rename_i b _
          have hs : s ∈ (reg.getModule b).toList := hs
          rw [Option.mem_toList] at hs
          exact getModule_mem hs
        · cases hs
    rcases h with h | ⟨b, o, hb, ho, hom⟩
    · exact withSubmodules_complete reg hid _ hmods root List.mem_cons_self m h
    · refine withSubmodules_complete reg hid _ hmods o ?_ m hom
      rw [hb]
      exact List.mem_cons_of_mem _ (Option.mem_toList.mpr ho)

end Goyang.Lemmas.TypesClosure
