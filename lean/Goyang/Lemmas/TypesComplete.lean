import Goyang.Lemmas.TypesDefs
import Goyang.Lemmas.TypesDfs
import Goyang.Lemmas.TypesNoBind
/-
Completeness of the typedef lookup and of the binding part of `Type.resolve` (property C09):
a name that `Binds` is found; a `Resolvable` type statement raises no binding-level error.
-/
namespace Goyang.Lemmas.TypesComplete
open Goyang.Model Goyang.Model.Types Goyang.Spec.Types Goyang.Lemmas.Types Goyang.Lemmas.TypesFuel
  Goyang.Lemmas.TypesDefs Goyang.Lemmas.TypesDfs Goyang.Lemmas.TypesNoBind

/-! ## The lookup finds what binds -/

theorem lookup_builtin {env : Env} {root : Mod} {scope : List Stmt} {t : Stmt} {y : YType}
    (hl : lookup env root scope t = .builtin y) : builtin? t.arg = some y := by
  unfold lookup at hl
  split at hl
  · rename_i y' hy; simp only [Bound.builtin.injEq] at hl; rw [← hl]; exact hy
  · simp only at hl
    split at hl
    · split at hl
      · cases hl
      · split at hl <;> cases hl
    · split at hl
      · cases hl
      · split at hl <;> cases hl

theorem lookup_of_builtin {env : Env} {root : Mod} {scope : List Stmt} {t : Stmt}
    (hb : builtinNames.contains t.arg = true) : ∃ y, lookup env root scope t = .builtin y := by
  have h := builtin_agree t.arg
  rw [hb] at h
  obtain ⟨y, hy⟩ := Option.isSome_iff_exists.mp h
  exact ⟨y, by unfold lookup; rw [hy]⟩

theorem isLocalRef_of_cond {root : Mod} {name : String}
    (h : ((splitPrefix name).1 == "" || root.getPrefix == (splitPrefix name).1) = true) : isLocalRef root name = true := by
  unfold isLocalRef
  rw [Bool.or_eq_true] at h ⊢
  cases h with
  | inl h1 => exact Or.inl h1
  | inr h2 => exact Or.inr (by rw [beq_iff_eq] at h2 ⊢; exact h2.symm)

theorem isLocalRef_of_not_cond {root : Mod} {name : String}
    (h : ¬ ((splitPrefix name).1 == "" || root.getPrefix == (splitPrefix name).1) = true) :
    ((splitPrefix name).1 == "") = false ∧ ((splitPrefix name).1 == root.getPrefix) = false ∧ isLocalRef root name = false := by
  have hl1 : ((splitPrefix name).1 == "") = false := by
    cases hq : ((splitPrefix name).1 == "") with
    | false => rfl
    | true => rw [hq] at h; simp at h
  have hl2 : ((splitPrefix name).1 == root.getPrefix) = false := by
    cases hq : ((splitPrefix name).1 == root.getPrefix) with
    | false => rfl
    | true =>
      rw [beq_iff_eq] at hq
      rw [hq] at h
      simp at h
  refine ⟨hl1, hl2, ?_⟩
  unfold isLocalRef; rw [hl1, hl2]; rfl

/-- With distinct import prefixes, the module `FindModuleByPrefix` hands back is the one the
import statement of that prefix names. -/
theorem findModuleByPrefix_foreign {reg : Registry} {root : Mod} {pfx : String} {i : Stmt} {ext : Mod}
    (himp : ImportsDistinct reg) (hroot : root ∈ reg.mods)
    (h1 : (pfx == "") = false) (h2 : (pfx == root.getPrefix) = false)
    (hi : i ∈ root.imports) (hp : i.argOf? "prefix" = some pfx) (hf : reg.findModule false i = some ext) :
    reg.findModuleByPrefix root pfx = some ext := by
  unfold Registry.findModuleByPrefix
  rw [h1, h2]
  simp only [Bool.or_self, Bool.false_eq_true, if_false]
  split
  · rename_i i' hi'
    have hm : i' ∈ root.imports := List.mem_of_find?_eq_some hi'
    have hp' := List.find?_some hi'
    simp only [beq_iff_eq] at hp'
    rw [himp root hroot i' hm i hi pfx hp' hp]
    exact hf
  · rename_i hnone
    rw [List.find?_eq_none] at hnone
    have := hnone i hi
    rw [hp] at this
    simp at this

/-- **Completeness of the lookup**: a name that binds (in the sense of the specification) is found. -/
theorem lookup_not_error (env : Env) (hid : SeqId env.reg) (hlink : Linked env) (himp : ImportsDistinct env.reg)
    (root : Mod) (hroot : root ∈ env.reg.mods) (hsch : PartOfSchema env.reg root) (scope : List Stmt) (t : Stmt)
    {m : Mod} {td : Stmt} {sc : List Stmt} (hb : Binds env.reg root scope t.arg m td sc) (e : Err) :
    lookup env root scope t ≠ .error e := by
  intro h
  unfold lookup at h
  split at h
  · cases h
  · simp only at h
    split at h
    · rename_i hloc
      have hlocal := isLocalRef_of_cond hloc
      split at h
      · cases h
      · rename_i hfs
        have hnone := findInScope_none hfs
        split at h
        · cases h
        · rename_i hnf
          cases hb with
          | lexical pre n up td' _ _ hsc _ htd =>
            have := hnone n (List.mem_cons_of_mem _ (by rw [hsc]; exact List.mem_append_right _ List.mem_cons_self))
            unfold baseName at htd
            rw [this] at htd
            cases htd
          | moduleLevel m' td' _ _ _ hunit htd =>
            obtain ⟨r, hr⟩ := findLocalModules_complete env hid hlink (splitPrefix t.arg).2 root hroot hsch m hunit
              (by unfold baseName at htd; exact List.ne_nil_of_mem htd)
            rw [hr] at hnf
            cases hnf
          | foreign i ext m' td' _ hfor _ _ _ _ _ => rw [hlocal] at hfor; cases hfor
        · rename_i hoof
          exact absurd hoof (findLocalModules_fuel env root _ hroot)
    · rename_i hloc
      obtain ⟨hl1, hl2, hforeign⟩ := isLocalRef_of_not_cond hloc
      cases hb with
      | lexical pre n up td' _ hl _ _ _ => rw [hforeign] at hl; cases hl
      | moduleLevel m' td' _ hl _ _ _ => rw [hforeign] at hl; cases hl
      | foreign i ext m' td' _ _ hi hp hf hstar htd =>
        have hext := findModuleByPrefix_foreign himp hroot hl1 hl2 hi hp hf
        rw [hext] at h
        simp only at h
        have hextm : ext ∈ env.reg.mods := findModule_mem hf
        split at h
        · cases h
        · rename_i hnf
          obtain ⟨r, hr⟩ := findInModule_complete env hid hlink (splitPrefix t.arg).2 ext hextm (partOfSchema_findModule_false hf) m hstar
            (by unfold baseName at htd; exact List.ne_nil_of_mem htd)
          rw [hr] at hnf
          cases hnf
        · rename_i hoof
          exact absurd hoof (findInModule_start env _ ext hextm)

theorem lookup_complete (env : Env) (hid : SeqId env.reg) (hlink : Linked env) (himp : ImportsDistinct env.reg)
    (root : Mod) (hroot : root ∈ env.reg.mods) (hsch : PartOfSchema env.reg root) (scope : List Stmt) (t : Stmt)
    {m : Mod} {td : Stmt} {sc : List Stmt} (hb : Binds env.reg root scope t.arg m td sc) :
    ∃ src r, lookup env root scope t = .typedef src r := by
  cases hl : lookup env root scope t with
  | builtin y =>
    have := builtin_some (lookup_builtin hl)
    rw [binds_not_builtin hb] at this
    cases this
  | typedef src r => exact ⟨src, r, rfl⟩
  | error e => exact absurd hl (lookup_not_error env hid hlink himp root hroot hsch scope t hb e)

/-! ## What the lookup finds binds (the proof of `Goyang.Props.C09.resolve_binds`, available to lemma files) -/

theorem lookup_binds (env : Env) (root : Mod) (scope : List Stmt) (t : Stmt)
    (ht : scopeKinds.contains t.kw = false) (src : Source) (r : TdRef)
    (h : lookup env root scope t = .typedef src r) :
    Binds env.reg root scope t.arg r.root r.td r.scope := by
  unfold lookup at h
  split at h
  · cases h
  · rename_i hb
    have hnb := builtin_none hb
    simp only at h
    split at h
    · -- unprefixed or own prefix
      rename_i hloc
      have hlocal : isLocalRef root t.arg = true := by
        unfold isLocalRef
        rw [Bool.or_eq_true] at hloc ⊢
        cases hloc with
        | inl h1 => exact Or.inl h1
        | inr h2 => exact Or.inr (by rw [beq_iff_eq] at h2 ⊢; exact h2.symm)
      split at h
      · rename_i r' hfs
        simp only [Bound.typedef.injEq] at h
        obtain ⟨_, hr⟩ := h
        subst hr
        obtain ⟨pre, n, up, hsc, hpre, htd, hroot, hscope⟩ := findInScope_some hfs
        cases pre with
        | nil =>
          simp only [List.nil_append, List.cons.injEq] at hsc
          obtain ⟨htn, _⟩ := hsc
          subst htn
          rw [declared_of_not_scope ht] at htd
          cases htd
        | cons t' pre' =>
          simp only [List.cons_append, List.cons.injEq] at hsc
          obtain ⟨_, hsc⟩ := hsc
          rw [hroot, hscope]
          exact Binds.lexical pre' n up _ hnb hlocal hsc
            (fun x hx => hpre x (List.mem_cons_of_mem _ hx)) htd
      · rename_i hfs
        split at h
        · rename_i r' hfl
          simp only [Bound.typedef.injEq] at h
          obtain ⟨_, hr⟩ := h
          subst hr
          obtain ⟨hunit, htd, hscope⟩ := findLocalModules_sound env root _ _ hfl
          rw [hscope]
          exact Binds.moduleLevel _ _ hnb hlocal
            (fun x hx => findInScope_none hfs x (List.mem_cons_of_mem _ hx)) hunit htd
        · cases h
        · cases h
    · -- foreign prefix
      rename_i hloc
      have hl1 : ((splitPrefix t.arg).1 == "") = false := by
        cases hq : ((splitPrefix t.arg).1 == "") with
        | false => rfl
        | true => rw [hq] at hloc; simp at hloc
      have hl2 : ((splitPrefix t.arg).1 == root.getPrefix) = false := by
        cases hq : ((splitPrefix t.arg).1 == root.getPrefix) with
        | false => rfl
        | true =>
          rw [beq_iff_eq] at hq
          rw [hq] at hloc
          simp at hloc
      have hforeign : isLocalRef root t.arg = false := by
        unfold isLocalRef; rw [hl1, hl2]; rfl
      split at h
      · cases h
      · rename_i ext hext
        split at h
        · rename_i r' hfm
          simp only [Bound.typedef.injEq] at h
          obtain ⟨_, hr⟩ := h
          subst hr
          obtain ⟨hstar, htd, hscope⟩ := findInModule_sound' env _ _ _ _ _ hfm
          rw [hscope]
          unfold Registry.findModuleByPrefix at hext
          rw [hl1, hl2] at hext
          simp only [Bool.or_self, Bool.false_eq_true, if_false] at hext
          split at hext
          · rename_i i hi
            have himp : i ∈ root.imports := List.mem_of_find?_eq_some hi
            have hpfx := List.find?_some hi
            simp only [beq_iff_eq] at hpfx
            exact Binds.foreign i ext _ _ hnb hforeign himp hpfx hext hstar htd
          · cases hext
        · cases h
        · cases h

/-! ## One step of the recursion, as equations -/

/-- The results of resolving the member types of `t`. -/
def memberRes (env : Env) (fuel : Nat) (root : Mod) (scope : List Stmt) (t : Stmt) (stack : List TypeKey) : List Res :=
  (t.all "type").map fun ut => resolveTypeF env fuel root (t :: scope) ut (typeKey root t :: stack)

theorem resolve_builtin {env : Env} {fuel : Nat} {root : Mod} {scope : List Stmt} {t : Stmt} {stack : List TypeKey} {y : YType}
    (hc : stack.contains (typeKey root t) = false) (hl : lookup env root scope t = .builtin y) :
    resolveTypeF env (fuel + 1) root scope t stack = overlayType env root t .builtin y (memberRes env fuel root scope t stack) := by
  unfold resolveTypeF memberRes
  simp only [hc, hl, Bool.false_eq_true, if_false]

theorem resolve_typedef {env : Env} {fuel : Nat} {root : Mod} {scope : List Stmt} {t : Stmt} {stack : List TypeKey}
    {src : Source} {r : TdRef} {tt : Stmt}
    (hc : stack.contains (typeKey root t) = false) (hl : lookup env root scope t = .typedef src r)
    (htt : r.td.one? "type" = some tt) :
    resolveTypeF env (fuel + 1) root scope t stack =
      (let base := resolveTypeF env fuel r.root (r.td :: r.scope) tt (typeKey root t :: stack)
       if !base.errs.isEmpty then { ty := none, errs := base.errs } else
       match base.ty with
       | none => { ty := none, errs := [Err.at_ tt "crash"] }
       | some bty =>
         let tdr := typedefOverlay env r.root r.td tt bty
         if !tdr.errs.isEmpty then { ty := none, errs := tdr.errs } else
         match tdr.ty with
         | none => { ty := none, errs := [Err.at_ r.td "no-yangtype"] }
         | some tdY => overlayType env root t src tdY (memberRes env fuel root scope t stack)) := by
  conv => lhs; unfold resolveTypeF
  unfold memberRes
  simp only [hc, hl, htt, Bool.false_eq_true, if_false]
  rfl

theorem typedefOverlay_ty_some {env : Env} {root : Mod} {td tt : Stmt} {ty : YType}
    (h : (typedefOverlay env root td tt ty).errs = []) : ∃ y, (typedefOverlay env root td tt ty).ty = some y := by
  unfold typedefOverlay at h ⊢
  split
  · rename_i hn; rw [hn] at h; simp at h
  · exact ⟨_, rfl⟩

/-! ## A finite derivation excludes cycles (relative to the sites below the reference) -/

theorem resolvable_acc' {reg : Registry} :
    ∀ {root : Mod} {scope : List Stmt} {t : Stmt}, Resolvable reg root scope t → UnambiguousBelow reg (root, scope, t) →
      Acc (fun b a => Uses reg a b) (root, scope, t)
  | root, scope, t, .builtin hb hm, hU => by
    constructor
    intro y hy
    have hUy : UnambiguousBelow reg y := hU.step (UsesStar.tail (UsesStar.refl _) hy)
    cases hy with
    | base m td sc tt hbind _ => rw [binds_not_builtin hbind] at hb; cases hb
    | member ut hut => exact resolvable_acc' (hm ut hut) hUy
  | root, scope, t, .derived m td sc tt hbind htt hbase hm, hU => by
    constructor
    intro y hy
    have hUy : UnambiguousBelow reg y := hU.step (UsesStar.tail (UsesStar.refl _) hy)
    cases hy with
    | base m' td' sc' tt' hbind' htt' =>
      obtain ⟨h1, h2, h3⟩ := hU _ (UsesStar.refl _) _ _ _ _ _ _ hbind hbind'
      subst h1 h2 h3
      rw [htt] at htt'
      cases htt'
      exact resolvable_acc' hbase hUy
    | member ut hut => exact resolvable_acc' (hm ut hut) hUy

theorem resolvable_not_cyclic' {reg : Registry} {root : Mod} {scope : List Stmt} {t : Stmt}
    (hU : UnambiguousBelow reg (root, scope, t)) (h : Resolvable reg root scope t) : ¬ Cyclic reg (root, scope, t) := by
  rintro ⟨b, hb, hcyc⟩
  have hacc := resolvable_acc' h hU
  rcases hb with rfl | hb
  · exact acc_no_cycle hacc hcyc
  · exact acc_no_cycle (acc_usesPlus hacc hb) hcyc

/-! ## The binding part of `Type.resolve` is complete -/

/-- The keys on the stack are those of sites above the current one. -/
def StackOk (reg : Registry) (s0 c : Site) (stack : List TypeKey) : Prop :=
  ∀ k ∈ stack, ∃ a, siteKey a = k ∧ UsesStar reg s0 a ∧ UsesPlus reg a c

theorem StackOk.push {reg : Registry} {s0 c d : Site} {stack : List TypeKey} (h : StackOk reg s0 c stack)
    (hc : UsesStar reg s0 c) (hcd : Uses reg c d) : StackOk reg s0 d (siteKey c :: stack) := by
  intro k hk
  cases hk with
  | head => exact ⟨c, rfl, hc, UsesPlus.one hcd⟩
  | tail _ hk =>
    obtain ⟨a, ha, hsa, hp⟩ := h k hk
    exact ⟨a, ha, hsa, usesPlus_snoc hp hcd⟩

/-- The standing hypotheses on the loaded set and the reference `s0` being resolved. -/
structure Standing (env : Env) (s0 : Site) : Prop where
  seqId : SeqId env.reg
  linked : Linked env
  imports : ImportsDistinct env.reg
  unamb : UnambiguousBelow env.reg s0
  keys : KeysIdentify env.reg s0

/-- A `Resolvable` type statement raises no binding-level error (unknown name or prefix, cycle,
exhausted budget): whatever errors `Type.resolve` returns for it are restriction errors. -/
theorem resolve_noBind (env : Env) (s0 : Site) (hS : Standing env s0) :
    ∀ (fuel : Nat) (root : Mod) (scope : List Stmt) (t : Stmt) (stack : List TypeKey),
      InSet env root scope t → PartOfSchema env.reg root → t.kw = "type" → Resolvable env.reg root scope t →
      UsesStar env.reg s0 (root, scope, t) → StackOk env.reg s0 (root, scope, t) stack →
      stack.Nodup → (∀ k ∈ stack, k ∈ allTypeKeys env.reg) →
      (allTypeKeys env.reg).length + 1 ≤ fuel + stack.length →
      NoBind (resolveTypeF env fuel root scope t stack).errs := by
  intro fuel
  induction fuel with
  | zero =>
    intro root scope t stack _ _ _ _ _ _ hnd hsub hlen
    have := nodup_subset_length stack (allTypeKeys env.reg) hnd hsub
    omega
  | succ fuel ih =>
    intro root scope t stack hin hsch hkw hres hs0 hst hnd hsub hlen
    obtain ⟨hroot, ht, hscope⟩ := hin
    have hacc := resolvable_acc' hres (hS.unamb.step hs0)
    by_cases hc : stack.contains (typeKey root t) = true
    · exfalso
      have hmem : typeKey root t ∈ stack := by simpa using hc
      obtain ⟨a, hka, hsa, hplus⟩ := hst _ hmem
      have hac : a = (root, scope, t) := hS.keys a _ hsa hplus hka
      rw [hac] at hplus
      exact acc_no_cycle hacc hplus
    · have hc' : stack.contains (typeKey root t) = false := by simpa using hc
      have hnotin : typeKey root t ∉ stack := by simpa using hc
      have hnd' : (typeKey root t :: stack).Nodup := List.nodup_cons.mpr ⟨hnotin, hnd⟩
      have hsub' : ∀ k ∈ typeKey root t :: stack, k ∈ allTypeKeys env.reg := by
        intro k hk
        cases hk with
        | head => exact key_mem hroot ht hkw
        | tail _ hk => exact hsub k hk
      have hlen' : (allTypeKeys env.reg).length + 1 ≤ fuel + (typeKey root t :: stack).length := by
        simp only [List.length_cons]; omega
      have hmembers : ∀ r ∈ memberRes env fuel root scope t stack, NoBind r.errs := by
        intro r hr
        unfold memberRes at hr
        obtain ⟨ut, hut, rfl⟩ := List.mem_map.mp hr
        have hmres : Resolvable env.reg root (t :: scope) ut := by
          cases hres with
          | builtin _ hm => exact hm ut hut
          | derived _ _ _ _ _ _ _ hm => exact hm ut hut
        have huse : Uses env.reg (root, scope, t) (root, t :: scope, ut) := Uses.member ut hut
        refine ih root (t :: scope) ut _ ⟨hroot, child_below ht (all_mem_subs hut), ?_⟩ hsch (kw_of_all hut) hmres
          (UsesStar.tail hs0 huse) (hst.push hs0 huse) hnd' hsub' hlen'
        intro s hs
        cases hs with
        | head => exact ht
        | tail _ hs => exact hscope s hs
      cases hres with
      | builtin hb hm =>
        obtain ⟨y, hl⟩ := lookup_of_builtin (env := env) (root := root) (scope := scope) hb
        rw [resolve_builtin hc' hl]
        exact overlayType_noBind hmembers
      | derived m td sc tt hbind htt hbase hm =>
        obtain ⟨src, r, hl⟩ := lookup_complete env hS.seqId hS.linked hS.imports root hroot hsch scope t hbind
        have hb' := lookup_binds env root scope t (type_not_scope hkw) src r hl
        obtain ⟨e1, e2, e3⟩ := hS.unamb _ hs0 _ _ _ _ _ _ hbind hb'
        subst e1 e2 e3
        obtain ⟨hr1, hr2, hr3⟩ := lookup_inSet ⟨hroot, ht, hscope⟩ hl
        have huse : Uses env.reg (root, scope, t) (r.root, r.td :: r.scope, tt) := Uses.base r.root r.td r.scope tt hbind htt
        have hbaseNB : NoBind (resolveTypeF env fuel r.root (r.td :: r.scope) tt (typeKey root t :: stack)).errs := by
          refine ih r.root (r.td :: r.scope) tt _ ⟨hr1, child_below hr2 (one_mem_subs htt), ?_⟩
            (binds_partOfSchema hsch hbind) (kw_of_one htt) hbase
            (UsesStar.tail hs0 huse) (hst.push hs0 huse) hnd' hsub' hlen'
          intro s hs
          cases hs with
          | head => exact hr2
          | tail _ hs => exact hr3 s hs
        rw [resolve_typedef hc' hl htt]
        simp only
        split
        · exact hbaseNB
        · rename_i hbe
          split
          · rename_i hty
            exfalso
            have he : (resolveTypeF env fuel r.root (r.td :: r.scope) tt (typeKey root t :: stack)).errs = [] := by
              simpa using hbe
            obtain ⟨y, hy⟩ := resolve_ty_some env fuel _ _ _ _ he
            rw [hy] at hty
            cases hty
          · split
            · exact typedefOverlay_noBind
            · rename_i htde
              split
              · rename_i htn
                exfalso
                obtain ⟨y, hy⟩ := typedefOverlay_ty_some (by simpa using htde)
                rw [hy] at htn
                cases htn
              · exact overlayType_noBind hmembers

end Goyang.Lemmas.TypesComplete
