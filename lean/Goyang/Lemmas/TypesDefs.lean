import Goyang.Lemmas.Types
import Goyang.Lemmas.TypesFuel
/-
Shared definitions for the completeness half of property C09 (Goyang/Props/C09.lean:
`resolve_complete`, `resolve_errors_iff`, `spec_exec_*`): the standing hypotheses on a loaded set
under which "the specification accepts" implies "the model reports no error".
-/
namespace Goyang.Lemmas.TypesDefs
open Goyang.Model Goyang.Model.Types Goyang.Spec.Types

/-- Sequence numbers identify the loaded (sub)modules (`Registry.add` numbers them 0, 1, 2, …). -/
def SeqId (reg : Registry) : Prop := ∀ a ∈ reg.mods, ∀ b ∈ reg.mods, a.seq = b.seq → a = b

/-- `m` is part of a schema: a module held in `ms.Modules`, or a submodule that one of them includes,
directly or through other submodules.  (A submodule nobody includes is linked by nobody:
`Modules.Process` walks the include statements from the modules down.) -/
def PartOfSchema (reg : Registry) (m : Mod) : Prop := ∃ top ∈ Identity.moduleEntries reg, IncludesStar reg top m

/-- Every include statement of every part of a schema has been linked (`Modules.include` ran without
error): the `Include.Module` pointers the model walks are the include statements the
specification reads.  Holds of `Env.of reg` whenever `linkOk reg` (Lemmas/TypesLinked.lean). -/
def Linked (env : Env) : Prop :=
  ∀ m ∈ env.reg.mods, PartOfSchema env.reg m → env.includeTargets m = includesOf env.reg m

theorem includesStar_trans {reg : Registry} {a b c : Mod} (hab : IncludesStar reg a b) (hbc : IncludesStar reg b c) :
    IncludesStar reg a c := by
  induction hab with
  | refl => exact hbc
  | head h _ ih => exact IncludesStar.head h (ih hbc)

theorem PartOfSchema.includes {reg : Registry} {a b : Mod} (h : PartOfSchema reg a) (hab : IncludesStar reg a b) :
    PartOfSchema reg b := by
  obtain ⟨top, ht, hs⟩ := h
  exact ⟨top, ht, includesStar_trans hs hab⟩

theorem partOfSchema_getModule {reg : Registry} {k : String} {o : Mod} (h : reg.getModule k = some o) :
    PartOfSchema reg o := by
  refine ⟨o, ?_, IncludesStar.refl o⟩
  unfold Registry.getModule KeyMap.get? at h
  obtain ⟨id, hid, hb⟩ := Option.bind_eq_some_iff.mp h
  obtain ⟨kv, hkv, rfl⟩ := Option.map_eq_some_iff.mp hid
  unfold Identity.moduleEntries
  exact List.mem_filterMap.mpr ⟨kv, List.mem_of_find?_eq_some hkv, hb⟩

theorem partOfSchema_findModule_false {reg : Registry} {i : Stmt} {ext : Mod} (h : reg.findModule false i = some ext) :
    PartOfSchema reg ext := by
  unfold Registry.findModule at h
  simp only [Bool.false_eq_true, if_false] at h
  split at h
  · rename_i m' hm'
    cases h
    exact partOfSchema_getModule hm'
  · exact partOfSchema_getModule h

/-- The typedef a name binds to stands in a part of a schema when the reference does. -/
theorem binds_partOfSchema {reg : Registry} {root : Mod} {scope : List Stmt} {name : String} {m : Mod} {td : Stmt}
    {sc : List Stmt} (hroot : PartOfSchema reg root) (h : Binds reg root scope name m td sc) : PartOfSchema reg m := by
  cases h with
  | lexical => exact hroot
  | moduleLevel m td _ _ _ hunit _ =>
    rcases hunit with hstar | ⟨b, o, _, ho, hstar⟩
    · exact hroot.includes hstar
    · exact (partOfSchema_getModule ho).includes hstar
  | foreign i ext m td _ _ _ _ hf hstar _ => exact (partOfSchema_findModule_false hf).includes hstar

/-- Zero or more `Uses` steps. -/
inductive UsesStar (reg : Registry) : Site → Site → Prop
  | refl (a : Site) : UsesStar reg a a
  | tail {a b c : Site} : UsesStar reg a b → Uses reg b c → UsesStar reg a c

/-- How the model (and the executable specification) identify a type statement: sequence number of
its module, line, column (Go: the `*Type` pointer). -/
def siteKey (a : Site) : TypeKey := typeKey a.1 a.2.2

/-- Below the site `s0`, a type statement is identified by its position: two sites on one path of
`Uses` steps that carry the same (module, line, column) are the same site.  (True of every parsed
schema: different statements of one file stand at different positions.) -/
def KeysIdentify (reg : Registry) (s0 : Site) : Prop :=
  ∀ a b, UsesStar reg s0 a → UsesPlus reg a b → siteKey a = siteKey b → a = b

/-- The binding-level error records of `Type.resolve`: unknown name, unknown prefix, cyclic
definition, and the three "cannot happen" records of the model (a typedef without a type statement,
no YangType without an error, both positioned; the identity layer's record of class `crash` has no
position and is not one of these). -/
def BindErr (e : Err) : Prop :=
  e.cls ∈ ["unknown-type", "unknown-prefix", "cycle", "no-yangtype"] ∨ (e.cls = "crash" ∧ e ≠ Err.bare "crash")

instance (e : Err) : Decidable (BindErr e) := by unfold BindErr; infer_instance

/-- No binding-level error and no exhausted budget in the list. -/
def NoBind (l : List Err) : Prop := ∀ e ∈ l, ¬ BindErr e ∧ e.cls ≠ "out-of-fuel"

theorem UsesStar.head {reg : Registry} {a b c : Site} (hab : Uses reg a b) (hbc : UsesStar reg b c) : UsesStar reg a c := by
  induction hbc with
  | refl => exact UsesStar.tail (UsesStar.refl a) hab
  | tail _ hcd ih => exact UsesStar.tail ih hcd

theorem KeysIdentify.step {reg : Registry} {a b : Site} (h : KeysIdentify reg a) (hab : Uses reg a b) : KeysIdentify reg b :=
  fun x y hx hxy hk => h x y (UsesStar.head hab hx) hxy hk

theorem UsesStar.trans {reg : Registry} {a b c : Site} (hab : UsesStar reg a b) (hbc : UsesStar reg b c) : UsesStar reg a c := by
  induction hbc with
  | refl => exact hab
  | tail _ hcd ih => exact UsesStar.tail ih hcd

/-- The prefixes of the import statements of every loaded (sub)module are pairwise different
(RFC 7950 section 7.1.5). -/
def ImportsDistinct (reg : Registry) : Prop :=
  ∀ root ∈ reg.mods, ∀ i ∈ root.imports, ∀ i' ∈ root.imports, ∀ p,
    i.argOf? "prefix" = some p → i'.argOf? "prefix" = some p → i = i'

/-- The name written at the site `s` denotes at most one typedef. -/
def UnambiguousAt (reg : Registry) (s : Site) : Prop :=
  ∀ m td sc m' td' sc', Binds reg s.1 s.2.1 s.2.2.arg m td sc → Binds reg s.1 s.2.1 s.2.2.arg m' td' sc' →
    m = m' ∧ td = td' ∧ sc = sc'

/-- No name met while resolving the type statement at `s0` denotes two typedefs: every site
reachable from `s0` through `Uses` steps is unambiguous.  (`Spec.Types.Unambiguous` asks this of
every conceivable site, made-up scopes included, and holds of no registry.) -/
def UnambiguousBelow (reg : Registry) (s0 : Site) : Prop := ∀ a, UsesStar reg s0 a → UnambiguousAt reg a

theorem UnambiguousBelow.step {reg : Registry} {a b : Site} (h : UnambiguousBelow reg a) (hab : UsesStar reg a b) :
    UnambiguousBelow reg b := fun x hx => h x (UsesStar.trans hab hx)

theorem KeysIdentify.below {reg : Registry} {a b : Site} (h : KeysIdentify reg a) (hab : UsesStar reg a b) : KeysIdentify reg b :=
  fun x y hx hxy hk => h x y (UsesStar.trans hab hx) hxy hk

end Goyang.Lemmas.TypesDefs
