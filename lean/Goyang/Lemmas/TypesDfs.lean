import Goyang.Lemmas.TypesDefs
/-
Completeness of the module-level typedef search of the impl model (`findInModule`,
`findLocalModules`: a depth-first walk over a module and the submodules it includes, with one
visited list threaded through the whole walk): if a (sub)module reachable through include
statements declares the name, the search answers `.found _`.

Invariant (the usual one for a depth-first search with a global visited set): when a call answers
`.notFound`, every sequence number it added to the visited list is *done*: it is the number of a
loaded module that does not declare the name and whose include targets are all in the list.  A list
all of whose elements are done is closed under `Includes`, so no module reachable from an element
declares the name.
-/
namespace Goyang.Lemmas.TypesDfs
open Goyang.Model Goyang.Model.Types Goyang.Spec.Types Goyang.Lemmas.Types Goyang.Lemmas.TypesFuel Goyang.Lemmas.TypesDefs

/-- `x` is the sequence number of a loaded module that has been searched in vain and whose include
targets are all in `S`. -/
def Done (env : Env) (name : String) (S : List Nat) (x : Nat) : Prop :=
  ∃ y ∈ env.reg.mods, y.seq = x ∧ findIn y.stmt name = none ∧ ∀ z ∈ env.includeTargets y, z.seq ∈ S

theorem Done.mono {env : Env} {name : String} {S S' : List Nat} {x : Nat} (h : Done env name S x) (hsub : S ⊆ S') :
    Done env name S' x := by
  obtain ⟨y, hy, hx, hf, hz⟩ := h
  exact ⟨y, hy, hx, hf, fun z hzm => hsub (hz z hzm)⟩

/-- The visited list grew from `s` to `s'`, and everything new is done. -/
def Ext (env : Env) (name : String) (s s' : List Nat) : Prop :=
  s ⊆ s' ∧ ∀ x ∈ s', x ∉ s → Done env name s' x

theorem Ext.refl {env : Env} {name : String} {s : List Nat} : Ext env name s s :=
  ⟨List.Subset.refl _, fun _ hx hn => absurd hx hn⟩

theorem Ext.trans {env : Env} {name : String} {a b c : List Nat} (h1 : Ext env name a b) (h2 : Ext env name b c) :
    Ext env name a c := by
  refine ⟨List.Subset.trans h1.1 h2.1, ?_⟩
  intro x hx hn
  by_cases hb : x ∈ b
  · exact (h1.2 x hb hn).mono h2.1
  · exact h2.2 x hx hb

/-- A `firstHit` that answers `.notFound` has chained the states through the whole list, every call
answering `.notFound`. -/
theorem firstHit_notFound (env : Env) (name : String) (f : Mod → List Nat → Lookup × List Nat) :
    ∀ (l : List Mod), (∀ a ∈ l, ∀ s1 s2, f a s1 = (.notFound, s2) → Ext env name s1 s2 ∧ a.seq ∈ s2) →
      ∀ s s', firstHit f l s = (.notFound, s') → Ext env name s s' ∧ ∀ a ∈ l, a.seq ∈ s' := by
  intro l
  induction l with
  | nil =>
    intro _ s s' h
    simp only [firstHit, Prod.mk.injEq, true_and] at h
    subst h
    exact ⟨Ext.refl, fun a ha => by cases ha⟩
  | cons a rest ih =>
    intro hf s s' h
    unfold firstHit at h
    split at h
    · rename_i s1 hfa
      obtain ⟨he, ha⟩ := hf a List.mem_cons_self s s1 hfa
      obtain ⟨he', hrest⟩ := ih (fun b hb => hf b (List.mem_cons_of_mem _ hb)) s1 s' h
      refine ⟨he.trans he', ?_⟩
      intro b hb
      cases hb with
      | head => exact he'.1 ha
      | tail _ hb => exact hrest b hb
    · rename_i hne
      exact absurd h (hne s')

/-- The invariant of the walk. -/
theorem findInModule_notFound (env : Env) (name : String) :
    ∀ (fuel : Nat) (m : Mod) (seen seen' : List Nat), m ∈ env.reg.mods →
      findInModule env name fuel m seen = (.notFound, seen') → Ext env name seen seen' ∧ m.seq ∈ seen' := by
  intro fuel
  induction fuel with
  | zero => intro m seen seen' _ h; simp [findInModule] at h
  | succ fuel ih =>
    intro m seen seen' hm h
    unfold findInModule at h
    split at h
    · rename_i hc
      simp only [Prod.mk.injEq, true_and] at h
      subst h
      exact ⟨Ext.refl, by simpa using hc⟩
    · simp only at h
      split at h
      · simp at h
      · rename_i hnone
        obtain ⟨he, hz⟩ := firstHit_notFound env name _ _
          (fun im him s1 s2 hf => ih im s1 s2 (includeTargets_mem him) hf) _ _ h
        have hsub : seen ⊆ seen' := fun x hx => he.1 (List.mem_cons_of_mem _ hx)
        have hmem : m.seq ∈ seen' := he.1 List.mem_cons_self
        refine ⟨⟨hsub, ?_⟩, hmem⟩
        intro x hx hn
        by_cases hxm : x = m.seq
        · subst hxm
          exact ⟨m, hm, rfl, hnone, hz⟩
        · exact he.2 x hx (by simp [hxm, hn])

/-- A list all of whose elements are done is closed under include statements, and no module with
its number in the list declares the name. -/
theorem closed_no_decl {env : Env} (hid : SeqId env.reg) (hlink : Linked env) {name : String} {S : List Nat}
    (hS : ∀ x ∈ S, Done env name S x) {a m : Mod} (hstar : IncludesStar env.reg a m) :
    a ∈ env.reg.mods → a.seq ∈ S → PartOfSchema env.reg a → declared m.stmt name = [] := by
  induction hstar with
  | refl a =>
    intro ha hin _
    obtain ⟨y, hy, hseq, hf, _⟩ := hS _ hin
    have : y = a := hid y hy a ha hseq
    subst this
    exact findIn_none hf
  | @head a b c hinc hrest ih =>
    intro ha hin hP
    obtain ⟨y, hy, hseq, _, hz⟩ := hS _ hin
    have : y = a := hid y hy a ha hseq
    subst this
    have hb : b ∈ env.includeTargets y := by rw [hlink y hy hP]; exact hinc
    exact ih (includeTargets_mem hb) (hz b hb) (hP.includes (IncludesStar.head hinc (IncludesStar.refl b)))

/-- a foreign reference: if some (sub)module reachable from `ext` through include statements declares `name`, the search finds a typedef -/
theorem findInModule_complete (env : Env) (hid : SeqId env.reg) (hlink : Linked env) (name : String)
    (ext : Mod) (hext : ext ∈ env.reg.mods) (hsch : PartOfSchema env.reg ext) (m : Mod) (hstar : IncludesStar env.reg ext m)
    (hdecl : declared m.stmt name ≠ []) :
    ∃ r, (findInModule env name env.modFuel ext []).1 = .found r := by
  cases hres : (findInModule env name env.modFuel ext []).1 with
  | found r => exact ⟨r, rfl⟩
  | outOfFuel => exact absurd hres (findInModule_start env name ext hext)
  | notFound =>
    exfalso
    have heq : findInModule env name env.modFuel ext [] =
        (.notFound, (findInModule env name env.modFuel ext []).2) := by rw [← hres]
    obtain ⟨he, hin⟩ := findInModule_notFound env name _ _ _ _ hext heq
    exact hdecl (closed_no_decl hid hlink (fun x hx => he.2 x hx (by simp)) hstar hext hin hsch)

/-- a local reference at module level -/
theorem findLocalModules_complete (env : Env) (hid : SeqId env.reg) (hlink : Linked env) (name : String)
    (root : Mod) (hroot : root ∈ env.reg.mods) (hsch : PartOfSchema env.reg root) (m : Mod) (hunit : InUnit env.reg root m)
    (hdecl : declared m.stmt name ≠ []) :
    ∃ r, findLocalModules env root name = .found r := by
  cases hres : findLocalModules env root name with
  | found r => exact ⟨r, rfl⟩
  | outOfFuel => exact absurd hres (findLocalModules_fuel env root name hroot)
  | notFound =>
    exfalso
    unfold findLocalModules at hres
    simp only at hres
    have hmods : ∀ a ∈ (match root.belongsTo? with
        | some b => root :: (env.reg.getModule b).toList
        | none => [root]), a ∈ env.reg.mods := by
      intro a ha
      split at ha
      · cases ha with
        | head => exact hroot
        | tail _ ha =>
          have ha' : a ∈ (env.reg.getModule _).toList := ha
          rw [Option.mem_toList] at ha'
          exact getModule_mem ha'
      · cases ha with
        | head => exact hroot
        | tail _ ha => cases ha
    obtain ⟨he, hin⟩ := firstHit_notFound env name (fun m s => findInModule env name env.modFuel m s) _
      (fun a ha s1 s2 hf => findInModule_notFound env name _ a s1 s2 (hmods a ha) hf) [] _
      (Prod.ext hres rfl)
    have hS : ∀ x ∈ (firstHit (fun m s => findInModule env name env.modFuel m s)
        (match root.belongsTo? with
          | some b => root :: (env.reg.getModule b).toList
          | none => [root]) []).2, Done env name _ x := fun x hx => he.2 x hx (by simp)
    rcases hunit with hstar | ⟨b, o, hb, ho, hstar⟩
    · refine hdecl (closed_no_decl hid hlink hS hstar hroot (hin root ?_) hsch)
      split <;> exact List.mem_cons_self
    · refine hdecl (closed_no_decl hid hlink hS hstar (getModule_mem ho) (hin o ?_) (partOfSchema_getModule ho))
      rw [hb]
      simp only [ho, Option.toList_some]
      exact List.mem_cons_of_mem _ List.mem_cons_self
