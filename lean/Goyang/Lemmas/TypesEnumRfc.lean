import Goyang.Props.C14
import Goyang.Lemmas.Types
import Goyang.Lemmas.TypesFuel
import Goyang.Lemmas.TypesComplete
/-
C09 ∘ C14: the enum / bit tables a resolved type carries are the RFC 7950 tables.

* `enumFold_errs_nil`: the error list of `enumFold` (the resolve loop's errors, positioned at the
  members) is empty only if the error list of the underlying `Enum.foldText` is (every index the
  fold records is the index of a member).
* `enumFold_rfc`: an error-free `enumFold` over written members is the RFC assignment
  (`Spec.Enum.assign` / `table`), through `Goyang.Props.C14.text_fold`.
* `overlayType_folds_nil`: an error-free `Type.resolve` overlay has error-free enum / bit folds.
* `resolve_chain_folds`: an error-free resolution went along a derivation chain whose enum / bit
  folds (those the resolved type shows) are error-free.
-/
namespace Goyang.Lemmas.TypesEnumRfc
open Goyang.Model Goyang.Model.Types Goyang.Spec.Types Goyang.Lemmas.Types

/-! ## The indices the fold records -/

theorem foldFrom_idx (ms : List Enum.Member) : ∀ (e : Enum.EnumType) (idx : Nat),
    ∀ ie ∈ (Enum.foldFrom e idx ms).2, idx ≤ ie.1 ∧ ie.1 < idx + ms.length := by
  induction ms with
  | nil => intro e idx ie h; simp [Enum.foldFrom] at h
  | cons m rest ih =>
    intro e idx ie h
    simp only [Enum.foldFrom] at h
    cases hs : e.step m with
    | ok e' =>
      rw [hs] at h
      have := ih e' (idx + 1) ie h
      simp only [List.length_cons]
      omega
    | error err =>
      rw [hs] at h
      simp only [List.mem_cons] at h
      rcases h with h | h
      · subst h
        simp only [List.length_cons]
        omega
      · have := ih e (idx + 1) ie h
        simp only [List.length_cons]
        omega

theorem foldText_idx (e : Enum.EnumType) (ms : List (Enum.Name × Option (List UInt8))) :
    ∀ ie ∈ (Enum.foldText e ms).2, ie.1 < ms.length := by
  intro ie h
  unfold Enum.foldText Enum.fold at h
  have := (foldFrom_idx _ e 0 ie h).2
  simpa using this

/-- (1) No error of the resolve loop means no error of the fold. -/
theorem enumFold_errs_nil {start : EnumTab} {kw : String} {es : List Stmt}
    (h : (enumFold start kw es).2 = []) :
    (Enum.foldText start (es.map fun e => (bytesOf e.arg, (e.argOf? kw).map bytesOf))).2 = [] := by
  unfold enumFold at h
  simp only at h
  cases hq : (Enum.foldText start (es.map fun e => (bytesOf e.arg, (e.argOf? kw).map bytesOf))).2 with
  | nil => rfl
  | cons ie rest =>
    exfalso
    have hmem : ie ∈ (Enum.foldText start (es.map fun e => (bytesOf e.arg, (e.argOf? kw).map bytesOf))).2 := by
      rw [hq]; exact List.mem_cons_self
    have hlt : ie.1 < es.length := by
      have := foldText_idx _ _ ie hmem
      simpa using this
    rw [hq, List.filterMap_cons, List.getElem?_eq_getElem hlt] at h
    simp at h

/-! ## The RFC reading -/

open Goyang.Spec.Enum Goyang.Spec.Number Goyang.Lemmas.Enum in
/-- (2) An error-free resolve loop over written members (`value` / `position` arguments of the
literal form) builds exactly the RFC 7950 table, and the RFC accepts the type. -/
theorem enumFold_rfc (k : Kind) (kw : String) (es : List Stmt)
    (ms : List (Goyang.Spec.Enum.Name × Option Lit))
    (hform : ∀ p ∈ ms, ∀ l, p.2 = some l → LitForm l)
    (hwritten : es.map (fun e => (bytesOf e.arg, (e.argOf? kw).map bytesOf))
      = ms.map fun p => (p.1, p.2.map Lit.render))
    (herr : (enumFold (new k) kw es).2 = []) :
    assign k (ms.map fun p => (p.1, p.2.map Lit.num))
      = some (table (ms.map fun p => (p.1, p.2.map Lit.num))) ∧
    (enumFold (new k) kw es).1.toInt = (table (ms.map fun p => (p.1, p.2.map Lit.num))).reverse := by
  have h1 := enumFold_errs_nil herr
  have h2 : (enumFold (new k) kw es).1
      = (Enum.foldText (new k) (es.map fun e => (bytesOf e.arg, (e.argOf? kw).map bytesOf))).1 := rfl
  rw [h2]
  rw [hwritten] at h1 ⊢
  obtain ⟨t1, t2⟩ := Goyang.Props.C14.text_fold k ms hform
  refine ⟨?_, t2 h1⟩
  have hne : assign k (ms.map fun p => (p.1, p.2.map Lit.num)) ≠ none := fun hn => (t1.mpr hn) h1
  unfold assign at hne ⊢
  split
  · rfl
  · rename_i hv; rw [if_neg hv] at hne; exact absurd rfl hne

/-! ## Error-free overlays have error-free folds -/

theorem stepEnum_fold_nil {t : Stmt} {s : St} (h : (stepEnum t s).2 = [])
    (hne : (t.all "enum").isEmpty = false) : (enumFold newEnum "value" (t.all "enum")).2 = [] := by
  unfold stepEnum at h
  cases hq : t.all "enum" with
  | nil => rw [hq] at hne; simp at hne
  | cons a l =>
    rw [hq] at h
    simp only at h
    exact (List.append_eq_nil_iff.mp h).2

theorem stepBit_fold_nil {t : Stmt} {s : St} (h : (stepBit t s).2 = [])
    (hne : (t.all "bit").isEmpty = false) : (enumFold newBits "position" (t.all "bit")).2 = [] := by
  unfold stepBit at h
  cases hq : t.all "bit" with
  | nil => rw [hq] at hne; simp at hne
  | cons a l =>
    rw [hq] at h
    simp only at h
    exact (List.append_eq_nil_iff.mp h).2

theorem overlayLocal_folds_nil {env : Env} {root : Mod} {t : Stmt} {src : Source} {tdY : YType} {s : St}
    (h : (overlayLocal env root t src tdY s).2 = []) :
    ((t.all "enum").isEmpty = false → (enumFold newEnum "value" (t.all "enum")).2 = []) ∧
    ((t.all "bit").isEmpty = false → (enumFold newBits "position" (t.all "bit")).2 = []) := by
  unfold overlayLocal at h
  simp only [] at h
  rw [stepPattern_errs] at h
  exact ⟨stepEnum_fold_nil (stepBit_errs_nil h), stepBit_fold_nil h⟩

/-- An error-free `Type.resolve` overlay: the enum loop and the bit loop reported nothing. -/
theorem overlayType_folds_nil {env : Env} {root : Mod} {t : Stmt} {src : Source} {tdY : YType}
    {ms : List Res} (h : (overlayType env root t src tdY ms).errs = []) :
    ((t.all "enum").isEmpty = false → (enumFold newEnum "value" (t.all "enum")).2 = []) ∧
    ((t.all "bit").isEmpty = false → (enumFold newBits "position" (t.all "bit")).2 = []) := by
  unfold overlayType at h
  simp only at h
  split at h
  · simp at h
  · split at h
    · simp at h
    · exact overlayLocal_folds_nil (stepPosix_errs_nil (stepMembers_errs_nil h))

/-! ## Along the derivation chain -/

theorem chainEnums_ty_cons (root : Mod) (scope : List Stmt) (t : Stmt) (chain : List Link) :
    chainEnums (.ty root scope t :: chain)
      = if (t.all "enum").isEmpty then chainEnums chain else some (t.all "enum") := by
  simp only [chainEnums, List.findSome?_cons]
  cases hq : (t.all "enum").isEmpty <;> simp

theorem chainEnums_td_cons (d : Stmt) (chain : List Link) : chainEnums (.td d :: chain) = chainEnums chain := by
  simp only [chainEnums, List.findSome?_cons]

theorem chainBits_ty_cons (root : Mod) (scope : List Stmt) (t : Stmt) (chain : List Link) :
    chainBits (.ty root scope t :: chain)
      = if (t.all "bit").isEmpty then chainBits chain else some (t.all "bit") := by
  simp only [chainBits, List.findSome?_cons]
  cases hq : (t.all "bit").isEmpty <;> simp

theorem chainBits_td_cons (d : Stmt) (chain : List Link) : chainBits (.td d :: chain) = chainBits chain := by
  simp only [chainBits, List.findSome?_cons]

/-- One level of the chain: what the overlay adds to the enum / bit part of the claim. -/
theorem level_folds {env : Env} {root : Mod} {scope : List Stmt} {t : Stmt} {src : Source} {tdY y : YType}
    {ms : List Res} {rest : List Link}
    (h : overlayType env root t src tdY ms = { ty := some y, errs := [] })
    (hen : tdY.enum = (chainEnums rest).map (fun es => (enumFold newEnum "value" es).1))
    (hbi : tdY.bit = (chainBits rest).map (fun bs => (enumFold newBits "position" bs).1))
    (hE : ∀ es, chainEnums rest = some es → (enumFold newEnum "value" es).2 = [])
    (hB : ∀ bs, chainBits rest = some bs → (enumFold newBits "position" bs).2 = []) :
    y.enum = (chainEnums (.ty root scope t :: rest)).map (fun es => (enumFold newEnum "value" es).1) ∧
    y.bit = (chainBits (.ty root scope t :: rest)).map (fun bs => (enumFold newBits "position" bs).1) ∧
    (∀ es, chainEnums (.ty root scope t :: rest) = some es → (enumFold newEnum "value" es).2 = []) ∧
    (∀ bs, chainBits (.ty root scope t :: rest) = some bs → (enumFold newBits "position" bs).2 = []) := by
  obtain ⟨_, _, _, _, _, _, a7, a8, _, _⟩ := overlay_attrs h
  have herrs : (overlayType env root t src tdY ms).errs = [] := by rw [h]
  obtain ⟨f1, f2⟩ := overlayType_folds_nil herrs
  rw [chainEnums_ty_cons, chainBits_ty_cons]
  refine ⟨?_, ?_, ?_, ?_⟩
  · rw [a7, hen]; split <;> simp
  · rw [a8, hbi]; split <;> simp
  · intro es hes
    split at hes
    · exact hE es hes
    · rename_i hne
      simp only [Option.some.injEq] at hes
      subst hes
      exact f1 (by simpa using hne)
  · intro bs hbs
    split at hbs
    · exact hB bs hbs
    · rename_i hne
      simp only [Option.some.injEq] at hbs
      subst hbs
      exact f2 (by simpa using hne)

/-- (3) An error-free resolution went along a derivation chain; the enum / bit tables of the
resolved type are those of the nearest type statement of the chain that lists members, and the
resolve loop reported no error for them (so `enumFold_rfc` applies to them). -/
theorem resolve_chain_folds (env : Env) :
    ∀ (fuel : Nat) (root : Mod) (scope : List Stmt) (t : Stmt) (stack : List TypeKey) (y : YType),
      scopeKinds.contains t.kw = false →
      resolveTypeF env fuel root scope t stack = { ty := some y, errs := [] } →
      ∃ kind chain, DerivesFrom env.reg root scope t kind chain ∧
        y.enum = (chainEnums chain).map (fun es => (enumFold newEnum "value" es).1) ∧
        y.bit = (chainBits chain).map (fun bs => (enumFold newBits "position" bs).1) ∧
        (∀ es, chainEnums chain = some es → (enumFold newEnum "value" es).2 = []) ∧
        (∀ bs, chainBits chain = some bs → (enumFold newBits "position" bs).2 = []) := by
  intro fuel
  induction fuel with
  | zero => intro root scope t stack y _ h; simp [resolveTypeF] at h
  | succ fuel ih =>
    intro root scope t stack y ht h
    unfold resolveTypeF at h
    simp only at h
    split at h
    · simp at h
    · split at h
      · simp at h
      · -- a built-in type
        rename_i y0 hl
        have hb0 : builtin? t.arg = some y0 := by
          unfold lookup at hl
          split at hl
          · rename_i y' hy; simp only [Bound.builtin.injEq] at hl; rw [← hl]; exact hy
          · simp only at hl
            split at hl
            · split at hl
              · cases hl
              · split at hl <;> cases hl
            · split at hl
              · cases hl
              · split at hl <;> cases hl
        obtain ⟨_, _, _, _, _, _, _, _, hen, hbi, _, _⟩ := builtin_shape hb0
        refine ⟨t.arg, [.ty root scope t], DerivesFrom.builtin (builtin_some hb0), ?_⟩
        exact level_folds (rest := []) h (by rw [hen]; rfl) (by rw [hbi]; rfl)
          (fun es hes => by simp [chainEnums] at hes) (fun bs hbs => by simp [chainBits] at hbs)
      · -- derived from a typedef
        rename_i src r hl
        split at h
        · simp at h
        · rename_i tt htt
          split at h
          · rename_i hbase
            simp only [Res.mk.injEq] at h
            rw [h.2] at hbase
            simp at hbase
          · rename_i hbase
            split at h
            · simp at h
            · rename_i bty hbty
              have hbase' : resolveTypeF env fuel r.root (r.td :: r.scope) tt (typeKey root t :: stack)
                  = { ty := some bty, errs := [] } := by
                have he : (resolveTypeF env fuel r.root (r.td :: r.scope) tt (typeKey root t :: stack)).errs = [] := by
                  simpa using hbase
                rw [← he, ← hbty]
              split at h
              · rename_i hne
                simp only [Res.mk.injEq] at h
                rw [h.2] at hne
                simp at hne
              · rename_i htdr
                split at h
                · simp at h
                · rename_i tdY htdY
                  have htd : typedefOverlay env r.root r.td tt bty = { ty := some tdY, errs := [] } := by
                    have he : (typedefOverlay env r.root r.td tt bty).errs = [] := by simpa using htdr
                    rw [← he, ← htdY]
                  obtain ⟨kind, chain, hder, hen, hbi, hE, hB⟩ :=
                    ih r.root (r.td :: r.scope) tt _ bty (type_not_scope (kw_of_one htt)) hbase'
                  obtain ⟨_, _, _, _, _, _, _, b8, b9, _, _⟩ := typedefOverlay_ok htd
                  refine ⟨kind, .ty root scope t :: .td r.td :: chain,
                    DerivesFrom.derived r.root r.td r.scope tt kind chain
                      (Goyang.Lemmas.TypesComplete.lookup_binds env root scope t ht src r hl) htt hder, ?_⟩
                  exact level_folds (rest := .td r.td :: chain) h
                    (by rw [b8, hen, chainEnums_td_cons]) (by rw [b9, hbi, chainBits_td_cons])
                    (by rw [chainEnums_td_cons]; exact hE) (by rw [chainBits_td_cons]; exact hB)

end Goyang.Lemmas.TypesEnumRfc
