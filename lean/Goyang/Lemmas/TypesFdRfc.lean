import Goyang.Props.C15
import Goyang.Lemmas.Types
import Goyang.Lemmas.TypesFuel
import Goyang.Lemmas.TypesComplete
/-
C09 ∘ C15: the fraction-digits a resolved type carries are the written integer.

* `overlay_fd_ok`: in an error-free `Type.resolve` overlay a `fraction-digits` substatement was
  accepted by `asRangeInt(1, 18)` (a rejected one, one on a type that is not a direct decimal64, and
  one restated on a type derived from a decimal64 typedef are all errors).
* `resolve_chain_fd`: an error-free resolution went along a derivation chain, the resolved type has
  the fraction-digits of the nearest type statement of the chain that states them, and that
  statement's argument was accepted by `asRangeInt(1, 18)`.
* `fd_written`: through C15's `asRangeInt_exact`, the accepted value is the integer written, in 1..18.
-/
namespace Goyang.Lemmas.TypesFdRfc
open Goyang.Model Goyang.Model.Types Goyang.Spec.Types Goyang.Lemmas.Types

/-! ## One overlay -/

/-- An error-free overlay accepted its `fraction-digits` substatement. -/
theorem overlay_fd_ok {env : Env} {root : Mod} {t : Stmt} {src : Source} {tdY : YType} {ms : List Res} {y : YType}
    (h : overlayType env root t src tdY ms = { ty := some y, errs := [] })
    {f : Stmt} (hf : t.one? "fraction-digits" = some f) :
    ∃ i, Number.asRangeInt (some (bytesOf f.arg)) 1 18 = .ok i := by
  obtain ⟨hc, pps, _, _, herrs⟩ := overlayType_ok h
  have hk := overlayLocal_errs_nil (stepPosix_errs_nil (stepMembers_errs_nil herrs))
  have hs : (startSt t tdY).2 = [] := stepKind_errs_nil hk
  have hc' : ¬ ((isDecimal64 t tdY && (startSt t tdY).1.fractionDigits != 0) = true) := by
    intro hx
    apply hc
    rw [hf]
    simpa using hx
  unfold stepKind at hk
  simp only [] at hk
  rw [hf] at hk
  rw [if_neg hc'] at hk
  split at hk
  · simp only [Option.map_some] at hk
    cases hi : Number.asRangeInt (some (bytesOf f.arg)) 1 18 with
    | ok i => exact ⟨i, rfl⟩
    | error e => rw [hi] at hk; simp at hk
  · simp at hk

/-! ## Along the derivation chain -/

theorem chainFd_ty_some {root : Mod} {scope : List Stmt} {t : Stmt} {rest : List Link} {f : Stmt}
    (hq : t.one? "fraction-digits" = some f) : chainFractionDigits (.ty root scope t :: rest) = some f := by
  simp [chainFractionDigits, hq]

theorem chainFd_ty_none {root : Mod} {scope : List Stmt} {t : Stmt} {rest : List Link}
    (hq : t.one? "fraction-digits" = none) :
    chainFractionDigits (.ty root scope t :: rest) = chainFractionDigits rest := by
  simp [chainFractionDigits, hq]

theorem chainFd_td_cons (d : Stmt) (chain : List Link) :
    chainFractionDigits (.td d :: chain) = chainFractionDigits chain := by
  simp only [chainFractionDigits, List.findSome?_cons]

/-- One level of the chain. -/
theorem level_fd {env : Env} {root : Mod} {scope : List Stmt} {t : Stmt} {src : Source} {tdY y : YType}
    {ms : List Res} {rest : List Link}
    (h : overlayType env root t src tdY ms = { ty := some y, errs := [] })
    (hfd : tdY.fractionDigits = ((chainFractionDigits rest).map parseFd).getD 0)
    (hF : ∀ f, chainFractionDigits rest = some f → ∃ i, Number.asRangeInt (some (bytesOf f.arg)) 1 18 = .ok i) :
    y.fractionDigits = ((chainFractionDigits (.ty root scope t :: rest)).map parseFd).getD 0 ∧
    (∀ f, chainFractionDigits (.ty root scope t :: rest) = some f →
      ∃ i, Number.asRangeInt (some (bytesOf f.arg)) 1 18 = .ok i) := by
  obtain ⟨_, _, _, _, _, _, _, _, a9, _⟩ := overlay_attrs h
  cases hq : t.one? "fraction-digits" with
  | none =>
    rw [chainFd_ty_none hq]
    rw [hq] at a9
    exact ⟨by rw [a9, hfd], hF⟩
  | some f0 =>
    rw [chainFd_ty_some hq]
    rw [hq] at a9
    refine ⟨by rw [a9]; rfl, ?_⟩
    intro f hf'
    simp only [Option.some.injEq] at hf'
    subst hf'
    exact overlay_fd_ok h hq

/-- The induction: the chain, the inherited fraction-digits, and acceptance of the statement. -/
theorem resolve_chain_fd_ok (env : Env) :
    ∀ (fuel : Nat) (root : Mod) (scope : List Stmt) (t : Stmt) (stack : List TypeKey) (y : YType),
      scopeKinds.contains t.kw = false →
      resolveTypeF env fuel root scope t stack = { ty := some y, errs := [] } →
      ∃ kind chain, DerivesFrom env.reg root scope t kind chain ∧
        y.fractionDigits = ((chainFractionDigits chain).map parseFd).getD 0 ∧
        ∀ f, chainFractionDigits chain = some f →
          ∃ i, Number.asRangeInt (some (bytesOf f.arg)) 1 18 = .ok i := by
  intro fuel
  induction fuel with
  | zero => intro root scope t stack y _ h; simp [resolveTypeF] at h
  | succ fuel ih =>
    intro root scope t stack y ht h
    unfold resolveTypeF at h
    simp only at h
    split at h
    · simp at h
    · split at h
      · simp at h
      · -- a built-in type
        rename_i y0 hl
        have hb0 : builtin? t.arg = some y0 := by
          unfold lookup at hl
          split at hl
          · rename_i y' hy; simp only [Bound.builtin.injEq] at hl; rw [← hl]; exact hy
          · simp only at hl
            split at hl
            · split at hl
              · cases hl
              · split at hl <;> cases hl
            · split at hl
              · cases hl
              · split at hl <;> cases hl
        obtain ⟨_, _, _, _, _, _, _, _, _, _, _, hfd⟩ := builtin_shape hb0
        refine ⟨t.arg, [.ty root scope t], DerivesFrom.builtin (builtin_some hb0), ?_⟩
        exact level_fd (rest := []) h (by rw [hfd]; rfl)
          (fun f hf => by simp [chainFractionDigits] at hf)
      · -- derived from a typedef
        rename_i src r hl
        split at h
        · simp at h
        · rename_i tt htt
          split at h
          · rename_i hbase
            simp only [Res.mk.injEq] at h
            rw [h.2] at hbase
            simp at hbase
          · rename_i hbase
            split at h
            · simp at h
            · rename_i bty hbty
              have hbase' : resolveTypeF env fuel r.root (r.td :: r.scope) tt (typeKey root t :: stack)
                  = { ty := some bty, errs := [] } := by
                have he : (resolveTypeF env fuel r.root (r.td :: r.scope) tt (typeKey root t :: stack)).errs = [] := by
                  simpa using hbase
                rw [← he, ← hbty]
              split at h
              · rename_i hne
                simp only [Res.mk.injEq] at h
                rw [h.2] at hne
                simp at hne
              · rename_i htdr
                split at h
                · simp at h
                · rename_i tdY htdY
                  have htd : typedefOverlay env r.root r.td tt bty = { ty := some tdY, errs := [] } := by
                    have he : (typedefOverlay env r.root r.td tt bty).errs = [] := by simpa using htdr
                    rw [← he, ← htdY]
                  obtain ⟨kind, chain, hder, hfd, hF⟩ :=
                    ih r.root (r.td :: r.scope) tt _ bty (type_not_scope (kw_of_one htt)) hbase'
                  obtain ⟨_, _, _, _, _, _, _, _, _, _, b11⟩ := typedefOverlay_ok htd
                  refine ⟨kind, .ty root scope t :: .td r.td :: chain,
                    DerivesFrom.derived r.root r.td r.scope tt kind chain
                      (Goyang.Lemmas.TypesComplete.lookup_binds env root scope t ht src r hl) htt hder, ?_⟩
                  exact level_fd (rest := .td r.td :: chain) h
                    (by rw [b11, hfd, chainFd_td_cons]) (by rw [chainFd_td_cons]; exact hF)

/-- (1) An error-free resolution went along a derivation chain; the resolved type has the
fraction-digits of the nearest type statement of the chain that states them, and `asRangeInt(1, 18)`
accepted that statement's argument. -/
theorem resolve_chain_fd (env : Env) :
    ∀ (fuel : Nat) (root : Mod) (scope : List Stmt) (t : Stmt) (stack : List TypeKey) (y : YType),
      scopeKinds.contains t.kw = false →
      resolveTypeF env fuel root scope t stack = { ty := some y, errs := [] } →
      ∃ kind chain, DerivesFrom env.reg root scope t kind chain ∧
        y.fractionDigits = ((chainFractionDigits chain).map parseFd).getD 0 ∧
        ∀ f, chainFractionDigits chain = some f →
          ∃ i, Number.asRangeInt (some (bytesOf f.arg)) 1 18 = .ok i ∧ y.fractionDigits = i.toNat := by
  intro fuel root scope t stack y ht h
  obtain ⟨kind, chain, hder, hfd, hF⟩ := resolve_chain_fd_ok env fuel root scope t stack y ht h
  refine ⟨kind, chain, hder, hfd, ?_⟩
  intro f hf
  obtain ⟨i, hi⟩ := hF f hf
  refine ⟨i, hi, ?_⟩
  rw [hfd, hf]
  simp only [Option.map_some, Option.getD_some]
  unfold parseFd
  rw [hi]

/-! ## The C15 reading -/

open Goyang.Spec.Number in
/-- (2) A `fraction-digits` argument written as an integer literal (`[sign] digits`, no superfluous
leading zeros) that `asRangeInt(1, 18)` accepted as `i`: `i` is the integer written and lies in
1..18. -/
theorem fd_written {f : Stmt} {l : Lit} {i : Int}
    (hd : l.digitsOK) (hip : l.ip ≠ []) (hfp : l.fp = none) (hz : l.noLeadingZero)
    (hw : bytesOf f.arg = l.render) (h : Number.asRangeInt (some (bytesOf f.arg)) 1 18 = .ok i) :
    l.num = i ∧ 1 ≤ i ∧ i ≤ 18 := by
  rw [hw] at h
  exact (Goyang.Props.C15.asRangeInt_exact l 1 18 i hd hip hfp hz (by decide) (by decide)).mp h

end Goyang.Lemmas.TypesFdRfc
