import Goyang.Lemmas.Types
/-
The recursion budgets of the type layer suffice (property C09, theorem `fuel_suffices`): with the
fuel `Env.of` supplies, neither the walk over a module and its submodules nor the resolution of a
type statement that stands in the loaded set ever runs out of fuel.

Idea: the types in progress (`stack`) are pairwise different identities of `type` statements of
the loaded set, so there are never more of them than `allTypeKeys reg` has entries; the modules
already searched (`seen`) are pairwise different sequence numbers of loaded modules.
-/
namespace Goyang.Lemmas.TypesFuel
open Goyang.Model Goyang.Model.Types Goyang.Spec.Types Goyang.Lemmas.Types

/-! ## Pigeonhole -/

theorem nodup_subset_length {α : Type} [DecidableEq α] :
    ∀ (l l' : List α), l.Nodup → l ⊆ l' → l.length ≤ l'.length := by
  intro l
  induction l with
  | nil => intro l' _ _; simp
  | cons a l ih =>
    intro l' hnd hsub
    have ha : a ∈ l' := hsub List.mem_cons_self
    have hnd' := List.nodup_cons.mp hnd
    have hsub' : l ⊆ l'.erase a := by
      intro x hx
      have hne : x ≠ a := fun e => hnd'.1 (e ▸ hx)
      exact (List.mem_erase_of_ne hne).mpr (hsub (List.mem_cons_of_mem _ hx))
    have := ih (l'.erase a) hnd'.2 hsub'
    rw [List.length_erase_of_mem ha] at this
    have hpos : 0 < l'.length := List.length_pos_of_mem ha
    simp only [List.length_cons]
    omega

/-! ## Statements below a statement -/

theorem self_mem_descendants (s : Stmt) : s ∈ descendants s := by
  cases s with
  | mk kw ha a f l c subs => simp [descendants]

mutual
theorem trans_stmt (a b : Stmt) (hab : a ∈ descendants b) : ∀ (c : Stmt), b ∈ descendants c → a ∈ descendants c
  | .mk kw ha ar f l col subs, h => by
    simp only [descendants, List.mem_cons] at h ⊢
    rcases h with h | h
    · subst h
      simpa only [descendants, List.mem_cons] using hab
    · exact Or.inr (trans_list a b hab subs h)
theorem trans_list (a b : Stmt) (hab : a ∈ descendants b) : ∀ (l : List Stmt), b ∈ descendantsL l → a ∈ descendantsL l
  | [], h => by simp [descendantsL] at h
  | s :: rest, h => by
    simp only [descendantsL, List.mem_append] at h ⊢
    rcases h with h | h
    · exact Or.inl (trans_stmt a b hab s h)
    · exact Or.inr (trans_list a b hab rest h)
end

theorem mem_descendantsL {x : Stmt} : ∀ {l : List Stmt}, x ∈ l → x ∈ descendantsL l := by
  intro l
  induction l with
  | nil => intro h; cases h
  | cons s rest ih =>
    intro h
    simp only [descendantsL, List.mem_append]
    cases h with
    | head => exact Or.inl (self_mem_descendants _)
    | tail _ h => exact Or.inr (ih h)

theorem child_mem_descendants {p x : Stmt} (h : x ∈ p.subs) : x ∈ descendants p := by
  cases p with
  | mk kw ha a f l c subs =>
    simp only [descendants, List.mem_cons]
    exact Or.inr (mem_descendantsL h)

/-- A child of a statement below `c` is below `c`. -/
theorem child_below {c n x : Stmt} (hn : n ∈ descendants c) (hx : x ∈ n.subs) : x ∈ descendants c :=
  trans_stmt x n (child_mem_descendants hx) c hn

theorem one_mem_subs {s c : Stmt} {k : String} (h : s.one? k = some c) : c ∈ s.subs := by
  unfold Stmt.one? at h
  exact List.mem_of_find?_eq_some h

theorem all_mem_subs {s c : Stmt} {k : String} (h : c ∈ s.all k) : c ∈ s.subs := by
  unfold Stmt.all at h
  exact (List.mem_filter.mp h).1

theorem declared_mem_subs {n td : Stmt} {name : String} (h : td ∈ declared n name) : td ∈ n.subs := by
  unfold declared at h
  split at h
  · exact (List.mem_filter.mp h).1
  · cases h

/-- The identity of a `type` statement of a loaded module is in the list of all of them. -/
theorem key_mem {reg : Registry} {m : Mod} {t : Stmt} (hm : m ∈ reg.mods) (ht : t ∈ descendants m.stmt)
    (hkw : t.kw = "type") : typeKey m t ∈ allTypeKeys reg := by
  unfold allTypeKeys typeKeysOf
  rw [List.mem_flatMap]
  refine ⟨m, hm, List.mem_map_of_mem ?_⟩
  rw [List.mem_filter]
  exact ⟨ht, by simp [hkw]⟩

/-! ## Modules the registry hands out are loaded modules -/

theorem byId_mem {reg : Registry} {id : Nat} {m : Mod} (h : reg.byId id = some m) : m ∈ reg.mods := by
  unfold Registry.byId at h
  exact List.mem_of_find?_eq_some h

theorem getModule_mem {reg : Registry} {k : String} {m : Mod} (h : reg.getModule k = some m) : m ∈ reg.mods := by
  unfold Registry.getModule at h
  rw [Option.bind_eq_some_iff] at h
  obtain ⟨id, _, h⟩ := h
  exact byId_mem h

theorem getSub_mem {reg : Registry} {k : String} {m : Mod} (h : reg.getSub k = some m) : m ∈ reg.mods := by
  unfold Registry.getSub at h
  rw [Option.bind_eq_some_iff] at h
  obtain ⟨id, _, h⟩ := h
  exact byId_mem h

theorem findModule_mem {reg : Registry} {inc : Bool} {i : Stmt} {m : Mod} (h : reg.findModule inc i = some m) :
    m ∈ reg.mods := by
  unfold Registry.findModule at h
  simp only at h
  cases inc with
  | true =>
    simp only [if_true] at h
    split at h
    · rename_i m' hm'; cases h; exact getSub_mem hm'
    · exact getSub_mem h
  | false =>
    simp only [Bool.false_eq_true, if_false] at h
    split at h
    · rename_i m' hm'; cases h; exact getModule_mem hm'
    · exact getModule_mem h

theorem includeTargets_mem {env : Env} {m im : Mod} (h : im ∈ env.includeTargets m) : im ∈ env.reg.mods := by
  have := includeTargets_sub env m im h
  unfold Includes includesOf at this
  rw [List.mem_filterMap] at this
  obtain ⟨s, _, hs⟩ := this
  exact findModule_mem hs

theorem includesStar_mem {reg : Registry} {a b : Mod} (h : IncludesStar reg a b) (ha : a ∈ reg.mods) : b ∈ reg.mods := by
  induction h with
  | refl a => exact ha
  | head hinc _ ih =>
    apply ih
    unfold Includes includesOf at hinc
    rw [List.mem_filterMap] at hinc
    obtain ⟨s, _, hs⟩ := hinc
    exact findModule_mem hs

/-! ## No error of the class "out-of-fuel" -/

/-- None of the errors is the report of an exhausted recursion budget. -/
def NoOof (l : List Err) : Prop := ∀ e ∈ l, e.cls ≠ "out-of-fuel"

theorem NoOof.nil : NoOof [] := fun _ h => by cases h

theorem NoOof.append {a b : List Err} (ha : NoOof a) (hb : NoOof b) : NoOof (a ++ b) := by
  intro e he
  rcases List.mem_append.mp he with h | h
  · exact ha e h
  · exact hb e h

theorem NoOof.appendNew {a b : List Err} (ha : NoOof a) (hb : NoOof b) : NoOof (appendNewErrs a b) := by
  intro e he
  rcases (mem_appendNewErrs e b a).mp he with h | h
  · exact ha e h
  · exact hb e h

theorem NoOof.single {e : Err} (h : e.cls ≠ "out-of-fuel") : NoOof [e] := by
  intro e' he'
  rw [List.mem_singleton] at he'
  rw [he']; exact h

theorem NoOof.snoc {a : List Err} {e : Err} (ha : NoOof a) (h : e.cls ≠ "out-of-fuel") : NoOof (a ++ [e]) :=
  ha.append (NoOof.single h)

theorem at_cls (s : Stmt) (c : String) : (Err.at_ s c).cls = c := rfl
theorem bare_cls (c : String) : (Err.bare c).cls = c := rfl

theorem idbase_noOof {reg : Registry} {dict : Identity.Dict} {root : Mod} {b : String} {e : Err}
    (h : Identity.findIdentityBase reg dict root b = .error e) : e.cls ≠ "out-of-fuel" := by
  unfold Identity.findIdentityBase at h
  simp only [] at h
  repeat' (split at h)
  all_goals (first
    | (cases h; done)
    | (simp only [Except.error.injEq] at h; rw [← h]; first | (rw [at_cls]; decide) | (rw [bare_cls]; decide)))

theorem enumErrClass_noOof (e : Enum.EnumErr) : enumErrClass e ≠ "out-of-fuel" := by
  cases e <;> (simp only [enumErrClass]; decide)

theorem enumFold_noOof (start : EnumTab) (kw : String) (ms : List Stmt) : NoOof (enumFold start kw ms).2 := by
  intro e he
  unfold enumFold at he
  simp only [List.mem_filterMap] at he
  obtain ⟨ie, _, hie⟩ := he
  cases hq : ms[ie.1]? with
  | none => rw [hq] at hie; cases hie
  | some m =>
    rw [hq] at hie
    simp only [Option.map_some, Option.some.injEq] at hie
    rw [← hie, at_cls]
    exact enumErrClass_noOof _

theorem stepRequireInstance_noOof {t : Stmt} {s : St} (h : NoOof s.2) : NoOof (stepRequireInstance t s).2 := by
  unfold stepRequireInstance
  repeat' split
  all_goals (first | exact h | exact h.snoc (by rw [bare_cls]; decide))

theorem stepKind_noOof {env : Env} {root : Mod} {t : Stmt} {src : Source} {dec : Bool} {s : St} (h : NoOof s.2) :
    NoOof (stepKind env root t src dec s).2 := by
  unfold stepKind
  simp only []
  repeat' split
  all_goals (first
    | exact h
    | exact h.snoc (by rw [at_cls]; decide)
    | (rename_i e he; exact h.snoc (idbase_noOof he)))

theorem stepRange_noOof {t : Stmt} {dec : Bool} {s : St} (h : NoOof s.2) : NoOof (stepRange t dec s).2 := by
  unfold stepRange
  repeat' split
  all_goals (first | exact h | exact h.snoc (by rw [at_cls]; decide))

theorem stepLength_noOof {t : Stmt} {s : St} (h : NoOof s.2) : NoOof (stepLength t s).2 := by
  unfold stepLength
  repeat' split
  all_goals (first | exact h | exact h.snoc (by rw [at_cls]; decide))

theorem stepEnum_noOof {t : Stmt} {s : St} (h : NoOof s.2) : NoOof (stepEnum t s).2 := by
  unfold stepEnum
  split
  · exact h
  · exact h.append (enumFold_noOof _ _ _)

theorem stepBit_noOof {t : Stmt} {s : St} (h : NoOof s.2) : NoOof (stepBit t s).2 := by
  unfold stepBit
  split
  · exact h
  · exact h.append (enumFold_noOof _ _ _)

theorem stepPosix_noOof {env : Env} {pps : List Stmt} {s : St} (h : NoOof s.2) : NoOof (stepPosix env pps s).2 := by
  unfold stepPosix
  apply h.append
  intro e he
  simp only [List.mem_map] at he
  obtain ⟨x, _, hx⟩ := he
  rw [← hx, at_cls]; decide

theorem overlayType_noOof {env : Env} {root : Mod} {t : Stmt} {src : Source} {tdY : YType} {ms : List Res}
    (hms : ∀ r ∈ ms, NoOof r.errs) : NoOof (overlayType env root t src tdY ms).errs := by
  have h1 : NoOof (startSt t tdY).2 := by
    unfold startSt
    rw [stepPath_errs]
    exact stepRequireInstance_noOof NoOof.nil
  unfold overlayType
  simp only []
  split
  · exact NoOof.snoc h1 (by rw [at_cls]; decide)
  · split
    · exact NoOof.single (by rw [bare_cls]; decide)
    · unfold stepMembers
      simp only
      apply NoOof.appendNew
      · apply stepPosix_noOof
        unfold overlayLocal
        simp only []
        rw [stepPattern_errs]
        exact stepBit_noOof (stepEnum_noOof (stepLength_noOof (stepRange_noOof (stepKind_noOof h1))))
      · intro e he
        rw [List.mem_flatMap] at he
        obtain ⟨r, hr, her⟩ := he
        exact hms r hr e her

theorem typedefOverlay_noOof {env : Env} {root : Mod} {td tt : Stmt} {ty : YType} :
    NoOof (typedefOverlay env root td tt ty).errs := by
  unfold typedefOverlay
  split
  · exact NoOof.single (by rw [bare_cls]; decide)
  · exact NoOof.nil

/-! ## The walk over a module and its submodules never runs out of fuel -/

/-- Sequence numbers of the loaded modules. -/
def seqs (env : Env) : List Nat := env.reg.mods.map (·.seq)

/-- Invariant of the visited set: pairwise different sequence numbers of loaded modules, at
least `k` of them, and enough fuel left for the rest. -/
def SeenOk (env : Env) (fuel k : Nat) (seen : List Nat) : Prop :=
  seen.Nodup ∧ (∀ x ∈ seen, x ∈ seqs env) ∧ k ≤ seen.length ∧ (seqs env).length + 1 ≤ fuel + seen.length

theorem SeenOk.mono {env : Env} {fuel k k' : Nat} {seen : List Nat} (h : SeenOk env fuel k seen) (hk : k' ≤ k) :
    SeenOk env fuel k' seen := ⟨h.1, h.2.1, Nat.le_trans hk h.2.2.1, h.2.2.2⟩

theorem firstHit_inv {α : Type} (P : List Nat → Prop) (f : α → List Nat → Lookup × List Nat) :
    ∀ (l : List α), (∀ a ∈ l, ∀ s, P s → (f a s).1 ≠ .outOfFuel ∧ P (f a s).2) →
      ∀ s, P s → (firstHit f l s).1 ≠ .outOfFuel ∧ P (firstHit f l s).2 := by
  intro l
  induction l with
  | nil => intro _ s hs; exact ⟨by simp [firstHit], by simpa [firstHit] using hs⟩
  | cons a rest ih =>
    intro hf s hs
    have ha := hf a List.mem_cons_self s hs
    unfold firstHit
    split
    · rename_i s' heq
      have : (f a s).2 = s' := by rw [heq]
      rw [this] at ha
      exact ih (fun b hb => hf b (List.mem_cons_of_mem _ hb)) s' ha.2
    · rename_i hne
      exact ha

theorem findInModule_fuel (env : Env) (name : String) :
    ∀ (fuel : Nat) (m : Mod) (seen : List Nat), m ∈ env.reg.mods → SeenOk env fuel seen.length seen →
      (findInModule env name fuel m seen).1 ≠ .outOfFuel ∧
      SeenOk env fuel seen.length (findInModule env name fuel m seen).2 := by
  intro fuel
  induction fuel with
  | zero =>
    intro m seen _ hs
    have := nodup_subset_length seen (seqs env) hs.1 hs.2.1
    have h4 := hs.2.2.2
    omega
  | succ fuel ih =>
    intro m seen hm hs
    unfold findInModule
    split
    · exact ⟨by simp, hs⟩
    · rename_i hc
      have hnotin : m.seq ∉ seen := by simpa using hc
      have hs' : SeenOk env fuel (m.seq :: seen).length (m.seq :: seen) := by
        refine ⟨List.nodup_cons.mpr ⟨hnotin, hs.1⟩, ?_, Nat.le_refl _, ?_⟩
        · intro x hx
          cases hx with
          | head => exact List.mem_map_of_mem hm
          | tail _ hx => exact hs.2.1 x hx
        · have := hs.2.2.2
          simp only [List.length_cons]
          omega
      have hup : ∀ {s : List Nat}, SeenOk env fuel (m.seq :: seen).length s → SeenOk env (fuel + 1) seen.length s := by
        intro s h
        refine ⟨h.1, h.2.1, ?_, ?_⟩
        · have := h.2.2.1; simp only [List.length_cons] at this; omega
        · have := h.2.2.2; omega
      simp only
      split
      · exact ⟨by simp, hup hs'⟩
      · have := firstHit_inv (SeenOk env fuel (m.seq :: seen).length)
          (fun im s => findInModule env name fuel im s) (env.includeTargets m)
          (by
            intro im him s hsok
            have hsok' : SeenOk env fuel s.length s := ⟨hsok.1, hsok.2.1, Nat.le_refl _, hsok.2.2.2⟩
            obtain ⟨h1, h2⟩ := ih im s (includeTargets_mem him) hsok'
            exact ⟨h1, h2.mono hsok.2.2.1⟩)
          (m.seq :: seen) hs'
        exact ⟨this.1, hup this.2⟩

theorem seqs_length (env : Env) : (seqs env).length = env.reg.mods.length := by simp [seqs]

theorem findInModule_start (env : Env) (name : String) (m : Mod) (hm : m ∈ env.reg.mods) :
    (findInModule env name env.modFuel m []).1 ≠ .outOfFuel := by
  refine (findInModule_fuel env name env.modFuel m [] hm ?_).1
  refine ⟨List.nodup_nil, (by intro x hx; cases hx), Nat.le_refl _, ?_⟩
  rw [seqs_length]; simp [Env.modFuel]

theorem findLocalModules_fuel (env : Env) (root : Mod) (name : String) (hroot : root ∈ env.reg.mods) :
    findLocalModules env root name ≠ .outOfFuel := by
  unfold findLocalModules
  simp only
  have hmods : ∀ m ∈ (match root.belongsTo? with
      | some b => root :: (env.reg.getModule b).toList
      | none => [root]), m ∈ env.reg.mods := by
    intro m hm
    split at hm
    · cases hm with
      | head => exact hroot
      | tail _ hm =>
        have hm' : m ∈ (env.reg.getModule _).toList := hm
        rw [Option.mem_toList] at hm'
        exact getModule_mem hm'
    · cases hm with
      | head => exact hroot
      | tail _ hm => cases hm
  have := firstHit_inv (SeenOk env env.modFuel 0) (fun m s => findInModule env name env.modFuel m s) _
    (by
      intro m hm s hsok
      have hsok' : SeenOk env env.modFuel s.length s := ⟨hsok.1, hsok.2.1, Nat.le_refl _, hsok.2.2.2⟩
      obtain ⟨h1, h2⟩ := findInModule_fuel env name env.modFuel m s (hmods m hm) hsok'
      exact ⟨h1, h2.mono (Nat.zero_le _)⟩)
    [] ⟨List.nodup_nil, (by intro x hx; cases hx), Nat.le_refl _, (by rw [seqs_length]; simp [Env.modFuel])⟩
  exact this.1

/-! ## What `lookup` hands back stands in the loaded set -/

/-- `root` is a loaded module, `t` and the statements of `scope` are statements of it. -/
def InSet (env : Env) (root : Mod) (scope : List Stmt) (t : Stmt) : Prop :=
  root ∈ env.reg.mods ∧ t ∈ descendants root.stmt ∧ ∀ s ∈ scope, s ∈ descendants root.stmt

theorem moduleHit_inSet {env : Env} {m : Mod} {name : String} {r : TdRef} (hm : m ∈ env.reg.mods)
    (h : IncludesStar env.reg m r.root ∧ r.td ∈ declared r.root.stmt name ∧ r.scope = [r.root.stmt]) :
    InSet env r.root r.scope r.td := by
  obtain ⟨hstar, htd, hsc⟩ := h
  refine ⟨includesStar_mem hstar hm, child_mem_descendants (declared_mem_subs htd), ?_⟩
  rw [hsc]
  intro s hs
  rw [List.mem_singleton] at hs
  rw [hs]; exact self_mem_descendants _

theorem lookup_inSet {env : Env} {root : Mod} {scope : List Stmt} {t : Stmt} {src : Source} {r : TdRef}
    (hin : InSet env root scope t) (h : lookup env root scope t = .typedef src r) :
    InSet env r.root r.scope r.td := by
  obtain ⟨hroot, ht, hscope⟩ := hin
  unfold lookup at h
  split at h
  · cases h
  · simp only at h
    split at h
    · split at h
      · rename_i r' hfs
        simp only [Bound.typedef.injEq] at h
        obtain ⟨_, hr⟩ := h
        subst hr
        obtain ⟨pre, n, up, hsc, _, htd, hr, hs⟩ := findInScope_some hfs
        have hall : ∀ s ∈ t :: scope, s ∈ descendants root.stmt := by
          intro s hs
          cases hs with
          | head => exact ht
          | tail _ hs => exact hscope s hs
        have hn : ∀ s ∈ n :: up, s ∈ descendants root.stmt := by
          intro s hs
          apply hall
          rw [hsc]
          exact List.mem_append_right _ hs
        rw [hr, hs]
        exact ⟨hroot, child_below (hn n List.mem_cons_self) (declared_mem_subs htd), hn⟩
      · split at h
        · rename_i r' hfl
          simp only [Bound.typedef.injEq] at h
          obtain ⟨_, hr⟩ := h
          subst hr
          unfold findLocalModules at hfl
          simp only at hfl
          obtain ⟨m, hm, s1, s2, hf⟩ := firstHit_found' _ _ _ _ hfl
          have hmm : m ∈ env.reg.mods := by
            split at hm
            · cases hm with
              | head => exact hroot
              | tail _ hm =>
                have hm' : m ∈ (env.reg.getModule _).toList := hm
                rw [Option.mem_toList] at hm'
                exact getModule_mem hm'
            · cases hm with
              | head => exact hroot
              | tail _ hm => cases hm
          exact moduleHit_inSet hmm (findInModule_sound env _ _ m s1 s2 _ hf)
        · cases h
        · cases h
    · split at h
      · cases h
      · rename_i ext hext
        split at h
        · rename_i r' hfm
          simp only [Bound.typedef.injEq] at h
          obtain ⟨_, hr⟩ := h
          subst hr
          have hext' : ext ∈ env.reg.mods := by
            unfold Registry.findModuleByPrefix at hext
            split at hext
            · cases hext; exact hroot
            · split at hext
              · exact findModule_mem hext
              · cases hext
          exact moduleHit_inSet hext' (findInModule_sound' env _ _ _ _ _ hfm)
        · cases h
        · cases h

theorem lookup_error_noOof {env : Env} {root : Mod} {scope : List Stmt} {t : Stmt} {e : Err}
    (hroot : root ∈ env.reg.mods) (h : lookup env root scope t = .error e) : e.cls ≠ "out-of-fuel" := by
  unfold lookup at h
  split at h
  · cases h
  · simp only at h
    split at h
    · split at h
      · cases h
      · split at h
        · cases h
        · simp only [Bound.error.injEq] at h; rw [← h, at_cls]; decide
        · rename_i hoof
          exact absurd hoof (findLocalModules_fuel env root _ hroot)
    · split at h
      · simp only [Bound.error.injEq] at h; rw [← h, at_cls]; decide
      · rename_i ext hext
        have hext' : ext ∈ env.reg.mods := by
          unfold Registry.findModuleByPrefix at hext
          split at hext
          · cases hext; exact hroot
          · split at hext
            · exact findModule_mem hext
            · cases hext
        split at h
        · cases h
        · simp only [Bound.error.injEq] at h; rw [← h, at_cls]; decide
        · rename_i hoof
          exact absurd hoof (findInModule_start env _ ext hext')

/-! ## The resolution of a type statement never runs out of fuel -/

theorem resolve_noOof (env : Env) :
    ∀ (fuel : Nat) (root : Mod) (scope : List Stmt) (t : Stmt) (stack : List TypeKey),
      InSet env root scope t → t.kw = "type" →
      stack.Nodup → (∀ k ∈ stack, k ∈ allTypeKeys env.reg) →
      (allTypeKeys env.reg).length + 1 ≤ fuel + stack.length →
      NoOof (resolveTypeF env fuel root scope t stack).errs := by
  intro fuel
  induction fuel with
  | zero =>
    intro root scope t stack _ _ hnd hsub hlen
    have := nodup_subset_length stack (allTypeKeys env.reg) hnd hsub
    omega
  | succ fuel ih =>
    intro root scope t stack hin hkw hnd hsub hlen
    obtain ⟨hroot, ht, hscope⟩ := hin
    unfold resolveTypeF
    simp only
    split
    · exact NoOof.single (by rw [at_cls]; decide)
    · rename_i hc
      have hnotin : typeKey root t ∉ stack := by simpa using hc
      have hnd' : (typeKey root t :: stack).Nodup := List.nodup_cons.mpr ⟨hnotin, hnd⟩
      have hsub' : ∀ k ∈ typeKey root t :: stack, k ∈ allTypeKeys env.reg := by
        intro k hk
        cases hk with
        | head => exact key_mem hroot ht hkw
        | tail _ hk => exact hsub k hk
      have hlen' : (allTypeKeys env.reg).length + 1 ≤ fuel + (typeKey root t :: stack).length := by
        simp only [List.length_cons]; omega
      have hmembers : ∀ r ∈ (t.all "type").map (fun ut => resolveTypeF env fuel root (t :: scope) ut (typeKey root t :: stack)),
          NoOof r.errs := by
        intro r hr
        obtain ⟨ut, hut, rfl⟩ := List.mem_map.mp hr
        apply ih root (t :: scope) ut _ ?_ (kw_of_all hut) hnd' hsub' hlen'
        refine ⟨hroot, child_below ht (all_mem_subs hut), ?_⟩
        intro s hs
        cases hs with
        | head => exact ht
        | tail _ hs => exact hscope s hs
      split
      · rename_i e hl
        exact NoOof.single (lookup_error_noOof hroot hl)
      · exact overlayType_noOof hmembers
      · rename_i src r hl
        obtain ⟨hr1, hr2, hr3⟩ := lookup_inSet ⟨hroot, ht, hscope⟩ hl
        split
        · exact NoOof.single (by rw [at_cls]; decide)
        · rename_i tt htt
          have hbase : NoOof (resolveTypeF env fuel r.root (r.td :: r.scope) tt (typeKey root t :: stack)).errs := by
            apply ih r.root (r.td :: r.scope) tt _ ?_ (kw_of_one htt) hnd' hsub' hlen'
            refine ⟨hr1, child_below hr2 (one_mem_subs htt), ?_⟩
            intro s hs
            cases hs with
            | head => exact hr2
            | tail _ hs => exact hr3 s hs
          split
          · exact hbase
          · split
            · exact NoOof.single (by rw [at_cls]; decide)
            · split
              · exact typedefOverlay_noOof
              · split
                · exact NoOof.single (by rw [at_cls]; decide)
                · exact overlayType_noOof hmembers

end Goyang.Lemmas.TypesFuel
