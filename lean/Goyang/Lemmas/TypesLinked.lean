import Goyang.Lemmas.TypesDefs
import Goyang.Lemmas.IdentityLink
/-
`Env.of reg` satisfies the standing hypothesis `Linked` of the completeness half of property C09
whenever `Modules.Process` linked every include and import (`linkOk reg`): the link state
`Env.of` uses is the one `ms.include` leaves behind, which the identity layer (C11,
`linkAll_spec`) shows to have every include statement of every part of a schema linked.
-/
namespace Goyang.Lemmas.TypesLinked
open Goyang.Model Goyang.Model.Types Goyang.Spec.Types Goyang.Lemmas.TypesDefs
open Goyang.Model.Identity (includeSucc linkAll moduleEntries)
open Goyang.Spec.Identity (includedBy Reach)
open Goyang.Lemmas.Identity (LinkOK linkAll_spec byId_self byId_seq byId_mem moduleEntries_byId findModule_byId)

theorem ofNat0_valid : (Identity.Oracle.ofNat 0).Valid := by
  intro α site l
  simp [Identity.Oracle.ofNat]

theorem filterMap_length_le {α β : Type} (f g : α → Option β) (hg : ∀ x, g x = f x ∨ g x = none) :
    ∀ l : List α, (l.filterMap g).length ≤ (l.filterMap f).length := by
  intro l
  induction l with
  | nil => simp
  | cons x rest ih =>
    rcases hg x with h | h
    · simp only [List.filterMap_cons, h]
      cases f x <;> simp [ih]
    · simp only [List.filterMap_cons, h]
      cases f x with
      | none => exact ih
      | some v => simp only [List.length_cons]; omega

/-- A sub-selection that yields the same list under a map selects everything. -/
theorem filterMap_eq_of_map_eq {α β γ : Type} (f g : α → Option β) (k : β → γ) (hg : ∀ x, g x = f x ∨ g x = none) :
    ∀ l : List α, (l.filterMap g).map k = (l.filterMap f).map k → l.filterMap g = l.filterMap f := by
  intro l
  induction l with
  | nil => intro _; rfl
  | cons x rest ih =>
    intro h
    rcases hg x with hx | hx
    · simp only [List.filterMap_cons, hx] at h ⊢
      cases hf : f x with
      | none => rw [hf] at h; exact ih h
      | some v =>
        rw [hf] at h
        simp only [List.map_cons, List.cons.injEq, true_and] at h
        rw [ih h]
    · simp only [List.filterMap_cons, hx] at h ⊢
      cases hf : f x with
      | none => rw [hf] at h; exact ih h
      | some v =>
        rw [hf] at h
        exfalso
        have hl := congrArg List.length h
        simp only [List.map_cons, List.length_cons, List.length_map] at hl
        have := filterMap_length_le f g hg rest
        omega

theorem filterMap_zipIdx_fst {α β : Type} (h : α → Option β) : ∀ (l : List α) (n : Nat),
    (l.zipIdx n).filterMap (fun p => h p.1) = l.filterMap h := by
  intro l
  induction l with
  | nil => intro n; rfl
  | cons x rest ih =>
    intro n
    simp only [List.zipIdx_cons, List.filterMap_cons]
    cases h x <;> simp [ih]

/-- Reachability through include statements, on sequence numbers (the identity layer's form). -/
theorem reach_of_includesStar {reg : Registry} {a b : Mod} (h : IncludesStar reg a b) :
    reg.byId a.seq = some a → Reach (includedBy reg) a.seq b.seq ∧ reg.byId b.seq = some b := by
  induction h with
  | refl a => intro ha; exact ⟨Reach.refl _, ha⟩
  | @head a b c hab _ ih =>
    intro ha
    unfold Includes includesOf at hab
    obtain ⟨i, hi, hf⟩ := List.mem_filterMap.mp hab
    obtain ⟨id, hid⟩ := findModule_byId hf
    have hb : reg.byId b.seq = some b := byId_self hid
    obtain ⟨hr, hc⟩ := ih hb
    refine ⟨Reach.step ?_ hr, hc⟩
    unfold includedBy
    rw [ha]
    exact List.mem_filterMap.mpr ⟨i, hi, by rw [hf]; rfl⟩

/-- **`Env.of reg` is linked** whenever `process` linked every include and import without error. -/
theorem linked_envOf (reg : Registry) (hok : linkOk reg = true) : Linked (Env.of reg) := by
  obtain ⟨lk, errs, hla, hspec⟩ := linkAll_spec (Identity.Oracle.ofNat 0) ofNat0_valid reg
  have herrs : errs = [] := by
    unfold linkOk at hok
    rw [hla] at hok
    cases errs with
    | nil => rfl
    | cons e rest => simp at hok
  have hlk : LinkOK reg lk := hspec herrs
  have henv : ∀ m, (Env.of reg).includeTargets m = Identity.includeTargets reg lk m := by
    intro m
    unfold Env.includeTargets Env.of
    simp only [hla]
  intro m hm hsch
  rw [henv]
  have hsch' : PartOfSchema reg m := hsch
  show Identity.includeTargets reg lk m = includesOf reg m
  obtain ⟨top, htop, hstar⟩ := hsch'
  obtain ⟨id, hid⟩ := moduleEntries_byId htop
  obtain ⟨hreach, hbm⟩ := reach_of_includesStar hstar (byId_self hid)
  have hsucc := hlk m.seq ⟨top, htop, hreach⟩
  unfold includeSucc includedBy at hsucc
  rw [hbm] at hsucc
  simp only at hsucc
  unfold includesOf Identity.includeTargets
  rw [← filterMap_zipIdx_fst (reg.findModule true) m.includes 0]
  apply filterMap_eq_of_map_eq (fun p : Stmt × Nat => reg.findModule true p.1)
    (fun p : Stmt × Nat => if (m.seq, p.2) ∈ lk.linked then reg.findModule true p.1 else none) (·.seq)
  · intro p
    by_cases hp : (m.seq, p.2) ∈ lk.linked
    · exact Or.inl (by simp [hp])
    · exact Or.inr (by simp [hp])
  · have h1 : (List.filterMap (fun p : Stmt × Nat => reg.findModule true p.1) (m.includes.zipIdx 0)).map (·.seq)
        = m.includes.filterMap fun i => (reg.findModule true i).map (·.seq) := by
      rw [filterMap_zipIdx_fst (reg.findModule true) m.includes 0, List.map_filterMap]
    rw [h1, ← hsucc]
    rfl

end Goyang.Lemmas.TypesLinked
