import Goyang.Lemmas.TypesDefs
/-
The overlays of `Type.resolve` (everything after the binding of the name: `overlayType`,
`typedefOverlay`) raise neither a binding-level error record (`BindErr`: unknown name, unknown
prefix, cycle, the positioned "cannot happen" records) nor the record of an exhausted recursion
budget: the predicate `NoBind` of TypesDefs.lean is pushed through every step, exactly as `NoOof`
is in TypesFuel.lean.
-/
namespace Goyang.Lemmas.TypesNoBind
open Goyang.Model Goyang.Model.Types Goyang.Lemmas.Types Goyang.Lemmas.TypesFuel Goyang.Lemmas.TypesDefs

/-- The condition `NoBind` puts on one record. -/
def Good (e : Err) : Prop := ¬ BindErr e ∧ e.cls ≠ "out-of-fuel"

/-- The classes that matter: a record of any other class is good. -/
def Plain (c : String) : Prop :=
  c ≠ "unknown-type" ∧ c ≠ "unknown-prefix" ∧ c ≠ "cycle" ∧ c ≠ "no-yangtype" ∧ c ≠ "crash" ∧ c ≠ "out-of-fuel"

instance (c : String) : Decidable (Plain c) := by unfold Plain; infer_instance

theorem good_cls {e : Err} {c : String} (h : e.cls = c) (hc : Plain c) : Good e := by
  subst h
  obtain ⟨h1, h2, h3, h4, h5, h6⟩ := hc
  refine ⟨?_, h6⟩
  intro hb
  rcases hb with hb | hb
  · simp only [List.mem_cons, List.not_mem_nil, or_false] at hb
    rcases hb with hb | hb | hb | hb
    · exact h1 hb
    · exact h2 hb
    · exact h3 hb
    · exact h4 hb
  · exact h5 hb.1

theorem good_at (s : Stmt) {c : String} (hc : Plain c) : Good (Err.at_ s c) := good_cls rfl hc

theorem good_bare {c : String} (hc : Plain c) : Good (Err.bare c) := good_cls rfl hc

/-- The identity layer's position-less record of class `crash` is exempt. -/
theorem good_crash : Good (Err.bare "crash") := by
  refine ⟨?_, ?_⟩
  · intro hb
    rcases hb with hb | hb
    · rw [bare_cls] at hb
      simp only [List.mem_cons, List.not_mem_nil, or_false] at hb
      revert hb
      decide
    · exact hb.2 rfl
  · rw [bare_cls]; decide

theorem NoBind.nil : NoBind [] := fun _ h => by cases h

theorem NoBind.append {a b : List Err} (ha : NoBind a) (hb : NoBind b) : NoBind (a ++ b) := by
  intro e he
  rcases List.mem_append.mp he with h | h
  · exact ha e h
  · exact hb e h

theorem NoBind.appendNew {a b : List Err} (ha : NoBind a) (hb : NoBind b) : NoBind (appendNewErrs a b) := by
  intro e he
  rcases (mem_appendNewErrs e b a).mp he with h | h
  · exact ha e h
  · exact hb e h

theorem NoBind.single {e : Err} (h : Good e) : NoBind [e] := by
  intro e' he'
  rw [List.mem_singleton] at he'
  rw [he']; exact h

theorem NoBind.snoc {a : List Err} {e : Err} (ha : NoBind a) (h : Good e) : NoBind (a ++ [e]) :=
  NoBind.append ha (NoBind.single h)

theorem idbase_good {reg : Registry} {dict : Identity.Dict} {root : Mod} {b : String} {e : Err}
    (h : Identity.findIdentityBase reg dict root b = .error e) : Good e := by
  unfold Identity.findIdentityBase at h
  simp only [] at h
  repeat' (split at h)
  all_goals (first
    | (cases h; done)
    | (simp only [Except.error.injEq] at h; rw [← h]; first | exact good_at _ (by decide) | exact good_crash))

theorem enumErrClass_plain (e : Enum.EnumErr) : Plain (enumErrClass e) := by
  cases e <;> (simp only [enumErrClass]; decide)

theorem enumFold_noBind (start : EnumTab) (kw : String) (ms : List Stmt) : NoBind (enumFold start kw ms).2 := by
  intro e he
  unfold enumFold at he
  simp only [List.mem_filterMap] at he
  obtain ⟨ie, _, hie⟩ := he
  cases hq : ms[ie.1]? with
  | none => rw [hq] at hie; cases hie
  | some m =>
    rw [hq] at hie
    simp only [Option.map_some, Option.some.injEq] at hie
    rw [← hie]
    exact good_at _ (enumErrClass_plain _)

theorem stepRequireInstance_noBind {t : Stmt} {s : St} (h : NoBind s.2) : NoBind (stepRequireInstance t s).2 := by
  unfold stepRequireInstance
  repeat' split
  all_goals (first | exact h | exact NoBind.snoc h (good_bare (by decide)))

theorem stepKind_noBind {env : Env} {root : Mod} {t : Stmt} {src : Source} {dec : Bool} {s : St} (h : NoBind s.2) :
    NoBind (stepKind env root t src dec s).2 := by
  unfold stepKind
  simp only []
  repeat' split
  all_goals (first
    | exact h
    | exact NoBind.snoc h (good_at _ (by decide))
    | (rename_i e he; exact NoBind.snoc h (idbase_good he)))

theorem stepRange_noBind {t : Stmt} {dec : Bool} {s : St} (h : NoBind s.2) : NoBind (stepRange t dec s).2 := by
  unfold stepRange
  repeat' split
  all_goals (first | exact h | exact NoBind.snoc h (good_at _ (by decide)))

theorem stepLength_noBind {t : Stmt} {s : St} (h : NoBind s.2) : NoBind (stepLength t s).2 := by
  unfold stepLength
  repeat' split
  all_goals (first | exact h | exact NoBind.snoc h (good_at _ (by decide)))

theorem stepEnum_noBind {t : Stmt} {s : St} (h : NoBind s.2) : NoBind (stepEnum t s).2 := by
  unfold stepEnum
  split
  · exact h
  · exact NoBind.append h (enumFold_noBind _ _ _)

theorem stepBit_noBind {t : Stmt} {s : St} (h : NoBind s.2) : NoBind (stepBit t s).2 := by
  unfold stepBit
  split
  · exact h
  · exact NoBind.append h (enumFold_noBind _ _ _)

theorem stepPosix_noBind {env : Env} {pps : List Stmt} {s : St} (h : NoBind s.2) : NoBind (stepPosix env pps s).2 := by
  unfold stepPosix
  apply NoBind.append h
  intro e he
  simp only [List.mem_map] at he
  obtain ⟨x, _, hx⟩ := he
  rw [← hx]
  exact good_at _ (by decide)

theorem overlayType_noBind {env : Env} {root : Mod} {t : Stmt} {src : Source} {tdY : YType} {ms : List Res}
    (h : ∀ r ∈ ms, NoBind r.errs) : NoBind (overlayType env root t src tdY ms).errs := by
  have h1 : NoBind (startSt t tdY).2 := by
    unfold startSt
    rw [stepPath_errs]
    exact stepRequireInstance_noBind NoBind.nil
  unfold overlayType
  simp only []
  split
  · exact NoBind.snoc h1 (good_at _ (by decide))
  · split
    · exact NoBind.single (good_bare (by decide))
    · unfold stepMembers
      simp only
      apply NoBind.appendNew
      · apply stepPosix_noBind
        unfold overlayLocal
        simp only []
        rw [stepPattern_errs]
        exact stepBit_noBind (stepEnum_noBind (stepLength_noBind (stepRange_noBind (stepKind_noBind h1))))
      · intro e he
        rw [List.mem_flatMap] at he
        obtain ⟨r, hr, her⟩ := he
        exact h r hr e her

theorem typedefOverlay_noBind {env : Env} {root : Mod} {td tt : Stmt} {ty : YType} :
    NoBind (typedefOverlay env root td tt ty).errs := by
  unfold typedefOverlay
  split
  · exact NoBind.single (good_bare (by decide))
  · exact NoBind.nil

end Goyang.Lemmas.TypesNoBind
