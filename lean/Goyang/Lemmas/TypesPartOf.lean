import Goyang.Lemmas.BridgeRegistry
import Goyang.Lemmas.TypesClosure
import Goyang.Lemmas.TypesDefs
import Goyang.Lemmas.IdentityDict
/-
The executable `Spec.Types.partOfSchema` agrees with the relation `TypesDefs.PartOfSchema` on every
registry with the invariant `Bridge.TablesOK` (sequence numbers are positions; every id bound in
the table `modules` is the sequence number of a loaded non-submodule), and every registry obtained
by loading (`Registry.loadAll`, `Registry.loadTexts`) has that invariant.
-/
namespace Goyang.Lemmas.TypesPartOf
open Goyang.Model Goyang.Model.Types Goyang.Spec.Types
open Goyang.Lemmas.TypesDefs
open Goyang.Lemmas.TypesClosure (withSubmodules_complete)
open Goyang.Lemmas.Bridge (TablesOK tablesOK_empty tablesOK_add tablesOK_loadFrom)
open Goyang.Lemmas.Identity (byId_seq byId_mem moduleEntries_byId)

/-- Loaded (sub)modules have pairwise different sequence numbers. -/
theorem seqId_of_tablesOK {reg : Registry} (h : TablesOK reg) : SeqId reg := by
  intro a ha b hb hab
  obtain ⟨i, hi, rfl⟩ := List.getElem_of_mem ha
  obtain ⟨j, hj, rfl⟩ := List.getElem_of_mem hb
  have h1 := h.seq i hi
  have h2 := h.seq j hj
  have hij : i = j := by omega
  subst hij
  rfl

/-- The entries of the table `modules` are loaded non-submodules. -/
theorem moduleEntries_nonSub {reg : Registry} (h : TablesOK reg) :
    ∀ top ∈ Identity.moduleEntries reg, top ∈ reg.mods ∧ top.isSub = false := by
  intro top htop
  unfold Identity.moduleEntries at htop
  obtain ⟨kv, hkv, hb⟩ := List.mem_filterMap.mp htop
  have hmem : top ∈ reg.mods := byId_mem hb
  refine ⟨hmem, ?_⟩
  have hkv' : kv ∈ reg.kmOf false := by simpa [Registry.kmOf] using hkv
  obtain ⟨m, hm, hseq, hsub⟩ := h.kinds false kv hkv'
  have : m = top := seqId_of_tablesOK h m hm top hmem (by rw [hseq, byId_seq hb])
  rw [← this]
  exact hsub

/-- The executable test accepts every part of a schema. -/
theorem partOfSchema_of_PartOfSchema {reg : Registry} (h : TablesOK reg) {root : Mod}
    (hp : PartOfSchema reg root) : partOfSchema reg root = true := by
  obtain ⟨top, htop, hstar⟩ := hp
  obtain ⟨hmem, hsub⟩ := moduleEntries_nonSub h top htop
  have hin : root ∈ withSubmodules reg [top] :=
    withSubmodules_complete reg (seqId_of_tablesOK h) [top]
      (fun s hs => by
        cases hs with
        | head => exact hmem
        | tail _ hs => cases hs)
      top List.mem_cons_self root hstar
  unfold partOfSchema
  rw [Bool.or_eq_true]
  refine Or.inr ?_
  rw [List.any_eq_true]
  refine ⟨top, hmem, ?_⟩
  rw [Bool.and_eq_true]
  refine ⟨by rw [hsub]; rfl, ?_⟩
  rw [List.any_eq_true]
  exact ⟨root, hin, by simp⟩

/-! ## Every loaded registry has the invariant -/

theorem tablesOK_loadAll (ss : List Stmt) : TablesOK (Registry.loadAll ss).1 := by
  unfold Registry.loadAll
  exact tablesOK_loadFrom ss {} tablesOK_empty

theorem tablesOK_foldlM_add : ∀ (ss : List Stmt) {r r' : Registry}, TablesOK r →
    ss.foldlM (fun r s => r.add s) r = .ok r' → TablesOK r'
  | [], r, r', h, ha => by
    simp only [List.foldlM_nil] at ha
    cases ha
    exact h
  | s :: rest, r, r', h, ha => by
    rw [List.foldlM_cons] at ha
    cases hs : r.add s with
    | error e =>
      rw [hs] at ha
      cases ha
    | ok r1 =>
      rw [hs] at ha
      exact tablesOK_foldlM_add rest (tablesOK_add h hs) ha

/-- A text that is accepted keeps the invariant (a rejected one leaves the registry as it was). -/
theorem tablesOK_addText {r r' : Registry} {ss : List Stmt} (h : TablesOK r) (ha : r.addText ss = .ok r') :
    TablesOK r' := by
  unfold Registry.addText at ha
  exact tablesOK_foldlM_add ss h ha

theorem tablesOK_loadTextsFrom : ∀ (ts : List (List Stmt)) (r : Registry), TablesOK r →
    TablesOK (r.loadTextsFrom ts).1
  | [], r, h => h
  | t :: rest, r, h => by
    unfold Registry.loadTextsFrom
    cases ha : r.addText t with
    | ok r' => exact tablesOK_loadTextsFrom rest r' (tablesOK_addText h ha)
    | error e => exact tablesOK_loadTextsFrom rest r h

theorem tablesOK_loadTexts (ts : List (List Stmt)) : TablesOK (Registry.loadTexts ts).1 := by
  unfold Registry.loadTexts
  exact tablesOK_loadTextsFrom ts {} tablesOK_empty

/-- On loaded registries the executable test accepts every part of a schema. -/
theorem partOfSchema_loadAll (ss : List Stmt) {root : Mod} (hp : PartOfSchema (Registry.loadAll ss).1 root) :
    partOfSchema (Registry.loadAll ss).1 root = true :=
  partOfSchema_of_PartOfSchema (tablesOK_loadAll ss) hp

theorem partOfSchema_loadTexts (ts : List (List Stmt)) {root : Mod}
    (hp : PartOfSchema (Registry.loadTexts ts).1 root) : partOfSchema (Registry.loadTexts ts).1 root = true :=
  partOfSchema_of_PartOfSchema (tablesOK_loadTexts ts) hp

/-! ## The invariant is satisfiable by a non-empty registry -/

/-- A module statement without substatements. -/
def exM : Stmt := Stmt.mk "module" true "m" "m.yang" 1 1 []

example : TablesOK { mods := [⟨0, exM⟩], modules := [("m", 0)] } := by
  refine ⟨?_, ?_⟩
  · intro i hi
    have hi0 : i = 0 := by
      simp only [List.length_cons, List.length_nil] at hi
      omega
    subst hi0
    rfl
  · intro sub kv hkv
    cases sub with
    | true =>
      simp only [Registry.kmOf, if_true] at hkv
      cases hkv
    | false =>
      simp only [Registry.kmOf, Bool.false_eq_true, if_false] at hkv
      cases hkv with
      | head => exact ⟨⟨0, exM⟩, List.mem_cons_self, rfl, rfl⟩
      | tail _ hkv => cases hkv

end Goyang.Lemmas.TypesPartOf
