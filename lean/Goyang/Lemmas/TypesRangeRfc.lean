import Goyang.Props.C10
import Goyang.Lemmas.Types
import Goyang.Lemmas.TypesRestr
import Goyang.Lemmas.TypesFuel
import Goyang.Lemmas.TypesComplete
/-
C09 ∘ C10: the range a resolved numeric type carries is the set written along its derivation chain.

* `level_attrs`: an error-free `Type.resolve` overlay satisfies the side condition `typeOk` and yields
  the attributes `typeNext` (from `Goyang.Lemmas.TypesRestr`).
* `typeNext_reached`: one level on the attributes: if the inherited range was reached from `base` by
  accepted restriction steps and is a legitimate non-empty parent at the scale `(dec, f)`, so is the
  range after the level, by one more `Goyang.Props.C10.StepOk` when the statement has a `range`.
* `resolve_chain_range_inv`: the induction over `resolveTypeF`, with the invariant `Inv`.
* `resolve_chain_range`: an error-free resolution went along a derivation chain to a built-in `kind`;
  if that kind has a built-in range `base` at scale `(dec, f)` (`BaseOf`; the eight integer types, and
  decimal64 with `f` = the fraction-digits of the resolved type and `base = decimalBase f`), the range
  of the resolved type is reached from `base` by the accepted steps written in the `range` statements
  of the chain, farthest first, each relative to the set before it.
* `resolve_range_within_base`: hence it denotes a subset of the built-in range.
* `resolve_chain_length` / `resolve_length_within_base`: the same for `length` (any kind), starting from
  `0..2^64-1` (C10 `applyLength_step`).
Core Lean only.
-/
namespace Goyang.Lemmas.TypesRangeRfc
open Goyang.Model Goyang.Model.Types Goyang.Spec.Types Goyang.Lemmas.Types Goyang.Lemmas.TypesRestr
open Goyang.Lemmas.Range (ScaleOk ParentOk abs)
open Goyang.Spec.Range (Within)
open Goyang.Props.C10 (IsBase StepOk base_ok applyRange_step)

/-! ## Chains of accepted steps -/

/-- the `range` argument (as bytes) of a type statement, if it has one -/
def stmtRanges (t : Stmt) : List (List UInt8) := ((t.one? "range").map fun r => bytesOf r.arg).toList

/-- the `range` arguments (as bytes) of the type statements of a chain, nearest first -/
def chainRanges (chain : List Link) : List (List UInt8) :=
  chain.filterMap fun
    | .ty _ _ t => (t.one? "range").map (fun r => bytesOf r.arg)
    | .td _ => none

theorem chainRanges_ty (root : Mod) (scope : List Stmt) (t : Stmt) (rest : List Link) :
    chainRanges (.ty root scope t :: rest) = stmtRanges t ++ chainRanges rest := by
  unfold chainRanges stmtRanges
  rw [List.filterMap_cons]
  cases hq : t.one? "range" <;> simp [hq]

theorem chainRanges_td (d : Stmt) (rest : List Link) : chainRanges (.td d :: rest) = chainRanges rest := by
  unfold chainRanges
  rw [List.filterMap_cons]

/-- `r` is reached from `prev` by the accepted restriction steps `ss` (farthest first) -/
def RangeSteps (dec : Bool) (f : Nat) : YangRange → List (List UInt8) → YangRange → Prop
  | prev, [], r => r = prev
  | prev, s :: ss, r => ∃ mid, StepOk dec f prev s mid ∧ RangeSteps dec f mid ss r

theorem RangeSteps.snoc {dec : Bool} {f : Nat} {s : List UInt8} {r mid : YangRange} :
    ∀ {ss : List (List UInt8)} {prev : YangRange}, RangeSteps dec f prev ss mid → StepOk dec f mid s r →
      RangeSteps dec f prev (ss ++ [s]) r := by
  intro ss
  induction ss with
  | nil =>
    intro prev h hs
    simp only [RangeSteps] at h
    subst h
    exact ⟨r, hs, rfl⟩
  | cons a ss ih =>
    intro prev h hs
    obtain ⟨m, hm, hrest⟩ := h
    exact ⟨m, hm, ih hrest hs⟩

/-- Steps only narrow. -/
theorem RangeSteps.within {dec : Bool} {f : Nat} {r : YangRange} :
    ∀ {ss : List (List UInt8)} {prev : YangRange}, RangeSteps dec f prev ss r → Within (abs r) (abs prev) := by
  intro ss
  induction ss with
  | nil =>
    intro prev h
    simp only [RangeSteps] at h
    subst h
    exact fun x hx => hx
  | cons a ss ih =>
    intro prev h
    obtain ⟨m, hm, hrest⟩ := h
    exact fun x hx => hm.2.2 x (ih hrest x hx)

/-- `yr` is reached from `base` by the steps `rs` (nearest first) and is a legitimate non-empty parent. -/
def Reached (dec : Bool) (f : Nat) (base : YangRange) (rs : List (List UInt8)) (yr : YangRange) : Prop :=
  RangeSteps dec f base rs.reverse yr ∧ ParentOk f yr ∧ yr ≠ []

theorem reached_base {dec : Bool} {f : Nat} {base : YangRange} (hb : IsBase dec f base) :
    Reached dec f base [] base := by
  obtain ⟨_, hp, hne⟩ := base_ok dec f base hb
  exact ⟨rfl, hp, hne⟩

/-! ## One level, on the attributes -/

theorem asRangeInt_bounds {v : Option (List UInt8)} {lo hi i : Int} (h : Number.asRangeInt v lo hi = .ok i) :
    lo ≤ i ∧ i ≤ hi := by
  unfold Number.asRangeInt at h
  split at h
  · cases h
  · split at h
    · cases h
    · split at h
      · cases h
      · split at h
        · cases h
        · rename_i hc
          simp only [Except.ok.injEq] at h
          subst h
          simp only [Bool.or_eq_true, decide_eq_true_eq, not_or, Int.not_lt] at hc
          omega

/-- The `range` step. -/
theorem rangeNext_reached {t : Stmt} {dec : Bool} {f : Nat} {a : Attrs} {base : YangRange} {rs : List (List UInt8)}
    (hsc : ScaleOk dec f) (hf : a.fd = f) (hr : Reached dec f base rs a.range) (hok : rangeOk t dec a = true) :
    Reached dec f base (stmtRanges t ++ rs) (rangeNext t dec a).range := by
  obtain ⟨hs, hp, hne⟩ := hr
  unfold rangeOk at hok
  unfold rangeNext stmtRanges
  cases hq : t.one? "range" with
  | none => exact ⟨hs, hp, hne⟩
  | some r =>
    rw [hq] at hok
    simp only at hok ⊢
    rw [hf] at hok ⊢
    have hstep := applyRange_step dec f hsc a.range hp hne (bytesOf r.arg)
    cases ha : Range.applyRange a.range (bytesOf r.arg) dec f with
    | mk y' e =>
      rw [ha] at hstep hok
      cases e with
      | some e' => simp at hok
      | none =>
        simp only at hstep
        obtain ⟨hso, hpo, hne'⟩ := hstep
        refine ⟨?_, hpo, hne'⟩
        simp only [Option.map_some, Option.toList_some, List.singleton_append, List.reverse_cons]
        exact RangeSteps.snoc hs hso

theorem typeOk_parts {env : Env} {root : Mod} {t : Stmt} {b : Bool} {a : Attrs} (h : typeOk env root t b a = true) :
    kindOk env root t b (isDec t a) a = true ∧ rangeOk t (isDec t a) (kindNext t (isDec t a) a) = true := by
  unfold typeOk at h
  simp only [Bool.and_eq_true] at h
  exact ⟨h.1.1.1.1.1.2, h.1.1.1.1.2⟩

/-- A level whose kind switch leaves the attributes alone (an integer type; a type derived from a
decimal64 typedef). -/
theorem typeNext_reached {env : Env} {root : Mod} {t : Stmt} {b : Bool} {a : Attrs} {dec : Bool} {f : Nat}
    {base : YangRange} {rs : List (List UInt8)}
    (hok : typeOk env root t b a = true) (hd : isDec t a = dec) (hk : kindNext t dec a = a)
    (hsc : ScaleOk dec f) (hf : a.fd = f) (hr : Reached dec f base rs a.range) :
    (typeNext t a).fd = f ∧ Reached dec f base (stmtRanges t ++ rs) (typeNext t a).range := by
  obtain ⟨_, hro⟩ := typeOk_parts hok
  unfold typeNext
  rw [hd] at hro ⊢
  rw [hk] at hro ⊢
  rw [lengthNext_fd, rangeNext_fd, lengthNext_range]
  exact ⟨hf, rangeNext_reached hsc hf hr hro⟩

/-- The level of a direct decimal64: fraction-digits `f` in 1..18 are read, the range starts from
`decimalBase f`. -/
theorem typeNext_reached_dec {env : Env} {root : Mod} {t : Stmt} {b : Bool} {a : Attrs}
    (hok : typeOk env root t b a = true) (hd : isDec t a = true) (hfd : a.fd = 0) :
    1 ≤ (typeNext t a).fd ∧ (typeNext t a).fd ≤ 18 ∧
      Reached true (typeNext t a).fd (Range.decimalBase (typeNext t a).fd) (stmtRanges t) (typeNext t a).range := by
  obtain ⟨hko, hro⟩ := typeOk_parts hok
  rw [hd] at hko hro
  unfold kindOk at hko
  have h0 : ¬ ((true && a.fd != 0) = true) := by rw [hfd]; decide
  rw [if_neg h0] at hko
  simp only [if_true] at hko
  cases hi : Number.asRangeInt ((t.one? "fraction-digits").map fun f => bytesOf f.arg) 1 18 with
  | error e => rw [hi] at hko; simp at hko
  | ok i =>
    obtain ⟨h1, h18⟩ := asRangeInt_bounds hi
    have hk : kindNext t true a = { a with fd := i.toNat, range := Range.decimalBase i.toNat } := by
      unfold kindNext
      rw [if_neg h0]
      simp only [if_true]
      rw [hi]
    have hf1 : 1 ≤ i.toNat := by omega
    have hf18 : i.toNat ≤ 18 := by omega
    unfold typeNext
    rw [hd]
    rw [hk] at hro ⊢
    rw [lengthNext_fd, rangeNext_fd, lengthNext_range]
    refine ⟨hf1, hf18, ?_⟩
    have := rangeNext_reached (t := t) (dec := true) (f := i.toNat)
      (a := { a with fd := i.toNat, range := Range.decimalBase i.toNat })
      (base := Range.decimalBase i.toNat) (rs := [])
      (Or.inr ⟨rfl, hf1, hf18⟩) rfl (reached_base (IsBase.dec i.toNat hf1 hf18)) hro
    rw [List.append_nil] at this
    exact this

/-! ## One overlay -/

/-- An error-free overlay satisfies the side condition and yields the attributes `typeNext`. -/
theorem level_attrs {env : Env} {root : Mod} {t : Stmt} {src : Source} {tdY : YType} {ms : List Res} {y : YType}
    (h : overlayType env root t src tdY ms = { ty := some y, errs := [] }) :
    typeOk env root t (src == .builtin) (attrsOf tdY) = true ∧ attrsOf y = typeNext t (attrsOf tdY) := by
  have hok : typeOk env root t (src == .builtin) (attrsOf tdY) = true := typeOk_of_errs_nil (ms := ms) (by rw [h])
  obtain ⟨y', hy', ha⟩ := overlayType_attrs_of_ok (ms := ms) hok
  rw [h] at hy'
  simp only [Option.some.injEq] at hy'
  subst hy'
  exact ⟨hok, ha⟩

/-- An error-free typedef step leaves kind, fraction-digits, range and length alone. -/
theorem typedef_attrs {env : Env} {root : Mod} {td tt : Stmt} {ty y : YType}
    (h : typedefOverlay env root td tt ty = { ty := some y, errs := [] }) : attrsOf y = attrsOf ty := by
  have hok : typedefOk env root tt = true := typedefOk_of_errs_nil (td := td) (ty := ty) (by rw [h])
  obtain ⟨y', hy', ha⟩ := typedefOverlay_of_ok (td := td) (ty := ty) hok
  rw [h] at hy'
  simp only [Res.mk.injEq, Option.some.injEq, and_true] at hy'
  subst hy'
  exact ha

/-! ## The built-in ranges -/

/-- the built-in range of an integer kind -/
inductive IntBase : String → YangRange → Prop
  | int8 : IntBase "int8" Range.int8Range
  | int16 : IntBase "int16" Range.int16Range
  | int32 : IntBase "int32" Range.int32Range
  | int64 : IntBase "int64" Range.int64Range
  | uint8 : IntBase "uint8" Range.uint8Range
  | uint16 : IntBase "uint16" Range.uint16Range
  | uint32 : IntBase "uint32" Range.uint32Range
  | uint64 : IntBase "uint64" Range.uint64Range

theorem IntBase.isBase {kind : String} {base : YangRange} (h : IntBase kind base) : IsBase false 0 base := by
  cases h
  · exact .int8
  · exact .int16
  · exact .int32
  · exact .int64
  · exact .uint8
  · exact .uint16
  · exact .uint32
  · exact .uint64

theorem IntBase.not_dec {kind : String} {base : YangRange} (h : IntBase kind base) : (kind == "decimal64") = false := by
  cases h <;> decide

private theorem range_of_eq {n : String} {y0 : YType} {r : YangRange} (h : builtin? n = some y0)
    (e : builtin? n = some { name := n, kind := n, range := r }) : y0.range = r := by
  rw [e] at h
  simp only [Option.some.injEq] at h
  subst h
  rfl

/-- `builtin?` gives an integer type its built-in range. -/
theorem IntBase.builtin {kind : String} {base : YangRange} {y0 : YType} (h : IntBase kind base)
    (hb : builtin? kind = some y0) : y0.range = base := by
  cases h
  · exact range_of_eq hb rfl
  · exact range_of_eq hb rfl
  · exact range_of_eq hb rfl
  · exact range_of_eq hb rfl
  · exact range_of_eq hb rfl
  · exact range_of_eq hb rfl
  · exact range_of_eq hb rfl
  · exact range_of_eq hb rfl

/-- `base` is the built-in range of `kind` at scale `(dec, f)`, for a resolved type with fraction-digits
`fd`: the eight integer types (`dec = false`, `f = 0`), and decimal64, whose range starts from
`decimalBase fd` where the direct decimal64 type statement reads its fraction-digits (`f = fd`). -/
inductive BaseOf : String → Nat → Bool → Nat → YangRange → Prop
  | int {kind : String} {fd : Nat} {base : YangRange} : IntBase kind base → BaseOf kind fd false 0 base
  | dec (fd : Nat) : BaseOf "decimal64" fd true fd (Range.decimalBase fd)

/-- The invariant of the induction. -/
def Inv (kind : String) (chain : List Link) (y : YType) : Prop :=
  y.kind = kind ∧
  (∀ base, IntBase kind base → y.fractionDigits = 0 ∧ Reached false 0 base (chainRanges chain) y.range) ∧
  (kind = "decimal64" → 1 ≤ y.fractionDigits ∧ y.fractionDigits ≤ 18 ∧
    Reached true y.fractionDigits (Range.decimalBase y.fractionDigits) (chainRanges chain) y.range)

/-- The level of the type statement that names the built-in. -/
theorem level_builtin {env : Env} {root : Mod} {scope : List Stmt} {t : Stmt} {src : Source} {y0 y : YType}
    {ms : List Res} (hb : builtin? t.arg = some y0)
    (h : overlayType env root t src y0 ms = { ty := some y, errs := [] }) :
    Inv t.arg [.ty root scope t] y := by
  obtain ⟨hok, ha⟩ := level_attrs h
  obtain ⟨_, hkind, _, _, _, _, _, _, _, _, _, hfd⟩ := builtin_shape hb
  have hyk : y.kind = (typeNext t (attrsOf y0)).kind := congrArg Attrs.kind ha
  have hyf : y.fractionDigits = (typeNext t (attrsOf y0)).fd := congrArg Attrs.fd ha
  have hyr : y.range = (typeNext t (attrsOf y0)).range := congrArg Attrs.range ha
  have hcr : chainRanges [.ty root scope t] = stmtRanges t ++ [] := by
    rw [chainRanges_ty]; rfl
  refine ⟨by rw [hyk, typeNext_kind]; exact hkind, ?_, ?_⟩
  · intro base hbase
    have hnd : isDec t (attrsOf y0) = false := by
      unfold isDec
      show ((y0.kind == "decimal64") && _) = false
      rw [hkind, hbase.not_dec]
      rfl
    have hk : kindNext t false (attrsOf y0) = attrsOf y0 := by
      unfold kindNext
      simp
    have hr0 : Reached false 0 base [] (attrsOf y0).range := by
      show Reached false 0 base [] y0.range
      rw [hbase.builtin hb]
      exact reached_base hbase.isBase
    obtain ⟨h1, h2⟩ := typeNext_reached hok hnd hk (Or.inl ⟨rfl, rfl⟩) (show (attrsOf y0).fd = 0 from hfd) hr0
    rw [hyf, hyr, hcr]
    exact ⟨h1, h2⟩
  · intro hdec
    have hd : isDec t (attrsOf y0) = true := by
      unfold isDec
      show ((y0.kind == "decimal64") && ((t.arg == "decimal64") || _)) = true
      rw [hkind, hdec]
      rfl
    obtain ⟨h1, h2, h3⟩ := typeNext_reached_dec hok hd (show (attrsOf y0).fd = 0 from hfd)
    rw [hyf, hyr, hcr, List.append_nil]
    exact ⟨h1, h2, h3⟩

/-- The level of a type statement that names a typedef. -/
theorem level_derived {env : Env} {root : Mod} {scope : List Stmt} {t : Stmt} {src : Source} {tdY y : YType}
    {ms : List Res} {kind : String} {d : Stmt} {chain : List Link} {bty : YType}
    (h : overlayType env root t src tdY ms = { ty := some y, errs := [] })
    (hat : attrsOf tdY = attrsOf bty) (hinv : Inv kind chain bty) :
    Inv kind (.ty root scope t :: .td d :: chain) y := by
  obtain ⟨hok, ha⟩ := level_attrs h
  rw [hat] at hok ha
  obtain ⟨hbk, hint, hdec⟩ := hinv
  have hyk : y.kind = (typeNext t (attrsOf bty)).kind := congrArg Attrs.kind ha
  have hyf : y.fractionDigits = (typeNext t (attrsOf bty)).fd := congrArg Attrs.fd ha
  have hyr : y.range = (typeNext t (attrsOf bty)).range := congrArg Attrs.range ha
  have hcr : chainRanges (.ty root scope t :: .td d :: chain) = stmtRanges t ++ chainRanges chain := by
    rw [chainRanges_ty, chainRanges_td]
  refine ⟨by rw [hyk, typeNext_kind]; exact hbk, ?_, ?_⟩
  · intro base hbase
    obtain ⟨hf0, hr0⟩ := hint base hbase
    have hnd : isDec t (attrsOf bty) = false := by
      unfold isDec
      show ((bty.kind == "decimal64") && _) = false
      rw [hbk, hbase.not_dec]
      rfl
    have hk : kindNext t false (attrsOf bty) = attrsOf bty := by
      unfold kindNext
      simp
    obtain ⟨h1, h2⟩ := typeNext_reached hok hnd hk (Or.inl ⟨rfl, rfl⟩) (show (attrsOf bty).fd = 0 from hf0) hr0
    rw [hyf, hyr, hcr]
    exact ⟨h1, h2⟩
  · intro hkd
    obtain ⟨hf1, hf18, hr0⟩ := hdec hkd
    have hne : (bty.fractionDigits != 0) = true := by
      rw [bne_iff_ne]; omega
    have hd : isDec t (attrsOf bty) = true := by
      unfold isDec
      show ((bty.kind == "decimal64") && ((t.arg == "decimal64") || (bty.fractionDigits != 0))) = true
      rw [hbk, hkd, hne, Bool.or_true]
      rfl
    have hk : kindNext t true (attrsOf bty) = attrsOf bty := by
      unfold kindNext
      have : (true && (attrsOf bty).fd != 0) = true := by
        show (true && bty.fractionDigits != 0) = true
        rw [hne]; rfl
      rw [if_pos this]
    obtain ⟨h1, h2⟩ := typeNext_reached (f := bty.fractionDigits) hok hd hk (Or.inr ⟨rfl, hf1, hf18⟩) rfl hr0
    rw [hyf, hyr, hcr, h1]
    exact ⟨hf1, hf18, h2⟩

/-! ## Along the derivation chain -/

/-- The induction: the chain and the invariant. -/
theorem resolve_chain_range_inv (env : Env) :
    ∀ (fuel : Nat) (root : Mod) (scope : List Stmt) (t : Stmt) (stack : List TypeKey) (y : YType),
      scopeKinds.contains t.kw = false →
      resolveTypeF env fuel root scope t stack = { ty := some y, errs := [] } →
      ∃ kind chain, DerivesFrom env.reg root scope t kind chain ∧ Inv kind chain y := by
  intro fuel
  induction fuel with
  | zero => intro root scope t stack y _ h; simp [resolveTypeF] at h
  | succ fuel ih =>
    intro root scope t stack y ht h
    unfold resolveTypeF at h
    simp only at h
    split at h
    · simp at h
    · split at h
      · simp at h
      · -- a built-in type
        rename_i y0 hl
        have hb0 : builtin? t.arg = some y0 := by
          unfold lookup at hl
          split at hl
          · rename_i y' hy; simp only [Bound.builtin.injEq] at hl; rw [← hl]; exact hy
          · simp only at hl
            split at hl
            · split at hl
              · cases hl
              · split at hl <;> cases hl
            · split at hl
              · cases hl
              · split at hl <;> cases hl
        exact ⟨t.arg, [.ty root scope t], DerivesFrom.builtin (builtin_some hb0), level_builtin hb0 h⟩
      · -- derived from a typedef
        rename_i src r hl
        split at h
        · simp at h
        · rename_i tt htt
          split at h
          · rename_i hbase
            simp only [Res.mk.injEq] at h
            rw [h.2] at hbase
            simp at hbase
          · rename_i hbase
            split at h
            · simp at h
            · rename_i bty hbty
              have hbase' : resolveTypeF env fuel r.root (r.td :: r.scope) tt (typeKey root t :: stack)
                  = { ty := some bty, errs := [] } := by
                have he : (resolveTypeF env fuel r.root (r.td :: r.scope) tt (typeKey root t :: stack)).errs = [] := by
                  simpa using hbase
                rw [← he, ← hbty]
              split at h
              · rename_i hne
                simp only [Res.mk.injEq] at h
                rw [h.2] at hne
                simp at hne
              · rename_i htdr
                split at h
                · simp at h
                · rename_i tdY htdY
                  have htd : typedefOverlay env r.root r.td tt bty = { ty := some tdY, errs := [] } := by
                    have he : (typedefOverlay env r.root r.td tt bty).errs = [] := by simpa using htdr
                    rw [← he, ← htdY]
                  obtain ⟨kind, chain, hder, hinv⟩ :=
                    ih r.root (r.td :: r.scope) tt _ bty (type_not_scope (kw_of_one htt)) hbase'
                  exact ⟨kind, .ty root scope t :: .td r.td :: chain,
                    DerivesFrom.derived r.root r.td r.scope tt kind chain
                      (Goyang.Lemmas.TypesComplete.lookup_binds env root scope t ht src r hl) htt hder,
                    level_derived h (typedef_attrs htd) hinv⟩

/-- An error-free resolution went along a derivation chain to a built-in `kind`, and the resolved type
is of that kind.  If the kind has a built-in range `base` at scale `(dec, f)` (`BaseOf`: one of the
eight integer types at `(false, 0)`; decimal64 at `(true, f)` with `f` the fraction-digits of the
resolved type and `base = decimalBase f`), then `base` is a base of C10 (`IsBase`) and the range of the
resolved type is reached from it by the accepted restriction steps (`Goyang.Props.C10.StepOk`) written
in the `range` statements of the chain, farthest first: each denotes exactly the set written (with
`min` / `max` the bounds of the set before it), is sorted, disjoint and coalesced, and is within the
set before it; the result is a legitimate non-empty parent at that scale. -/
theorem resolve_chain_range (env : Env) :
    ∀ (fuel : Nat) (root : Mod) (scope : List Stmt) (t : Stmt) (stack : List TypeKey) (y : YType),
      scopeKinds.contains t.kw = false →
      resolveTypeF env fuel root scope t stack = { ty := some y, errs := [] } →
      ∃ kind chain, DerivesFrom env.reg root scope t kind chain ∧ y.kind = kind ∧
        ∀ dec f base, BaseOf kind y.fractionDigits dec f base →
          IsBase dec f base ∧ RangeSteps dec f base (chainRanges chain).reverse y.range ∧
            ParentOk f y.range ∧ y.range ≠ [] := by
  intro fuel root scope t stack y ht h
  obtain ⟨kind, chain, hder, hk, hint, hdec⟩ := resolve_chain_range_inv env fuel root scope t stack y ht h
  refine ⟨kind, chain, hder, hk, ?_⟩
  intro dec f base hb
  cases hb with
  | int hi =>
    obtain ⟨_, hr⟩ := hint base hi
    exact ⟨hi.isBase, hr⟩
  | dec =>
    obtain ⟨h1, h18, hr⟩ := hdec rfl
    exact ⟨IsBase.dec _ h1 h18, hr⟩

/-- The fraction-digits of a resolved integer type are 0, those of a resolved decimal64 are in 1..18. -/
theorem resolve_chain_scale (env : Env) (fuel : Nat) (root : Mod) (scope : List Stmt) (t : Stmt)
    (stack : List TypeKey) (y : YType) (ht : scopeKinds.contains t.kw = false)
    (h : resolveTypeF env fuel root scope t stack = { ty := some y, errs := [] }) :
    (∀ base, IntBase y.kind base → y.fractionDigits = 0) ∧
    (y.kind = "decimal64" → 1 ≤ y.fractionDigits ∧ y.fractionDigits ≤ 18) := by
  obtain ⟨kind, chain, _, hk, hint, hdec⟩ := resolve_chain_range_inv env fuel root scope t stack y ht h
  subst hk
  exact ⟨fun base hb => (hint base hb).1, fun hd => ⟨(hdec hd).1, (hdec hd).2.1⟩⟩

/-- Hence the range of a resolved numeric type denotes a subset of the built-in range of its kind. -/
theorem resolve_range_within_base (env : Env) (fuel : Nat) (root : Mod) (scope : List Stmt) (t : Stmt)
    (stack : List TypeKey) (y : YType) (ht : scopeKinds.contains t.kw = false)
    (h : resolveTypeF env fuel root scope t stack = { ty := some y, errs := [] })
    (dec : Bool) (f : Nat) (base : YangRange) (hb : BaseOf y.kind y.fractionDigits dec f base) :
    Within (abs y.range) (abs base) := by
  obtain ⟨kind, chain, _, hk, hall⟩ := resolve_chain_range env fuel root scope t stack y ht h
  subst hk
  exact (hall dec f base hb).2.1.within

/-! ## `length`

The length overlay (types.go:301) is applied whatever the kind; the parent of the first `length` of a
chain is `0..2^64-1` (`Range.uint64Range`), an empty length is "no length stated". -/

/-- the `length` argument (as bytes) of a type statement, if it has one -/
def stmtLengths (t : Stmt) : List (List UInt8) := ((t.one? "length").map fun r => bytesOf r.arg).toList

/-- the `length` arguments (as bytes) of the type statements of a chain, nearest first -/
def chainLengths (chain : List Link) : List (List UInt8) :=
  chain.filterMap fun
    | .ty _ _ t => (t.one? "length").map (fun r => bytesOf r.arg)
    | .td _ => none

theorem chainLengths_ty (root : Mod) (scope : List Stmt) (t : Stmt) (rest : List Link) :
    chainLengths (.ty root scope t :: rest) = stmtLengths t ++ chainLengths rest := by
  unfold chainLengths stmtLengths
  rw [List.filterMap_cons]
  cases hq : t.one? "length" <;> simp [hq]

theorem chainLengths_td (d : Stmt) (rest : List Link) : chainLengths (.td d :: rest) = chainLengths rest := by
  unfold chainLengths
  rw [List.filterMap_cons]

/-- `yl` is the length reached from `0..2^64-1` by the steps `rs` (nearest first): it is a legitimate
parent at the integer scale, empty exactly when no step was taken. -/
def LenInv (rs : List (List UInt8)) (yl : YangRange) : Prop :=
  RangeSteps false 0 Range.uint64Range rs.reverse (if yl.isEmpty then Range.uint64Range else yl) ∧
    ParentOk 0 yl ∧ (yl = [] ↔ rs = [])

theorem lenInv_nil : LenInv [] [] := by
  refine ⟨rfl, ⟨?_, trivial⟩, ⟨fun _ => rfl, fun _ => rfl⟩⟩
  intro p hp
  cases hp

theorem builtin_length {n : String} {y : YType} (h : builtin? n = some y) : y.length = [] := by
  unfold builtin? at h
  rw [Option.map_eq_some_iff] at h
  obtain ⟨⟨n', r⟩, _, hy⟩ := h
  subst hy
  rfl

/-- The `length` step. -/
theorem lengthNext_inv {t : Stmt} {a : Attrs} {rs : List (List UInt8)}
    (hr : LenInv rs a.length) (hok : lengthOk t a = true) :
    LenInv (stmtLengths t ++ rs) (lengthNext t a).length := by
  obtain ⟨hs, hp, hiff⟩ := hr
  unfold lengthOk at hok
  unfold lengthNext stmtLengths
  cases hq : t.one? "length" with
  | none => exact ⟨hs, hp, hiff⟩
  | some l =>
    rw [hq] at hok
    simp only at hok ⊢
    have hstep := Goyang.Props.C10.applyLength_step a.length hp (bytesOf l.arg)
    cases ha : Range.applyLength a.length (bytesOf l.arg) with
    | mk y' e =>
      rw [ha] at hstep hok
      cases e with
      | some e' => simp at hok
      | none =>
        simp only at hstep
        obtain ⟨hso, hpo, hne'⟩ := hstep
        have hpar : (if y'.isEmpty then Range.uint64Range else y') = y' := by
          cases y' with
          | nil => exact absurd rfl hne'
          | cons _ _ => rfl
        refine ⟨?_, hpo, ?_⟩
        · simp only [Option.map_some, Option.toList_some, List.singleton_append, List.reverse_cons]
          rw [hpar]
          exact RangeSteps.snoc hs hso
        · simp [hne']

theorem typeNext_length_inv {env : Env} {root : Mod} {t : Stmt} {b : Bool} {a : Attrs} {rs : List (List UInt8)}
    (hok : typeOk env root t b a = true) (hr : LenInv rs a.length) :
    LenInv (stmtLengths t ++ rs) (typeNext t a).length := by
  have hlo : lengthOk t a = true := by
    unfold typeOk at hok
    simp only [Bool.and_eq_true] at hok
    exact hok.1.1.1.2
  have : (typeNext t a).length = (lengthNext t a).length := by
    unfold typeNext lengthNext
    split <;> simp
  rw [this]
  exact lengthNext_inv hr hlo

/-- The induction for `length`. -/
theorem resolve_chain_length_inv (env : Env) :
    ∀ (fuel : Nat) (root : Mod) (scope : List Stmt) (t : Stmt) (stack : List TypeKey) (y : YType),
      scopeKinds.contains t.kw = false →
      resolveTypeF env fuel root scope t stack = { ty := some y, errs := [] } →
      ∃ kind chain, DerivesFrom env.reg root scope t kind chain ∧ LenInv (chainLengths chain) y.length := by
  intro fuel
  induction fuel with
  | zero => intro root scope t stack y _ h; simp [resolveTypeF] at h
  | succ fuel ih =>
    intro root scope t stack y ht h
    unfold resolveTypeF at h
    simp only at h
    split at h
    · simp at h
    · split at h
      · simp at h
      · -- a built-in type
        rename_i y0 hl
        have hb0 : builtin? t.arg = some y0 := by
          unfold lookup at hl
          split at hl
          · rename_i y' hy; simp only [Bound.builtin.injEq] at hl; rw [← hl]; exact hy
          · simp only at hl
            split at hl
            · split at hl
              · cases hl
              · split at hl <;> cases hl
            · split at hl
              · cases hl
              · split at hl <;> cases hl
        obtain ⟨hok, ha⟩ := level_attrs h
        refine ⟨t.arg, [.ty root scope t], DerivesFrom.builtin (builtin_some hb0), ?_⟩
        have hyl : y.length = (typeNext t (attrsOf y0)).length := congrArg Attrs.length ha
        have h0 : LenInv [] (attrsOf y0).length := by
          show LenInv [] y0.length
          rw [builtin_length hb0]
          exact lenInv_nil
        have := typeNext_length_inv hok h0
        rw [hyl, chainLengths_ty]
        exact this
      · -- derived from a typedef
        rename_i src r hl
        split at h
        · simp at h
        · rename_i tt htt
          split at h
          · rename_i hbase
            simp only [Res.mk.injEq] at h
            rw [h.2] at hbase
            simp at hbase
          · rename_i hbase
            split at h
            · simp at h
            · rename_i bty hbty
              have hbase' : resolveTypeF env fuel r.root (r.td :: r.scope) tt (typeKey root t :: stack)
                  = { ty := some bty, errs := [] } := by
                have he : (resolveTypeF env fuel r.root (r.td :: r.scope) tt (typeKey root t :: stack)).errs = [] := by
                  simpa using hbase
                rw [← he, ← hbty]
              split at h
              · rename_i hne
                simp only [Res.mk.injEq] at h
                rw [h.2] at hne
                simp at hne
              · rename_i htdr
                split at h
                · simp at h
                · rename_i tdY htdY
                  have htd : typedefOverlay env r.root r.td tt bty = { ty := some tdY, errs := [] } := by
                    have he : (typedefOverlay env r.root r.td tt bty).errs = [] := by simpa using htdr
                    rw [← he, ← htdY]
                  obtain ⟨kind, chain, hder, hinv⟩ :=
                    ih r.root (r.td :: r.scope) tt _ bty (type_not_scope (kw_of_one htt)) hbase'
                  obtain ⟨hok, ha⟩ := level_attrs h
                  rw [typedef_attrs htd] at hok ha
                  refine ⟨kind, .ty root scope t :: .td r.td :: chain,
                    DerivesFrom.derived r.root r.td r.scope tt kind chain
                      (Goyang.Lemmas.TypesComplete.lookup_binds env root scope t ht src r hl) htt hder, ?_⟩
                  have hyl : y.length = (typeNext t (attrsOf bty)).length := congrArg Attrs.length ha
                  have := typeNext_length_inv (rs := chainLengths chain) hok hinv
                  rw [hyl, chainLengths_ty, chainLengths_td]
                  exact this

/-- An error-free resolution went along a derivation chain; the length of the resolved type is
reached from `0..2^64-1` by the accepted restriction steps written in the `length` statements of the
chain, farthest first (each denotes exactly the set written, `min` / `max` being the bounds of the
set before it, is sorted, disjoint and coalesced and within the set before it); it is empty exactly
when the chain states no length (then "the length reached" is `0..2^64-1` itself). -/
theorem resolve_chain_length (env : Env) :
    ∀ (fuel : Nat) (root : Mod) (scope : List Stmt) (t : Stmt) (stack : List TypeKey) (y : YType),
      scopeKinds.contains t.kw = false →
      resolveTypeF env fuel root scope t stack = { ty := some y, errs := [] } →
      ∃ kind chain, DerivesFrom env.reg root scope t kind chain ∧
        RangeSteps false 0 Range.uint64Range (chainLengths chain).reverse
          (if y.length.isEmpty then Range.uint64Range else y.length) ∧
        ParentOk 0 y.length ∧ (y.length = [] ↔ chainLengths chain = []) :=
  resolve_chain_length_inv env

/-- Hence a stated length denotes a subset of `0..2^64-1`. -/
theorem resolve_length_within_base (env : Env) (fuel : Nat) (root : Mod) (scope : List Stmt) (t : Stmt)
    (stack : List TypeKey) (y : YType) (ht : scopeKinds.contains t.kw = false)
    (h : resolveTypeF env fuel root scope t stack = { ty := some y, errs := [] }) :
    Within (abs y.length) (abs Range.uint64Range) := by
  obtain ⟨kind, chain, _, hs, _, _⟩ := resolve_chain_length env fuel root scope t stack y ht h
  cases hy : y.length with
  | nil => intro x hx; obtain ⟨q, hq, _⟩ := hx; cases hq
  | cons p l =>
    rw [hy] at hs
    exact hs.within

/-! ## Examples: the hypotheses are satisfiable

`typedef t { type int8 { range "1..10"; } }`, `leaf x { type t { range "min..5"; } }` and
`typedef d { type decimal64 { fraction-digits 2; range "1.5..2.5"; } }`, `leaf z { type d { range "min..2.0"; } }`
resolve without error (kernel evaluation of the model), so the theorems apply to them. -/

section Examples

private def S (kw arg : String) (l c : Nat) (subs : List Stmt) : Stmt := Stmt.mk kw true arg "m.yang" l c subs
private def tdT : Stmt := S "typedef" "t" 2 3 [S "type" "int8" 2 13 [S "range" "1..10" 2 20 []]]
private def tyT : Stmt := S "type" "t" 3 10 [S "range" "min..5" 3 20 []]
private def leafT : Stmt := S "leaf" "x" 3 3 [tyT]
private def tdD : Stmt :=
  S "typedef" "d" 4 3 [S "type" "decimal64" 4 13 [S "fraction-digits" "2" 4 20 [], S "range" "1.5..2.5" 4 40 []]]
private def tyD : Stmt := S "type" "d" 5 10 [S "range" "min..2.0" 5 20 []]
private def leafD : Stmt := S "leaf" "z" 5 3 [tyD]
private def tdS : Stmt := S "typedef" "s" 6 3 [S "type" "string" 6 13 [S "length" "1..10" 6 20 []]]
private def tyS : Stmt := S "type" "s" 7 10 [S "length" "min..5" 7 20 []]
private def leafS : Stmt := S "leaf" "w" 7 3 [tyS]
private def exM : Stmt := S "module" "m" 1 1 [S "prefix" "p" 1 10 [], tdT, leafT, tdD, leafD, tdS, leafS]
private def exMod : Mod := ⟨0, exM⟩
private def exEnv : Env := { reg := { mods := [exMod], modules := [("m", 0)] }, link := {}, dict := [], fuel := 10 }

private theorem res_shape {r : Res} {k : String} {fd : Nat} {v : YangRange}
    (h : r.errs = [] ∧ r.ty.map (fun y => (y.kind, y.fractionDigits, y.range)) = some (k, fd, v)) :
    ∃ y, r = { ty := some y, errs := [] } ∧ y.kind = k ∧ y.fractionDigits = fd ∧ y.range = v := by
  obtain ⟨ty, errs⟩ := r
  obtain ⟨h1, h2⟩ := h
  simp only at h1 h2
  subst h1
  cases ty with
  | none => simp at h2
  | some y =>
    simp only [Option.map_some, Option.some.injEq, Prod.mk.injEq] at h2
    exact ⟨y, rfl, h2⟩

/-- The integer chain resolves to `1..5` … -/
private theorem exT_resolves : ∃ y, resolveTypeF exEnv 10 exMod [leafT, exM] tyT [] = { ty := some y, errs := [] } ∧
    y.kind = "int8" ∧ y.fractionDigits = 0 ∧
    y.range = [{ min := { value := 1, fd := 0, neg := false }, max := { value := 5, fd := 0, neg := false } }] :=
  res_shape (by decide +kernel)

/-- … and `resolve_chain_range` applies to it with the base `int8Range` at scale `(false, 0)`. -/
example : ∃ y, resolveTypeF exEnv 10 exMod [leafT, exM] tyT [] = { ty := some y, errs := [] } ∧
    (∃ kind chain, DerivesFrom exEnv.reg exMod [leafT, exM] tyT kind chain ∧
      RangeSteps false 0 Range.int8Range (chainRanges chain).reverse y.range) ∧
    Within (abs y.range) (abs Range.int8Range) := by
  obtain ⟨y, hy, hk, hf, _⟩ := exT_resolves
  have hb : BaseOf y.kind y.fractionDigits false 0 Range.int8Range := by
    rw [hk]; exact .int .int8
  refine ⟨y, hy, ?_, resolve_range_within_base exEnv 10 exMod [leafT, exM] tyT [] y (by decide) hy _ _ _ hb⟩
  obtain ⟨kind, chain, hder, hkk, hall⟩ := resolve_chain_range exEnv 10 exMod [leafT, exM] tyT [] y (by decide) hy
  subst hkk
  exact ⟨_, chain, hder, (hall _ _ _ hb).2.1⟩

/-- The decimal64 chain resolves to `1.50..2.00` at 2 fraction-digits … -/
private theorem exD_resolves : ∃ y, resolveTypeF exEnv 10 exMod [leafD, exM] tyD [] = { ty := some y, errs := [] } ∧
    y.kind = "decimal64" ∧ y.fractionDigits = 2 ∧
    y.range = [{ min := { value := 150, fd := 2, neg := false }, max := { value := 200, fd := 2, neg := false } }] :=
  res_shape (by decide +kernel)

/-- … and is within `decimalBase 2`. -/
example : ∃ y, resolveTypeF exEnv 10 exMod [leafD, exM] tyD [] = { ty := some y, errs := [] } ∧
    Within (abs y.range) (abs (Range.decimalBase 2)) := by
  obtain ⟨y, hy, hk, hf, _⟩ := exD_resolves
  have hb : BaseOf y.kind y.fractionDigits true 2 (Range.decimalBase 2) := by
    rw [hk, hf]; exact .dec 2
  exact ⟨y, hy, resolve_range_within_base exEnv 10 exMod [leafD, exM] tyD [] y (by decide) hy _ _ _ hb⟩

/-- The string chain resolves to the length `1..5`, reached from `0..2^64-1` by the steps of a chain. -/
example : (resolveTypeF exEnv 10 exMod [leafS, exM] tyS []).errs = [] ∧
    (resolveTypeF exEnv 10 exMod [leafS, exM] tyS []).ty.map (·.length) =
      some [{ min := { value := 1, fd := 0, neg := false }, max := { value := 5, fd := 0, neg := false } }] := by
  decide +kernel

example : ∃ y, resolveTypeF exEnv 10 exMod [leafS, exM] tyS [] = { ty := some y, errs := [] } ∧
    ∃ kind chain, DerivesFrom exEnv.reg exMod [leafS, exM] tyS kind chain ∧
      RangeSteps false 0 Range.uint64Range (chainLengths chain).reverse y.length := by
  have he : (resolveTypeF exEnv 10 exMod [leafS, exM] tyS []).errs = [] ∧
      ((resolveTypeF exEnv 10 exMod [leafS, exM] tyS []).ty.map fun y => y.length.isEmpty) = some false := by
    decide +kernel
  obtain ⟨h1, h2⟩ := he
  cases hr : resolveTypeF exEnv 10 exMod [leafS, exM] tyS [] with
  | mk ty errs =>
    rw [hr] at h1 h2
    simp only at h1 h2
    subst h1
    cases ty with
    | none => simp at h2
    | some y =>
      simp only [Option.map_some, Option.some.injEq] at h2
      obtain ⟨kind, chain, hder, hs, _, _⟩ := resolve_chain_length exEnv 10 exMod [leafS, exM] tyS [] y (by decide) hr
      rw [h2] at hs
      exact ⟨y, rfl, kind, chain, hder, hs⟩

end Examples

end Goyang.Lemmas.TypesRangeRfc
