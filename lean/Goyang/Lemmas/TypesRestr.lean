import Goyang.Lemmas.TypesDefs
/-
Property C09, completeness half: when does ONE level of `Type.resolve` (`overlayType`) and of
`Typedef.resolve` (`typedefOverlay`) raise no error of its own?  The answer is given as a decidable
side condition on the `type` statement and on four attributes of the type it is based on (kind,
fraction-digits, range, length), written with the statement accessors and the sub-models
(`Number.asRangeInt`, `Range.applyRange`, `Range.applyLength`, `Identity.findIdentityBase`, `enumFold`,
`posixPatterns`) only; the theorems connect it to the step functions of `Goyang.Model.Types`.

* `overlayType_errs_of_ok`: under `typeOk` every error of the level is an error of a member type;
* `overlayType_attrs_of_ok`: under `typeOk` the level yields a YangType whose attributes are `typeNext`;
* `typeOk_of_errs_nil`: an error-free level satisfies `typeOk`;
* `typedefOverlay_of_ok` / `typedefOk_of_errs_nil`: the same for the typedef's own step.
Core Lean only.
-/
namespace Goyang.Lemmas.TypesRestr
open Goyang.Model Goyang.Model.Types Goyang.Spec.Types Goyang.Lemmas.Types Goyang.Lemmas.TypesDefs

/-- The attributes of the type a `type` statement is based on that its restrictions are checked against. -/
structure Attrs where
  kind : String
  fd : Nat
  range : YangRange
  length : YangRange

def attrsOf (y : YType) : Attrs := ⟨y.kind, y.fractionDigits, y.range, y.length⟩

/-! ## The side conditions, restriction by restriction -/

/-- Go: `isDecimal64`: the base is a decimal64 and either `t` names the built-in itself or
fraction-digits have been fixed further down. -/
def isDec (t : Stmt) (a : Attrs) : Bool := a.kind == "decimal64" && (t.arg == "decimal64" || a.fd != 0)

/-- require-instance is `true` or `false`. -/
def requireOk (t : Stmt) : Bool :=
  match t.one? "require-instance" with
  | none => true
  | some v => v.arg == "true" || v.arg == "false"

/-- fraction-digits are not stated a second time ("overriding of fraction-digits not allowed"). -/
def overrideOk (t : Stmt) (a : Attrs) : Bool :=
  !(isDec t a && a.fd != 0 && (t.one? "fraction-digits").isSome)

/-- The kind switch: a direct decimal64 states fraction-digits in 1..18, nothing else states
fraction-digits, a direct identityref has a base that resolves. -/
def kindOk (env : Env) (root : Mod) (t : Stmt) (isBuiltin : Bool) (dec : Bool) (a : Attrs) : Bool :=
  if dec && a.fd != 0 then true
  else if dec then
    match Number.asRangeInt ((t.one? "fraction-digits").map fun f => bytesOf f.arg) 1 18 with
    | .ok _ => true
    | .error _ => false
  else if (t.one? "fraction-digits").isSome then false
  else if a.kind == "identityref" then
    if !isBuiltin then true
    else
      match t.one? "base" with
      | none => false
      | some b =>
        match Identity.findIdentityBase env.reg env.dict root b.arg with
        | .ok _ => true
        | .error _ => false
  else true

/-- The attributes after the kind switch: reading fraction-digits `n` on a direct decimal64 fixes them
and resets the range to `Range.decimalBase n`. -/
def kindNext (t : Stmt) (dec : Bool) (a : Attrs) : Attrs :=
  if dec && a.fd != 0 then a
  else if dec then
    match Number.asRangeInt ((t.one? "fraction-digits").map fun f => bytesOf f.arg) 1 18 with
    | .ok i => { a with fd := i.toNat, range := Range.decimalBase i.toNat }
    | .error _ => a
  else a

/-- A `range` is accepted against the range (and fraction-digits) in force. -/
def rangeOk (t : Stmt) (dec : Bool) (a : Attrs) : Bool :=
  match t.one? "range" with
  | none => true
  | some r => (Range.applyRange a.range (bytesOf r.arg) dec a.fd).2.isNone

def rangeNext (t : Stmt) (dec : Bool) (a : Attrs) : Attrs :=
  match t.one? "range" with
  | none => a
  | some r => { a with range := (Range.applyRange a.range (bytesOf r.arg) dec a.fd).1 }

/-- A `length` is accepted against the inherited length. -/
def lengthOk (t : Stmt) (a : Attrs) : Bool :=
  match t.one? "length" with
  | none => true
  | some l => (Range.applyLength a.length (bytesOf l.arg)).2.isNone

def lengthNext (t : Stmt) (a : Attrs) : Attrs :=
  match t.one? "length" with
  | none => a
  | some l => { a with length := (Range.applyLength a.length (bytesOf l.arg)).1 }

/-- Every `enum` member is accepted. -/
def enumOk (t : Stmt) : Bool :=
  match t.all "enum" with
  | [] => true
  | es => (enumFold newEnum "value" es).2.isEmpty

/-- Every `bit` member is accepted. -/
def bitOk (t : Stmt) : Bool :=
  match t.all "bit" with
  | [] => true
  | bs => (enumFold newBits "position" bs).2.isEmpty

/-- The prefixes of the extension substatements resolve and the posix patterns are well-formed. -/
def posixOk (env : Env) (root : Mod) (t : Stmt) : Bool :=
  match posixPatterns env root t with
  | none => false
  | some pps => pps.all fun e => env.posixOk e.arg

/-- Are the restrictions the `type` statement `t` states admissible over a base with attributes `a`?
(`isBuiltin`: `t` names a built-in type.)  require-instance is `true`/`false`; fraction-digits is stated
exactly on a direct decimal64 (read by `Number.asRangeInt … 1 18`) and nowhere else; a direct identityref
has a `base` that `Identity.findIdentityBase` resolves; a `range` / `length` is accepted by
`Range.applyRange` / `Range.applyLength` against the inherited one; enum / bit members are accepted by
`enumFold`; extension prefixes resolve (`posixPatterns`) and posix patterns are well-formed (`env.posixOk`). -/
def typeOk (env : Env) (root : Mod) (t : Stmt) (isBuiltin : Bool) (a : Attrs) : Bool :=
  requireOk t && overrideOk t a && kindOk env root t isBuiltin (isDec t a) a &&
  rangeOk t (isDec t a) (kindNext t (isDec t a) a) && lengthOk t a && enumOk t && bitOk t && posixOk env root t

/-- The attributes of the type `t` then resolves to. -/
def typeNext (t : Stmt) (a : Attrs) : Attrs :=
  lengthNext t (rangeNext t (isDec t a) (kindNext t (isDec t a) a))

/-- The typedef's own side condition: an identity `base` under its type statement `tt` resolves. -/
def typedefOk (env : Env) (root : Mod) (tt : Stmt) : Bool :=
  match tt.one? "base" with
  | none => true
  | some b => match Identity.findIdentityBase env.reg env.dict root b.arg with | .ok _ => true | .error _ => false

/-! ## `length` is untouched by the kind switch and by `range` -/

@[simp] theorem kindNext_length (t : Stmt) (dec : Bool) (a : Attrs) : (kindNext t dec a).length = a.length := by
  unfold kindNext; repeat' (first | rfl | split)
@[simp] theorem kindNext_kind (t : Stmt) (dec : Bool) (a : Attrs) : (kindNext t dec a).kind = a.kind := by
  unfold kindNext; repeat' (first | rfl | split)
@[simp] theorem rangeNext_length (t : Stmt) (dec : Bool) (a : Attrs) : (rangeNext t dec a).length = a.length := by
  unfold rangeNext; repeat' (first | rfl | split)
@[simp] theorem rangeNext_kind (t : Stmt) (dec : Bool) (a : Attrs) : (rangeNext t dec a).kind = a.kind := by
  unfold rangeNext; repeat' (first | rfl | split)
@[simp] theorem rangeNext_fd (t : Stmt) (dec : Bool) (a : Attrs) : (rangeNext t dec a).fd = a.fd := by
  unfold rangeNext; repeat' (first | rfl | split)
@[simp] theorem lengthNext_kind (t : Stmt) (a : Attrs) : (lengthNext t a).kind = a.kind := by
  unfold lengthNext; repeat' (first | rfl | split)
@[simp] theorem lengthNext_fd (t : Stmt) (a : Attrs) : (lengthNext t a).fd = a.fd := by
  unfold lengthNext; repeat' (first | rfl | split)
@[simp] theorem lengthNext_range (t : Stmt) (a : Attrs) : (lengthNext t a).range = a.range := by
  unfold lengthNext; repeat' (first | rfl | split)

/-- The kind never changes. -/
theorem typeNext_kind (t : Stmt) (a : Attrs) : (typeNext t a).kind = a.kind := by simp [typeNext]

theorem lengthOk_congr {t : Stmt} {a b : Attrs} (h : a.length = b.length) : lengthOk t a = lengthOk t b := by
  unfold lengthOk; rw [h]

/-! ## Each step: when it adds no error, and what it makes of the attributes -/

theorem isDecimal64_eq (t : Stmt) (y : YType) : isDecimal64 t y = isDec t (attrsOf y) := rfl

theorem attrsOf_copyOf (y : YType) : attrsOf y.copyOf = attrsOf y := rfl

theorem attrsOf_stepRequireInstance (t : Stmt) (s : St) : attrsOf (stepRequireInstance t s).1 = attrsOf s.1 := by
  simp [attrsOf]

theorem attrsOf_stepPath (t : Stmt) (s : St) : attrsOf (stepPath t s).1 = attrsOf s.1 := by
  simp [attrsOf]

theorem stepRequireInstance_nil_iff (t : Stmt) (s : St) :
    (stepRequireInstance t s).2 = [] ↔ s.2 = [] ∧ requireOk t = true := by
  unfold stepRequireInstance requireOk
  cases hq : t.one? "require-instance" with
  | none => simp
  | some v =>
    simp only []
    split
    · simp [*]
    · split
      · simp [*]
      · simp [*]

theorem stepKind_nil_iff (env : Env) (root : Mod) (t : Stmt) (src : Source) (dec : Bool) (s : St) :
    (stepKind env root t src dec s).2 = [] ↔
      s.2 = [] ∧ kindOk env root t (src == .builtin) dec (attrsOf s.1) = true := by
  unfold stepKind kindOk
  simp only []
  repeat' split
  all_goals simp_all [attrsOf, bne]

theorem attrsOf_stepKind {env : Env} {root : Mod} {t : Stmt} {src : Source} {dec : Bool} {s : St}
    (h : kindOk env root t (src == .builtin) dec (attrsOf s.1) = true) :
    attrsOf (stepKind env root t src dec s).1 = kindNext t dec (attrsOf s.1) := by
  unfold kindOk at h
  unfold stepKind kindNext
  simp only []
  repeat' split
  all_goals (first | rfl | simp_all [attrsOf, bne])

theorem stepRange_nil_iff (t : Stmt) (dec : Bool) (s : St) :
    (stepRange t dec s).2 = [] ↔ s.2 = [] ∧ rangeOk t dec (attrsOf s.1) = true := by
  unfold stepRange rangeOk
  simp only [attrsOf]
  cases hq : t.one? "range" with
  | none => simp
  | some r =>
    simp only []
    split <;> (rename_i he; simp [he])

theorem attrsOf_stepRange (t : Stmt) (dec : Bool) (s : St) :
    attrsOf (stepRange t dec s).1 = rangeNext t dec (attrsOf s.1) := by
  unfold stepRange rangeNext
  simp only [attrsOf]
  cases hq : t.one? "range" with
  | none => rfl
  | some r =>
    simp only []
    split <;> (rename_i he; simp [he])

theorem stepLength_nil_iff (t : Stmt) (s : St) :
    (stepLength t s).2 = [] ↔ s.2 = [] ∧ lengthOk t (attrsOf s.1) = true := by
  unfold stepLength lengthOk
  simp only [attrsOf]
  cases hq : t.one? "length" with
  | none => simp
  | some l =>
    simp only []
    split <;> (rename_i he; simp [he])

theorem attrsOf_stepLength (t : Stmt) (s : St) :
    attrsOf (stepLength t s).1 = lengthNext t (attrsOf s.1) := by
  unfold stepLength lengthNext
  simp only [attrsOf]
  cases hq : t.one? "length" with
  | none => rfl
  | some l =>
    simp only []
    split <;> (rename_i he; simp [he])

theorem stepEnum_nil_iff (t : Stmt) (s : St) : (stepEnum t s).2 = [] ↔ s.2 = [] ∧ enumOk t = true := by
  unfold stepEnum enumOk
  split
  · rename_i he; simp [he]
  · rename_i hne
    split
    · rename_i he; exact absurd he (by simpa using hne)
    · simp

theorem stepBit_nil_iff (t : Stmt) (s : St) : (stepBit t s).2 = [] ↔ s.2 = [] ∧ bitOk t = true := by
  unfold stepBit bitOk
  split
  · rename_i he; simp [he]
  · rename_i hne
    split
    · rename_i he; exact absurd he (by simpa using hne)
    · simp

theorem stepPosix_nil_iff (env : Env) (pps : List Stmt) (s : St) :
    (stepPosix env pps s).2 = [] ↔ s.2 = [] ∧ (pps.all fun e => env.posixOk e.arg) = true := by
  unfold stepPosix
  simp [List.filter_eq_nil_iff]

theorem attrsOf_stepEnum (t : Stmt) (s : St) : attrsOf (stepEnum t s).1 = attrsOf s.1 := by simp [attrsOf]
theorem attrsOf_stepBit (t : Stmt) (s : St) : attrsOf (stepBit t s).1 = attrsOf s.1 := by simp [attrsOf]
theorem attrsOf_stepPattern (t : Stmt) (s : St) : attrsOf (stepPattern t s).1 = attrsOf s.1 := by simp [attrsOf]
theorem attrsOf_stepPosix (env : Env) (pps : List Stmt) (s : St) : attrsOf (stepPosix env pps s).1 = attrsOf s.1 := by
  simp [attrsOf]
theorem attrsOf_stepMembers (ms : List Res) (s : St) : attrsOf (stepMembers ms s).1 = attrsOf s.1 := by simp [attrsOf]
theorem attrsOf_fixRoot (y : YType) : attrsOf (fixRoot y) = attrsOf y := by simp [attrsOf]

/-! ## The steps composed -/

theorem startSt_nil_iff (t : Stmt) (tdY : YType) : (startSt t tdY).2 = [] ↔ requireOk t = true := by
  unfold startSt
  rw [stepPath_errs, stepRequireInstance_nil_iff]
  simp

theorem attrsOf_startSt (t : Stmt) (tdY : YType) : attrsOf (startSt t tdY).1 = attrsOf tdY := by
  unfold startSt
  rw [attrsOf_stepPath, attrsOf_stepRequireInstance]
  rfl

/-- The conditions of the steps from require-instance to the patterns. -/
def localOk (env : Env) (root : Mod) (t : Stmt) (isBuiltin : Bool) (a : Attrs) : Bool :=
  requireOk t && kindOk env root t isBuiltin (isDec t a) a &&
  rangeOk t (isDec t a) (kindNext t (isDec t a) a) && lengthOk t a && enumOk t && bitOk t

theorem overlayLocal_nil_iff (env : Env) (root : Mod) (t : Stmt) (src : Source) (tdY : YType) :
    (overlayLocal env root t src tdY (startSt t tdY)).2 = [] ↔
      localOk env root t (src == .builtin) (attrsOf tdY) = true := by
  unfold overlayLocal localOk
  simp only [stepPattern_errs, isDecimal64_eq]
  rw [stepBit_nil_iff, stepEnum_nil_iff, stepLength_nil_iff, stepRange_nil_iff, stepKind_nil_iff, startSt_nil_iff,
    attrsOf_startSt]
  simp only [Bool.and_eq_true]
  constructor
  · rintro ⟨⟨⟨⟨⟨h1, h2⟩, h3⟩, h4⟩, h5⟩, h6⟩
    rw [attrsOf_stepKind (by rw [attrsOf_startSt]; exact h2), attrsOf_startSt] at h3
    rw [attrsOf_stepRange, attrsOf_stepKind (by rw [attrsOf_startSt]; exact h2), attrsOf_startSt,
      lengthOk_congr (b := attrsOf tdY) (by simp)] at h4
    exact ⟨⟨⟨⟨⟨h1, h2⟩, h3⟩, h4⟩, h5⟩, h6⟩
  · rintro ⟨⟨⟨⟨⟨h1, h2⟩, h3⟩, h4⟩, h5⟩, h6⟩
    refine ⟨⟨⟨⟨⟨h1, h2⟩, ?_⟩, ?_⟩, h5⟩, h6⟩
    · rw [attrsOf_stepKind (by rw [attrsOf_startSt]; exact h2), attrsOf_startSt]; exact h3
    · rw [attrsOf_stepRange, attrsOf_stepKind (by rw [attrsOf_startSt]; exact h2), attrsOf_startSt,
        lengthOk_congr (b := attrsOf tdY) (by simp)]
      exact h4

theorem attrsOf_overlayLocal {env : Env} {root : Mod} {t : Stmt} {src : Source} {tdY : YType}
    (h : kindOk env root t (src == .builtin) (isDec t (attrsOf tdY)) (attrsOf tdY) = true) :
    attrsOf (overlayLocal env root t src tdY (startSt t tdY)).1 = typeNext t (attrsOf tdY) := by
  unfold overlayLocal typeNext
  simp only [isDecimal64_eq]
  rw [attrsOf_stepPattern, attrsOf_stepBit, attrsOf_stepEnum, attrsOf_stepLength, attrsOf_stepRange,
    attrsOf_stepKind (by rw [attrsOf_startSt]; exact h), attrsOf_startSt]

theorem typeOk_iff (env : Env) (root : Mod) (t : Stmt) (b : Bool) (a : Attrs) :
    typeOk env root t b a = true ↔ overrideOk t a = true ∧ localOk env root t b a = true ∧ posixOk env root t = true := by
  unfold typeOk localOk
  simp only [Bool.and_eq_true]
  constructor
  · rintro ⟨⟨⟨⟨⟨⟨⟨h1, h2⟩, h3⟩, h4⟩, h5⟩, h6⟩, h7⟩, h8⟩
    exact ⟨h2, ⟨⟨⟨⟨⟨h1, h3⟩, h4⟩, h5⟩, h6⟩, h7⟩, h8⟩
  · rintro ⟨h2, ⟨⟨⟨⟨⟨h1, h3⟩, h4⟩, h5⟩, h6⟩, h7⟩, h8⟩
    exact ⟨⟨⟨⟨⟨⟨⟨h1, h2⟩, h3⟩, h4⟩, h5⟩, h6⟩, h7⟩, h8⟩

theorem localOk_kind {env : Env} {root : Mod} {t : Stmt} {b : Bool} {a : Attrs} (h : localOk env root t b a = true) :
    kindOk env root t b (isDec t a) a = true := by
  unfold localOk at h
  simp only [Bool.and_eq_true] at h
  exact h.1.1.1.1.2

/-- The shape of `overlayType` when the override check passes and the extension prefixes resolve. -/
theorem overlayType_eq {env : Env} {root : Mod} {t : Stmt} {src : Source} {tdY : YType} {ms : List Res} {pps : List Stmt}
    (ho : overrideOk t (attrsOf tdY) = true) (hp : posixPatterns env root t = some pps) :
    overlayType env root t src tdY ms =
      { ty := some (fixRoot (stepMembers ms (stepPosix env pps (overlayLocal env root t src tdY (startSt t tdY)))).1),
        errs := (stepMembers ms (stepPosix env pps (overlayLocal env root t src tdY (startSt t tdY)))).2 } := by
  unfold overrideOk at ho
  unfold overlayType
  simp only [isDecimal64_eq, startSt, hp]
  have hc : ¬ ((isDec t (attrsOf tdY) && tdY.fractionDigits != 0 && (t.one? "fraction-digits").isSome) = true) := by
    intro hc
    have : (isDec t (attrsOf tdY) && (attrsOf tdY).fd != 0 && (t.one? "fraction-digits").isSome) = true := hc
    rw [this] at ho
    cases ho
  rw [if_neg hc]

/-! ## The theorems -/

/-- Under `typeOk` the level raises no error of its own: every error is an error of a member type. -/
theorem overlayType_errs_of_ok {env : Env} {root : Mod} {t : Stmt} {src : Source} {tdY : YType} {ms : List Res}
    (h : typeOk env root t (src == .builtin) (attrsOf tdY) = true) :
    ∀ e ∈ (overlayType env root t src tdY ms).errs, ∃ r ∈ ms, e ∈ r.errs := by
  obtain ⟨ho, hl, hp⟩ := (typeOk_iff _ _ _ _ _).mp h
  unfold posixOk at hp
  cases hpp : posixPatterns env root t with
  | none => rw [hpp] at hp; cases hp
  | some pps =>
    rw [hpp] at hp
    simp only at hp
    rw [overlayType_eq ho hpp]
    intro e he
    simp only [stepMembers] at he
    have hnil : (stepPosix env pps (overlayLocal env root t src tdY (startSt t tdY))).2 = [] :=
      (stepPosix_nil_iff _ _ _).mpr ⟨(overlayLocal_nil_iff _ _ _ _ _).mpr hl, hp⟩
    rw [hnil] at he
    rcases (mem_appendNewErrs e _ _).mp he with h' | h'
    · cases h'
    · rw [List.mem_flatMap] at h'
      exact h'

/-- Under `typeOk` the level yields a YangType, with the attributes `typeNext` computes. -/
theorem overlayType_attrs_of_ok {env : Env} {root : Mod} {t : Stmt} {src : Source} {tdY : YType} {ms : List Res}
    (h : typeOk env root t (src == .builtin) (attrsOf tdY) = true) :
    ∃ y, (overlayType env root t src tdY ms).ty = some y ∧ attrsOf y = typeNext t (attrsOf tdY) := by
  obtain ⟨ho, hl, hp⟩ := (typeOk_iff _ _ _ _ _).mp h
  unfold posixOk at hp
  cases hpp : posixPatterns env root t with
  | none => rw [hpp] at hp; cases hp
  | some pps =>
    rw [overlayType_eq ho hpp]
    refine ⟨_, rfl, ?_⟩
    rw [attrsOf_fixRoot, attrsOf_stepMembers, attrsOf_stepPosix, attrsOf_overlayLocal (localOk_kind hl)]

/-- An error-free level satisfies the side condition. -/
theorem typeOk_of_errs_nil {env : Env} {root : Mod} {t : Stmt} {src : Source} {tdY : YType} {ms : List Res}
    (h : (overlayType env root t src tdY ms).errs = []) : typeOk env root t (src == .builtin) (attrsOf tdY) = true := by
  have ho : overrideOk t (attrsOf tdY) = true := by
    unfold overlayType at h
    simp only [] at h
    split at h
    · simp at h
    · rename_i hc
      unfold overrideOk
      have : ¬ ((isDec t (attrsOf tdY) && (attrsOf tdY).fd != 0 && (t.one? "fraction-digits").isSome) = true) := hc
      rw [Bool.not_eq_true] at this
      rw [this]
      rfl
  cases hpp : posixPatterns env root t with
  | none =>
    unfold overlayType at h
    simp only [hpp] at h
    split at h <;> simp at h
  | some pps =>
    rw [overlayType_eq ho hpp] at h
    simp only at h
    have h8 := stepMembers_errs_nil h
    obtain ⟨h7, hq⟩ := (stepPosix_nil_iff _ _ _).mp h8
    refine (typeOk_iff _ _ _ _ _).mpr ⟨ho, (overlayLocal_nil_iff _ _ _ _ _).mp h7, ?_⟩
    unfold posixOk
    rw [hpp]
    exact hq

/-- The side condition is exactly "no error of its own" (given error-free members). -/
theorem typeOk_iff_errs_nil {env : Env} {root : Mod} {t : Stmt} {src : Source} {tdY : YType} {ms : List Res}
    (hms : ∀ r ∈ ms, r.errs = []) :
    typeOk env root t (src == .builtin) (attrsOf tdY) = true ↔ (overlayType env root t src tdY ms).errs = [] := by
  constructor
  · intro h
    cases hq : (overlayType env root t src tdY ms).errs with
    | nil => rfl
    | cons e l =>
      obtain ⟨r, hr, her⟩ := overlayType_errs_of_ok (ms := ms) h e (by rw [hq]; exact List.mem_cons_self)
      rw [hms r hr] at her
      cases her
  · exact typeOk_of_errs_nil

theorem typedefOverlay_of_ok {env : Env} {root : Mod} {td tt : Stmt} {ty : YType} (h : typedefOk env root tt = true) :
    ∃ y, typedefOverlay env root td tt ty = { ty := some y, errs := [] } ∧ attrsOf y = attrsOf ty := by
  unfold typedefOk at h
  unfold typedefOverlay tdIdentity
  split at h
  · rename_i hb
    simp only [hb]
    exact ⟨_, rfl, by simp [attrsOf]⟩
  · rename_i b hb
    simp only [hb]
    split at h
    · rename_i e he
      simp only [he]
      exact ⟨_, rfl, by simp [attrsOf]⟩
    · cases h

theorem typedefOk_of_errs_nil {env : Env} {root : Mod} {td tt : Stmt} {ty : YType}
    (h : (typedefOverlay env root td tt ty).errs = []) : typedefOk env root tt = true := by
  unfold typedefOverlay tdIdentity at h
  unfold typedefOk
  split
  · rfl
  · rename_i b hb
    simp only [hb] at h
    split
    · rfl
    · rename_i e he
      simp only [he] at h
      simp at h

/-! ## Examples

`decide` alone gets stuck on `String.toUTF8` and on the number parser; kernel evaluation
(`decide +kernel`) carries them through. -/

section Examples

private def exEnv : Env := { reg := {}, link := {}, dict := [], fuel := 0 }
private def exRoot : Mod := ⟨0, Stmt.mk "module" true "m" "f.yang" 1 1 [Stmt.mk "prefix" true "m" "f.yang" 2 3 []]⟩
/-- `type int8 { range "1..10"; }` -/
private def exInt8 : Stmt := Stmt.mk "type" true "int8" "f.yang" 5 5 [Stmt.mk "range" true "1..10" "f.yang" 6 7 []]
/-- `type int8 { range "1..1000"; }` -/
private def exInt8Wide : Stmt := Stmt.mk "type" true "int8" "f.yang" 5 5 [Stmt.mk "range" true "1..1000" "f.yang" 6 7 []]
/-- `type string { length "1..10"; pattern "a*"; }` -/
private def exStr : Stmt :=
  Stmt.mk "type" true "string" "f.yang" 5 5
    [Stmt.mk "length" true "1..10" "f.yang" 6 7 [], Stmt.mk "pattern" true "a*" "f.yang" 7 7 []]
/-- `type decimal64 { fraction-digits 2; range "1.5..2.5"; }` -/
private def exDec : Stmt :=
  Stmt.mk "type" true "decimal64" "f.yang" 5 5
    [Stmt.mk "fraction-digits" true "2" "f.yang" 6 7 [], Stmt.mk "range" true "1.5..2.5" "f.yang" 7 7 []]
private def int8Y : YType := { name := "int8", kind := "int8", range := Range.int8Range }
private def stringY : YType := { name := "string", kind := "string" }
private def decimalY : YType := { name := "decimal64", kind := "decimal64" }

example : builtin? "int8" = some int8Y ∧ builtin? "string" = some stringY ∧ builtin? "decimal64" = some decimalY :=
  ⟨rfl, rfl, rfl⟩

/-- A range inside the one of int8 is admissible … -/
example : typeOk exEnv exRoot exInt8 true (attrsOf int8Y) = true := by decide +kernel
/-- … and it becomes the range of the resolved type; -/
example : (typeNext exInt8 (attrsOf int8Y)).range =
    [{ min := { value := 1, fd := 0, neg := false }, max := { value := 10, fd := 0, neg := false } }] := by
  decide +kernel
/-- a range outside it is not. -/
example : typeOk exEnv exRoot exInt8Wide true (attrsOf int8Y) = false := by decide +kernel
/-- A length and a pattern on a string. -/
example : typeOk exEnv exRoot exStr true (attrsOf stringY) = true := by decide +kernel
/-- A direct decimal64 must state fraction-digits (and its range is read with them) … -/
example : typeOk exEnv exRoot exDec true (attrsOf decimalY) = true := by decide +kernel
example : (typeNext exDec (attrsOf decimalY)).fd = 2 := by decide +kernel
/-- … and a type derived from the result may not state them again. -/
example : typeOk exEnv exRoot exDec false (typeNext exDec (attrsOf decimalY)) = false := by decide +kernel
/-- Hence (`overlayType_errs_of_ok`) the level `type int8 { range "1..10"; }` is error-free. -/
example : (overlayType exEnv exRoot exInt8 .builtin int8Y []).errs = [] := by
  have h := overlayType_errs_of_ok (env := exEnv) (root := exRoot) (t := exInt8) (src := .builtin) (tdY := int8Y)
    (ms := []) (by decide +kernel)
  cases hq : (overlayType exEnv exRoot exInt8 .builtin int8Y []).errs with
  | nil => rfl
  | cons e l =>
    obtain ⟨r, hr, _⟩ := h e (by rw [hq]; exact List.mem_cons_self)
    cases hr

end Examples

end Goyang.Lemmas.TypesRestr
