import Goyang.Lemmas.TypesDefs
import Goyang.Lemmas.TypesClosure
/-
The executable binding `Spec.Types.bindType` and the binding relation `Spec.Types.Binds` agree
(property C09, `spec_exec_binds_*`).
-/
namespace Goyang.Lemmas.TypesSpecBind
open Goyang.Model Goyang.Spec.Types Goyang.Lemmas.TypesDefs Goyang.Lemmas.TypesClosure Goyang.Lemmas.TypesFuel

theorem pick_typedef {l : List (Mod × Stmt × List Stmt)} {m : Mod} {td : Stmt} {sc : List Stmt}
    (h : pick l = .typedef m td sc) : l = [(m, td, sc)] := by
  unfold pick at h
  split at h
  · cases h
  · cases h; rfl
  · cases h

theorem pick_of_mem {l : List (Mod × Stmt × List Stmt)} {m : Mod} {td : Stmt} {sc : List Stmt}
    (h : (m, td, sc) ∈ l) : pick l = .typedef m td sc ∨ pick l = .ambiguous := by
  match l, h with
  | [x], h => rw [List.mem_singleton] at h; subst h; exact Or.inl rfl
  | _ :: _ :: _, _ => exact Or.inr rfl

theorem nearestDeclaring_some {name : String} : ∀ {scope : List Stmt} {l : List Stmt},
    nearestDeclaring name scope = some l →
    ∃ pre n up, l = n :: up ∧ scope = pre ++ n :: up ∧ (∀ x ∈ pre, declared x name = []) ∧ declared n name ≠ [] := by
  intro scope
  induction scope with
  | nil => intro l h; simp [nearestDeclaring] at h
  | cons a rest ih =>
    intro l h
    unfold nearestDeclaring at h
    split at h
    · rename_i he
      obtain ⟨pre, n, up, h1, h2, h3, h4⟩ := ih h
      refine ⟨a :: pre, n, up, h1, by rw [h2]; rfl, ?_, h4⟩
      intro x hx
      cases hx with
      | head => exact List.isEmpty_iff.mp he
      | tail _ hx => exact h3 x hx
    · rename_i he
      cases h
      exact ⟨[], a, rest, rfl, rfl, (by intro x hx; cases hx), (by intro h0; rw [h0] at he; exact he rfl)⟩

theorem nearestDeclaring_none {name : String} : ∀ {scope : List Stmt},
    nearestDeclaring name scope = none → ∀ x ∈ scope, declared x name = [] := by
  intro scope
  induction scope with
  | nil => intro _ x hx; cases hx
  | cons a rest ih =>
    intro h x hx
    unfold nearestDeclaring at h
    split at h
    · rename_i he
      cases hx with
      | head => exact List.isEmpty_iff.mp he
      | tail _ hx => exact ih h x hx
    · cases h

theorem nearestDeclaring_of {name : String} {n : Stmt} {up : List Stmt} : ∀ {pre : List Stmt},
    (∀ x ∈ pre, declared x name = []) → declared n name ≠ [] → nearestDeclaring name (pre ++ n :: up) = some (n :: up) := by
  intro pre
  induction pre with
  | nil =>
    intro _ hn
    simp only [List.nil_append, nearestDeclaring]
    rw [if_neg]
    intro he
    exact hn (List.isEmpty_iff.mp he)
  | cons a rest ih =>
    intro hp hn
    simp only [List.cons_append, nearestDeclaring]
    rw [if_pos (by rw [hp a List.mem_cons_self]; rfl)]
    exact ih (fun x hx => hp x (List.mem_cons_of_mem _ hx)) hn

theorem nearestDeclaring_of_none {name : String} : ∀ {scope : List Stmt},
    (∀ x ∈ scope, declared x name = []) → nearestDeclaring name scope = none := by
  intro scope
  induction scope with
  | nil => intro _; rfl
  | cons a rest ih =>
    intro h
    simp only [nearestDeclaring]
    rw [if_pos (by rw [h a List.mem_cons_self]; rfl)]
    exact ih (fun x hx => h x (List.mem_cons_of_mem _ hx))

theorem mem_topLevel {ms : List Mod} {name : String} {m : Mod} {td : Stmt} {sc : List Stmt} :
    (m, td, sc) ∈ topLevel ms name ↔ m ∈ ms ∧ td ∈ declared m.stmt name ∧ sc = [m.stmt] := by
  unfold topLevel
  simp only [List.mem_flatMap, List.mem_map, Prod.mk.injEq]
  constructor
  · rintro ⟨m', hm', td', htd', rfl, rfl, rfl⟩
    exact ⟨hm', htd', rfl⟩
  · rintro ⟨hm, htd, rfl⟩
    exact ⟨m, hm, td, htd, rfl, rfl, rfl⟩

theorem unitOf_inUnit {reg : Registry} {root m : Mod} (h : m ∈ unitOf reg root) : InUnit reg root m := by
  unfold unitOf at h
  obtain ⟨s, hs, hstar⟩ := withSubmodules_sound reg _ m h
  cases hs with
  | head => exact Or.inl hstar
  | tail _ hs =>
    split at hs
    · rename_i b hb
      have hs' : s ∈ (reg.getModule b).toList := hs
      rw [Option.mem_toList] at hs'
      exact Or.inr ⟨b, s, hb, hs', hstar⟩
    · cases hs

/-- **The executable binding is sound**: the typedef `bindType` answers is one the name `Binds` to. -/
theorem bindType_sound (reg : Registry) (root : Mod) (scope : List Stmt) (name : String) (m : Mod) (td : Stmt)
    (sc : List Stmt) (h : bindType reg root scope name = .typedef m td sc) : Binds reg root scope name m td sc := by
  unfold bindType at h
  split at h
  · cases h
  · rename_i hnb
    have hnb' : builtinNames.contains name = false := by simpa using hnb
    simp only at h
    split at h
    · rename_i hloc
      have hlocal : isLocalRef root name = true := hloc
      split at h
      · rename_i n up hnd
        obtain ⟨pre, n', up', h1, h2, h3, h4⟩ := nearestDeclaring_some hnd
        cases h1
        have hl := pick_typedef h
        have hmem : (m, td, sc) ∈ (declared n (splitPrefix name).2).map fun td => (root, td, n :: up) := by
          rw [hl]; exact List.mem_singleton.mpr rfl
        rw [List.mem_map] at hmem
        obtain ⟨td', htd', heq⟩ := hmem
        simp only [Prod.mk.injEq] at heq
        obtain ⟨rfl, rfl, rfl⟩ := heq
        exact Binds.lexical pre n up td' hnb' hlocal h2 h3 htd'
      · rename_i hnd
        have hl := pick_typedef h
        have hmem : (m, td, sc) ∈ topLevel (unitOf reg root) (splitPrefix name).2 := by
          rw [hl]; exact List.mem_singleton.mpr rfl
        obtain ⟨hm, htd, rfl⟩ := mem_topLevel.mp hmem
        have hnone : ∀ x ∈ scope, declared x (baseName name) = [] := by
          cases hq : nearestDeclaring (splitPrefix name).2 scope with
          | none => exact nearestDeclaring_none hq
          | some l =>
            obtain ⟨pre, n', up', h1, _⟩ := nearestDeclaring_some hq
            subst h1
            exact absurd hq (hnd n' up')
        exact Binds.moduleLevel m td hnb' hlocal hnone (unitOf_inUnit hm) htd
    · rename_i hloc
      have hforeign : isLocalRef root name = false := by
        unfold isLocalRef; simpa using hloc
      split at h
      · cases h
      · rename_i i hfil
        have hi : i ∈ root.imports.filter fun i => i.argOf? "prefix" == some (splitPrefix name).1 := by
          rw [hfil]; exact List.mem_singleton.mpr rfl
        rw [List.mem_filter] at hi
        split at h
        · cases h
        · rename_i ext hext
          have hl := pick_typedef h
          have hmem : (m, td, sc) ∈ topLevel (withSubmodules reg [ext]) (splitPrefix name).2 := by
            rw [hl]; exact List.mem_singleton.mpr rfl
          obtain ⟨hm, htd, rfl⟩ := mem_topLevel.mp hmem
          obtain ⟨s, hs, hstar⟩ := withSubmodules_sound reg _ m hm
          rw [List.mem_singleton] at hs
          subst hs
          exact Binds.foreign i s m td hnb' hforeign hi.1 (by simpa using hi.2) hext hstar htd
      · cases h

/-- **The executable binding is complete**: a typedef the name `Binds` to is the one `bindType`
answers, unless `bindType` sees more than one candidate (`ambiguous`: no claim). -/
theorem bindType_complete (reg : Registry) (hid : SeqId reg) (root : Mod) (hroot : root ∈ reg.mods)
    (scope : List Stmt) (name : String) (m : Mod) (td : Stmt) (sc : List Stmt)
    (h : Binds reg root scope name m td sc) :
    bindType reg root scope name = .typedef m td sc ∨ bindType reg root scope name = .ambiguous := by
  unfold bindType
  cases h with
  | lexical pre n up td hnb hlocal hsc hpre htd =>
    have hlocal' : ((splitPrefix name).1 == "" || (splitPrefix name).1 == root.getPrefix) = true := hlocal
    simp only [hnb, Bool.false_eq_true, if_false, hlocal', if_true]
    unfold baseName at hpre htd
    rw [hsc, nearestDeclaring_of hpre (List.ne_nil_of_mem htd)]
    simp only
    exact pick_of_mem (List.mem_map.mpr ⟨td, htd, rfl⟩)
  | moduleLevel m td hnb hlocal hnone hunit htd =>
    have hlocal' : ((splitPrefix name).1 == "" || (splitPrefix name).1 == root.getPrefix) = true := hlocal
    simp only [hnb, Bool.false_eq_true, if_false, hlocal', if_true]
    unfold baseName at hnone htd
    rw [nearestDeclaring_of_none hnone]
    simp only
    exact pick_of_mem (mem_topLevel.mpr ⟨(mem_unitOf_iff reg hid root hroot m).mpr hunit, htd, rfl⟩)
  | foreign i ext m td hnb hforeign hi hp hf hstar htd =>
    have hforeign' : ((splitPrefix name).1 == "" || (splitPrefix name).1 == root.getPrefix) = false := hforeign
    simp only [hnb, Bool.false_eq_true, if_false, hforeign']
    unfold baseName at htd
    have hmemf : i ∈ root.imports.filter fun i => i.argOf? "prefix" == some (splitPrefix name).1 :=
      List.mem_filter.mpr ⟨hi, by rw [hp]; simp⟩
    split
    · rename_i hnil
      rw [hnil] at hmemf
      cases hmemf
    · rename_i i' hone
      rw [hone, List.mem_singleton] at hmemf
      subst hmemf
      rw [hf]
      simp only
      exact pick_of_mem (mem_topLevel.mpr
        ⟨withSubmodules_complete reg hid [ext] (by intro s hs; rw [List.mem_singleton] at hs; rw [hs]; exact findModule_mem hf)
          ext (List.mem_singleton.mpr rfl) m hstar, htd, rfl⟩)
    · exact Or.inr rfl

/-! ## Discharging the standing hypotheses on a concrete schema through the executable binding -/

/-- What `bindType` answers is the only typedef the name binds to. -/
theorem bindType_unique {reg : Registry} (hid : SeqId reg) {root : Mod} (hroot : root ∈ reg.mods)
    {scope : List Stmt} {name : String} {m : Mod} {td : Stmt} {sc : List Stmt}
    (h : bindType reg root scope name = .typedef m td sc) {m' : Mod} {td' : Stmt} {sc' : List Stmt}
    (hb : Binds reg root scope name m' td' sc') : m' = m ∧ td' = td ∧ sc' = sc := by
  rcases bindType_complete reg hid root hroot scope name m' td' sc' hb with h1 | h1
  · rw [h] at h1
    cases h1
    exact ⟨rfl, rfl, rfl⟩
  · rw [h] at h1
    cases h1

theorem unambiguousAt_of_bind {reg : Registry} (hid : SeqId reg) {root : Mod} (hroot : root ∈ reg.mods)
    {scope : List Stmt} {t : Stmt} {m : Mod} {td : Stmt} {sc : List Stmt}
    (h : bindType reg root scope t.arg = .typedef m td sc) : UnambiguousAt reg (root, scope, t) := by
  intro m1 td1 sc1 m2 td2 sc2 h1 h2
  obtain ⟨a1, a2, a3⟩ := bindType_unique hid hroot h h1
  obtain ⟨b1, b2, b3⟩ := bindType_unique hid hroot h h2
  exact ⟨a1.trans b1.symm, a2.trans b2.symm, a3.trans b3.symm⟩

theorem unambiguousAt_of_builtin {reg : Registry} {root : Mod} {scope : List Stmt} {t : Stmt}
    (h : builtinNames.contains t.arg = true) : UnambiguousAt reg (root, scope, t) := by
  intro m1 td1 sc1 m2 td2 sc2 h1 _
  have : builtinNames.contains t.arg = false := by cases h1 <;> assumption
  rw [h] at this
  cases this

/-- The sites a type statement bound by `bindType` uses: its typedef's type statement and its member types. -/
theorem uses_of_bind {reg : Registry} (hid : SeqId reg) {root : Mod} (hroot : root ∈ reg.mods)
    {scope : List Stmt} {t : Stmt} {m : Mod} {td : Stmt} {sc : List Stmt} {tt : Stmt}
    (hb : bindType reg root scope t.arg = .typedef m td sc) (htt : td.one? "type" = some tt)
    {x : Site} (h : Uses reg (root, scope, t) x) :
    x = (m, td :: sc, tt) ∨ ∃ ut ∈ t.all "type", x = (root, t :: scope, ut) := by
  cases h with
  | base m' td' sc' tt' hbind htt' =>
    obtain ⟨rfl, rfl, rfl⟩ := bindType_unique hid hroot hb hbind
    rw [htt] at htt'
    cases htt'
    exact Or.inl rfl
  | member ut hut => exact Or.inr ⟨ut, hut, rfl⟩

/-- … and those of one that names a built-in type: its member types. -/
theorem uses_of_builtin {reg : Registry} {root : Mod} {scope : List Stmt} {t : Stmt}
    (hb : builtinNames.contains t.arg = true) {x : Site} (h : Uses reg (root, scope, t) x) :
    ∃ ut ∈ t.all "type", x = (root, t :: scope, ut) := by
  cases h with
  | base m' td' sc' tt' hbind htt' =>
    have : builtinNames.contains t.arg = false := by cases hbind <;> assumption
    rw [hb] at this
    cases this
  | member ut hut => exact ⟨ut, hut, rfl⟩

end Goyang.Lemmas.TypesSpecBind
