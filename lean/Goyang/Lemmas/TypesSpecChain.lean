import Batteries.Data.List.Basic
import Goyang.Lemmas.TypesDefs
/-
Agreement of the executable specification of property C09 (`chainOf`, `inherit`; Goyang/Spec/Types.lean)
with the relational one (`DerivesFrom`, `Resolvable`, `chainUnits` … `chainPatterns`): the derivation
chain and inheritance.  The binding step (`bindType` against `Binds`) is a hypothesis here (`BindSound`).
Core Lean only.
-/
namespace Goyang.Lemmas.TypesSpecChain
open Goyang.Model Goyang.Spec.Types

/-- The executable binding is sound for the relation (discharged elsewhere; taken as a hypothesis here). -/
def BindSound (reg : Registry) : Prop :=
  ∀ root scope name m td sc, bindType reg root scope name = .typedef m td sc → Binds reg root scope name m td sc

theorem pick_ne_builtin (c : List (Mod × Stmt × List Stmt)) (k : String) : pick c ≠ .builtin k := by
  unfold pick
  split <;> simp

theorem bindType_builtin {reg : Registry} {root : Mod} {scope : List Stmt} {name k : String}
    (h : bindType reg root scope name = .builtin k) : builtinNames.contains name = true ∧ k = name := by
  unfold bindType at h
  split at h
  · rename_i hb
    simp only [Binding.builtin.injEq] at h
    exact ⟨hb, h.symm⟩
  · exfalso
    simp only at h
    split at h
    · split at h <;> exact pick_ne_builtin _ _ h
    · split at h
      · cases h
      · split at h
        · cases h
        · exact pick_ne_builtin _ _ h
      · cases h

/-- What the executable specification reads off one link of a derivation chain. -/
def LayerOf (reg : Registry) : Link → Layer → Prop
  | .td d, l => l = typedefLayer d
  | .ty root scope t, l =>
      l.units = none ∧ l.default = none ∧ l.path = t.argOf? "path" ∧
      l.patterns = (t.all "pattern").map Stmt.arg ∧
      l.fd = (t.argOf? "fraction-digits").bind String.toNat? ∧
      l.enum = (if (t.all "enum").isEmpty then none else assignValues "value" (-2147483648) 2147483647 (t.all "enum")) ∧
      l.bit = (if (t.all "bit").isEmpty then none else assignValues "position" 0 4294967295 (t.all "bit")) ∧
      (l.members = none ↔ t.all "type" = []) ∧
      (∀ ms, l.members = some ms → ∃ fuel vis, List.Forall₂
          (fun ut st => finish (chainOf reg fuel root (t :: scope) ut vis) = .ok st) (t.all "type") ms) ∧
      -- what is stated is well-formed (else `chainOf` answers `noClaim`)
      (l.fd = none ↔ t.argOf? "fraction-digits" = none) ∧ (∀ n, l.fd = some n → 1 ≤ n ∧ n ≤ 18) ∧
      (l.enum = none ↔ t.all "enum" = []) ∧ (l.bit = none ↔ t.all "bit" = [])

theorem collectMembers_ok : ∀ (l : List SRes) (ms : List SType), collectMembers l = some (.ok ms) →
    List.Forall₂ (fun r st => r = .ok st) l ms
  | [], ms, h => by
    simp only [collectMembers, Option.some.injEq, Except.ok.injEq] at h
    subst h; exact .nil
  | .error :: _, ms, h => by simp [collectMembers] at h
  | .noClaim w :: rest, ms, h => by
    simp only [collectMembers, Option.map_eq_some_iff] at h
    obtain ⟨_, _, h⟩ := h; cases h
  | .ok t :: rest, ms, h => by
    simp only [collectMembers, Option.map_eq_some_iff] at h
    obtain ⟨r, hr, h⟩ := h
    cases r with
    | error e => cases h
    | ok ms' =>
      simp only [Except.map, Except.ok.injEq] at h
      subst h
      exact .cons rfl (collectMembers_ok rest ms' hr)

theorem forall₂_map_left {α β γ : Type} {R : β → γ → Prop} (f : α → β) :
    ∀ {l : List α} {ms : List γ}, List.Forall₂ R (l.map f) ms → List.Forall₂ (fun a c => R (f a) c) l ms
  | [], _, h => by cases h; exact .nil
  | _ :: _, _, h => by
    cases h with
    | cons h1 h2 => exact .cons h1 (forall₂_map_left f h2)

/-- The layer a type statement itself contributes (the `own?` of `chainOf`). -/
def ownLayer (t : Stmt) (members? : Except String (List SType)) : Except String Layer :=
  let memberStmts := t.all "type"
  let enumStmts := t.all "enum"
  let bitStmts := t.all "bit"
  let enum? := if enumStmts.isEmpty then some none else (assignValues "value" (-2147483648) 2147483647 enumStmts).map some
  let bit? := if bitStmts.isEmpty then some none else (assignValues "position" 0 4294967295 bitStmts).map some
  let fd? : Option (Option Nat) :=
    match t.argOf? "fraction-digits" with
    | none => some none
    | some a => match a.toNat? with
      | some n => if 1 ≤ n && n ≤ 18 then some (some n) else none
      | none => none
  match members?, enum?, bit?, fd? with
  | .ok ms, some e, some b, some fd =>
    .ok { fd := fd, path := t.argOf? "path", enum := e, bit := b,
          patterns := (t.all "pattern").map Stmt.arg,
          members := if memberStmts.isEmpty then none else some ms }
  | .error w, _, _, _ => .error w
  | _, none, _, _ => .error "enum-values"
  | _, _, none, _ => .error "bit-positions"
  | _, _, _, none => .error "fraction-digits"

theorem ownLayer_ok {t : Stmt} {members? : Except String (List SType)} {own : Layer}
    (h : ownLayer t members? = .ok own) :
    ∃ ms, members? = .ok ms ∧
      own.units = none ∧ own.default = none ∧ own.path = t.argOf? "path" ∧
      own.patterns = (t.all "pattern").map Stmt.arg ∧
      own.fd = (t.argOf? "fraction-digits").bind String.toNat? ∧
      own.enum = (if (t.all "enum").isEmpty then none else assignValues "value" (-2147483648) 2147483647 (t.all "enum")) ∧
      own.bit = (if (t.all "bit").isEmpty then none else assignValues "position" 0 4294967295 (t.all "bit")) ∧
      own.members = (if (t.all "type").isEmpty then none else some ms) ∧
      (own.fd = none ↔ t.argOf? "fraction-digits" = none) ∧ (∀ n, own.fd = some n → 1 ≤ n ∧ n ≤ 18) ∧
      (own.enum = none ↔ t.all "enum" = []) ∧ (own.bit = none ↔ t.all "bit" = []) := by
  unfold ownLayer at h
  simp only at h
  split at h
  · rename_i ms e b fd he hb hfd
    simp only [Except.ok.injEq] at h
    subst h
    have he' : e = (if (t.all "enum").isEmpty then none else assignValues "value" (-2147483648) 2147483647 (t.all "enum")) ∧
        (e = none ↔ t.all "enum" = []) := by
      cases hemp : (t.all "enum").isEmpty
      · have hne : t.all "enum" ≠ [] := by intro h0; rw [h0] at hemp; cases hemp
        simp only [hemp, Bool.false_eq_true, if_false, Option.map_eq_some_iff] at he ⊢
        obtain ⟨a, ha, rfl⟩ := he
        exact ⟨ha.symm, by simp [hne]⟩
      · have hnil : t.all "enum" = [] := List.isEmpty_iff.mp hemp
        simp only [hemp, if_true, Option.some.injEq] at he ⊢
        subst he
        exact ⟨rfl, by simp [hnil]⟩
    have hb' : b = (if (t.all "bit").isEmpty then none else assignValues "position" 0 4294967295 (t.all "bit")) ∧
        (b = none ↔ t.all "bit" = []) := by
      cases hemp : (t.all "bit").isEmpty
      · have hne : t.all "bit" ≠ [] := by intro h0; rw [h0] at hemp; cases hemp
        simp only [hemp, Bool.false_eq_true, if_false, Option.map_eq_some_iff] at hb ⊢
        obtain ⟨a, ha, rfl⟩ := hb
        exact ⟨ha.symm, by simp [hne]⟩
      · have hnil : t.all "bit" = [] := List.isEmpty_iff.mp hemp
        simp only [hemp, if_true, Option.some.injEq] at hb ⊢
        subst hb
        exact ⟨rfl, by simp [hnil]⟩
    have hfd' : fd = (t.argOf? "fraction-digits").bind String.toNat? ∧
        (fd = none ↔ t.argOf? "fraction-digits" = none) ∧ (∀ n, fd = some n → 1 ≤ n ∧ n ≤ 18) := by
      cases ha : t.argOf? "fraction-digits" with
      | none =>
        rw [ha] at hfd
        simp only [Option.some.injEq] at hfd
        subst hfd
        exact ⟨rfl, by simp, by intro n hn; cases hn⟩
      | some a =>
        rw [ha] at hfd
        simp only at hfd
        split at hfd
        · rename_i n hn
          split at hfd
          · rename_i hr
            simp only [Option.some.injEq] at hfd
            subst hfd
            simp only [Bool.and_eq_true, decide_eq_true_eq] at hr
            refine ⟨by simp [hn], by simp, ?_⟩
            intro n' hn'
            simp only [Option.some.injEq] at hn'
            subst hn'
            exact hr
          · cases hfd
        · cases hfd
    exact ⟨ms, rfl, rfl, rfl, rfl, rfl, hfd'.1, he'.1, hb'.1, rfl, hfd'.2.1, hfd'.2.2, he'.2, hb'.2⟩
  all_goals cases h

/-- One step of `chainOf`, with `ownLayer` named. -/
theorem chainOf_succ (reg : Registry) (fuel : Nat) (root : Mod) (scope : List Stmt) (t : Stmt) (vis : List Key) :
    chainOf reg (fuel + 1) root scope t vis =
      (if vis.contains (root.seq, t.line, t.col) then .error else
       match collectMembers ((t.all "type").map fun ut =>
          finish (chainOf reg fuel root (t :: scope) ut ((root.seq, t.line, t.col) :: vis))) with
       | none => .error
       | some members? =>
         match bindType reg root scope t.arg with
         | .unbound => .error
         | .ambiguous => .noClaim "ambiguous"
         | .builtin k =>
           match ownLayer t members? with
           | .ok own => .ok k [own]
           | .error w => .noClaim w
         | .typedef m td sc =>
           match td.one? "type" with
           | none => .noClaim "typedef-without-type"
           | some tt =>
             match chainOf reg fuel m (td :: sc) tt ((root.seq, t.line, t.col) :: vis) with
             | .ok k ls =>
               match ownLayer t members? with
               | .ok own => .ok k (own :: typedefLayer td :: ls)
               | .error w => .noClaim w
             | .error => .error
             | .noClaim w => .noClaim w) := by
  rw [chainOf]
  rfl

theorem forall₂_left_mem {α β : Type} {R : α → β → Prop} :
    ∀ {l : List α} {ms : List β}, List.Forall₂ R l ms → ∀ {a}, a ∈ l → ∃ b, R a b
  | _, _, .nil, _, h => by cases h
  | _, _, .cons h1 h2, a, h => by
    rcases List.mem_cons.mp h with rfl | h
    · exact ⟨_, h1⟩
    · exact forall₂_left_mem h2 h

/-- One step of `chainOf` that answers `.ok`, taken apart. -/
theorem chainOf_succ_ok {reg : Registry} {fuel : Nat} {root : Mod} {scope : List Stmt} {t : Stmt} {vis : List Key}
    {k : String} {ls : List Layer} (h : chainOf reg (fuel + 1) root scope t vis = .ok k ls) :
    ∃ own, LayerOf reg (.ty root scope t) own ∧
      (∀ ut ∈ t.all "type", ∃ st, finish (chainOf reg fuel root (t :: scope) ut ((root.seq, t.line, t.col) :: vis)) = .ok st) ∧
      ((bindType reg root scope t.arg = .builtin k ∧ ls = [own]) ∨
       (∃ m td sc tt ls', bindType reg root scope t.arg = .typedef m td sc ∧ td.one? "type" = some tt ∧
          chainOf reg fuel m (td :: sc) tt ((root.seq, t.line, t.col) :: vis) = .ok k ls' ∧
          ls = own :: typedefLayer td :: ls')) := by
  rw [chainOf_succ] at h
  split at h
  · cases h
  split at h
  · cases h
  rename_i members? hcm
  have key : ∀ own, ownLayer t members? = .ok own →
      LayerOf reg (.ty root scope t) own ∧
      (∀ ut ∈ t.all "type", ∃ st, finish (chainOf reg fuel root (t :: scope) ut ((root.seq, t.line, t.col) :: vis)) = .ok st) := by
    intro own hown
    obtain ⟨ms, hms, h1, h2, h3, h4, h5, h6, h7, h8, h9, h10, h11, h12⟩ := ownLayer_ok hown
    subst hms
    have hf := forall₂_map_left _ (collectMembers_ok _ _ hcm)
    refine ⟨⟨h1, h2, h3, h4, h5, h6, h7, ?_, ?_, h9, h10, h11, h12⟩, ?_⟩
    · rw [h8]
      cases hemp : (t.all "type").isEmpty
      · have hne : t.all "type" ≠ [] := by intro h0; rw [h0] at hemp; cases hemp
        simp [hne]
      · simp [List.isEmpty_iff.mp hemp]
    · intro ms' hms'
      rw [h8] at hms'
      split at hms'
      · cases hms'
      · simp only [Option.some.injEq] at hms'
        subst hms'
        exact ⟨fuel, _, hf⟩
    · intro ut hut
      exact forall₂_left_mem hf hut
  split at h
  · cases h
  · cases h
  · split at h
    · rename_i k0 own hown
      simp only [Chain.ok.injEq] at h
      obtain ⟨rfl, rfl⟩ := h
      rename_i hbt
      exact ⟨own, (key own hown).1, (key own hown).2, .inl ⟨hbt, rfl⟩⟩
    · cases h
  · rename_i m td sc hbt
    split at h
    · cases h
    · rename_i tt htt
      split at h
      · rename_i k0 ls0 hch
        split at h
        · rename_i own hown
          simp only [Chain.ok.injEq] at h
          obtain ⟨rfl, rfl⟩ := h
          exact ⟨own, (key own hown).1, (key own hown).2, .inr ⟨m, td, sc, tt, ls0, hbt, htt, hch, rfl⟩⟩
        · cases h
      · cases h
      · cases h

theorem finish_ok {c : Chain} {st : SType} (h : finish c = .ok st) : ∃ k ls, c = .ok k ls ∧ st = inherit k ls := by
  cases c with
  | ok k ls =>
    simp only [finish] at h
    split at h
    · simp only [SRes.ok.injEq] at h
      exact ⟨k, ls, rfl, h.symm⟩
    · cases h
  | error => cases h
  | noClaim w => cases h

/-- `chainOf` answers `.ok` only along a derivation chain of the relational specification, and its
layers are what the statements of that chain say. -/
theorem chainOf_sound (reg : Registry) (hb : BindSound reg) :
    ∀ (fuel : Nat) (root : Mod) (scope : List Stmt) (t : Stmt) (vis : List Key) (k : String) (ls : List Layer),
      chainOf reg fuel root scope t vis = .ok k ls →
      ∃ chain, DerivesFrom reg root scope t k chain ∧ List.Forall₂ (LayerOf reg) chain ls := by
  intro fuel
  induction fuel with
  | zero => intro root scope t vis k ls h; unfold chainOf at h; cases h
  | succ fuel ih =>
    intro root scope t vis k ls h
    obtain ⟨own, hown, _, hcase⟩ := chainOf_succ_ok h
    rcases hcase with ⟨hbt, rfl⟩ | ⟨m, td, sc, tt, ls', hbt, htt, hch, rfl⟩
    · obtain ⟨hbi, rfl⟩ := bindType_builtin hbt
      exact ⟨[.ty root scope t], .builtin hbi, .cons hown .nil⟩
    · obtain ⟨chain, hd, hf⟩ := ih _ _ _ _ _ _ hch
      exact ⟨.ty root scope t :: .td td :: chain, .derived m td sc tt k chain (hb _ _ _ _ _ _ hbt) htt hd,
        .cons hown (.cons rfl hf)⟩

/-- … and then the type statement is `Resolvable` (its member types included). -/
theorem chainOf_resolvable (reg : Registry) (hb : BindSound reg) :
    ∀ (fuel : Nat) (root : Mod) (scope : List Stmt) (t : Stmt) (vis : List Key) (k : String) (ls : List Layer),
      chainOf reg fuel root scope t vis = .ok k ls → Resolvable reg root scope t := by
  intro fuel
  induction fuel with
  | zero => intro root scope t vis k ls h; unfold chainOf at h; cases h
  | succ fuel ih =>
    intro root scope t vis k ls h
    obtain ⟨own, _, hmem, hcase⟩ := chainOf_succ_ok h
    have hmem' : ∀ ut ∈ t.all "type", Resolvable reg root (t :: scope) ut := by
      intro ut hut
      obtain ⟨st, hst⟩ := hmem ut hut
      obtain ⟨k', ls', hc, _⟩ := finish_ok hst
      exact ih _ _ _ _ _ _ hc
    rcases hcase with ⟨hbt, rfl⟩ | ⟨m, td, sc, tt, ls', hbt, htt, hch, rfl⟩
    · exact .builtin (bindType_builtin hbt).1 hmem'
    · exact .derived m td sc tt (hb _ _ _ _ _ _ hbt) htt (ih _ _ _ _ _ _ hch) hmem'

theorem binds_not_builtin {reg : Registry} {root : Mod} {scope : List Stmt} {name : String} {m : Mod} {td : Stmt}
    {sc : List Stmt} (h : Binds reg root scope name m td sc) : builtinNames.contains name = false := by
  cases h <;> assumption

/-- In an unambiguous schema a type statement has at most one derivation chain. (Vacuous as it stands: `Unambiguous` holds of no registry, `Goyang.Props.C09.unambiguous_false`;
the usable form is `Goyang.Props.C09.spec_exec_chain_unique` over `UnambiguousBelow`.) -/
theorem derivesFrom_unique {reg : Registry} (hU : Unambiguous reg) {root : Mod} {scope : List Stmt} {t : Stmt}
    {k k' : String} {c c' : List Link} (h : DerivesFrom reg root scope t k c) (h' : DerivesFrom reg root scope t k' c') :
    k = k' ∧ c = c' := by
  induction h generalizing k' c' with
  | builtin hbi =>
    cases h' with
    | builtin _ => exact ⟨rfl, rfl⟩
    | derived m td sc tt kind chain hbd _ _ => rw [binds_not_builtin hbd] at hbi; cases hbi
  | derived m td sc tt kind chain hbd htt _ ih =>
    cases h' with
    | builtin hbi => rw [binds_not_builtin hbd] at hbi; cases hbi
    | derived m' td' sc' tt' kind' chain' hbd' htt' hd' =>
      obtain ⟨rfl, rfl, rfl⟩ := hU _ _ _ _ _ _ _ _ _ hbd hbd'
      rw [htt] at htt'
      simp only [Option.some.injEq] at htt'
      subst htt'
      obtain ⟨rfl, rfl⟩ := ih hd'
      exact ⟨rfl, rfl⟩

/-! ### Inheritance -/

theorem findSome?_forall₂ {α β γ δ : Type} {R : α → β → Prop} {f : α → Option γ} {g : β → Option δ} {w : γ → Option δ}
    (hfg : ∀ x y, R x y → g y = (f x).bind w) (hw : ∀ x y c, R x y → f x = some c → w c ≠ none) :
    ∀ {xs : List α} {ys : List β}, List.Forall₂ R xs ys → ys.findSome? g = (xs.findSome? f).bind w
  | _, _, .nil => rfl
  | x :: xs, y :: ys, .cons h1 h2 => by
    rw [List.findSome?_cons, List.findSome?_cons, hfg x y h1]
    cases hfx : f x with
    | none => simpa using findSome?_forall₂ hfg hw h2
    | some c =>
      have := hw x y c h1 hfx
      cases hwc : w c with
      | none => exact absurd hwc this
      | some d => simp [hwc]

theorem findSome?_forall₂' {α β γ : Type} {R : α → β → Prop} {f : α → Option γ} {g : β → Option γ}
    (hfg : ∀ x y, R x y → g y = f x) {xs : List α} {ys : List β} (h : List.Forall₂ R xs ys) :
    ys.findSome? g = xs.findSome? f := by
  have := findSome?_forall₂ (R := R) (f := f) (g := g) (w := some) (by intro x y hxy; simp [hfg x y hxy])
    (by intro _ _ _ _ _ h; cases h) h
  simpa using this

theorem flatMap_forall₂ {α β γ : Type} {R : α → β → Prop} {f : α → List γ} {g : β → List γ}
    (hfg : ∀ x y, R x y → g y = f x) :
    ∀ {xs : List α} {ys : List β}, List.Forall₂ R xs ys → ys.flatMap g = xs.flatMap f
  | _, _, .nil => rfl
  | x :: xs, y :: ys, .cons h1 h2 => by
    rw [List.flatMap_cons, List.flatMap_cons, hfg x y h1, flatMap_forall₂ hfg h2]

/-- `inherit` over the layers computes the relational chain functions ("nearest definition wins,
patterns accumulate"). -/
theorem inherit_eq {reg : Registry} {chain : List Link} {ls : List Layer} (h : List.Forall₂ (LayerOf reg) chain ls) (k : String) :
    (inherit k ls).kind = k ∧
    (inherit k ls).units = (chainUnits chain).getD "" ∧
    (inherit k ls).default = chainDefault chain ∧
    (inherit k ls).path = (chainPath chain).getD "" ∧
    (inherit k ls).patterns = chainPatterns chain ∧
    (inherit k ls).enum = (chainEnums chain).bind (assignValues "value" (-2147483648) 2147483647) ∧
    (inherit k ls).bit = (chainBits chain).bind (assignValues "position" 0 4294967295) ∧
    (inherit k ls).fd = ((chainFractionDigits chain).bind (fun f => f.arg.toNat?)).getD 0 := by
  have hu : ls.findSome? (·.units) = chainUnits chain := by
    refine findSome?_forall₂' (R := LayerOf reg) ?_ h
    intro x y hxy
    cases x with
    | td d => simp only [LayerOf] at hxy; subst hxy; rfl
    | ty r s t => exact hxy.1
  have hd : ls.findSome? (·.default) = chainDefault chain := by
    refine findSome?_forall₂' (R := LayerOf reg) ?_ h
    intro x y hxy
    cases x with
    | td d => simp only [LayerOf] at hxy; subst hxy; rfl
    | ty r s t => exact hxy.2.1
  have hp : ls.findSome? (·.path) = chainPath chain := by
    refine findSome?_forall₂' (R := LayerOf reg) ?_ h
    intro x y hxy
    cases x with
    | td d => simp only [LayerOf] at hxy; subst hxy; rfl
    | ty r s t => exact hxy.2.2.1
  have hpt : ls.flatMap (·.patterns) = chainPatterns chain := by
    refine flatMap_forall₂ (R := LayerOf reg) ?_ h
    intro x y hxy
    cases x with
    | td d => simp only [LayerOf] at hxy; subst hxy; rfl
    | ty r s t => exact hxy.2.2.2.1
  have he : ls.findSome? (·.enum) = (chainEnums chain).bind (assignValues "value" (-2147483648) 2147483647) := by
    refine findSome?_forall₂ (R := LayerOf reg) ?_ ?_ h
    · intro x y hxy
      cases x with
      | td d => simp only [LayerOf] at hxy; subst hxy; rfl
      | ty r s t =>
        have := hxy.2.2.2.2.2.1
        simp only [this]
        split <;> rfl
    · intro x y c hxy hc
      cases x with
      | td d => cases hc
      | ty r s t =>
        simp only at hc
        split at hc
        · cases hc
        · rename_i hne
          simp only [Option.some.injEq] at hc
          subst hc
          have h1 := hxy.2.2.2.2.2.1
          have h2 := hxy.2.2.2.2.2.2.2.2.2.2.2.1
          rw [if_neg hne] at h1
          intro h0
          rw [h0] at h1
          have := h2.mp h1
          rw [this] at hne
          exact hne rfl
  have hbt : ls.findSome? (·.bit) = (chainBits chain).bind (assignValues "position" 0 4294967295) := by
    refine findSome?_forall₂ (R := LayerOf reg) ?_ ?_ h
    · intro x y hxy
      cases x with
      | td d => simp only [LayerOf] at hxy; subst hxy; rfl
      | ty r s t =>
        have := hxy.2.2.2.2.2.2.1
        simp only [this]
        split <;> rfl
    · intro x y c hxy hc
      cases x with
      | td d => cases hc
      | ty r s t =>
        simp only at hc
        split at hc
        · cases hc
        · rename_i hne
          simp only [Option.some.injEq] at hc
          subst hc
          have h1 := hxy.2.2.2.2.2.2.1
          have h2 := hxy.2.2.2.2.2.2.2.2.2.2.2.2
          rw [if_neg hne] at h1
          intro h0
          rw [h0] at h1
          have := h2.mp h1
          rw [this] at hne
          exact hne rfl
  have hfd : ls.findSome? (·.fd) = (chainFractionDigits chain).bind (fun f => f.arg.toNat?) := by
    refine findSome?_forall₂ (R := LayerOf reg) ?_ ?_ h
    · intro x y hxy
      cases x with
      | td d => simp only [LayerOf] at hxy; subst hxy; rfl
      | ty r s t =>
        have := hxy.2.2.2.2.1
        simp only [this, Stmt.argOf?]
        cases t.one? "fraction-digits" <;> rfl
    · intro x y c hxy hc
      cases x with
      | td d => cases hc
      | ty r s t =>
        simp only at hc
        have h1 := hxy.2.2.2.2.1
        have h2 := hxy.2.2.2.2.2.2.2.2.2.1
        have ha : t.argOf? "fraction-digits" = some c.arg := by simp only [Stmt.argOf?, hc, Option.map_some]
        intro h0
        rw [ha] at h1 h2
        simp only [Option.bind_some] at h1
        rw [h0] at h1
        have := h2.mp h1
        cases this
  refine ⟨rfl, ?_, ?_, ?_, ?_, ?_, ?_, ?_⟩
  · show (ls.findSome? (·.units)).getD "" = _; rw [hu]
  · exact hd
  · show (ls.findSome? (·.path)).getD "" = _; rw [hp]
  · exact hpt
  · exact he
  · exact hbt
  · show (ls.findSome? (·.fd)).getD 0 = _; rw [hfd]

/-- The union members `inherit` reports are the resolved member types of the nearest type statement
of the chain that has member types. -/
theorem inherit_members {reg : Registry} {chain : List Link} {ls : List Layer} (h : List.Forall₂ (LayerOf reg) chain ls) (k : String) :
    ((∀ r s t, Link.ty r s t ∈ chain → t.all "type" = []) ∧ (inherit k ls).members = []) ∨
    (∃ pre r s t post, chain = pre ++ Link.ty r s t :: post ∧ (∀ r' s' t', Link.ty r' s' t' ∈ pre → t'.all "type" = []) ∧
        t.all "type" ≠ [] ∧ ∃ fuel vis, List.Forall₂
          (fun ut st => finish (chainOf reg fuel r (t :: s) ut vis) = .ok st) (t.all "type") (inherit k ls).members) := by
  show (_ ∧ (ls.findSome? (·.members)).getD [] = []) ∨ (∃ pre r s t post, _ ∧ _ ∧ _ ∧ ∃ fuel vis, List.Forall₂ _ _ ((ls.findSome? (·.members)).getD []))
  induction h with
  | nil => exact .inl ⟨(by intro r s t hm; cases hm), rfl⟩
  | @cons x y xs ys hxy hrest ih =>
    have hskip : y.members = none → (∀ r s t, x = Link.ty r s t → t.all "type" = []) →
        ((∀ r s t, Link.ty r s t ∈ x :: xs → t.all "type" = []) ∧ ((y :: ys).findSome? (·.members)).getD [] = []) ∨
        (∃ pre r s t post, x :: xs = pre ++ Link.ty r s t :: post ∧ (∀ r' s' t', Link.ty r' s' t' ∈ pre → t'.all "type" = []) ∧
          t.all "type" ≠ [] ∧ ∃ fuel vis, List.Forall₂
            (fun ut st => finish (chainOf reg fuel r (t :: s) ut vis) = .ok st) (t.all "type")
            (((y :: ys).findSome? (·.members)).getD [])) := by
      intro hy hx
      rw [List.findSome?_cons, hy]
      rcases ih with ⟨h1, h2⟩ | ⟨pre, r, s, t, post, h1, h2, h3, h4⟩
      · refine .inl ⟨?_, h2⟩
        intro r s t hm
        rcases List.mem_cons.mp hm with heq | hm
        · exact hx r s t heq.symm
        · exact h1 r s t hm
      · refine .inr ⟨x :: pre, r, s, t, post, by rw [h1]; rfl, ?_, h3, h4⟩
        intro r' s' t' hm
        rcases List.mem_cons.mp hm with heq | hm
        · exact hx r' s' t' heq.symm
        · exact h2 r' s' t' hm
    cases x with
    | td d =>
      simp only [LayerOf] at hxy
      subst hxy
      exact hskip rfl (by intro r s t h0; cases h0)
    | ty r s t =>
      cases hm : y.members with
      | none =>
        refine hskip hm ?_
        intro r' s' t' h0
        cases h0
        exact hxy.2.2.2.2.2.2.2.1.mp hm
      | some ms =>
        refine .inr ⟨[], r, s, t, xs, rfl, (by intro _ _ _ h0; cases h0), ?_, ?_⟩
        · intro h0
          have := hxy.2.2.2.2.2.2.2.1.mpr h0
          rw [hm] at this
          cases this
        · rw [List.findSome?_cons, hm]
          exact hxy.2.2.2.2.2.2.2.2.1 ms hm

/-- End to end: when the executable specification answers a type, the type statement has a
derivation chain in the relational specification, it is `Resolvable`, and every attribute of the
answer is the relational chain function of that chain. -/
theorem finish_chainOf_sound (reg : Registry) (hb : BindSound reg) (fuel : Nat) (root : Mod) (scope : List Stmt)
    (t : Stmt) (vis : List Key) (st : SType) (h : finish (chainOf reg fuel root scope t vis) = .ok st) :
    Resolvable reg root scope t ∧
    ∃ chain, DerivesFrom reg root scope t st.kind chain ∧
      st.units = (chainUnits chain).getD "" ∧
      st.default = chainDefault chain ∧
      st.path = (chainPath chain).getD "" ∧
      st.patterns = chainPatterns chain ∧
      st.enum = (chainEnums chain).bind (assignValues "value" (-2147483648) 2147483647) ∧
      st.bit = (chainBits chain).bind (assignValues "position" 0 4294967295) ∧
      st.fd = ((chainFractionDigits chain).bind (fun f => f.arg.toNat?)).getD 0 := by
  obtain ⟨k, ls, hc, rfl⟩ := finish_ok h
  obtain ⟨chain, hd, hf⟩ := chainOf_sound reg hb _ _ _ _ _ _ _ hc
  obtain ⟨_, h2, h3, h4, h5, h6, h7, h8⟩ := inherit_eq hf k
  exact ⟨chainOf_resolvable reg hb _ _ _ _ _ _ _ hc, chain, hd, h2, h3, h4, h5, h6, h7, h8⟩

end Goyang.Lemmas.TypesSpecChain
