import Goyang.Lemmas.TypesSpecFuel
/-
The converse of `chainOf_noClaim_reason` (Lemmas/TypesSpecFuel.lean): when `chainOf` answers `ok`, no
site met while resolving the type statement has a `Feature` that puts it outside the claim
(`chainOf_ok_no_feature`).  On the way: an `ok` answer of `chainOf` does not depend on the budget nor
on the type statements in progress (`chainOf_ok_stable`).
-/
namespace Goyang.Lemmas.TypesSpecClaim
open Goyang.Model Goyang.Model.Types Goyang.Spec.Types Goyang.Lemmas.Types Goyang.Lemmas.TypesFuel
  Goyang.Lemmas.TypesDefs Goyang.Lemmas.TypesSpecBind Goyang.Lemmas.TypesSpecChain Goyang.Lemmas.TypesSpecErr
  Goyang.Lemmas.TypesSpecFuel

/-- One step of `chainOf` that answers `.ok`, taken apart (the executable pieces). -/
theorem chainOf_succ_ok' {reg : Registry} {fuel : Nat} {root : Mod} {scope : List Stmt} {t : Stmt} {vis : List Key}
    {k : String} {ls : List Layer} (h : chainOf reg (fuel + 1) root scope t vis = .ok k ls) :
    ∃ ms own,
      collectMembers ((t.all "type").map fun ut =>
        finish (chainOf reg fuel root (t :: scope) ut ((root.seq, t.line, t.col) :: vis))) = some (.ok ms) ∧
      ownLayer t (.ok ms) = .ok own ∧
      ((bindType reg root scope t.arg = .builtin k ∧ ls = [own]) ∨
       (∃ m td sc tt ls', bindType reg root scope t.arg = .typedef m td sc ∧ td.one? "type" = some tt ∧
          chainOf reg fuel m (td :: sc) tt ((root.seq, t.line, t.col) :: vis) = .ok k ls' ∧
          ls = own :: typedefLayer td :: ls')) := by
  rw [chainOf_succ] at h
  split at h
  · cases h
  split at h
  · cases h
  rename_i members? hcm
  have key : ∀ own, ownLayer t members? = .ok own → ∃ ms, members? = .ok ms := by
    intro own hown
    obtain ⟨ms, hms, _⟩ := ownLayer_ok hown
    exact ⟨ms, hms⟩
  split at h
  · cases h
  · cases h
  · split at h
    · rename_i k0 own hown
      simp only [Chain.ok.injEq] at h
      obtain ⟨rfl, rfl⟩ := h
      rename_i hbt
      obtain ⟨ms, rfl⟩ := key own hown
      exact ⟨ms, own, hcm, hown, .inl ⟨hbt, rfl⟩⟩
    · cases h
  · rename_i m td sc hbt
    split at h
    · cases h
    · rename_i tt htt
      split at h
      · rename_i k0 ls0 hch
        split at h
        · rename_i own hown
          simp only [Chain.ok.injEq] at h
          obtain ⟨rfl, rfl⟩ := h
          obtain ⟨ms, rfl⟩ := key own hown
          exact ⟨ms, own, hcm, hown, .inr ⟨m, td, sc, tt, ls0, hbt, htt, hch, rfl⟩⟩
        · cases h
      · cases h
      · cases h

theorem forall₂_functional {α β : Type} {R S : α → β → Prop} :
    ∀ {l : List α} {ms ms' : List β}, List.Forall₂ R l ms → List.Forall₂ S l ms' →
      (∀ a ∈ l, ∀ b b', R a b → S a b' → b = b') → ms = ms'
  | _, _, _, .nil, .nil, _ => rfl
  | _, _, _, .cons h1 h2, .cons h1' h2', hf => by
    rw [hf _ List.mem_cons_self _ _ h1 h1',
      forall₂_functional h2 h2' (fun a ha => hf a (List.mem_cons_of_mem _ ha))]

/-- **An `ok` answer is independent of the budget and of the statements in progress**: these only
ever turn an answer into `noClaim "fuel"` or `error`. -/
theorem chainOf_ok_stable (reg : Registry) :
    ∀ (fuel fuel' : Nat) (root : Mod) (scope : List Stmt) (t : Stmt) (vis vis' : List Key) (k k' : String)
      (ls ls' : List Layer),
      chainOf reg fuel root scope t vis = .ok k ls → chainOf reg fuel' root scope t vis' = .ok k' ls' →
      k = k' ∧ ls = ls' := by
  intro fuel
  induction fuel with
  | zero => intro fuel' root scope t vis vis' k k' ls ls' h; unfold chainOf at h; cases h
  | succ fuel ih =>
    intro fuel' root scope t vis vis' k k' ls ls' h h'
    cases fuel' with
    | zero => unfold chainOf at h'; cases h'
    | succ fuel' =>
      obtain ⟨ms, own, hcm, hown, hcase⟩ := chainOf_succ_ok' h
      obtain ⟨ms', own', hcm', hown', hcase'⟩ := chainOf_succ_ok' h'
      have hf := forall₂_map_left _ (collectMembers_ok _ _ hcm)
      have hf' := forall₂_map_left _ (collectMembers_ok _ _ hcm')
      have hms : ms = ms' := by
        apply forall₂_functional hf hf'
        intro ut _ st st' hst hst'
        obtain ⟨k1, ls1, hc1, rfl⟩ := finish_ok hst
        obtain ⟨k2, ls2, hc2, rfl⟩ := finish_ok hst'
        obtain ⟨rfl, rfl⟩ := ih _ _ _ _ _ _ _ _ _ _ hc1 hc2
        rfl
      subst hms
      rw [hown] at hown'
      simp only [Except.ok.injEq] at hown'
      subst hown'
      rcases hcase with ⟨hbt, rfl⟩ | ⟨m, td, sc, tt, ls0, hbt, htt, hch, rfl⟩
      · rcases hcase' with ⟨hbt', rfl⟩ | ⟨m', td', sc', tt', ls0', hbt', _, _, _⟩
        · rw [hbt] at hbt'
          simp only [Binding.builtin.injEq] at hbt'
          exact ⟨hbt', rfl⟩
        · rw [hbt] at hbt'; cases hbt'
      · rcases hcase' with ⟨hbt', rfl⟩ | ⟨m', td', sc', tt', ls0', hbt', htt', hch', rfl⟩
        · rw [hbt] at hbt'; cases hbt'
        · rw [hbt] at hbt'
          simp only [Binding.typedef.injEq] at hbt'
          obtain ⟨rfl, rfl, rfl⟩ := hbt'
          rw [htt] at htt'
          simp only [Option.some.injEq] at htt'
          subst htt'
          obtain ⟨rfl, rfl⟩ := ih _ _ _ _ _ _ _ _ _ _ hch hch'
          exact ⟨rfl, rfl⟩

theorem finish_ok_inClaim {c : Chain} {st : SType} (h : finish c = .ok st) :
    ∃ k ls, c = .ok k ls ∧ chainInClaim ls = true := by
  cases c with
  | ok k ls =>
    simp only [finish] at h
    split at h
    · rename_i hc; exact ⟨k, ls, rfl, hc⟩
    · cases h
  | error => cases h
  | noClaim w => cases h

theorem usesStar_cases {reg : Registry} {a c : Site} (h : UsesStar reg a c) :
    a = c ∨ ∃ b, Uses reg a b ∧ UsesStar reg b c := by
  induction h with
  | refl => exact Or.inl rfl
  | tail hab hbc ih =>
    rcases ih with rfl | ⟨b', hab', hb'⟩
    · exact Or.inr ⟨_, hbc, UsesStar.refl _⟩
    · exact Or.inr ⟨b', hab', UsesStar.tail hb' hbc⟩

/-- **Inside the claim.**  When `chainOf` answers `ok`, none of the sites met while resolving the type
statement has a feature that puts it outside the claim. -/
theorem chainOf_ok_no_feature (reg : Registry) (hid : SeqId reg) :
    ∀ (fuel : Nat) (root : Mod) (scope : List Stmt) (t : Stmt) (vis : List Key) (k : String) (ls : List Layer),
      root ∈ reg.mods → chainOf reg fuel root scope t vis = .ok k ls →
      ∀ site w, UsesStar reg (root, scope, t) site → ¬ Feature reg site w := by
  intro fuel
  induction fuel with
  | zero => intro root scope t vis k ls _ h; unfold chainOf at h; cases h
  | succ fuel ih =>
    intro root scope t vis k ls hroot h site w hstar hfeat
    obtain ⟨ms, own, hcm, hown, hcase⟩ := chainOf_succ_ok' h
    have hf := forall₂_map_left _ (collectMembers_ok _ _ hcm)
    obtain ⟨ms0, hms0, _, _, _, _, hfd, hen, hbi, _, hfdn, hfdr, henn, hbin⟩ := ownLayer_ok hown
    rcases usesStar_cases hstar with rfl | ⟨b, hab, hb⟩
    · -- a feature of the statement itself
      cases hfeat with
      | ambiguous hamb =>
        rcases hcase with ⟨hbt, _⟩ | ⟨_, _, _, _, _, hbt, _⟩ <;> (rw [hbt] at hamb; cases hamb)
      | noType m td sc hbt' hnt =>
        rcases hcase with ⟨hbt, _⟩ | ⟨m0, td0, sc0, tt, _, hbt, htt, _⟩
        · rw [hbt] at hbt'; cases hbt'
        · rw [hbt] at hbt'
          simp only [Binding.typedef.injEq] at hbt'
          obtain ⟨rfl, rfl, rfl⟩ := hbt'
          rw [htt] at hnt; cases hnt
      | enumValues hne hnone =>
        have : own.enum = none := by
          rw [hen]
          split
          · rfl
          · exact hnone
        exact hne (henn.mp this)
      | bitPositions hne hnone =>
        have : own.bit = none := by
          rw [hbi]
          split
          · rfl
          · exact hnone
        exact hne (hbin.mp this)
      | fractionDigits a ha hbad =>
        cases hq : own.fd with
        | none => rw [hfdn.mp hq] at ha; cases ha
        | some n =>
          have hr := hfdr n hq
          rw [hfd, ha] at hq
          exact hbad n hq hr
      | restated ut fuel' vis' k' ls' hut hok hcl =>
        obtain ⟨st, hst⟩ := forall₂_left_mem hf hut
        obtain ⟨k1, ls1, hc1, hin⟩ := finish_ok_inClaim hst
        obtain ⟨_, rfl⟩ := chainOf_ok_stable reg _ _ _ _ _ _ _ _ _ _ _ hc1 hok
        rw [hin] at hcl; cases hcl
    · -- a feature further down
      cases hab with
      | base m td sc tt hbind htt =>
        rcases hcase with ⟨hbt, _⟩ | ⟨m0, td0, sc0, tt0, ls0, hbt, htt0, hch, _⟩
        · have := Goyang.Lemmas.Types.binds_not_builtin hbind
          rw [(bindType_builtin hbt).1] at this; cases this
        · rcases bindType_complete reg hid root hroot scope t.arg m td sc hbind with hbt' | hbt'
          · rw [hbt] at hbt'
            simp only [Binding.typedef.injEq] at hbt'
            obtain ⟨rfl, rfl, rfl⟩ := hbt'
            rw [htt0] at htt
            simp only [Option.some.injEq] at htt
            subst htt
            exact ih _ _ _ _ _ _ (binds_root_mem hroot hbind) hch site w hb hfeat
          · rw [hbt] at hbt'; cases hbt'
      | member ut hut =>
        obtain ⟨st, hst⟩ := forall₂_left_mem hf hut
        obtain ⟨k1, ls1, hc1, _⟩ := finish_ok hst
        exact ih _ _ _ _ _ _ hroot hc1 site w hb hfeat

/-- `InsideClaim reg s`: no type statement met while resolving the one at `s` (itself, the type
statements of the typedefs along its chain, all member types, recursively) has a feature that puts
the reference outside the claim of the specification (`Feature`, Lemmas/TypesSpecFuel.lean). -/
def InsideClaim (reg : Registry) (s : Site) : Prop := ∀ site w, UsesStar reg s site → ¬ Feature reg site w

end Goyang.Lemmas.TypesSpecClaim
