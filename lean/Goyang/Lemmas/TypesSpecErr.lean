import Goyang.Lemmas.TypesComplete
import Goyang.Lemmas.TypesSpecBind
import Goyang.Lemmas.TypesSpecChain
/-
The executable specification answers `error` only for a type statement that has no finite
derivation (`¬ Resolvable`): property C09, `spec_exec_error`.
-/
namespace Goyang.Lemmas.TypesSpecErr
open Goyang.Model Goyang.Model.Types Goyang.Spec.Types Goyang.Lemmas.Types Goyang.Lemmas.TypesFuel
  Goyang.Lemmas.TypesDefs Goyang.Lemmas.TypesComplete Goyang.Lemmas.TypesSpecBind Goyang.Lemmas.TypesSpecChain

theorem finish_error {c : Chain} (h : finish c = .error) : c = .error := by
  unfold finish at h
  split at h
  · split at h <;> cases h
  · rfl
  · cases h

theorem collectMembers_none : ∀ {l : List SRes}, collectMembers l = none → ∃ r ∈ l, r = .error
  | [], h => by simp [collectMembers] at h
  | .error :: _, _ => ⟨.error, List.mem_cons_self, rfl⟩
  | .noClaim w :: rest, h => by
    simp only [collectMembers, Option.map_eq_none_iff] at h
    obtain ⟨r, hr, he⟩ := collectMembers_none h
    exact ⟨r, List.mem_cons_of_mem _ hr, he⟩
  | .ok t :: rest, h => by
    simp only [collectMembers, Option.map_eq_none_iff] at h
    obtain ⟨r, hr, he⟩ := collectMembers_none h
    exact ⟨r, List.mem_cons_of_mem _ hr, he⟩

/-- The typedef a name binds to stands in a loaded (sub)module. -/
theorem binds_root_mem {reg : Registry} {root : Mod} {scope : List Stmt} {name : String} {m : Mod} {td : Stmt}
    {sc : List Stmt} (hroot : root ∈ reg.mods) (h : Binds reg root scope name m td sc) : m ∈ reg.mods := by
  cases h with
  | lexical => exact hroot
  | moduleLevel m td _ _ _ hunit _ =>
    rcases hunit with hstar | ⟨b, o, _, ho, hstar⟩
    · exact includesStar_mem hstar hroot
    · exact includesStar_mem hstar (getModule_mem ho)
  | foreign i ext m td _ _ _ _ hf hstar _ => exact includesStar_mem hstar (findModule_mem hf)

/-- **The executable specification rejects only what the relational one rejects**: for a
`Resolvable` type statement `chainOf` never answers `error` (it answers `ok`, or `noClaim` where
the claim excludes the schema or its own budget ran out). -/
theorem chainOf_not_error (reg : Registry) (hid : SeqId reg) (s0 : Site)
    (hU : UnambiguousBelow reg s0) (hK : KeysIdentify reg s0) :
    ∀ (fuel : Nat) (root : Mod) (scope : List Stmt) (t : Stmt) (vis : List Key),
      root ∈ reg.mods → Resolvable reg root scope t → UsesStar reg s0 (root, scope, t) →
      StackOk reg s0 (root, scope, t) vis → chainOf reg fuel root scope t vis ≠ .error := by
  intro fuel
  induction fuel with
  | zero => intro root scope t vis _ _ _ _ h; simp [chainOf] at h
  | succ fuel ih =>
    intro root scope t vis hroot hres hs0 hst h
    rw [chainOf_succ] at h
    have hacc := resolvable_acc' hres (hU.step hs0)
    split at h
    · rename_i hc
      have hmem : typeKey root t ∈ vis := by simpa [typeKey] using hc
      obtain ⟨a, hka, hsa, hplus⟩ := hst _ hmem
      have hac : a = (root, scope, t) := hK a _ hsa hplus hka
      rw [hac] at hplus
      exact acc_no_cycle hacc hplus
    · have hmem : ∀ ut ∈ t.all "type",
          finish (chainOf reg fuel root (t :: scope) ut ((root.seq, t.line, t.col) :: vis)) ≠ .error := by
        intro ut hut hfe
        have hmres : Resolvable reg root (t :: scope) ut := by
          cases hres with
          | builtin _ hm => exact hm ut hut
          | derived _ _ _ _ _ _ _ hm => exact hm ut hut
        have huse : Uses reg (root, scope, t) (root, t :: scope, ut) := Uses.member ut hut
        exact ih root (t :: scope) ut _ hroot hmres (UsesStar.tail hs0 huse) (hst.push hs0 huse) (finish_error hfe)
      split at h
      · rename_i hcm
        obtain ⟨r, hr, hre⟩ := collectMembers_none hcm
        obtain ⟨ut, hut, rfl⟩ := List.mem_map.mp hr
        exact hmem ut hut hre
      · cases hres with
        | builtin hb hm =>
          have hbt : bindType reg root scope t.arg = .builtin t.arg := by unfold bindType; rw [if_pos hb]
          rw [hbt] at h
          simp only at h
          split at h <;> cases h
        | derived m td sc tt hbind htt hbase hm =>
          have huse : Uses reg (root, scope, t) (m, td :: sc, tt) := Uses.base m td sc tt hbind htt
          rcases bindType_complete reg hid root hroot scope t.arg m td sc hbind with hbt | hbt
          · rw [hbt] at h
            simp only at h
            rw [htt] at h
            simp only at h
            split at h
            · split at h <;> cases h
            · rename_i hbe
              exact ih m (td :: sc) tt _ (binds_root_mem hroot hbind) hbase (UsesStar.tail hs0 huse) (hst.push hs0 huse) hbe
            · cases h
          · rw [hbt] at h
            cases h

end Goyang.Lemmas.TypesSpecErr
