import Goyang.Lemmas.TypesSpecErr
/-
When does the executable specification of property C09 answer `noClaim`?  (`chainOf`, `finish`,
`specResolve` of Goyang/Spec/Types.lean.)

* `chainOf_noClaim_reason`: with a budget above the number of `type` statements of the loaded set
  (`specFuel reg` is one, `specFuel_ge`), a `noClaim w` answer of `chainOf` for a type statement that
  stands in the loaded set names a `Feature` of a site met while resolving it (`UsesStar`): an
  ambiguous name, a typedef without a type statement, malformed enum values / bit positions /
  fraction-digits, or a member type whose chain restates enum / bit / member types / fraction-digits.
  In particular the answer is never `noClaim "fuel"` (`chainOf_not_fuel`): the budget case cannot
  occur, because the type statements in progress are pairwise different `type` statements of the
  loaded set (a chain that comes back to one of them is answered `error`, the cyclic verdict).
* no hypotheses on the loaded set are needed for this (no `WfReg`, no `linkOk`).
-/
namespace Goyang.Lemmas.TypesSpecFuel
open Goyang.Model Goyang.Model.Types Goyang.Spec.Types Goyang.Lemmas.Types Goyang.Lemmas.TypesFuel
  Goyang.Lemmas.TypesDefs Goyang.Lemmas.TypesSpecBind Goyang.Lemmas.TypesSpecChain Goyang.Lemmas.TypesSpecErr

/-! ## `specFuel` is above the number of type statements -/

mutual
theorem count_stmt : ∀ s : Stmt, countTypeStmts s = ((descendants s).filter (·.kw == "type")).length
  | .mk kw ha a f l c subs => by
    simp only [countTypeStmts, descendants, List.filter_cons]
    rw [count_list subs]
    show _ = List.length (if (kw == "type") = true then _ else _)
    split
    · simp only [List.length_cons]; omega
    · omega
theorem count_list : ∀ l : List Stmt, countTypeStmtsL l = ((descendantsL l).filter (·.kw == "type")).length
  | [] => by simp [countTypeStmtsL, descendantsL]
  | s :: rest => by
    simp only [countTypeStmtsL, descendantsL, List.filter_append, List.length_append]
    rw [count_stmt s, count_list rest]
end

theorem allTypeKeys_length (reg : Registry) :
    (allTypeKeys reg).length = (reg.mods.map fun m => countTypeStmts m.stmt).sum := by
  unfold allTypeKeys
  rw [List.length_flatMap]
  congr 1
  apply List.map_congr_left
  intro m _
  simp only [typeKeysOf, List.length_map]
  exact (count_stmt m.stmt).symm

/-- `specFuel` is two more than the number of `type` statements of the loaded set. -/
theorem specFuel_eq (reg : Registry) : specFuel reg = (allTypeKeys reg).length + 2 := by
  unfold specFuel
  rw [allTypeKeys_length]

theorem specFuel_ge (reg : Registry) : (allTypeKeys reg).length + 1 ≤ specFuel reg + ([] : List Key).length := by
  rw [specFuel_eq]; simp

/-! ## What a name binds to stands in the loaded set -/

theorem binds_inSet {reg : Registry} {root : Mod} {scope : List Stmt} {name : String} {m : Mod} {td : Stmt}
    {sc : List Stmt} (hroot : root ∈ reg.mods) (hscope : ∀ s ∈ scope, s ∈ descendants root.stmt)
    (h : Binds reg root scope name m td sc) :
    m ∈ reg.mods ∧ td ∈ descendants m.stmt ∧ ∀ s ∈ sc, s ∈ descendants m.stmt := by
  have hm := binds_root_mem hroot h
  cases h with
  | lexical pre n up td _ _ hsc _ htd =>
    have hn : ∀ s ∈ n :: up, s ∈ descendants root.stmt := by
      intro s hs
      apply hscope
      rw [hsc]
      exact List.mem_append_right _ hs
    exact ⟨hm, child_below (hn n List.mem_cons_self) (declared_mem_subs htd), hn⟩
  | moduleLevel m td _ _ _ _ htd =>
    refine ⟨hm, child_mem_descendants (declared_mem_subs htd), ?_⟩
    intro s hs
    rw [List.mem_singleton] at hs
    rw [hs]; exact self_mem_descendants _
  | foreign i ext m td _ _ _ _ _ _ htd =>
    refine ⟨hm, child_mem_descendants (declared_mem_subs htd), ?_⟩
    intro s hs
    rw [List.mem_singleton] at hs
    rw [hs]; exact self_mem_descendants _

/-! ## The reasons of `noClaim` -/

/-- What, at one type statement in its place, puts a reference outside the claim; the string is the
reason `chainOf` gives. -/
inductive Feature (reg : Registry) : Site → String → Prop
  /-- the name denotes more than one typedef (or two imports carry its prefix) -/
  | ambiguous {root : Mod} {scope : List Stmt} {t : Stmt} :
      bindType reg root scope t.arg = .ambiguous → Feature reg (root, scope, t) "ambiguous"
  /-- the typedef the name denotes has no type statement -/
  | noType {root : Mod} {scope : List Stmt} {t : Stmt} (m : Mod) (td : Stmt) (sc : List Stmt) :
      bindType reg root scope t.arg = .typedef m td sc → td.one? "type" = none →
      Feature reg (root, scope, t) "typedef-without-type"
  /-- enum members that are not a well-formed member list (RFC 7950 section 9.6.4) -/
  | enumValues {root : Mod} {scope : List Stmt} {t : Stmt} :
      t.all "enum" ≠ [] → assignValues "value" (-2147483648) 2147483647 (t.all "enum") = none →
      Feature reg (root, scope, t) "enum-values"
  /-- bit members that are not a well-formed member list (RFC 7950 section 9.7.4) -/
  | bitPositions {root : Mod} {scope : List Stmt} {t : Stmt} :
      t.all "bit" ≠ [] → assignValues "position" 0 4294967295 (t.all "bit") = none →
      Feature reg (root, scope, t) "bit-positions"
  /-- a fraction-digits argument that is not a number of 1 … 18 -/
  | fractionDigits {root : Mod} {scope : List Stmt} {t : Stmt} (a : String) :
      t.argOf? "fraction-digits" = some a → (∀ n, a.toNat? = some n → ¬ (1 ≤ n ∧ n ≤ 18)) →
      Feature reg (root, scope, t) "fraction-digits"
  /-- a member type whose chain states enum / bit members, member types or fraction-digits more than
  once, or an enumeration with a repeated value -/
  | restated {root : Mod} {scope : List Stmt} {t : Stmt} (ut : Stmt) (fuel : Nat) (vis : List Key) (k : String)
      (ls : List Layer) :
      ut ∈ t.all "type" → chainOf reg fuel root (t :: scope) ut vis = .ok k ls → chainInClaim ls = false →
      Feature reg (root, scope, t) "restated"

/-- The reasons are these six and no other; in particular never `"fuel"`. -/
theorem Feature.reason {reg : Registry} {s : Site} {w : String} (h : Feature reg s w) :
    w ∈ ["ambiguous", "typedef-without-type", "enum-values", "bit-positions", "fraction-digits", "restated"] := by
  cases h <;> simp

theorem Feature.not_fuel {reg : Registry} {s : Site} (h : Feature reg s "fuel") : False := by
  have := h.reason
  revert this
  decide

theorem collectMembers_error : ∀ {l : List SRes} {w : String}, collectMembers l = some (.error w) →
    ∃ r ∈ l, r = .noClaim w
  | [], w, h => by simp [collectMembers] at h
  | .error :: _, w, h => by simp [collectMembers] at h
  | .noClaim w' :: rest, w, h => by
    simp only [collectMembers, Option.map_eq_some_iff] at h
    obtain ⟨_, _, h⟩ := h
    simp only [Except.error.injEq] at h
    subst h
    exact ⟨_, List.mem_cons_self, rfl⟩
  | .ok t :: rest, w, h => by
    simp only [collectMembers, Option.map_eq_some_iff] at h
    obtain ⟨r, hr, h⟩ := h
    cases r with
    | ok ms => cases h
    | error e =>
      simp only [Except.map, Except.error.injEq] at h
      subst h
      obtain ⟨r', hr', he⟩ := collectMembers_error hr
      exact ⟨r', List.mem_cons_of_mem _ hr', he⟩

theorem finish_noClaim {c : Chain} {w : String} (h : finish c = .noClaim w) :
    c = .noClaim w ∨ ∃ k ls, c = .ok k ls ∧ chainInClaim ls = false ∧ w = "restated" := by
  cases c with
  | ok k ls =>
    simp only [finish] at h
    split at h
    · cases h
    · rename_i hc
      simp only [SRes.noClaim.injEq] at h
      exact Or.inr ⟨k, ls, rfl, by simpa using hc, h.symm⟩
  | error => cases h
  | noClaim w' =>
    simp only [finish, SRes.noClaim.injEq] at h
    subst h
    exact Or.inl rfl

/-- Why the own layer of a type statement is not formed. -/
theorem ownLayer_error {t : Stmt} {members? : Except String (List SType)} {w : String}
    (h : ownLayer t members? = .error w) :
    members? = .error w ∨
    (w = "enum-values" ∧ t.all "enum" ≠ [] ∧ assignValues "value" (-2147483648) 2147483647 (t.all "enum") = none) ∨
    (w = "bit-positions" ∧ t.all "bit" ≠ [] ∧ assignValues "position" 0 4294967295 (t.all "bit") = none) ∨
    (w = "fraction-digits" ∧ ∃ a, t.argOf? "fraction-digits" = some a ∧ ∀ n, a.toNat? = some n → ¬ (1 ≤ n ∧ n ≤ 18)) := by
  unfold ownLayer at h
  simp only at h
  split at h
  · cases h
  · simp only [Except.error.injEq] at h
    subst h
    exact Or.inl rfl
  · rename_i he
    simp only [Except.error.injEq] at h
    refine Or.inr (Or.inl ⟨h.symm, ?_⟩)
    cases hemp : (t.all "enum").isEmpty
    · have hne : t.all "enum" ≠ [] := by intro h0; rw [h0] at hemp; cases hemp
      simp only [hemp, Bool.false_eq_true, if_false, Option.map_eq_none_iff] at he
      exact ⟨hne, he⟩
    · simp only [hemp, if_true] at he
      cases he
  · rename_i hb _
    simp only [Except.error.injEq] at h
    refine Or.inr (Or.inr (Or.inl ⟨h.symm, ?_⟩))
    cases hemp : (t.all "bit").isEmpty
    · have hne : t.all "bit" ≠ [] := by intro h0; rw [h0] at hemp; cases hemp
      simp only [hemp, Bool.false_eq_true, if_false, Option.map_eq_none_iff] at hb
      exact ⟨hne, hb⟩
    · simp only [hemp, if_true] at hb
      cases hb
  · rename_i hfd _ _
    simp only [Except.error.injEq] at h
    refine Or.inr (Or.inr (Or.inr ⟨h.symm, ?_⟩))
    cases ha : t.argOf? "fraction-digits" with
    | none => rw [ha] at hfd; cases hfd
    | some a =>
      refine ⟨a, rfl, ?_⟩
      intro n hn hr
      rw [ha] at hfd
      simp only [hn] at hfd
      rw [if_pos (by simpa using hr)] at hfd
      cases hfd

/-- **The reasons of `noClaim`, and the budget.**  For a type statement that stands in the loaded
set, with a budget above the number of `type` statements not yet in progress, a `noClaim w` answer
of `chainOf` names a feature of a site met while resolving the statement. -/
theorem chainOf_noClaim_reason (reg : Registry) :
    ∀ (fuel : Nat) (root : Mod) (scope : List Stmt) (t : Stmt) (vis : List Key) (w : String),
      root ∈ reg.mods → t ∈ descendants root.stmt → (∀ s ∈ scope, s ∈ descendants root.stmt) → t.kw = "type" →
      vis.Nodup → (∀ k ∈ vis, k ∈ allTypeKeys reg) →
      (allTypeKeys reg).length + 1 ≤ fuel + vis.length →
      chainOf reg fuel root scope t vis = .noClaim w →
      ∃ site, UsesStar reg (root, scope, t) site ∧ Feature reg site w := by
  intro fuel
  induction fuel with
  | zero =>
    intro root scope t vis w _ _ _ _ hnd hsub hlen _
    have := nodup_subset_length vis (allTypeKeys reg) hnd hsub
    omega
  | succ fuel ih =>
    intro root scope t vis w hroot ht hscope hkw hnd hsub hlen h
    rw [chainOf_succ] at h
    split at h
    · cases h
    rename_i hc
    have hnotin : (root.seq, t.line, t.col) ∉ vis := by simpa using hc
    have hnd' : ((root.seq, t.line, t.col) :: vis).Nodup := List.nodup_cons.mpr ⟨hnotin, hnd⟩
    have hsub' : ∀ k ∈ (root.seq, t.line, t.col) :: vis, k ∈ allTypeKeys reg := by
      intro k hk
      cases hk with
      | head => exact key_mem hroot ht hkw
      | tail _ hk => exact hsub k hk
    have hlen' : (allTypeKeys reg).length + 1 ≤ fuel + ((root.seq, t.line, t.col) :: vis).length := by
      simp only [List.length_cons]; omega
    have hscope' : ∀ s ∈ t :: scope, s ∈ descendants root.stmt := by
      intro s hs
      cases hs with
      | head => exact ht
      | tail _ hs => exact hscope s hs
    split at h
    · cases h
    rename_i members? hcm
    -- a `noClaim` among the member types
    have hmember : ∀ w', members? = .error w' →
        ∃ site, UsesStar reg (root, scope, t) site ∧ Feature reg site w' := by
      intro w' hw'
      subst hw'
      obtain ⟨r, hr, hre⟩ := collectMembers_error hcm
      obtain ⟨ut, hut, rfl⟩ := List.mem_map.mp hr
      rcases finish_noClaim hre with hn | ⟨k, ls, hok, hcl, rfl⟩
      · obtain ⟨site, hs, hf⟩ := ih root (t :: scope) ut _ w' hroot (child_below ht (all_mem_subs hut)) hscope'
          (kw_of_all hut) hnd' hsub' hlen' hn
        exact ⟨site, UsesStar.head (Uses.member ut hut) hs, hf⟩
      · exact ⟨_, UsesStar.refl _, Feature.restated ut fuel _ k ls hut hok hcl⟩
    have hown : ∀ w', ownLayer t members? = .error w' →
        ∃ site, UsesStar reg (root, scope, t) site ∧ Feature reg site w' := by
      intro w' hw'
      rcases ownLayer_error hw' with hm | ⟨rfl, h1, h2⟩ | ⟨rfl, h1, h2⟩ | ⟨rfl, a, h1, h2⟩
      · exact hmember w' hm
      · exact ⟨_, UsesStar.refl _, Feature.enumValues h1 h2⟩
      · exact ⟨_, UsesStar.refl _, Feature.bitPositions h1 h2⟩
      · exact ⟨_, UsesStar.refl _, Feature.fractionDigits a h1 h2⟩
    split at h
    · cases h
    · rename_i hbt
      simp only [Chain.noClaim.injEq] at h
      subst h
      exact ⟨_, UsesStar.refl _, Feature.ambiguous hbt⟩
    · split at h
      · cases h
      · rename_i w' hw'
        simp only [Chain.noClaim.injEq] at h
        subst h
        exact hown _ hw'
    · rename_i m td sc hbt
      split at h
      · rename_i htt
        simp only [Chain.noClaim.injEq] at h
        subst h
        exact ⟨_, UsesStar.refl _, Feature.noType m td sc hbt htt⟩
      · rename_i tt htt
        have hbind := bindType_sound reg root scope t.arg m td sc hbt
        obtain ⟨hm, htd, hsc⟩ := binds_inSet hroot hscope hbind
        split at h
        · split at h
          · cases h
          · rename_i w' hw'
            simp only [Chain.noClaim.injEq] at h
            subst h
            exact hown _ hw'
        · cases h
        · rename_i w' hw'
          simp only [Chain.noClaim.injEq] at h
          subst h
          have hsc' : ∀ s ∈ td :: sc, s ∈ descendants m.stmt := by
            intro s hs
            cases hs with
            | head => exact htd
            | tail _ hs => exact hsc s hs
          obtain ⟨site, hs, hf⟩ := ih m (td :: sc) tt _ _ hm (child_below htd (one_mem_subs htt)) hsc'
            (kw_of_one htt) hnd' hsub' hlen' hw'
          exact ⟨site, UsesStar.head (Uses.base m td sc tt hbind htt) hs, hf⟩

/-- **The budget case cannot occur.** -/
theorem chainOf_not_fuel (reg : Registry) (fuel : Nat) (root : Mod) (scope : List Stmt) (t : Stmt) (vis : List Key)
    (hroot : root ∈ reg.mods) (ht : t ∈ descendants root.stmt) (hscope : ∀ s ∈ scope, s ∈ descendants root.stmt)
    (hkw : t.kw = "type") (hnd : vis.Nodup) (hsub : ∀ k ∈ vis, k ∈ allTypeKeys reg)
    (hlen : (allTypeKeys reg).length + 1 ≤ fuel + vis.length) :
    chainOf reg fuel root scope t vis ≠ .noClaim "fuel" := by
  intro h
  obtain ⟨_, _, hf⟩ := chainOf_noClaim_reason reg fuel root scope t vis _ hroot ht hscope hkw hnd hsub hlen h
  exact hf.not_fuel

end Goyang.Lemmas.TypesSpecFuel
