import Std.Data.String.ToNat
import Goyang.Spec.Types
import Goyang.Model.Types
import Goyang.Lemmas.Enum

/-!
# Bridge between the `String` reading of integers (specification) and the byte reading (model)

The executable specification `Goyang.Spec.Types` reads integers from `String`s
(`parseIntLit`, `String.toNat?`); the model reads the UTF-8 bytes `bytesOf s` and its number parser
is specified on literals `Goyang.Spec.Number.Lit`.  For canonically written integers the two
readings agree.

Core Lean + `Std.Data.String.ToNat` only.
-/

namespace Goyang.Lemmas.TypesStrBridge

open Goyang.Model.Types (bytesOf)
open Goyang.Spec.Types (parseIntLit)
open Goyang.Spec.Number (Lit digitsVal)
open Goyang.Lemmas.Enum (LitForm)

/-! ### bytes of a string -/

theorem toList_loop (bs : ByteArray) (n : Nat) :
    ∀ (i : Nat) (r : List UInt8), i ≤ bs.size → bs.size - i = n →
      ByteArray.toList.loop bs i r = r.reverse ++ bs.data.toList.drop i := by
  induction n with
  | zero =>
    intro i r hi h
    have : i = bs.size := by omega
    subst this
    rw [ByteArray.toList.loop]
    simp [← ByteArray.size_data]
  | succ n ih =>
    intro i r hi h
    have hlt : i < bs.size := by omega
    rw [ByteArray.toList.loop, if_pos hlt, ih (i + 1) _ (by omega) (by omega)]
    have hd : i < bs.data.toList.length := by simpa using hlt
    rw [List.drop_eq_getElem_cons hd]
    have hg : bs.get! i = bs.data.toList[i] := by
      cases bs with
      | mk d =>
        show d[i]! = d.toList[i]
        have : i < d.size := hlt
        simp [getElem!_pos d i this]
    simp [hg]

theorem byteArray_toList (bs : ByteArray) : bs.toList = bs.data.toList := by
  unfold ByteArray.toList
  rw [toList_loop bs bs.size 0 [] (Nat.zero_le _) rfl]
  simp

theorem bytesOf_eq (s : String) : bytesOf s = s.toList.flatMap String.utf8EncodeChar := by
  unfold bytesOf
  rw [String.toUTF8_eq_toByteArray, ← String.utf8Encode_toList, byteArray_toList]
  simp [List.utf8Encode]

/-- 1. the byte reading determines the string -/
theorem bytesOf_inj {s t : String} (h : bytesOf s = bytesOf t) : s = t := by
  unfold bytesOf at h
  rw [byteArray_toList, byteArray_toList, String.toUTF8_eq_toByteArray, String.toUTF8_eq_toByteArray] at h
  apply String.toByteArray_inj.1
  cases hs : s.toByteArray with
  | mk ds =>
    cases ht : t.toByteArray with
    | mk dt =>
      rw [hs, ht] at h
      simp only at h
      rw [Array.toList_inj.1 h]

/-- 2. a string of code points below 128 is read byte per character -/
theorem bytesOf_ascii (s : String) (h : ∀ c ∈ s.toList, c.toNat < 128) :
    bytesOf s = s.toList.map (fun c => UInt8.ofNat c.toNat) := by
  rw [bytesOf_eq]
  generalize s.toList = l at h
  induction l with
  | nil => rfl
  | cons c l ih =>
    have hc : c.toNat < 128 := h c (by simp)
    have h1 : c.utf8Size = 1 := by
      rw [Char.utf8Size_eq_one_iff, UInt32.le_iff_toNat_le]
      have : c.val.toNat < 128 := hc
      simp; omega
    rw [List.flatMap_cons, String.utf8EncodeChar_eq_singleton h1, ih (fun d hd => h d (by simp [hd]))]
    rfl

/-! ### digits -/

theorem isDigit_bounds {c : Char} (h : c.isDigit = true) : 48 ≤ c.toNat ∧ c.toNat ≤ 57 := by
  simp only [Char.isDigit, Bool.and_eq_true, decide_eq_true_eq, UInt32.le_iff_toNat_le, ge_iff_le] at h
  exact ⟨h.1, h.2⟩

theorem isDigit_of_bounds {c : Char} (h : 48 ≤ c.toNat ∧ c.toNat ≤ 57) : c.isDigit = true := by
  simp only [Char.isDigit, Bool.and_eq_true, decide_eq_true_eq, UInt32.le_iff_toNat_le, ge_iff_le]
  exact ⟨h.1, h.2⟩

/-- the digit values of a list of digit characters -/
def digitsOf (ds : List Char) : List Nat := ds.map (fun c => c.toNat - 48)

theorem digitsVal_digitsOf_aux (ds : List Char) (init : Nat) :
    (digitsOf ds).foldl (fun a d => a * 10 + d) init = Nat.ofDigitChars 10 ds init := by
  induction ds generalizing init with
  | nil => simp [digitsOf, Nat.ofDigitChars_nil]
  | cons c ds ih =>
    rw [Nat.ofDigitChars_cons, ← ih]
    simp [digitsOf, Nat.mul_comm]

theorem digitsVal_digitsOf (ds : List Char) : digitsVal (digitsOf ds) = Nat.ofDigitChars 10 ds 0 :=
  digitsVal_digitsOf_aux ds 0

theorem toNat!_of_toNat? {s : String} {n : Nat} (h : s.toNat? = some n) : s.toNat! = n := by
  have hn : s.toSlice.isNat = true := by
    rw [String.isNat_toSlice]; exact String.isNat_of_toNat?_eq_some h
  rw [← String.toNat?_toSlice] at h
  unfold String.toNat! String.Slice.toNat!
  unfold String.Slice.toNat? at h
  rw [if_pos hn] at h ⊢
  exact Option.some.inj h

theorem isNat_ofList {ds : List Char} (hne : ds ≠ []) (hd : ∀ c ∈ ds, c.isDigit = true) :
    (String.ofList ds).isNat = true := by
  apply String.isNat_of_isDigit
  · intro h
    have := congrArg String.toList h
    rw [String.toList_ofList] at this
    exact hne (by simpa using this)
  · rw [String.toList_ofList]; exact hd

theorem filter_digits {ds : List Char} (hd : ∀ c ∈ ds, c.isDigit = true) :
    ds.filter (· != '_') = ds := by
  rw [List.filter_eq_self]
  intro c hc
  have := isDigit_bounds (hd c hc)
  have h95 : c ≠ '_' := by
    intro h; subst h; exact absurd this.2 (by decide)
  simpa using h95

theorem toNat?_ofList {ds : List Char} (hne : ds ≠ []) (hd : ∀ c ∈ ds, c.isDigit = true) :
    (String.ofList ds).toNat? = some (Nat.ofDigitChars 10 ds 0) := by
  rw [String.toNat?_eq_some_ofDigitChars (isNat_ofList hne hd), String.toList_ofList, filter_digits hd]

theorem toNat!_ofList {ds : List Char} (hne : ds ≠ []) (hd : ∀ c ∈ ds, c.isDigit = true) :
    (String.ofList ds).toNat! = Nat.ofDigitChars 10 ds 0 :=
  toNat!_of_toNat? (toNat?_ofList hne hd)

/-! ### canonically written integers -/

/-- `a` is a canonically written integer: optional `-`, then decimal digits, no superfluous
leading zero. -/
def CanonInt (a : String) : Prop :=
  ∃ (neg : Bool) (ds : List Char), a.toList = (if neg then ['-'] else []) ++ ds ∧ ds ≠ [] ∧
    (∀ c ∈ ds, c.isDigit = true) ∧ (ds = ['0'] ∨ ds.head? ≠ some '0')

/-- the literal of a canonically written integer -/
def litOf (neg : Bool) (ds : List Char) : Lit := ⟨if neg then some true else none, digitsOf ds, none⟩

theorem litOf_form {neg : Bool} {ds : List Char} (hne : ds ≠ []) (hd : ∀ c ∈ ds, c.isDigit = true)
    (hz : ds = ['0'] ∨ ds.head? ≠ some '0') : LitForm (litOf neg ds) := by
  refine ⟨⟨?_, ?_⟩, ?_, rfl, ?_⟩
  · intro d hdm
    simp only [litOf, digitsOf, List.mem_map] at hdm
    obtain ⟨c, hc, rfl⟩ := hdm
    have := isDigit_bounds (hd c hc)
    omega
  · intro d hdm; simp [litOf] at hdm
  · simpa [litOf, digitsOf] using hne
  · rcases hz with rfl | hz
    · left; rfl
    · right
      cases ds with
      | nil => exact absurd rfl hne
      | cons c ds =>
        simp only [litOf, digitsOf, List.map_cons, List.head?_cons, ne_eq, Option.some.injEq]
        intro h0
        apply hz
        have hb := isDigit_bounds (hd c (by simp))
        have : c.toNat = 48 := by omega
        simp only [List.head?_cons, Option.some.injEq]
        apply Char.toNat_inj.1 ?_ <;> simpa using this

theorem ascii_of_digits {neg : Bool} {ds : List Char} (hd : ∀ c ∈ ds, c.isDigit = true) :
    ∀ c ∈ (if neg then ['-'] else []) ++ ds, c.toNat < 128 := by
  intro c hc
  rw [List.mem_append] at hc
  rcases hc with hc | hc
  · cases neg <;> simp at hc
    subst hc; decide
  · have := isDigit_bounds (hd c hc); omega

theorem render_litOf {neg : Bool} {ds : List Char} (hd : ∀ c ∈ ds, c.isDigit = true) :
    (litOf neg ds).render = ((if neg then ['-'] else []) ++ ds).map (fun c => UInt8.ofNat c.toNat) := by
  have hm : (digitsOf ds).map (fun d => UInt8.ofNat (48 + d)) = ds.map (fun c => UInt8.ofNat c.toNat) := by
    simp only [digitsOf, List.map_map]
    apply List.map_congr_left
    intro c hc
    have := isDigit_bounds (hd c hc)
    simp only [Function.comp]
    congr 1; omega
  cases neg
  · simp only [Lit.render, litOf, hm]; simp
  · simp only [Lit.render, litOf, hm]; simp

theorem num_litOf (neg : Bool) (ds : List Char) :
    (litOf neg ds).num = if neg then -((Nat.ofDigitChars 10 ds 0 : Nat) : Int) else ((Nat.ofDigitChars 10 ds 0 : Nat) : Int) := by
  have hm : (litOf neg ds).mant = Nat.ofDigitChars 10 ds 0 := by
    simp [Lit.mant, litOf, digitsVal_digitsOf]
  cases neg <;> simp [Lit.num, Lit.neg, hm] <;> simp [litOf]

theorem parseIntLit_nodash {a : String} {ds : List Char} (ha : a.toList = ds)
    (h : ds.head? ≠ some '-') :
    parseIntLit a =
      if !ds.isEmpty && ds.all Char.isDigit then some ((String.ofList ds).toNat! : Int) else none := by
  unfold parseIntLit
  rw [ha]
  split
  · simp at h
  · rfl

theorem parseIntLit_canon {a : String} {neg : Bool} {ds : List Char}
    (ha : a.toList = (if neg then ['-'] else []) ++ ds) (hne : ds ≠ [])
    (hd : ∀ c ∈ ds, c.isDigit = true) :
    parseIntLit a = some (if neg then -((Nat.ofDigitChars 10 ds 0 : Nat) : Int) else ((Nat.ofDigitChars 10 ds 0 : Nat) : Int)) := by
  have hall : ds.all Char.isDigit = true := by simpa using hd
  have hemp : ds.isEmpty = false := by cases ds <;> simp_all
  cases neg with
  | true =>
    unfold parseIntLit
    simp only [if_true, List.cons_append, List.nil_append] at ha
    rw [ha]
    simp only [hall, hemp, toNat!_ofList hne hd]
    simp
  | false =>
    simp only [Bool.false_eq_true, if_false, List.nil_append] at ha
    have hh : ds.head? ≠ some '-' := by
      intro hh
      have := isDigit_bounds (hd _ (List.mem_of_head? hh))
      exact absurd this.1 (by decide)
    rw [parseIntLit_nodash ha hh]
    simp only [hall, hemp, toNat!_ofList hne hd]
    simp

/-! ### evaluation lemmas without the no-leading-zero condition

The kernel cannot evaluate `String.toNat!`; these lemmas give the value of `parseIntLit` and
`String.toNat?` on any digit string. -/

theorem parseIntLit_digits (a : String) (ds : List Char) (h : a.toList = ds) (hne : ds ≠ [])
    (hd : ∀ c ∈ ds, c.isDigit = true) (_hm : ds.head? ≠ some '-') :
    parseIntLit a = some ((Nat.ofDigitChars 10 ds 0 : Nat) : Int) := by
  have := parseIntLit_canon (a := a) (neg := false) (ds := ds) (by simpa using h) hne hd
  simpa using this

theorem parseIntLit_neg_digits (a : String) (ds : List Char) (h : a.toList = '-' :: ds) (hne : ds ≠ [])
    (hd : ∀ c ∈ ds, c.isDigit = true) :
    parseIntLit a = some (-((Nat.ofDigitChars 10 ds 0 : Nat) : Int)) := by
  have := parseIntLit_canon (a := a) (neg := true) (ds := ds) (by simpa using h) hne hd
  simpa using this

theorem toNat?_digits (a : String) (ds : List Char) (h : a.toList = ds) (hne : ds ≠ [])
    (hd : ∀ c ∈ ds, c.isDigit = true) : a.toNat? = some (Nat.ofDigitChars 10 ds 0) := by
  have : a = String.ofList ds := by rw [← h, String.ofList_toList]
  rw [this, toNat?_ofList hne hd]

example : parseIntLit "010" = some 10 := by
  rw [parseIntLit_digits "010" ['0', '1', '0'] (by simp) (by simp) (by simp) (by simp)]
  rfl

example : parseIntLit "-12" = some (-12) := by
  rw [parseIntLit_neg_digits "-12" ['1', '2'] (by simp) (by simp) (by simp)]
  rfl

example : ("010" : String).toNat? = some 10 := by
  rw [toNat?_digits "010" ['0', '1', '0'] (by simp) (by simp) (by simp)]
  rfl

/-- 3. a canonically written integer is the rendering of a literal of the claimed form, and the
specification reads it as the value of that literal -/
theorem canonInt_lit {a : String} (h : CanonInt a) :
    ∃ l : Lit, LitForm l ∧ l.sign ≠ some false ∧ bytesOf a = l.render ∧ parseIntLit a = some l.num := by
  obtain ⟨neg, ds, ha, hne, hd, hz⟩ := h
  refine ⟨litOf neg ds, litOf_form hne hd hz, ?_, ?_, ?_⟩
  · cases neg <;> simp [litOf]
  · rw [bytesOf_ascii a (by rw [ha]; exact ascii_of_digits hd), ha, render_litOf hd]
  · rw [parseIntLit_canon ha hne hd, num_litOf]

/-- 4. a canonically written integer that `String.toNat?` accepts is an unsigned literal with that value -/
theorem canonInt_toNat {a : String} (h : CanonInt a) {n : Nat} (hn : a.toNat? = some n) :
    ∃ l : Lit, LitForm l ∧ l.sign = none ∧ bytesOf a = l.render ∧ l.num = (n : Int) := by
  obtain ⟨neg, ds, ha, hne, hd, hz⟩ := h
  have hnat := String.isNat_of_toNat?_eq_some hn
  have hneg : neg = false := by
    cases neg with
    | false => rfl
    | true =>
      exfalso
      have hm : '-' ∈ a.toList := by rw [ha]; simp
      rcases (String.isNat_iff.1 hnat).2.1 '-' hm with h1 | h1
      · exact absurd h1 (by decide)
      · exact absurd h1 (by decide)
  subst hneg
  simp only [Bool.false_eq_true, if_false, List.nil_append] at ha
  refine ⟨litOf false ds, litOf_form hne hd hz, rfl, ?_, ?_⟩
  · rw [bytesOf_ascii a (by rw [ha]; exact ascii_of_digits (neg := false) hd), ha, render_litOf hd]; rfl
  · rw [num_litOf]
    have : a = String.ofList ds := by rw [← ha, String.ofList_toList]
    rw [this, toNat?_ofList hne hd] at hn
    simp only [Bool.false_eq_true, if_false]
    exact congrArg Int.ofNat (Option.some.inj hn)

/-! ### the converse: a rendered literal of the claimed form is a canonically written integer -/

theorem toNat_digitChar : ∀ d, d < 10 → (Char.ofNat (48 + d)).toNat = 48 + d := by decide

/-- the characters of a digit list -/
def charsOf (ip : List Nat) : List Char := ip.map (fun d => Char.ofNat (48 + d))

theorem digitsOf_charsOf {ip : List Nat} (h : ∀ d ∈ ip, d < 10) : digitsOf (charsOf ip) = ip := by
  simp only [digitsOf, charsOf, List.map_map]
  conv => rhs; rw [← List.map_id ip]
  apply List.map_congr_left
  intro d hd
  simp only [Function.comp, toNat_digitChar d (h d hd), id]
  omega

theorem charsOf_digits {ip : List Nat} (h : ∀ d ∈ ip, d < 10) : ∀ c ∈ charsOf ip, c.isDigit = true := by
  intro c hc
  simp only [charsOf, List.mem_map] at hc
  obtain ⟨d, hd, rfl⟩ := hc
  apply isDigit_of_bounds
  rw [toNat_digitChar d (h d hd)]
  have := h d hd
  omega

/-- 5. converse of `canonInt_lit`: a string whose bytes render a literal of the claimed form without
a `+` sign is a canonically written integer -/
theorem lit_canonInt {a : String} {l : Lit} (hl : LitForm l) (hs : l.sign ≠ some false)
    (hb : bytesOf a = l.render) : CanonInt a := by
  obtain ⟨⟨hd, _⟩, hip, hfp, hz⟩ := hl
  obtain ⟨sign, ip, fp⟩ := l
  simp only at hd hip hfp hs
  subst hfp
  have hcd := charsOf_digits hd
  have hcne : charsOf ip ≠ [] := by simpa [charsOf] using hip
  -- the sign as a Boolean
  obtain ⟨neg, hneg⟩ : ∃ neg : Bool, sign = if neg then some true else none := by
    cases sign with
    | none => exact ⟨false, rfl⟩
    | some b =>
      cases b with
      | true => exact ⟨true, rfl⟩
      | false => exact absurd rfl hs
  have hlit : (⟨sign, ip, none⟩ : Lit) = litOf neg (charsOf ip) := by
    simp only [litOf, digitsOf_charsOf hd, hneg]
  have hstr : a = String.ofList ((if neg then ['-'] else []) ++ charsOf ip) := by
    apply bytesOf_inj
    rw [hb, hlit, render_litOf hcd,
      bytesOf_ascii _ (by rw [String.toList_ofList]; exact ascii_of_digits hcd), String.toList_ofList]
  refine ⟨neg, charsOf ip, by rw [hstr, String.toList_ofList], hcne, hcd, ?_⟩
  rcases hz with hz | hz
  · left
    simp only at hz
    rw [hz]; rfl
  · right
    simp only at hz
    cases ip with
    | nil => exact absurd rfl hip
    | cons d ip =>
      simp only [charsOf, List.map_cons, List.head?_cons, ne_eq, Option.some.injEq]
      intro h0
      apply hz
      have := congrArg Char.toNat h0
      rw [toNat_digitChar d (hd d (by simp))] at this
      have h48 : ('0' : Char).toNat = 48 := rfl
      simp only [List.head?_cons, Option.some.injEq]
      omega

/-! ### the definitions are inhabited -/

example : CanonInt "5" :=
  ⟨false, ['5'], by simp, by simp, by simp, Or.inr (by simp)⟩

example : CanonInt "-12" :=
  ⟨true, ['1', '2'], by simp, by simp, by simp, Or.inr (by simp)⟩

example : CanonInt "0" :=
  ⟨false, ['0'], by simp, by simp, by simp, Or.inl rfl⟩

example : ¬ CanonInt "010" := by
  rintro ⟨neg, ds, ha, _, hd, hz⟩
  cases neg with
  | true =>
    have : ("010" : String).toList = ['0', '1', '0'] := by simp
    rw [this] at ha
    simp at ha
  | false =>
    have : ("010" : String).toList = ['0', '1', '0'] := by simp
    rw [this] at ha
    simp only [Bool.false_eq_true, if_false, List.nil_append] at ha
    subst ha
    rcases hz with hz | hz
    · simp at hz
    · simp at hz

example : ¬ CanonInt "+5" := by
  rintro ⟨neg, ds, ha, _, hd, _⟩
  have h5 : ("+5" : String).toList = ['+', '5'] := by simp
  rw [h5] at ha
  cases neg with
  | true => simp at ha
  | false =>
    simp only [Bool.false_eq_true, if_false, List.nil_append] at ha
    subst ha
    exact absurd (hd '+' (by simp)) (by decide)

end Goyang.Lemmas.TypesStrBridge
