import Goyang.Lemmas.TypesLinked
/-
`linkOk reg` (model: `Modules.Process` linked every include and import without error) against
`wellLinked reg` (specification: every include and import statement of the loaded set names a loaded
(sub)module).

`ms.include` walks the include and the import statements of every (sub)module it reaches from the
entries of `ms.Modules`, and returns an error at the first statement `FindModule` cannot resolve.
The post-condition `Done` of Lemmas/IdentityLink.lean records the include links only; here the
error-free run is shown to have resolved every item (`Resolved`) of every node it visited, and every
part of a schema is visited.  A submodule nobody includes is never visited, so `linkOk` says nothing
about its statements: the unrestricted implication fails (`Ex.regW`).
-/
namespace Goyang.Lemmas.TypesWellLinked
open Goyang.Model Goyang.Model.Types Goyang.Spec.Types Goyang.Lemmas.TypesDefs
open Goyang.Model.Identity (linkItems includeGo linkAll moduleEntries modulesByFullName)
open Goyang.Spec.Identity (includedBy Reach)
open Goyang.Lemmas.Identity (byId_self byId_seq byId_mem moduleEntries_byId findModule_byId linkStep
  includeGo_succ linkFold_err linkTop linkAll_eq linkTop_fold mem_modulesByFullName visited_closed AllDone Done
  mem_linkItems_include)
open Goyang.Lemmas.TypesLinked (ofNat0_valid reach_of_includesStar)

/-- Every include and import statement of node `x` names a loaded (sub)module. -/
def Resolved (r : Registry) (x : Nat) : Prop :=
  ∀ m, r.byId x = some m → ∀ item ∈ linkItems m, (r.findModule item.1 item.2.2).isSome = true

/-- Node `x` is finished in the stronger sense: `Done`, and all its items were resolved. -/
def Done2 (r : Registry) (st : Identity.Link) (x : Nat) : Prop := Done r st x ∧ Resolved r x

/-- The loop of `includeGo` over a suffix of the items, error-free: every item was resolved and
every newly visited node is `Resolved` (given that of the recursive calls). -/
theorem linkFold_resolved (r : Registry) (fuel : Nat) (m : Mod)
    (ih : ∀ (im : Mod) (st st' : Identity.Link), r.byId im.seq = some im → includeGo r fuel im st = some (st', none) →
      ∀ x ∈ st'.visited, x ∈ st.visited ∨ Resolved r x) :
    ∀ (its : List (Bool × Nat × Stmt)) (stA stB : Identity.Link),
      its.foldlM (linkStep r fuel m) (stA, none) = some (stB, none) →
      (∀ item ∈ its, (r.findModule item.1 item.2.2).isSome = true) ∧
        ∀ x ∈ stB.visited, x ∈ stA.visited ∨ Resolved r x := by
  intro its
  induction its with
  | nil =>
    intro stA stB h
    have : stA = stB := by
      simp only [List.foldlM] at h
      cases h
      rfl
    subst this
    exact ⟨by simp, fun x hx => Or.inl hx⟩
  | cons it its ihits =>
    intro stA stB h
    simp only [List.foldlM] at h
    cases hfm : r.findModule it.1 it.2.2 with
    | none =>
      simp only [linkStep, hfm] at h
      rw [show ∀ e, (some (stA, some e) >>= fun s' => List.foldlM (linkStep r fuel m) s' its) =
        List.foldlM (linkStep r fuel m) (stA, some e) its from fun _ => rfl, linkFold_err] at h
      cases h
    | some im =>
      obtain ⟨id, hid⟩ := findModule_byId hfm
      have him : r.byId im.seq = some im := byId_self hid
      cases hcall : includeGo r fuel im stA with
      | none =>
        simp only [linkStep, hfm, hcall] at h
        cases h
      | some res =>
        obtain ⟨st1, e1⟩ := res
        cases e1 with
        | some e =>
          simp only [linkStep, hfm, hcall] at h
          rw [show (some (st1, some e) >>= fun s' => List.foldlM (linkStep r fuel m) s' its) =
            List.foldlM (linkStep r fuel m) (st1, some e) its from rfl, linkFold_err] at h
          cases h
        | none =>
          simp only [linkStep, hfm, hcall] at h
          generalize hst2 : (if it.1 = true then { st1 with linked := st1.linked ++ [(m.seq, it.2.1)] } else st1) = st2 at h
          have hvis2 : st2.visited = st1.visited := by
            rw [← hst2]; split <;> rfl
          obtain ⟨hitems, hvis⟩ := ihits st2 stB h
          refine ⟨?_, ?_⟩
          · intro item hitem
            rcases List.mem_cons.mp hitem with rfl | hitem
            · rw [hfm]; rfl
            · exact hitems item hitem
          · intro x hx
            rcases hvis x hx with h' | h'
            · rw [hvis2] at h'
              exact ih im stA st1 him hcall x h'
            · exact Or.inr h'

/-- One error-free call of `includeGo`: every newly visited node is `Resolved`. -/
theorem includeGo_resolved (r : Registry) : ∀ (fuel : Nat) (m : Mod) (st st' : Identity.Link), r.byId m.seq = some m →
    includeGo r fuel m st = some (st', none) → ∀ x ∈ st'.visited, x ∈ st.visited ∨ Resolved r x := by
  intro fuel
  induction fuel with
  | zero =>
    intro m st st' _ h
    simp [includeGo] at h
  | succ fuel ih =>
    intro m st st' hm h
    rw [includeGo_succ] at h
    by_cases hv : m.seq ∈ st.visited
    · simp only [hv, if_true] at h
      cases h
      exact fun x hx => Or.inl hx
    · simp only [hv, if_false] at h
      obtain ⟨hitems, hvis⟩ := linkFold_resolved r fuel m ih (linkItems m) _ st' h
      intro x hx
      rcases hvis x hx with h' | h'
      · simp only [List.mem_append, List.mem_singleton] at h'
        rcases h' with h' | rfl
        · exact Or.inl h'
        · right
          intro m' hm'
          rw [hm] at hm'
          cases hm'
          exact hitems
      · exact Or.inr h'

/-- The loop of `linkAll`, error-free: every visited node is `Resolved`. -/
theorem linkTop_fold_resolved (r : Registry) : ∀ (L : List Mod), (∀ md ∈ L, r.byId md.seq = some md) →
    ∀ (acc res : Identity.Link × List Err), L.foldlM (linkTop r) acc = some res → res.2 = [] →
      (∀ x ∈ acc.1.visited, Resolved r x) → ∀ x ∈ res.1.visited, Resolved r x := by
  intro L
  induction L with
  | nil =>
    intro _ acc res h _ hacc
    simp only [List.foldlM] at h
    cases h
    exact hacc
  | cons md L ih =>
    intro hL acc res h hnil hacc
    have hL' : ∀ x ∈ L, r.byId x.seq = some x := fun x hx => hL x (List.mem_cons_of_mem _ hx)
    simp only [List.foldlM] at h
    cases hcall : includeGo r (r.mods.length + 1) md acc.1 with
    | none =>
      simp only [linkTop, hcall] at h
      cases h
    | some res1 =>
      obtain ⟨st1, e1⟩ := res1
      cases e1 with
      | some e =>
        simp only [linkTop, hcall] at h
        exfalso
        obtain ⟨res', hres', _, hpost⟩ := linkTop_fold r L hL' (st1, acc.2 ++ [e])
        have h' : List.foldlM (linkTop r) (st1, acc.2 ++ [e]) L = some res := h
        rw [hres'] at h'
        cases h'
        have := (hpost hnil).1
        simp at this
      | none =>
        simp only [linkTop, hcall] at h
        have h' : List.foldlM (linkTop r) (st1, acc.2) L = some res := h
        apply ih hL' (st1, acc.2) res h' hnil
        intro x hx
        rcases includeGo_resolved r _ md acc.1 st1 (hL md (List.mem_cons_self ..)) hcall x hx with h1 | h1
        · exact hacc x h1
        · exact h1

/-- An error-free `linkAll`: every visited node is `Done2`, and every entry of `ms.Modules` is visited. -/
theorem linkAll_done2 (o : Identity.Oracle) (ho : o.Valid) (r : Registry) (lk : Identity.Link)
    (h : linkAll o r = some (lk, [])) :
    (∀ x ∈ lk.visited, Done2 r lk x) ∧ ∀ md ∈ moduleEntries r, md.seq ∈ lk.visited := by
  have hL : ∀ md ∈ modulesByFullName o r, r.byId md.seq = some md := by
    intro md hmd
    obtain ⟨id, hid⟩ := moduleEntries_byId ((mem_modulesByFullName o ho r md).mp hmd)
    exact byId_self hid
  obtain ⟨res, hres, _, hpost⟩ := linkTop_fold r (modulesByFullName o r) hL ({}, [])
  rw [linkAll_eq] at h
  have hfold := h
  rw [hres] at h
  cases h
  obtain ⟨_, hall, hvis⟩ := hpost rfl
  have hdone : AllDone r lk := hall (by intro x hx; cases hx)
  have hres2 := linkTop_fold_resolved r (modulesByFullName o r) hL ({}, []) (lk, []) hfold rfl
    (by intro x hx; cases hx)
  exact ⟨fun x hx => ⟨hdone x hx, hres2 x hx⟩,
    fun md hmd => hvis md ((mem_modulesByFullName o ho r md).mpr hmd)⟩

theorem linkAll_of_linkOk (reg : Registry) (hok : linkOk reg = true) :
    ∃ lk, linkAll (Identity.Oracle.ofNat 0) reg = some (lk, []) := by
  unfold linkOk at hok
  split at hok
  · rename_i lk h
    exact ⟨lk, h⟩
  · cases hok

/-- **Every include and import statement of every part of a schema was resolved** when `process`
linked without error. -/
theorem linkOk_resolved (reg : Registry) (hok : linkOk reg = true) :
    ∀ m ∈ reg.mods, PartOfSchema reg m →
      (m.includes.all fun i => (reg.findModule true i).isSome) = true ∧
      (m.imports.all fun i => (reg.findModule false i).isSome) = true := by
  obtain ⟨lk, hla⟩ := linkAll_of_linkOk reg hok
  obtain ⟨hd2, hvis⟩ := linkAll_done2 _ ofNat0_valid reg lk hla
  intro m _ hsch
  obtain ⟨top, htop, hstar⟩ := hsch
  obtain ⟨id, hid⟩ := moduleEntries_byId htop
  obtain ⟨hreach, hbm⟩ := reach_of_includesStar hstar (byId_self hid)
  have hmv : m.seq ∈ lk.visited := visited_closed (fun x hx => (hd2 x hx).1) hreach (hvis top htop)
  have hres : Resolved reg m.seq := (hd2 _ hmv).2
  have hitems := hres m hbm
  constructor
  · rw [List.all_eq_true]
    intro i hi
    obtain ⟨idx, hidx, rfl⟩ := List.getElem_of_mem hi
    exact hitems _ (mem_linkItems_include hidx)
  · rw [List.all_eq_true]
    intro i hi
    apply hitems (false, 0, i)
    unfold linkItems
    exact List.mem_append_right _ (List.mem_map.mpr ⟨i, hi, rfl⟩)

/-- When every loaded (sub)module is part of a schema, an error-free `process` means the loaded set
is well linked. -/
theorem wellLinked_of_linkOk (reg : Registry) (hok : linkOk reg = true)
    (hall : ∀ m ∈ reg.mods, PartOfSchema reg m) : wellLinked reg = true := by
  unfold wellLinked
  rw [List.all_eq_true]
  intro m hm
  obtain ⟨h1, h2⟩ := linkOk_resolved reg hok m hm (hall m hm)
  rw [h1, h2]
  rfl

/-- After an error-free `process`, the loaded set is well linked exactly when the statements of the
(sub)modules that are part of no schema are resolved too. -/
theorem wellLinked_iff_of_linkOk (reg : Registry) (hok : linkOk reg = true) :
    wellLinked reg = true ↔
      ∀ m ∈ reg.mods, ¬ PartOfSchema reg m →
        (m.includes.all fun i => (reg.findModule true i).isSome) = true ∧
        (m.imports.all fun i => (reg.findModule false i).isSome) = true := by
  constructor
  · intro hw m hm _
    unfold wellLinked at hw
    rw [List.all_eq_true] at hw
    have := hw m hm
    rw [Bool.and_eq_true] at this
    exact this
  · intro hrest
    unfold wellLinked
    rw [List.all_eq_true]
    intro m hm
    have : (m.includes.all fun i => (reg.findModule true i).isSome) = true ∧
        (m.imports.all fun i => (reg.findModule false i).isSome) = true := by
      by_cases hp : PartOfSchema reg m
      · exact linkOk_resolved reg hok m hm hp
      · exact hrest m hm hp
    rw [this.1, this.2]
    rfl

/-! ## The unrestricted implication fails

A submodule that no module includes is never reached by `ms.include`, so its unresolvable import is
not reported: `process` links without error, the loaded set is not well linked. -/
namespace Ex
/-- statement in file `f` -/
def S (f kw arg : String) (l c : Nat) (subs : List Stmt) : Stmt := Stmt.mk kw true arg f l c subs

/-- `module m { prefix p; }` -/
def m : Stmt := S "m.yang" "module" "m" 1 1 [S "m.yang" "prefix" "p" 1 12 []]
/-- `submodule s { belongs-to m { prefix p; } import nosuch { prefix q; } }`: `m` does not include it. -/
def s : Stmt := S "s.yang" "submodule" "s" 1 1
  [S "s.yang" "belongs-to" "m" 2 3 [S "s.yang" "prefix" "p" 2 18 []],
   S "s.yang" "import" "nosuch" 3 3 [S "s.yang" "prefix" "q" 3 19 []]]

def regW : Registry := { mods := [⟨0, m⟩, ⟨1, s⟩], modules := [("m", 0)], subModules := [("s", 1)] }

theorem linkOk_regW : linkOk regW = true := by decide +kernel
theorem wellLinked_regW : wellLinked regW = false := by decide +kernel

/-- the submodule is part of no schema … -/
example : partOfSchema regW ⟨1, s⟩ = false := by decide +kernel
/-- … and it is its import that is unresolved -/
example : (regW.findModule false (S "s.yang" "import" "nosuch" 3 3 [S "s.yang" "prefix" "q" 3 19 []])).isSome = false := by
  decide +kernel

end Ex

/-- `linkOk reg → wellLinked reg` does not hold for every loaded set. -/
theorem wellLinked_of_linkOk_fails : ¬ (linkOk Ex.regW = true → wellLinked Ex.regW = true) := by
  intro h
  have := h Ex.linkOk_regW
  rw [Ex.wellLinked_regW] at this
  cases this

end Goyang.Lemmas.TypesWellLinked
