import Goyang.Lemmas.TypesSpecErr
/-
Decidable well-formedness conditions on a loaded set under which the standing hypotheses
`UnambiguousBelow` and `KeysIdentify` of the completeness half of property C09 hold for every
reference that stands in the loaded set (definitions; the proofs are in TypesWfUnamb.lean,
TypesWfKeys.lean and TypesWfMain.lean).
-/
namespace Goyang.Lemmas.TypesWf
open Goyang.Model Goyang.Model.Types Goyang.Spec.Types Goyang.Lemmas.TypesDefs

/-- Source position of a statement. -/
def pos (s : Stmt) : Nat × Nat := (s.line, s.col)

/-- `l` = a statement followed by its ancestors up to `top`: every statement is a substatement of
the next one, the last one is `top`. -/
def IsPath (top : Stmt) : List Stmt → Prop
  | [] => False
  | [x] => x = top
  | c :: p :: rest => c ∈ p.subs ∧ IsPath top (p :: rest)

/-- The site stands in the loaded set: its module is loaded, and the type statement with its
enclosing statements is a path of that module's statement tree. -/
def InPlace (reg : Registry) (s : Site) : Prop := s.1 ∈ reg.mods ∧ IsPath s.1.stmt (s.2.2 :: s.2.1)

/-- Different statements of one (sub)module stand at different positions. -/
def PosDistinct (reg : Registry) : Prop := ∀ m ∈ reg.mods, ((descendants m.stmt).map pos).Nodup

/-- The names of the typedefs declared directly in `n`. -/
def typedefNames (n : Stmt) : List String := (n.subs.filter (·.kw == "typedef")).map (·.arg)

/-- A statement declares a typedef name at most once (RFC 7950 section 7.3). -/
def ScopeDeclOnce (reg : Registry) : Prop := ∀ m ∈ reg.mods, ∀ n ∈ descendants m.stmt, (typedefNames n).Nodup

/-- A module and its submodules declare a top-level typedef name at most once: for the unit a
reference in `root` sees … -/
def UnitDeclOnce (reg : Registry) : Prop :=
  ∀ root ∈ reg.mods, ((unitOf reg root).flatMap fun m => typedefNames m.stmt).Nodup

/-- … and for what an importer sees of a module. -/
def ImportDeclOnce (reg : Registry) : Prop :=
  ∀ ext ∈ reg.mods, ((withSubmodules reg [ext]).flatMap fun m => typedefNames m.stmt).Nodup

instance (reg : Registry) : Decidable (PosDistinct reg) := by unfold PosDistinct; infer_instance
instance (reg : Registry) : Decidable (ScopeDeclOnce reg) := by unfold ScopeDeclOnce; infer_instance
instance (reg : Registry) : Decidable (UnitDeclOnce reg) := by unfold UnitDeclOnce; infer_instance
instance (reg : Registry) : Decidable (ImportDeclOnce reg) := by unfold ImportDeclOnce; infer_instance

end Goyang.Lemmas.TypesWf
