import Goyang.Lemmas.TypesWf
/-
Positions identify sites: in a loaded set whose statements stand at pairwise different positions
(`PosDistinct`), two sites that stand in the loaded set (`InPlace`) and carry the same key (module
sequence number, line, column) are the same site; `Uses` steps keep sites in place.
-/
namespace Goyang.Lemmas.TypesWfKeys
open Goyang.Model Goyang.Model.Types Goyang.Spec.Types Goyang.Lemmas.TypesDefs Goyang.Lemmas.TypesWf
  Goyang.Lemmas.TypesFuel Goyang.Lemmas.TypesSpecErr

/-! ## Paths -/

theorem isPath_single (top : Stmt) : IsPath top [top] := rfl

theorem isPath_cons {top c p : Stmt} {rest : List Stmt} (hc : c ∈ p.subs) (h : IsPath top (p :: rest)) :
    IsPath top (c :: p :: rest) := ⟨hc, h⟩

theorem isPath_suffix {top : Stmt} {l : List Stmt} (hl : l ≠ []) : ∀ {pre : List Stmt}, IsPath top (pre ++ l) → IsPath top l := by
  intro pre
  induction pre with
  | nil => intro h; exact h
  | cons x pre' ih =>
    intro h
    cases hq : pre' ++ l with
    | nil =>
      have : l = [] := (List.append_eq_nil_iff.mp hq).2
      exact absurd this hl
    | cons y r =>
      rw [List.cons_append, hq] at h
      have h2 : IsPath top (y :: r) := h.2
      rw [← hq] at h2
      exact ih h2

mutual
/-- All paths of the tree of `s` (a statement followed by its ancestors up to `s`), in document order. -/
def paths : Stmt → List (List Stmt)
  | .mk kw ha a f l c subs =>
    [Stmt.mk kw ha a f l c subs] :: (pathsL subs).map (· ++ [Stmt.mk kw ha a f l c subs])
def pathsL : List Stmt → List (List Stmt)
  | [] => []
  | s :: rest => paths s ++ pathsL rest
end

theorem self_path (s : Stmt) : [s] ∈ paths s := by
  cases s with
  | mk kw ha a f l c subs => simp [paths]

theorem paths_sub_pathsL {x : Stmt} : ∀ {l : List Stmt}, x ∈ l → ∀ p ∈ paths x, p ∈ pathsL l := by
  intro l
  induction l with
  | nil => intro h; cases h
  | cons s rest ih =>
    intro h p hp
    simp only [pathsL, List.mem_append]
    cases h with
    | head => exact Or.inl hp
    | tail _ h => exact Or.inr (ih h p hp)

theorem map_head_append {L : List (List Stmt)} (s : Stmt) (hne : ∀ p ∈ L, p ≠ []) :
    (L.map (· ++ [s])).map (fun p => p.head?) = L.map (fun p => p.head?) := by
  rw [List.map_map]
  apply List.map_congr_left
  intro p hp
  simp only [Function.comp]
  cases p with
  | nil => exact absurd rfl (hne [] hp)
  | cons x xs => rfl

theorem ne_nil_of_heads {L : List (List Stmt)} {D : List Stmt} (h : L.map (fun p => p.head?) = D.map some) :
    ∀ p ∈ L, p ≠ [] := by
  intro p hp hnil
  have : p.head? ∈ L.map (fun p => p.head?) := List.mem_map_of_mem hp
  rw [h, hnil] at this
  obtain ⟨d, _, hd⟩ := List.mem_map.mp this
  cases hd

mutual
/-- The first statements of the paths of a tree are its statements, in the same order. -/
theorem heads_paths : ∀ (s : Stmt), (paths s).map (fun p => p.head?) = (descendants s).map some
  | .mk kw ha a f l c subs => by
    have ih := heads_pathsL subs
    simp only [paths, descendants, List.map_cons, List.head?_cons]
    rw [map_head_append _ (ne_nil_of_heads ih), ih]
theorem heads_pathsL : ∀ (l : List Stmt), (pathsL l).map (fun p => p.head?) = (descendantsL l).map some
  | [] => by simp [pathsL, descendantsL]
  | s :: rest => by
    simp only [pathsL, descendantsL, List.map_append]
    rw [heads_paths s, heads_pathsL rest]
end

mutual
theorem ext_stmt (c p : Stmt) (rest : List Stmt) (hc : c ∈ p.subs) :
    ∀ (top : Stmt), (p :: rest) ∈ paths top → (c :: p :: rest) ∈ paths top
  | .mk kw ha a f l col subs, h => by
    simp only [paths, List.mem_cons, List.mem_map] at h ⊢
    rcases h with h | ⟨q, hq, hqe⟩
    · simp only [List.cons.injEq] at h
      obtain ⟨hp, hr⟩ := h
      subst hp hr
      refine Or.inr ⟨[c], paths_sub_pathsL (show c ∈ subs from hc) _ (self_path c), rfl⟩
    · cases q with
      | nil => exact absurd rfl (ne_nil_of_heads (heads_pathsL subs) [] hq)
      | cons q0 qs =>
        simp only [List.cons_append, List.cons.injEq] at hqe
        obtain ⟨hq0, hqs⟩ := hqe
        subst hq0
        refine Or.inr ⟨c :: q0 :: qs, ext_list c q0 qs hc subs hq, ?_⟩
        simp only [List.cons_append, hqs]
theorem ext_list (c p : Stmt) (rest : List Stmt) (hc : c ∈ p.subs) :
    ∀ (l : List Stmt), (p :: rest) ∈ pathsL l → (c :: p :: rest) ∈ pathsL l
  | [], h => by simp [pathsL] at h
  | s :: tl, h => by
    simp only [pathsL, List.mem_append] at h ⊢
    rcases h with h | h
    · exact Or.inl (ext_stmt c p rest hc s h)
    · exact Or.inr (ext_list c p rest hc tl h)
end

theorem isPath_mem_paths {top : Stmt} : ∀ {l : List Stmt}, IsPath top l → l ∈ paths top := by
  intro l
  induction l with
  | nil => intro h; exact h.elim
  | cons c tl ih =>
    intro h
    cases tl with
    | nil =>
      have : c = top := h
      rw [this]
      exact self_path top
    | cons p rest => exact ext_stmt c p rest h.1 top (ih h.2)

theorem inj_of_nodup_map {α β : Type} (f : α → β) : ∀ {l : List α}, (l.map f).Nodup →
    ∀ x ∈ l, ∀ y ∈ l, f x = f y → x = y := by
  intro l
  induction l with
  | nil => intro _ x hx; cases hx
  | cons a rest ih =>
    intro hnd x hx y hy hxy
    rw [List.map_cons, List.nodup_cons] at hnd
    cases hx with
    | head =>
      cases hy with
      | head => rfl
      | tail _ hy => exact absurd (hxy ▸ List.mem_map_of_mem hy) hnd.1
    | tail _ hx =>
      cases hy with
      | head => exact absurd (hxy ▸ List.mem_map_of_mem hx) hnd.1
      | tail _ hy => exact ih hnd.2 x hx y hy hxy

theorem nodup_map_some {α : Type} : ∀ {l : List α}, l.Nodup → (l.map some).Nodup := by
  intro l
  induction l with
  | nil => intro _; exact List.nodup_nil
  | cons a rest ih =>
    intro h
    rw [List.nodup_cons] at h
    rw [List.map_cons, List.nodup_cons]
    refine ⟨?_, ih h.2⟩
    intro hm
    obtain ⟨b, hb, hbe⟩ := List.mem_map.mp hm
    cases hbe
    exact h.1 hb

/-- In a tree whose statements stand at pairwise different positions, two paths whose first
statements stand at the same position are the same path. -/
theorem isPath_unique {top : Stmt} (hnd : ((descendants top).map pos).Nodup) {c c' : Stmt} {r r' : List Stmt}
    (h : IsPath top (c :: r)) (h' : IsPath top (c' :: r')) (hp : pos c = pos c') : c :: r = c' :: r' := by
  have hkey : ((paths top).map (fun p => p.head?.map pos)).Nodup := by
    have : (paths top).map (fun p => p.head?.map pos) = ((descendants top).map pos).map some := by
      have h1 := congrArg (List.map (Option.map pos)) (heads_paths top)
      simp only [List.map_map] at h1
      rw [List.map_map]
      exact h1
    rw [this]
    exact nodup_map_some hnd
  exact inj_of_nodup_map _ hkey _ (isPath_mem_paths h) _ (isPath_mem_paths h')
    (by simp only [List.head?_cons, Option.map_some, hp])

/-! ## Sites -/

/-- Sites that stand in the loaded set and carry the same key are the same site. -/
theorem inPlace_eq_of_key (reg : Registry) (hid : SeqId reg) (hpos : PosDistinct reg) (a b : Site)
    (ha : InPlace reg a) (hb : InPlace reg b) (hk : siteKey a = siteKey b) : a = b := by
  obtain ⟨ra, sa, ta⟩ := a
  obtain ⟨rb, sb, tb⟩ := b
  simp only [siteKey, typeKey, Prod.mk.injEq] at hk
  obtain ⟨hseq, hline, hcol⟩ := hk
  have hr : ra = rb := hid ra ha.1 rb hb.1 hseq
  subst hr
  have := isPath_unique (hpos ra ha.1) ha.2 hb.2 (by simp only [pos, hline, hcol])
  simp only [List.cons.injEq] at this
  rw [this.1, this.2]

/-- A `Uses` step leads from a site that stands in the loaded set to one that does. -/
theorem inPlace_uses (reg : Registry) (a b : Site) (ha : InPlace reg a) (h : Uses reg a b) : InPlace reg b := by
  cases h with
  | member ut hut => exact ⟨ha.1, isPath_cons (all_mem_subs hut) ha.2⟩
  | base m td sc tt hbind htt =>
    refine ⟨binds_root_mem ha.1 hbind, ?_⟩
    apply isPath_cons (one_mem_subs htt)
    cases hbind with
    | lexical pre n up td' _ _ hsc _ htd =>
      apply isPath_cons (declared_mem_subs htd)
      have hp := ha.2
      simp only at hp hsc
      rw [hsc] at hp
      exact isPath_suffix (by simp) (pre := _ :: pre) hp
    | moduleLevel m' td' _ _ _ _ htd => exact isPath_cons (declared_mem_subs htd) (isPath_single _)
    | foreign i ext m' td' _ _ _ _ _ _ htd => exact isPath_cons (declared_mem_subs htd) (isPath_single _)

end Goyang.Lemmas.TypesWfKeys
