import Goyang.Lemmas.TypesWfKeys
import Goyang.Lemmas.TypesWfUnamb
/-
The standing hypotheses of the completeness half of property C09 follow from decidable
well-formedness conditions on the loaded set (`WfReg`), for every reference that stands in the
loaded set (`InPlace`).
-/
namespace Goyang.Lemmas.TypesWfMain
open Goyang.Model Goyang.Model.Types Goyang.Spec.Types Goyang.Lemmas.TypesDefs Goyang.Lemmas.TypesWf
  Goyang.Lemmas.TypesWfKeys Goyang.Lemmas.TypesWfUnamb Goyang.Lemmas.TypesComplete Goyang.Lemmas.TypesFuel

/-- Decidable well-formedness of a loaded set: sequence numbers pairwise different; per (sub)module:
import prefixes pairwise different, statements at pairwise different positions, no typedef name
declared twice in one statement; no top-level typedef name declared twice in a module and its
submodules. -/
def WfReg (reg : Registry) : Prop :=
  (reg.mods.map (·.seq)).Nodup ∧
  (∀ root ∈ reg.mods, (root.imports.filterMap (·.argOf? "prefix")).Nodup) ∧
  PosDistinct reg ∧ ScopeDeclOnce reg ∧ UnitDeclOnce reg ∧ ImportDeclOnce reg

instance (reg : Registry) : Decidable (WfReg reg) := by unfold WfReg; infer_instance

theorem seqId_of_nodup {reg : Registry} (h : (reg.mods.map (·.seq)).Nodup) : SeqId reg :=
  fun a ha b hb hab => inj_of_nodup_map (·.seq) h a ha b hb hab

theorem inj_of_nodup_filterMap {α β : Type} (f : α → Option β) : ∀ {l : List α}, (l.filterMap f).Nodup →
    ∀ x ∈ l, ∀ y ∈ l, ∀ p, f x = some p → f y = some p → x = y := by
  intro l
  induction l with
  | nil => intro _ x hx; cases hx
  | cons a rest ih =>
    intro hnd x hx y hy p hfx hfy
    have hmem : ∀ z ∈ rest, f z = some p → p ∈ rest.filterMap f := fun z hz hfz => List.mem_filterMap.mpr ⟨z, hz, hfz⟩
    cases hx with
    | head =>
      cases hy with
      | head => rfl
      | tail _ hy =>
        rw [List.filterMap_cons, hfx, List.nodup_cons] at hnd
        exact absurd (hmem y hy hfy) hnd.1
    | tail _ hx =>
      cases hy with
      | head =>
        rw [List.filterMap_cons, hfy, List.nodup_cons] at hnd
        exact absurd (hmem x hx hfx) hnd.1
      | tail _ hy =>
        have hnd' : (rest.filterMap f).Nodup := by
          rw [List.filterMap_cons] at hnd
          cases hfa : f a with
          | none => rw [hfa] at hnd; exact hnd
          | some v => rw [hfa] at hnd; exact (List.nodup_cons.mp hnd).2
        exact ih hnd' x hx y hy p hfx hfy

theorem importsDistinct_of_nodup {reg : Registry}
    (h : ∀ root ∈ reg.mods, (root.imports.filterMap (·.argOf? "prefix")).Nodup) : ImportsDistinct reg :=
  fun root hroot i hi i' hi' p hp hp' => inj_of_nodup_filterMap (·.argOf? "prefix") (h root hroot) i hi i' hi' p hp hp'

theorem inPlace_star {reg : Registry} {s0 a : Site} (h0 : InPlace reg s0) (h : UsesStar reg s0 a) : InPlace reg a := by
  induction h with
  | refl => exact h0
  | tail _ hbc ih => exact inPlace_uses reg _ _ ih hbc

theorem inPlace_plus {reg : Registry} {a b : Site} (ha : InPlace reg a) (h : UsesPlus reg a b) : InPlace reg b := by
  induction h with
  | one hab => exact inPlace_uses reg _ _ ha hab
  | cons hab _ ih => exact ih (inPlace_uses reg _ _ ha hab)

/-- In a well-formed loaded set every reference that stands in it satisfies the standing hypotheses. -/
theorem standing_of_wf (env : Env) (hwf : WfReg env.reg) (hlink : Linked env) (s0 : Site) (h0 : InPlace env.reg s0) :
    Standing env s0 := by
  obtain ⟨hseq, himp, hpos, h1, h2, h3⟩ := hwf
  have hid := seqId_of_nodup hseq
  have himp' := importsDistinct_of_nodup himp
  exact {
    seqId := hid
    linked := hlink
    imports := himp'
    unamb := fun a ha => unambiguousAt_of_wf env.reg hid himp' h1 h2 h3 a (inPlace_star h0 ha)
    keys := fun a b ha hab hk => inPlace_eq_of_key env.reg hid hpos a b (inPlace_star h0 ha)
      (inPlace_plus (inPlace_star h0 ha) hab) hk }

/-- A site that stands in the loaded set stands in it in the sense of `InSet`. -/
theorem inSet_of_inPlace {env : Env} {root : Mod} {scope : List Stmt} {t : Stmt} (h : InPlace env.reg (root, scope, t)) :
    InSet env root scope t :=
  ⟨h.1, isPath_mem_descendants h.2 t List.mem_cons_self,
    fun s hs => isPath_mem_descendants h.2 s (List.mem_cons_of_mem _ hs)⟩

end Goyang.Lemmas.TypesWfMain
