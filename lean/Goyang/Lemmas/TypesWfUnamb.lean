import Goyang.Lemmas.TypesWf
import Goyang.Lemmas.TypesClosure
/-
Under the decidable declare-once conditions of Goyang/Lemmas/TypesWf.lean (`ScopeDeclOnce`,
`UnitDeclOnce`, `ImportDeclOnce`) together with `SeqId` and `ImportsDistinct`, a type name denotes
at most one typedef at every site that stands in the loaded set (property C09: the standing
hypothesis `UnambiguousAt` of the completeness half).
-/
namespace Goyang.Lemmas.TypesWfUnamb
open Goyang.Model Goyang.Model.Types Goyang.Spec.Types Goyang.Lemmas.TypesDefs Goyang.Lemmas.TypesWf
  Goyang.Lemmas.TypesClosure Goyang.Lemmas.TypesFuel

/-! ## List facts (no decidable equality on the elements) -/

/-- On a list whose image under `f` has no repetition, `f` is injective. -/
theorem eq_of_nodup_map {α β : Type} (f : α → β) :
    ∀ (l : List α), (l.map f).Nodup → ∀ a ∈ l, ∀ b ∈ l, f a = f b → a = b
  | [], _, _, ha, _, _, _ => by cases ha
  | x :: xs, h, a, ha, b, hb, e => by
    rw [List.map_cons, List.nodup_cons] at h
    rcases List.mem_cons.mp ha with ha | ha
    · rcases List.mem_cons.mp hb with hb | hb
      · rw [ha, hb]
      · refine absurd ?_ h.1
        rw [← ha, e]
        exact List.mem_map_of_mem hb
    · rcases List.mem_cons.mp hb with hb | hb
      · refine absurd ?_ h.1
        rw [← hb, ← e]
        exact List.mem_map_of_mem ha
      · exact eq_of_nodup_map f xs h.2 a ha b hb e

/-- Two members of a list whose images share an element are the same member, when the
concatenation of all images has no repetition. -/
theorem eq_of_nodup_flatMap {α β : Type} (f : α → List β) :
    ∀ (l : List α), (l.flatMap f).Nodup → ∀ a ∈ l, ∀ b ∈ l, ∀ x, x ∈ f a → x ∈ f b → a = b
  | [], _, _, ha, _, _, _, _, _ => by cases ha
  | c :: cs, h, a, ha, b, hb, x, hxa, hxb => by
    rw [List.flatMap_cons, List.nodup_append] at h
    obtain ⟨_, h2, h3⟩ := h
    rcases List.mem_cons.mp ha with ha | ha
    · rcases List.mem_cons.mp hb with hb | hb
      · rw [ha, hb]
      · exact absurd rfl (h3 x (ha ▸ hxa) x (List.mem_flatMap.mpr ⟨b, hb, hxb⟩))
    · rcases List.mem_cons.mp hb with hb | hb
      · exact absurd rfl (h3 x (hb ▸ hxb) x (List.mem_flatMap.mpr ⟨a, ha, hxa⟩))
      · exact eq_of_nodup_flatMap f cs h2 a ha b hb x hxa hxb

/-- Each image is without repetition when the concatenation is. -/
theorem nodup_of_nodup_flatMap {α β : Type} (f : α → List β) :
    ∀ (l : List α), (l.flatMap f).Nodup → ∀ a ∈ l, (f a).Nodup
  | [], _, _, ha => by cases ha
  | c :: cs, h, a, ha => by
    rw [List.flatMap_cons, List.nodup_append] at h
    obtain ⟨h1, h2, _⟩ := h
    rcases List.mem_cons.mp ha with ha | ha
    · rw [ha]; exact h1
    · exact nodup_of_nodup_flatMap f cs h2 a ha

/-! ## What a statement declares -/

theorem declared_spec {n td : Stmt} {name : String} (h : td ∈ declared n name) :
    td ∈ n.subs.filter (·.kw == "typedef") ∧ td.arg = name := by
  unfold declared at h
  split at h
  · rw [List.mem_filter] at h
    obtain ⟨hm, hp⟩ := h
    simp only [Bool.and_eq_true, beq_iff_eq] at hp
    refine ⟨List.mem_filter.mpr ⟨hm, ?_⟩, hp.2⟩
    simp only [beq_iff_eq]
    exact hp.1
  · cases h

theorem declared_name_mem {n td : Stmt} {name : String} (h : td ∈ declared n name) : name ∈ typedefNames n := by
  obtain ⟨hm, ha⟩ := declared_spec h
  unfold typedefNames
  exact List.mem_map.mpr ⟨td, hm, ha⟩

/-- the key fact: a statement that declares every typedef name once declares at most one typedef
of a given name -/
theorem declared_unique {n td td' : Stmt} {name : String} (hn : (typedefNames n).Nodup)
    (h : td ∈ declared n name) (h' : td' ∈ declared n name) : td = td' := by
  obtain ⟨hm, ha⟩ := declared_spec h
  obtain ⟨hm', ha'⟩ := declared_spec h'
  unfold typedefNames at hn
  exact eq_of_nodup_map Stmt.arg (n.subs.filter (·.kw == "typedef")) hn td hm td' hm' (ha.trans ha'.symm)

/-! ## Paths -/

/-- every statement of a path stands in the tree of its top -/
theorem isPath_mem_descendants {top : Stmt} : ∀ {l : List Stmt}, IsPath top l → ∀ x ∈ l, x ∈ descendants top
  | [], h, _, _ => h.elim
  | [c], h, x, hx => by
    rw [List.mem_singleton] at hx
    have h : c = top := h
    rw [hx, h]
    exact self_mem_descendants top
  | c :: p :: rest, h, x, hx => by
    have h : c ∈ p.subs ∧ IsPath top (p :: rest) := h
    have ih := isPath_mem_descendants h.2
    rcases List.mem_cons.mp hx with hx | hx
    · rw [hx]
      exact child_below (ih p List.mem_cons_self) h.1
    · exact ih x hx

/-! ## The nearest declaring scope is determined -/

theorem nearest_unique {P : Stmt → Prop} :
    ∀ (pre pre' : List Stmt) (n n' : Stmt) (up up' : List Stmt),
      pre ++ n :: up = pre' ++ n' :: up' → (∀ x ∈ pre, P x) → (∀ x ∈ pre', P x) → ¬ P n → ¬ P n' →
      pre = pre' ∧ n = n' ∧ up = up'
  | [], [], n, n', up, up', e, _, _, _, _ => by
    simp only [List.nil_append, List.cons.injEq] at e
    exact ⟨rfl, e.1, e.2⟩
  | [], y :: ys, n, n', up, up', e, _, hp', hn, _ => by
    simp only [List.nil_append, List.cons_append, List.cons.injEq] at e
    exact absurd (e.1 ▸ hp' y List.mem_cons_self) hn
  | y :: ys, [], n, n', up, up', e, hp, _, _, hn' => by
    simp only [List.nil_append, List.cons_append, List.cons.injEq] at e
    exact absurd (e.1 ▸ hp y List.mem_cons_self) hn'
  | y :: ys, y' :: ys', n, n', up, up', e, hp, hp', hn, hn' => by
    simp only [List.cons_append, List.cons.injEq] at e
    obtain ⟨h1, h2, h3⟩ := nearest_unique ys ys' n n' up up' e.2
      (fun x hx => hp x (List.mem_cons_of_mem _ hx)) (fun x hx => hp' x (List.mem_cons_of_mem _ hx)) hn hn'
    exact ⟨by rw [e.1, h1], h2, h3⟩

/-! ## Top level of a list of (sub)modules -/

/-- Among (sub)modules that together declare every top-level typedef name once, a name is declared
by one of them, once. -/
theorem topLevel_unique {ms : List Mod} (h : (ms.flatMap fun m => typedefNames m.stmt).Nodup)
    {m m' : Mod} (hm : m ∈ ms) (hm' : m' ∈ ms) {td td' : Stmt} {name : String}
    (htd : td ∈ declared m.stmt name) (htd' : td' ∈ declared m'.stmt name) : m = m' ∧ td = td' := by
  have e : m = m' :=
    eq_of_nodup_flatMap (fun m => typedefNames m.stmt) ms h m hm m' hm' name
      (declared_name_mem htd) (declared_name_mem htd')
  subst e
  exact ⟨rfl, declared_unique (nodup_of_nodup_flatMap (fun m => typedefNames m.stmt) ms h m hm) htd htd'⟩

/-! ## Main -/

theorem binds_unique (reg : Registry) (hid : SeqId reg) (himp : ImportsDistinct reg)
    (h1 : ScopeDeclOnce reg) (h2 : UnitDeclOnce reg) (h3 : ImportDeclOnce reg)
    (root : Mod) (hroot : root ∈ reg.mods) (scope : List Stmt) (hscope : ∀ x ∈ scope, x ∈ descendants root.stmt)
    (name : String) {m : Mod} {td : Stmt} {sc : List Stmt} {m' : Mod} {td' : Stmt} {sc' : List Stmt}
    (hb : Binds reg root scope name m td sc) (hb' : Binds reg root scope name m' td' sc') :
    m = m' ∧ td = td' ∧ sc = sc' := by
  cases hb with
  | lexical pre n up td _ hloc hsc hpre htd =>
    cases hb' with
    | lexical pre' n' up' td' _ _ hsc' hpre' htd' =>
      have hne : ¬ declared n (baseName name) = [] := fun e => by rw [e] at htd; cases htd
      have hne' : ¬ declared n' (baseName name) = [] := fun e => by rw [e] at htd'; cases htd'
      obtain ⟨_, e2, e3⟩ := nearest_unique (P := fun x => declared x (baseName name) = [])
        pre pre' n n' up up' (hsc.symm.trans hsc') hpre hpre' hne hne'
      subst e2 e3
      have hn : n ∈ descendants root.stmt := hscope n (by rw [hsc]; simp)
      exact ⟨rfl, declared_unique (h1 root hroot n hn) htd htd', rfl⟩
    | moduleLevel m' td' _ _ hnone _ _ =>
      have : declared n (baseName name) = [] := hnone n (by rw [hsc]; simp)
      rw [this] at htd; cases htd
    | foreign i ext m' td' _ hloc' _ _ _ _ _ =>
      rw [hloc] at hloc'; cases hloc'
  | moduleLevel m td _ hloc hnone hunit htd =>
    cases hb' with
    | lexical pre' n' up' td' _ _ hsc' _ htd' =>
      have : declared n' (baseName name) = [] := hnone n' (by rw [hsc']; simp)
      rw [this] at htd'; cases htd'
    | moduleLevel m' td' _ _ _ hunit' htd' =>
      have hm := (mem_unitOf_iff reg hid root hroot m).mpr hunit
      have hm' := (mem_unitOf_iff reg hid root hroot m').mpr hunit'
      obtain ⟨e1, e2⟩ := topLevel_unique (h2 root hroot) hm hm' htd htd'
      subst e1 e2
      exact ⟨rfl, rfl, rfl⟩
    | foreign i ext m' td' _ hloc' _ _ _ _ _ =>
      rw [hloc] at hloc'; cases hloc'
  | foreign i ext m td _ hloc hi hpfx hfind hstar htd =>
    cases hb' with
    | lexical pre' n' up' td' _ hloc' _ _ _ =>
      rw [hloc] at hloc'; cases hloc'
    | moduleLevel m' td' _ hloc' _ _ _ =>
      rw [hloc] at hloc'; cases hloc'
    | foreign i' ext' m' td' _ _ hi' hpfx' hfind' hstar' htd' =>
      have ei : i = i' := himp root hroot i hi i' hi' _ hpfx hpfx'
      subst ei
      have ee : ext = ext' := Option.some.inj (hfind.symm.trans hfind')
      subst ee
      have hext : ext ∈ reg.mods := findModule_mem hfind
      have hms : ∀ s ∈ [ext], s ∈ reg.mods := fun s hs => by
        rw [List.mem_singleton] at hs; rw [hs]; exact hext
      have hm := withSubmodules_complete reg hid [ext] hms ext List.mem_cons_self m hstar
      have hm' := withSubmodules_complete reg hid [ext] hms ext List.mem_cons_self m' hstar'
      obtain ⟨e1, e2⟩ := topLevel_unique (h3 ext hext) hm hm' htd htd'
      subst e1 e2
      exact ⟨rfl, rfl, rfl⟩

theorem unambiguousAt_of_wf (reg : Registry) (hid : SeqId reg) (himp : ImportsDistinct reg)
    (h1 : ScopeDeclOnce reg) (h2 : UnitDeclOnce reg) (h3 : ImportDeclOnce reg)
    (s : Site) (hs : InPlace reg s) : UnambiguousAt reg s := by
  obtain ⟨root, scope, t⟩ := s
  obtain ⟨hroot, hpath⟩ := hs
  intro m td sc m' td' sc' hb hb'
  have hscope : ∀ x ∈ scope, x ∈ descendants root.stmt := fun x hx =>
    isPath_mem_descendants hpath x (List.mem_cons_of_mem _ hx)
  exact binds_unique reg hid himp h1 h2 h3 root hroot scope hscope t.arg hb hb'

end Goyang.Lemmas.TypesWfUnamb
