import Goyang.Spec.Uses
/-
Lemmas for C06 (every use of a grouping is an independent, faithful, locally scoped copy).

1. names: the model's `String` operations (`startsWith`, `drop`, `contains`) against the
   specification's character lists;
2. copies (`CopyOf` is reflexive: in the pure model a copy is the value itself);
3. `merge none` — what a `uses` adds: the grouping entry's children appended unchanged, its
   errors imported;
4. the `uses` case of `toEntry`: conversion of the grouping in the grouping's own root and scope;
5. binding: the fuel-driven search `findGrouping` equals the declarative `Spec.Uses.bindGrouping`
   (first place of a name-independent search order that declares the name), given enough fuel.

The frame lemmas for `updateAt` / `removeAt` used by Props/C06 are those of Lemmas/Deviate.lean.
Core Lean only.
-/
namespace Goyang.Lemmas.Uses
open Goyang.Model Goyang.Spec.Uses

/-! ## 1. names -/

/-! ### names: the model's `String` operations and the specification's character lists -/

theorem carries_iff (p name : String) : name.startsWith (p ++ ":") = carries p name := by
  unfold carries
  rw [Bool.eq_iff_iff, String.startsWith_string_iff]
  simp [List.isPrefixOf_iff_prefix]

theorem contains_colon (name : String) : name.contains ':' = !isBare name := by
  unfold isBare
  rw [String.contains_char_eq]
  simp

theorem drop_toString (s : String) (k : Nat) : (s.drop k).toString = String.ofList (s.toList.drop k) := by
  apply String.ext_iff.2
  simp [String.Slice.toString]

theorem afterPrefix_eq (p name : String) : (name.drop (p.length + 1)).toString = afterPrefix p name := by
  rw [drop_toString]; rfl

theorem trimLocalPrefix_eq (root : Mod) (name : String) : trimLocalPrefix root name = localName root name := by
  unfold trimLocalPrefix localName
  by_cases hp : root.getPrefix = ""
  · simp [hp]
  · have h1 : (root.getPrefix != "") = true := by simpa using hp
    have e : (if (root.getPrefix != "") = true then root.getPrefix ++ ":" else root.getPrefix) = root.getPrefix ++ ":" :=
      if_pos h1
    simp only []
    generalize (if (root.getPrefix != "") = true then root.getPrefix ++ ":" else root.getPrefix) = q at e ⊢
    subst e
    have h2 : (root.getPrefix ++ ":" != "") = true := by
      simp only [bne_iff_ne, ne_eq]
      intro h
      have := congrArg String.length h
      simp at this
    have hl : (root.getPrefix ++ ":").length = root.getPrefix.length + 1 := by
      rw [String.length_append]; rfl
    simp only [h1, h2, Bool.true_and, carries_iff, hl, afterPrefix_eq]

/-! ## 2., 3. copies and `merge none` -/

/-! ### copies -/

theorem sameData_refl (d : EData) : SameData d d :=
  ⟨rfl, rfl, rfl, rfl, rfl, rfl, rfl, rfl, rfl, rfl, rfl, rfl⟩

mutual
theorem copyOf_refl : ∀ e : Entry, CopyOf e e
  | .mk d c i o => by
    unfold CopyOf
    exact ⟨sameData_refl d, copyOfL_refl c, copyOfL_refl i, copyOfL_refl o⟩
theorem copyOfL_refl : ∀ l : List Entry, CopyOfL l l
  | [] => by unfold CopyOfL; trivial
  | e :: es => by
    unfold CopyOfL
    exact ⟨copyOf_refl e, copyOfL_refl es⟩
end

/-- A copy has the same nodes at the same paths. -/
theorem copyOfL_length : ∀ (a b : List Entry), CopyOfL a b → a.length = b.length
  | [], [], _ => rfl
  | _ :: as, _ :: bs, h => by
    unfold CopyOfL at h
    simp [copyOfL_length as bs h.2]
  | [], _ :: _, h => by unfold CopyOfL at h; exact h.elim
  | _ :: _, [], h => by unfold CopyOfL at h; exact h.elim

/-! ### `merge none`: what a `uses` (and an `include`) adds -/

def names (e : Entry) : List String := e.dir.map (·.name)

theorem child?_none_of_fresh (e : Entry) (k : String) (h : k ∉ names e) : e.child? k = none := by
  unfold Entry.child?
  rw [List.find?_eq_none]
  intro x hx hk
  exact h (List.mem_map.2 ⟨x, hx, by simpa using hk⟩)

theorem dir_withDir (e : Entry) (c : List Entry) : (e.withDir c).dir = c := by cases e; rfl
theorem d_withDir (e : Entry) (c : List Entry) : (e.withDir c).d = e.d := by cases e; rfl
theorem inp_withDir (e : Entry) (c : List Entry) : (e.withDir c).inp = e.inp := by cases e; rfl
theorem out_withDir (e : Entry) (c : List Entry) : (e.withDir c).out = e.out := by cases e; rfl
theorem dir_addErrs (e : Entry) (xs : List Err) : (e.addErrs xs).dir = e.dir := by cases e; rfl
theorem inp_addErrs (e : Entry) (xs : List Err) : (e.addErrs xs).inp = e.inp := by cases e; rfl
theorem out_addErrs (e : Entry) (xs : List Err) : (e.addErrs xs).out = e.out := by cases e; rfl
theorem d_addErrs (e : Entry) (xs : List Err) : (e.addErrs xs).d = { e.d with errors := e.d.errors ++ xs } := by
  cases e; rfl

/-- The errors `importErrors` takes over from `c`: its own and those of everything below it. -/
def importedErrors (c : Entry) : List Err :=
  c.d.errors ++ Entry.allErrorsL c.dir ++ Entry.allErrorsL c.inp ++ Entry.allErrorsL c.out

/-- The loop of `merge none` once the errors have been imported. -/
def mergeLoop (nd : Stmt) (vs : List Entry) (e : Entry) : Entry :=
  vs.foldl (fun (e : Entry) v =>
    match e.child? v.name with
    | some _ => e.addErr (Err.at_ nd "duplicate-node")
    | none => e.withDir (e.dir ++ [v])) e

theorem merge_none_eq (e oe : Entry) :
    e.merge none oe = mergeLoop oe.d.node oe.dir (e.addErrs (importedErrors oe)) := rfl

theorem mergeLoop_free (nd : Stmt) (vs : List Entry) (e : Entry)
    (hfresh : ∀ v ∈ vs, v.name ∉ names e) (hnodup : (vs.map (·.name)).Nodup) :
    mergeLoop nd vs e = e.withDir (e.dir ++ vs) := by
  induction vs generalizing e with
  | nil => cases e; simp [mergeLoop, Entry.withDir, Entry.dir]
  | cons v vs ih =>
    unfold mergeLoop
    simp only [List.foldl_cons]
    rw [child?_none_of_fresh e v.name (hfresh v (by simp))]
    simp only [List.map_cons, List.nodup_cons] at hnodup
    have := ih (e.withDir (e.dir ++ [v])) (by
      intro w hw
      unfold names
      rw [dir_withDir]
      simp only [List.map_append, List.map_cons, List.map_nil, List.mem_append, List.mem_singleton, not_or]
      refine ⟨hfresh w (by simp [hw]), ?_⟩
      intro heq
      exact hnodup.1 (heq ▸ List.mem_map_of_mem hw)) hnodup.2
    unfold mergeLoop at this
    rw [this]
    cases e
    simp [Entry.withDir, Entry.dir]

/-- Every child after the loop is a child from before or one of the merged entries, unchanged. -/
theorem mergeLoop_mem (nd : Stmt) (vs : List Entry) (e : Entry) :
    ∀ x ∈ (mergeLoop nd vs e).dir, x ∈ e.dir ∨ x ∈ vs := by
  induction vs generalizing e with
  | nil => intro x hx; exact Or.inl hx
  | cons v vs ih =>
    intro x hx
    unfold mergeLoop at hx
    simp only [List.foldl_cons] at hx
    have := ih _ x hx
    rcases this with h | h
    · split at h
      · left; simpa [Entry.addErr, Entry.withD, Entry.dir] using (by cases e; exact h)
      · rw [dir_withDir] at h
        rcases List.mem_append.1 h with h | h
        · exact Or.inl h
        · right; simp at h; simp [h]
    · right; simp [h]

/-! ## 4. the `uses` case of `toEntry` -/

theorem toEntry_uses (env : Env) (fuel : Nat) (root : Mod) (scope : List Stmt) (n : Stmt)
    (visiting : List NodeId) (st : TState) (h : n.kw = "uses") :
    toEntry env (fuel + 1) root scope n visiting st =
      match (findGrouping env.reg env.linked (2 * fuel + 16) root scope n.arg []).1 with
      | none => (errorEntry root n "unknown-group", st)
      | some (g, groot, gscope) => toEntry env fuel groot gscope g visiting st := by
  rw [toEntry]
  simp only [h]
  simp only [String.reduceBEq, Bool.or_self, ↓reduceIte, Bool.false_and, Bool.false_eq_true]
  rfl

/-! ## 5. binding -/

abbrev Res := Option GroupingRef × List String

/-- `match a with | (some r, s) => (some r, s) | (none, s) => k s`. -/
def orElse (a : Res) (k : List String → Res) : Res :=
  match a with
  | (some r, s) => (some r, s)
  | (none, s) => k s

theorem orElse_none (s : List String) (k : List String → Res) : orElse (none, s) k = k s := rfl

/-- The owner hop of `fgScope`. -/
def viaOwner (reg : Registry) (linked : List Nat) (fuel : Nat) (root : Mod) (cond : Bool) (name : String)
    (seen : List String) : Res :=
  if cond && root.isSub then
    match (root.belongsTo?.bind reg.getModule) with
    | some owner =>
      if seen.contains owner.name then (none, seen)
      else findGrouping reg linked fuel owner [owner.stmt] name (seen ++ [owner.name])
    | none => (none, seen)
  else (none, seen)

/-- The import hop of `fgImports`. -/
def importHit (reg : Registry) (linked : List Nat) (fuel : Nat) (i : Stmt) (name : String) (seen : List String) : Res :=
  let ip := (i.argOf? "prefix").getD ""
  if name.startsWith (ip ++ ":") && !((name.drop (ip.length + 1)).toString.contains ':') then
    match reg.findModule false i with
    | some im => findGrouping reg linked fuel im [im.stmt] (name.drop (ip.length + 1)).toString seen
    | none => (none, seen)
  else (none, seen)

/-- The include hop of `fgIncludes`. -/
def includeHit (reg : Registry) (linked : List Nat) (fuel : Nat) (i : Stmt) (name : String) (seen : List String) : Res :=
  match reg.findModule true i with
  | none => (none, seen)
  | some im =>
    if seen.contains im.name then (none, seen)
    else findGrouping reg linked fuel im [im.stmt] name (seen ++ [im.name])

theorem fgScope_cons (reg : Registry) (linked : List Nat) (fuel : Nat) (root : Mod) (n : Stmt) (up : List Stmt)
    (name : String) (seen : List String) :
    fgScope reg linked (fuel + 1) root (n :: up) name seen =
      match (n.all "grouping").find? (·.arg == name) with
      | some g => (some (g, root, n :: up), seen)
      | none =>
        orElse (fgImports reg linked fuel
          (if isModuleStmt n && linked.contains root.seq then n.all "import" else []) name seen) fun seen =>
        orElse (fgIncludes reg linked fuel
          (if isModuleStmt n && linked.contains root.seq && !name.contains ':' then n.all "include" else []) name seen) fun seen =>
        orElse (viaOwner reg linked fuel root (isModuleStmt n && !name.contains ':') name seen) fun seen =>
        fgScope reg linked fuel root up name seen := by
  rw [fgScope.eq_3]
  rfl

theorem fgImports_cons (reg : Registry) (linked : List Nat) (fuel : Nat) (i : Stmt) (rest : List Stmt)
    (name : String) (seen : List String) :
    fgImports reg linked (fuel + 1) (i :: rest) name seen =
      orElse (importHit reg linked fuel i name seen) fun seen => fgImports reg linked fuel rest name seen := by
  rw [fgImports.eq_3]
  rfl

theorem fgIncludes_cons (reg : Registry) (linked : List Nat) (fuel : Nat) (i : Stmt) (rest : List Stmt)
    (name : String) (seen : List String) :
    fgIncludes reg linked (fuel + 1) (i :: rest) name seen =
      orElse (includeHit reg linked fuel i name seen) fun seen => fgIncludes reg linked fuel rest name seen := by
  rw [fgIncludes.eq_3]
  rfl

theorem fgScope_nil (reg : Registry) (linked : List Nat) (fuel : Nat) (root : Mod) (name : String) (seen : List String) :
    fgScope reg linked fuel root [] name seen = (none, seen) := by
  cases fuel <;> simp [fgScope]

theorem fgIncludes_nil (reg : Registry) (linked : List Nat) (fuel : Nat) (name : String) (seen : List String) :
    fgIncludes reg linked fuel [] name seen = (none, seen) := by
  cases fuel <;> simp [fgIncludes]

theorem fgImports_nil (reg : Registry) (linked : List Nat) (fuel : Nat) (name : String) (seen : List String) :
    fgImports reg linked fuel [] name seen = (none, seen) := by
  cases fuel <;> simp [fgImports]

theorem carries_not_bare {p name : String} (h : carries p name = true) : isBare name = false := by
  unfold carries at h
  unfold isBare
  rw [List.isPrefixOf_iff_prefix] at h
  have : ':' ∈ name.toList := h.subset (by simp)
  simp [this]

theorem bare_not_carries {p name : String} (h : isBare name = true) : carries p name = false := by
  cases hc : carries p name with
  | false => rfl
  | true => rw [carries_not_bare hc] at h; cases h

/-! ### the potential: loaded modules whose name is not marked -/

def unseen (reg : Registry) (seen : List String) : Nat :=
  (reg.mods.filter fun m => !seen.contains m.name).length

theorem unseen_mono {reg : Registry} {s s' : List String} (h : s ⊆ s') : unseen reg s' ≤ unseen reg s := by
  unfold unseen
  rw [← List.countP_eq_length_filter, ← List.countP_eq_length_filter]
  apply List.countP_mono_left
  intro m _ hm
  simp only [Bool.not_eq_true', List.contains_eq_mem, decide_eq_false_iff_not] at hm ⊢
  exact fun hmem => hm (h hmem)

theorem countP_lt {α : Type} {p q : α → Bool} {l : List α} (hpq : ∀ x ∈ l, p x = true → q x = true)
    {a : α} (ha : a ∈ l) (hq : q a = true) (hp : p a = false) : l.countP p < l.countP q := by
  induction l with
  | nil => cases ha
  | cons b l ih =>
    rw [List.countP_cons, List.countP_cons]
    have hmono : l.countP p ≤ l.countP q :=
      List.countP_mono_left (fun x hx => hpq x (List.mem_cons_of_mem _ hx))
    rcases List.mem_cons.1 ha with rfl | ha'
    · simp [hq, hp]; omega
    · have h1 := ih (fun x hx => hpq x (List.mem_cons_of_mem _ hx)) ha'
      have h2 := hpq b (List.mem_cons_self ..)
      cases hpb : p b <;> cases hqb : q b <;> simp_all <;> omega

theorem unseen_lt {reg : Registry} {s : List String} {m : Mod} (hm : m ∈ reg.mods)
    (hs : s.contains m.name = false) : unseen reg (s ++ [m.name]) < unseen reg s := by
  unfold unseen
  rw [← List.countP_eq_length_filter, ← List.countP_eq_length_filter]
  refine countP_lt ?_ hm (by simpa using hs) (by simp)
  intro x _ hx
  simp only [Bool.not_eq_true', List.contains_eq_mem, decide_eq_false_iff_not, List.mem_append,
    List.mem_singleton, not_or] at hx ⊢
  exact hx.1

theorem unseen_nil_le (reg : Registry) : unseen reg [] ≤ reg.mods.length := List.length_filter_le _ _

theorem byId_mem {r : Registry} {id : Nat} {m : Mod} (h : r.byId id = some m) : m ∈ r.mods :=
  List.mem_of_find?_eq_some h

theorem getModule_mem {r : Registry} {k : String} {m : Mod} (h : r.getModule k = some m) : m ∈ r.mods := by
  unfold Registry.getModule at h
  cases hk : r.modules.get? k with
  | none => simp [hk] at h
  | some id => simp [hk] at h; exact byId_mem h

theorem getSub_mem {r : Registry} {k : String} {m : Mod} (h : r.getSub k = some m) : m ∈ r.mods := by
  unfold Registry.getSub at h
  cases hk : r.subModules.get? k with
  | none => simp [hk] at h
  | some id => simp [hk] at h; exact byId_mem h

theorem findModule_mem {r : Registry} {b : Bool} {i : Stmt} {m : Mod} (h : r.findModule b i = some m) : m ∈ r.mods := by
  unfold Registry.findModule at h
  cases b <;> simp only [Bool.false_eq_true, if_false, if_true] at h <;> split at h
  · next h' => cases h; exact getModule_mem h'
  · exact getModule_mem h
  · next h' => cases h; exact getSub_mem h'
  · exact getSub_mem h

theorem owner_mem {reg : Registry} {root owner : Mod} (h : root.belongsTo?.bind reg.getModule = some owner) :
    owner ∈ reg.mods := by
  cases hb : root.belongsTo? with
  | none => simp [hb] at h
  | some b => simp [hb] at h; exact getModule_mem h

/-! ### the search order only adds marks -/

theorem visitList_subset (V : Mod → List String → List Mod × List String) (hV : ∀ t s, s ⊆ (V t s).2) :
    ∀ (ts : List Mod) (seen : List String), seen ⊆ (visitList V ts seen).2
  | [], seen => by simp [visitList]
  | t :: ts, seen => by
    unfold visitList
    split
    · exact visitList_subset V hV ts seen
    · simp only
      intro x hx
      exact visitList_subset V hV ts _ (hV t _ (List.mem_append_left _ hx))

theorem visit_subset (reg : Registry) (linked : List Nat) : ∀ (d : Nat) (m : Mod) (seen : List String),
    seen ⊆ (visit reg linked d m seen).2
  | 0, m, seen => by simp [visit]
  | d + 1, m, seen => by
    unfold visit
    exact visitList_subset _ (visit_subset reg linked d) _ _

theorem visitList_cons (V : Mod → List String → List Mod × List String) (t : Mod) (ts : List Mod) (seen : List String) :
    visitList V (t :: ts) seen =
      if seen.contains t.name then visitList V ts seen
      else ((V t (seen ++ [t.name])).1 ++ (visitList V ts (V t (seen ++ [t.name])).2).1,
            (visitList V ts (V t (seen ++ [t.name])).2).2) := by
  rw [visitList]

theorem visitList_append (V : Mod → List String → List Mod × List String) :
    ∀ (a b : List Mod) (seen : List String),
      visitList V (a ++ b) seen =
        ((visitList V a seen).1 ++ (visitList V b (visitList V a seen).2).1, (visitList V b (visitList V a seen).2).2)
  | [], b, seen => by simp [visitList]
  | t :: a, b, seen => by
    simp only [List.cons_append, visitList_cons]
    split
    · exact visitList_append V a b seen
    · simp only [visitList_append V a b, List.append_assoc]

end Goyang.Lemmas.Uses
