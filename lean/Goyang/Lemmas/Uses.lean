import Goyang.Spec.Uses
/-
Lemmas for C06 (every use of a grouping is an independent, faithful, locally scoped copy).

1. names: the model's `String` operations (`startsWith`, `drop`, `contains`) against the
   specification's character lists;
2. copies (`CopyOf` is reflexive: in the pure model a copy is the value itself);
3. `merge none` — what a `uses` adds: the grouping entry's children appended unchanged, its
   errors imported;
4. the `uses` case of `toEntry`: conversion of the grouping in the grouping's own root and scope;
   `usesStep`, the body of the fold over the `uses` substatements, and (last section) the proof that
   this fold is the first field step for container, list, case, input, output and notification
   statements and that every later step only appends children;
5. binding: the fuel-driven search `findGrouping` equals the declarative `Spec.Uses.bindGrouping`
   (first place of a name-independent search order that declares the name), given enough fuel.

The frame lemmas for `updateAt` / `removeAt` used by Props/C06 are those of Lemmas/Deviate.lean.
Core Lean only.
-/
namespace Goyang.Lemmas.Uses
open Goyang.Model Goyang.Spec.Uses

/-! ## 1. names -/

/-! ### names: the model's `String` operations and the specification's character lists -/

theorem carries_iff (p name : String) : name.startsWith (p ++ ":") = carries p name := by
  unfold carries
  rw [Bool.eq_iff_iff, String.startsWith_string_iff]
  simp [List.isPrefixOf_iff_prefix]

theorem contains_colon (name : String) : name.contains ':' = !isBare name := by
  unfold isBare
  rw [String.contains_char_eq]
  simp

theorem drop_toString (s : String) (k : Nat) : (s.drop k).toString = String.ofList (s.toList.drop k) := by
  apply String.ext_iff.2
  simp [String.Slice.toString]

theorem afterPrefix_eq (p name : String) : (name.drop (p.length + 1)).toString = afterPrefix p name := by
  rw [drop_toString]; rfl

theorem trimLocalPrefix_eq (root : Mod) (name : String) : trimLocalPrefix root name = localName root name := by
  unfold trimLocalPrefix localName
  by_cases hp : root.getPrefix = ""
  · simp [hp]
  · have h1 : (root.getPrefix != "") = true := by simpa using hp
    have e : (if (root.getPrefix != "") = true then root.getPrefix ++ ":" else root.getPrefix) = root.getPrefix ++ ":" :=
      if_pos h1
    simp only []
    generalize (if (root.getPrefix != "") = true then root.getPrefix ++ ":" else root.getPrefix) = q at e ⊢
    subst e
    have h2 : (root.getPrefix ++ ":" != "") = true := by
      simp only [bne_iff_ne, ne_eq]
      intro h
      have := congrArg String.length h
      simp at this
    have hl : (root.getPrefix ++ ":").length = root.getPrefix.length + 1 := by
      rw [String.length_append]; rfl
    simp only [h1, h2, Bool.true_and, carries_iff, hl, afterPrefix_eq]

/-! ## 2., 3. copies and `merge none` -/

/-! ### copies -/

theorem sameData_refl (d : EData) : SameData d d :=
  ⟨rfl, rfl, rfl, rfl, rfl, rfl, rfl, rfl, rfl, rfl, rfl, rfl⟩

mutual
theorem copyOf_refl : ∀ e : Entry, CopyOf e e
  | .mk d c i o => by
    unfold CopyOf
    exact ⟨sameData_refl d, copyOfL_refl c, copyOfL_refl i, copyOfL_refl o⟩
theorem copyOfL_refl : ∀ l : List Entry, CopyOfL l l
  | [] => by unfold CopyOfL; trivial
  | e :: es => by
    unfold CopyOfL
    exact ⟨copyOf_refl e, copyOfL_refl es⟩
end

/-- A copy has the same nodes at the same paths. -/
theorem copyOfL_length : ∀ (a b : List Entry), CopyOfL a b → a.length = b.length
  | [], [], _ => rfl
  | _ :: as, _ :: bs, h => by
    unfold CopyOfL at h
    simp [copyOfL_length as bs h.2]
  | [], _ :: _, h => by unfold CopyOfL at h; exact h.elim
  | _ :: _, [], h => by unfold CopyOfL at h; exact h.elim

/-! ### `merge none`: what a `uses` (and an `include`) adds -/

def names (e : Entry) : List String := e.dir.map (·.name)

theorem child?_none_of_fresh (e : Entry) (k : String) (h : k ∉ names e) : e.child? k = none := by
  unfold Entry.child?
  rw [List.find?_eq_none]
  intro x hx hk
  exact h (List.mem_map.2 ⟨x, hx, by simpa using hk⟩)

theorem dir_withDir (e : Entry) (c : List Entry) : (e.withDir c).dir = c := by cases e; rfl
theorem d_withDir (e : Entry) (c : List Entry) : (e.withDir c).d = e.d := by cases e; rfl
theorem inp_withDir (e : Entry) (c : List Entry) : (e.withDir c).inp = e.inp := by cases e; rfl
theorem out_withDir (e : Entry) (c : List Entry) : (e.withDir c).out = e.out := by cases e; rfl
theorem dir_addErrs (e : Entry) (xs : List Err) : (e.addErrs xs).dir = e.dir := by cases e; rfl
theorem inp_addErrs (e : Entry) (xs : List Err) : (e.addErrs xs).inp = e.inp := by cases e; rfl
theorem out_addErrs (e : Entry) (xs : List Err) : (e.addErrs xs).out = e.out := by cases e; rfl
theorem d_addErrs (e : Entry) (xs : List Err) : (e.addErrs xs).d = { e.d with errors := e.d.errors ++ xs } := by
  cases e; rfl

/-- The errors `importErrors` takes over from `c`: its own and those of everything below it. -/
def importedErrors (c : Entry) : List Err :=
  c.d.errors ++ Entry.allErrorsL c.dir ++ Entry.allErrorsL c.inp ++ Entry.allErrorsL c.out

/-- The loop of `merge none` once the errors have been imported. -/
def mergeLoop (nd : Stmt) (vs : List Entry) (e : Entry) : Entry :=
  vs.foldl (fun (e : Entry) v =>
    match e.child? v.name with
    | some _ => e.addErr (Err.at_ nd "duplicate-node")
    | none => e.withDir (e.dir ++ [v])) e

theorem merge_none_eq (e oe : Entry) :
    e.merge none oe = mergeLoop oe.d.node oe.dir (e.addErrs (importedErrors oe)) := rfl

theorem mergeLoop_free (nd : Stmt) (vs : List Entry) (e : Entry)
    (hfresh : ∀ v ∈ vs, v.name ∉ names e) (hnodup : (vs.map (·.name)).Nodup) :
    mergeLoop nd vs e = e.withDir (e.dir ++ vs) := by
  induction vs generalizing e with
  | nil => cases e; simp [mergeLoop, Entry.withDir, Entry.dir]
  | cons v vs ih =>
    unfold mergeLoop
    simp only [List.foldl_cons]
    rw [child?_none_of_fresh e v.name (hfresh v (by simp))]
    simp only [List.map_cons, List.nodup_cons] at hnodup
    have := ih (e.withDir (e.dir ++ [v])) (by
      intro w hw
      unfold names
      rw [dir_withDir]
      simp only [List.map_append, List.map_cons, List.map_nil, List.mem_append, List.mem_singleton, not_or]
      refine ⟨hfresh w (by simp [hw]), ?_⟩
      intro heq
      exact hnodup.1 (heq ▸ List.mem_map_of_mem hw)) hnodup.2
    unfold mergeLoop at this
    rw [this]
    cases e
    simp [Entry.withDir, Entry.dir]

/-- Every child after the loop is a child from before or one of the merged entries, unchanged. -/
theorem mergeLoop_mem (nd : Stmt) (vs : List Entry) (e : Entry) :
    ∀ x ∈ (mergeLoop nd vs e).dir, x ∈ e.dir ∨ x ∈ vs := by
  induction vs generalizing e with
  | nil => intro x hx; exact Or.inl hx
  | cons v vs ih =>
    intro x hx
    unfold mergeLoop at hx
    simp only [List.foldl_cons] at hx
    have := ih _ x hx
    rcases this with h | h
    · split at h
      · left; simpa [Entry.addErr, Entry.withD, Entry.dir] using (by cases e; exact h)
      · rw [dir_withDir] at h
        rcases List.mem_append.1 h with h | h
        · exact Or.inl h
        · right; simp at h; simp [h]
    · right; simp [h]

/-! ## 4. the `uses` case of `toEntry` -/

theorem toEntry_uses (env : Env) (fuel : Nat) (root : Mod) (scope : List Stmt) (n : Stmt)
    (visiting : List NodeId) (st : TState) (h : n.kw = "uses") :
    toEntry env (fuel + 1) root scope n visiting st =
      match (findGrouping env.reg env.linked (2 * fuel + 16) root scope n.arg []).1 with
      | none => (errorEntry root n "unknown-group", st)
      | some (g, groot, gscope) => toEntry env fuel groot gscope g visiting st := by
  rw [toEntry]
  simp only [h]
  simp only [String.reduceBEq, Bool.or_self, ↓reduceIte, Bool.false_and, Bool.false_eq_true]
  rfl

/-! ## 5. binding -/

abbrev Res := Option GroupingRef × List String

/-- `match a with | (some r, s) => (some r, s) | (none, s) => k s`. -/
def orElse (a : Res) (k : List String → Res) : Res :=
  match a with
  | (some r, s) => (some r, s)
  | (none, s) => k s

theorem orElse_none (s : List String) (k : List String → Res) : orElse (none, s) k = k s := rfl

/-- The owner hop of `fgScope`. -/
def viaOwner (reg : Registry) (linked : List Nat) (fuel : Nat) (root : Mod) (cond : Bool) (name : String)
    (seen : List String) : Res :=
  if cond && root.isSub then
    match (root.belongsTo?.bind reg.getModule) with
    | some owner =>
      if seen.contains owner.name then (none, seen)
      else findGrouping reg linked fuel owner [owner.stmt] name (seen ++ [owner.name])
    | none => (none, seen)
  else (none, seen)

/-- The import hop of `fgImports`. -/
def importHit (reg : Registry) (linked : List Nat) (fuel : Nat) (i : Stmt) (name : String) (seen : List String) : Res :=
  let ip := (i.argOf? "prefix").getD ""
  if name.startsWith (ip ++ ":") && !((name.drop (ip.length + 1)).toString.contains ':') then
    match reg.findModule false i with
    | some im => findGrouping reg linked fuel im [im.stmt] (name.drop (ip.length + 1)).toString seen
    | none => (none, seen)
  else (none, seen)

/-- The include hop of `fgIncludes`. -/
def includeHit (reg : Registry) (linked : List Nat) (fuel : Nat) (i : Stmt) (name : String) (seen : List String) : Res :=
  match reg.findModule true i with
  | none => (none, seen)
  | some im =>
    if seen.contains im.name then (none, seen)
    else findGrouping reg linked fuel im [im.stmt] name (seen ++ [im.name])

theorem fgScope_cons (reg : Registry) (linked : List Nat) (fuel : Nat) (root : Mod) (n : Stmt) (up : List Stmt)
    (name : String) (seen : List String) :
    fgScope reg linked (fuel + 1) root (n :: up) name seen =
      match (n.all "grouping").find? (·.arg == name) with
      | some g => (some (g, root, n :: up), seen)
      | none =>
        orElse (fgImports reg linked fuel
          (if isModuleStmt n && linked.contains root.seq then n.all "import" else []) name seen) fun seen =>
        orElse (fgIncludes reg linked fuel
          (if isModuleStmt n && linked.contains root.seq && !name.contains ':' then n.all "include" else []) name seen) fun seen =>
        orElse (viaOwner reg linked fuel root (isModuleStmt n && !name.contains ':') name seen) fun seen =>
        fgScope reg linked fuel root up name seen := by
  rw [fgScope.eq_3]
  rfl

theorem fgImports_cons (reg : Registry) (linked : List Nat) (fuel : Nat) (i : Stmt) (rest : List Stmt)
    (name : String) (seen : List String) :
    fgImports reg linked (fuel + 1) (i :: rest) name seen =
      orElse (importHit reg linked fuel i name seen) fun seen => fgImports reg linked fuel rest name seen := by
  rw [fgImports.eq_3]
  rfl

theorem fgIncludes_cons (reg : Registry) (linked : List Nat) (fuel : Nat) (i : Stmt) (rest : List Stmt)
    (name : String) (seen : List String) :
    fgIncludes reg linked (fuel + 1) (i :: rest) name seen =
      orElse (includeHit reg linked fuel i name seen) fun seen => fgIncludes reg linked fuel rest name seen := by
  rw [fgIncludes.eq_3]
  rfl

theorem fgScope_nil (reg : Registry) (linked : List Nat) (fuel : Nat) (root : Mod) (name : String) (seen : List String) :
    fgScope reg linked fuel root [] name seen = (none, seen) := by
  cases fuel <;> simp [fgScope]

theorem fgIncludes_nil (reg : Registry) (linked : List Nat) (fuel : Nat) (name : String) (seen : List String) :
    fgIncludes reg linked fuel [] name seen = (none, seen) := by
  cases fuel <;> simp [fgIncludes]

theorem fgImports_nil (reg : Registry) (linked : List Nat) (fuel : Nat) (name : String) (seen : List String) :
    fgImports reg linked fuel [] name seen = (none, seen) := by
  cases fuel <;> simp [fgImports]

theorem carries_not_bare {p name : String} (h : carries p name = true) : isBare name = false := by
  unfold carries at h
  unfold isBare
  rw [List.isPrefixOf_iff_prefix] at h
  have : ':' ∈ name.toList := h.subset (by simp)
  simp [this]

theorem bare_not_carries {p name : String} (h : isBare name = true) : carries p name = false := by
  cases hc : carries p name with
  | false => rfl
  | true => rw [carries_not_bare hc] at h; cases h

/-! ### the potential: loaded modules whose name is not marked -/

def unseen (reg : Registry) (seen : List String) : Nat :=
  (reg.mods.filter fun m => !seen.contains m.name).length

theorem unseen_mono {reg : Registry} {s s' : List String} (h : s ⊆ s') : unseen reg s' ≤ unseen reg s := by
  unfold unseen
  rw [← List.countP_eq_length_filter, ← List.countP_eq_length_filter]
  apply List.countP_mono_left
  intro m _ hm
  simp only [Bool.not_eq_true', List.contains_eq_mem, decide_eq_false_iff_not] at hm ⊢
  exact fun hmem => hm (h hmem)

theorem countP_lt {α : Type} {p q : α → Bool} {l : List α} (hpq : ∀ x ∈ l, p x = true → q x = true)
    {a : α} (ha : a ∈ l) (hq : q a = true) (hp : p a = false) : l.countP p < l.countP q := by
  induction l with
  | nil => cases ha
  | cons b l ih =>
    rw [List.countP_cons, List.countP_cons]
    have hmono : l.countP p ≤ l.countP q :=
      List.countP_mono_left (fun x hx => hpq x (List.mem_cons_of_mem _ hx))
    rcases List.mem_cons.1 ha with rfl | ha'
    · simp [hq, hp]; omega
    · have h1 := ih (fun x hx => hpq x (List.mem_cons_of_mem _ hx)) ha'
      have h2 := hpq b (List.mem_cons_self ..)
      cases hpb : p b <;> cases hqb : q b <;> simp_all <;> omega

theorem unseen_lt {reg : Registry} {s : List String} {m : Mod} (hm : m ∈ reg.mods)
    (hs : s.contains m.name = false) : unseen reg (s ++ [m.name]) < unseen reg s := by
  unfold unseen
  rw [← List.countP_eq_length_filter, ← List.countP_eq_length_filter]
  refine countP_lt ?_ hm (by simpa using hs) (by simp)
  intro x _ hx
  simp only [Bool.not_eq_true', List.contains_eq_mem, decide_eq_false_iff_not, List.mem_append,
    List.mem_singleton, not_or] at hx ⊢
  exact hx.1

theorem unseen_nil_le (reg : Registry) : unseen reg [] ≤ reg.mods.length := List.length_filter_le _ _

theorem byId_mem {r : Registry} {id : Nat} {m : Mod} (h : r.byId id = some m) : m ∈ r.mods :=
  List.mem_of_find?_eq_some h

theorem getModule_mem {r : Registry} {k : String} {m : Mod} (h : r.getModule k = some m) : m ∈ r.mods := by
  unfold Registry.getModule at h
  cases hk : r.modules.get? k with
  | none => simp [hk] at h
  | some id => simp [hk] at h; exact byId_mem h

theorem getSub_mem {r : Registry} {k : String} {m : Mod} (h : r.getSub k = some m) : m ∈ r.mods := by
  unfold Registry.getSub at h
  cases hk : r.subModules.get? k with
  | none => simp [hk] at h
  | some id => simp [hk] at h; exact byId_mem h

theorem findModule_mem {r : Registry} {b : Bool} {i : Stmt} {m : Mod} (h : r.findModule b i = some m) : m ∈ r.mods := by
  unfold Registry.findModule at h
  cases b <;> simp only [Bool.false_eq_true, if_false, if_true] at h <;> split at h
  · next h' => cases h; exact getModule_mem h'
  · exact getModule_mem h
  · next h' => cases h; exact getSub_mem h'
  · exact getSub_mem h

theorem owner_mem {reg : Registry} {root owner : Mod} (h : root.belongsTo?.bind reg.getModule = some owner) :
    owner ∈ reg.mods := by
  cases hb : root.belongsTo? with
  | none => simp [hb] at h
  | some b => simp [hb] at h; exact getModule_mem h

/-! ### the search order only adds marks -/

theorem visitList_subset (V : Mod → List String → List Mod × List String) (hV : ∀ t s, s ⊆ (V t s).2) :
    ∀ (ts : List Mod) (seen : List String), seen ⊆ (visitList V ts seen).2
  | [], seen => by simp [visitList]
  | t :: ts, seen => by
    unfold visitList
    split
    · exact visitList_subset V hV ts seen
    · simp only
      intro x hx
      exact visitList_subset V hV ts _ (hV t _ (List.mem_append_left _ hx))

theorem visit_subset (reg : Registry) (linked : List Nat) : ∀ (d : Nat) (m : Mod) (seen : List String),
    seen ⊆ (visit reg linked d m seen).2
  | 0, m, seen => by simp [visit]
  | d + 1, m, seen => by
    unfold visit
    exact visitList_subset _ (visit_subset reg linked d) _ _

theorem visitList_cons (V : Mod → List String → List Mod × List String) (t : Mod) (ts : List Mod) (seen : List String) :
    visitList V (t :: ts) seen =
      if seen.contains t.name then visitList V ts seen
      else ((V t (seen ++ [t.name])).1 ++ (visitList V ts (V t (seen ++ [t.name])).2).1,
            (visitList V ts (V t (seen ++ [t.name])).2).2) := by
  rw [visitList]

theorem visitList_append (V : Mod → List String → List Mod × List String) :
    ∀ (a b : List Mod) (seen : List String),
      visitList V (a ++ b) seen =
        ((visitList V a seen).1 ++ (visitList V b (visitList V a seen).2).1, (visitList V b (visitList V a seen).2).2)
  | [], b, seen => by simp [visitList]
  | t :: a, b, seen => by
    simp only [List.cons_append, visitList_cons]
    split
    · exact visitList_append V a b seen
    · simp only [visitList_append V a b, List.append_assoc]

/-! ### the search against the search order -/

/-- The first of the (sub)modules `ms` that declares the name at its top level. -/
def found (ms : List Mod) (name : String) : Option GroupingRef :=
  ms.findSome? fun s => (declares s.stmt name).map fun g => (g, s, [s.stmt])

theorem found_nil (name : String) : found [] name = none := rfl

theorem found_cons (m : Mod) (ms : List Mod) (name : String) :
    found (m :: ms) name =
      match declares m.stmt name with
      | some g => some (g, m, [m.stmt])
      | none => found ms name := by
  unfold found
  rw [List.findSome?_cons]
  cases declares m.stmt name <;> rfl

theorem found_append (a b : List Mod) (name : String) :
    found (a ++ b) name = match found a name with | some r => some r | none => found b name := by
  unfold found
  rw [List.findSome?_append]
  cases List.findSome? _ a <;> rfl

/-- The search result agrees with the search order: same finding, and when nothing is found the
same marks. -/
def Agree (r : Res) (v : List Mod × List String) (name : String) : Prop :=
  r.1 = found v.1 name ∧ (r.1 = none → r.2 = v.2)

section bare
variable (reg : Registry) (linked : List Nat) (name : String) (hb : isBare name = true)
include hb

theorem importHit_bare (fuel : Nat) (i : Stmt) (seen : List String) :
    importHit reg linked fuel i name seen = (none, seen) := by
  unfold importHit
  simp only [carries_iff, bare_not_carries hb, Bool.false_and, Bool.false_eq_true, if_false]

theorem fgImports_bare : ∀ (fuel : Nat) (imps : List Stmt) (seen : List String),
    fgImports reg linked fuel imps name seen = (none, seen)
  | 0, _, _ => by simp [fgImports]
  | fuel + 1, [], seen => fgImports_nil ..
  | fuel + 1, i :: rest, seen => by
    rw [fgImports_cons, importHit_bare reg linked name hb, orElse_none]
    exact fgImports_bare fuel rest seen

theorem localName_bare (root : Mod) : localName root name = name := by
  unfold localName
  simp [bare_not_carries hb]

theorem findGrouping_bare (fuel : Nat) (root : Mod) (scope : List Stmt) (seen : List String) :
    findGrouping reg linked (fuel + 1) root scope name seen = fgScope reg linked fuel root scope name seen := by
  rw [findGrouping.eq_2, trimLocalPrefix_eq, localName_bare name hb]


/-- What the level lemma assumes about the (sub)modules one step down (depth `d`). -/
def Below (W d : Nat) : Prop :=
  ∀ (t : Mod) (seen' : List String) (fuel' : Nat), t ∈ reg.mods → unseen reg seen' + 1 ≤ d → d * (W + 3) ≤ fuel' →
    Agree (fgScope reg linked fuel' t [t.stmt] name seen') (visit reg linked d t seen') name

/-- The include loop against the search order of the included submodules. -/
theorem includes_agree (W d : Nat) (ih : Below reg linked name W d) :
    ∀ (incs : List Stmt) (seen : List String) (G : Nat), unseen reg seen ≤ d → incs.length + 2 + d * (W + 3) ≤ G →
      Agree (fgIncludes reg linked G incs name seen)
        (visitList (visit reg linked d) (incs.filterMap (reg.findModule true)) seen) name
  | [], seen, G, _, _ => by
    rw [fgIncludes_nil]
    exact ⟨rfl, fun _ => rfl⟩
  | i :: rest, seen, G, hu, hG => by
    obtain ⟨g, rfl⟩ : ∃ g, G = g + 1 := ⟨G - 1, by simp at hG; omega⟩
    simp only [List.length_cons] at hG
    rw [fgIncludes_cons]
    unfold includeHit
    cases hf : reg.findModule true i with
    | none =>
      simp only [List.filterMap_cons, hf, orElse_none]
      exact includes_agree W d ih rest seen g hu (by omega)
    | some t =>
      simp only [List.filterMap_cons, hf, visitList_cons]
      cases hs : seen.contains t.name with
      | true =>
        simp only [if_true, orElse_none]
        exact includes_agree W d ih rest seen g hu (by omega)
      | false =>
        simp only [Bool.false_eq_true, if_false]
        have hlt := unseen_lt (findModule_mem hf) hs
        obtain ⟨g', rfl⟩ : ∃ g', g = g' + 1 := ⟨g - 1, by omega⟩
        rw [findGrouping_bare reg linked name hb]
        have A := ih t (seen ++ [t.name]) g' (findModule_mem hf) (by omega) (by omega)
        have hsub : seen ⊆ (visit reg linked d t (seen ++ [t.name])).2 :=
          fun x hx => visit_subset reg linked d t _ (List.mem_append_left _ hx)
        have hu' : unseen reg (visit reg linked d t (seen ++ [t.name])).2 ≤ d :=
          Nat.le_trans (unseen_mono hsub) hu
        have B := includes_agree W d ih rest (visit reg linked d t (seen ++ [t.name])).2 (g' + 1) hu' (by omega)
        generalize fgScope reg linked g' t [t.stmt] name (seen ++ [t.name]) = r at A
        obtain ⟨r1, r2⟩ := r
        cases r1 with
        | some x =>
          simp only [orElse]
          refine ⟨?_, fun h => by cases h⟩
          rw [found_append, ← A.1]
        | none =>
          simp only [orElse_none]
          have h2 : r2 = (visit reg linked d t (seen ++ [t.name])).2 := A.2 rfl
          subst h2
          refine ⟨?_, B.2⟩
          rw [found_append, ← A.1]
          exact B.1


/-- The owner hop against the search order of the owner. -/
theorem owner_agree (W d : Nat) (ih : Below reg linked name W d) (m : Mod) (seen : List String) (G : Nat)
    (hu : unseen reg seen ≤ d) (hG : 1 + d * (W + 3) ≤ G) (c : Bool) :
    Agree (viaOwner reg linked G m c name seen)
      (visitList (visit reg linked d)
        (if c && m.isSub then (m.belongsTo?.bind reg.getModule).toList else []) seen) name := by
  unfold viaOwner
  cases hc : (c && m.isSub) with
  | false => simp only [Bool.false_eq_true, if_false]; exact ⟨rfl, fun _ => rfl⟩
  | true =>
    simp only [if_true]
    cases ho : m.belongsTo?.bind reg.getModule with
    | none => simp only [Option.toList]; exact ⟨rfl, fun _ => rfl⟩
    | some t =>
      simp only [Option.toList, visitList_cons]
      cases hs : seen.contains t.name with
      | true => simp only [if_true]; exact ⟨rfl, fun _ => rfl⟩
      | false =>
        simp only [Bool.false_eq_true, if_false]
        have hlt := unseen_lt (owner_mem ho) hs
        obtain ⟨g', rfl⟩ : ∃ g', G = g' + 1 := ⟨G - 1, by omega⟩
        rw [findGrouping_bare reg linked name hb]
        have A := ih t (seen ++ [t.name]) g' (owner_mem ho) (by omega) (by omega)
        simp only [visitList, List.append_nil]
        exact A

/-- One level of the search: the (sub)module statement of `m` with everything below it. -/
theorem level (W d : Nat) (ih : Below reg linked name W d) (m : Mod) (seen : List String) (fuel : Nat)
    (hW : m.stmt.subs.length ≤ W) (hu : unseen reg seen ≤ d) (hfuel : (d + 1) * (W + 3) ≤ fuel) :
    Agree (fgScope reg linked fuel m [m.stmt] name seen) (visit reg linked (d + 1) m seen) name := by
  have hmul : (d + 1) * (W + 3) = d * (W + 3) + (W + 3) := Nat.succ_mul _ _
  obtain ⟨f, rfl⟩ : ∃ f, fuel = f + 1 := ⟨fuel - 1, by omega⟩
  rw [fgScope_cons]
  unfold visit
  simp only
  change Agree (match declares m.stmt name with | some g => _ | none => _) _ name
  cases hd : declares m.stmt name with
  | some g =>
    refine ⟨?_, fun h => by cases h⟩
    simp only [found_cons, hd]
  | none =>
    simp only
    rw [fgImports_bare reg linked name hb, orElse_none]
    have hbare : (!name.contains ':') = true := by rw [contains_colon, hb]; rfl
    simp only [hbare, Bool.and_true]
    -- the two halves of `next`
    have hnext : next reg linked m =
        (if isModuleStmt m.stmt && linked.contains m.seq then (m.stmt.all "include").filterMap (reg.findModule true) else []) ++
        (if isModuleStmt m.stmt && m.isSub then (m.belongsTo?.bind reg.getModule).toList else []) := by
      unfold next Mod.includes
      cases isModuleStmt m.stmt <;> cases linked.contains m.seq <;> cases m.isSub <;> simp
    rw [hnext, visitList_append]
    have hlen : (m.stmt.all "include").length ≤ W := Nat.le_trans (List.length_filter_le _ _) hW
    have A : Agree (fgIncludes reg linked f (if isModuleStmt m.stmt && linked.contains m.seq then m.stmt.all "include" else []) name seen)
        (visitList (visit reg linked d)
          (if isModuleStmt m.stmt && linked.contains m.seq then (m.stmt.all "include").filterMap (reg.findModule true) else []) seen) name := by
      cases (isModuleStmt m.stmt && linked.contains m.seq) with
      | false => simp only [Bool.false_eq_true, if_false]; rw [fgIncludes_nil]; exact ⟨rfl, fun _ => rfl⟩
      | true =>
        simp only [if_true]
        exact includes_agree reg linked name hb W d ih _ seen f hu (by omega)
    have hsub : seen ⊆ (visitList (visit reg linked d)
          (if isModuleStmt m.stmt && linked.contains m.seq then (m.stmt.all "include").filterMap (reg.findModule true) else []) seen).2 :=
      visitList_subset _ (visit_subset reg linked d) _ _
    generalize fgIncludes reg linked f (if isModuleStmt m.stmt && linked.contains m.seq then m.stmt.all "include" else []) name seen = r at A
    generalize visitList (visit reg linked d)
          (if isModuleStmt m.stmt && linked.contains m.seq then (m.stmt.all "include").filterMap (reg.findModule true) else []) seen = v1 at A hsub
    obtain ⟨r1, r2⟩ := r
    cases r1 with
    | some x =>
      simp only [orElse]
      refine ⟨?_, fun h => by cases h⟩
      simp only [found_cons, hd, found_append, ← A.1]
    | none =>
      simp only [orElse_none]
      have h2 : r2 = v1.2 := A.2 rfl
      subst h2
      have hu' : unseen reg v1.2 ≤ d := Nat.le_trans (unseen_mono hsub) hu
      have B := owner_agree reg linked name hb W d ih m v1.2 f hu' (by omega) (isModuleStmt m.stmt)
      generalize viaOwner reg linked f m (isModuleStmt m.stmt) name v1.2 = r at B
      generalize visitList (visit reg linked d)
        (if isModuleStmt m.stmt && m.isSub then (m.belongsTo?.bind reg.getModule).toList else []) v1.2 = v2 at B
      obtain ⟨r1, r2⟩ := r
      cases r1 with
      | some x =>
        simp only [orElse]
        refine ⟨?_, fun h => by cases h⟩
        simp only [found_cons, hd, found_append, ← A.1, ← B.1]
      | none =>
        simp only [orElse_none, fgScope_nil]
        have h2 : r2 = v2.2 := B.2 rfl
        subst h2
        refine ⟨?_, fun _ => rfl⟩
        simp only [found_cons, hd, found_append, ← A.1, ← B.1]


/-- The search at the (sub)module statement of `m` agrees with the search order from `m`, for every
depth bound `d` that covers the unmarked loaded modules and fuel from `(d + 1) * (W + 3)` on. -/
theorem agree_all (W : Nat) (hWm : ∀ t ∈ reg.mods, t.stmt.subs.length ≤ W) :
    ∀ (d : Nat) (m : Mod) (seen : List String) (fuel : Nat), m.stmt.subs.length ≤ W → unseen reg seen ≤ d →
      (d + 1) * (W + 3) ≤ fuel →
      Agree (fgScope reg linked fuel m [m.stmt] name seen) (visit reg linked (d + 1) m seen) name
  | 0, m, seen, fuel, hW, hu, hf =>
    level reg linked name hb W 0 (fun t seen' fuel' _ h _ => by omega) m seen fuel hW hu hf
  | d + 1, m, seen, fuel, hW, hu, hf =>
    level reg linked name hb W (d + 1)
      (fun t seen' fuel' ht h hf' => agree_all W hWm d t seen' fuel' (hWm t ht) (by omega) hf')
      m seen fuel hW hu hf

/-- Binding at the top level of the whole module of `m`. -/
theorem fgScope_top (W : Nat) (hWm : ∀ t ∈ reg.mods, t.stmt.subs.length ≤ W) (m : Mod) (hW : m.stmt.subs.length ≤ W)
    (fuel : Nat) (hf : (reg.mods.length + 1) * (W + 3) ≤ fuel) :
    (fgScope reg linked fuel m [m.stmt] name []).1 = bindTop reg linked m name :=
  (agree_all reg linked name hb W hWm reg.mods.length m [] fuel hW (unseen_nil_le reg) hf).1

end bare


/-! ### the enclosing statements -/

/-- The walk through the enclosing statements that are not (sub)module statements: only their
own groupings are looked at, the marks stay as they are. -/
theorem walk_inner (reg : Registry) (linked : List Nat) (root : Mod) (nm : String) (seen : List String) :
    ∀ (inner : List Stmt) (fuel : Nat), (∀ n ∈ inner, isModuleStmt n = false) →
      fgScope reg linked (inner.length + fuel) root (inner ++ [root.stmt]) nm seen =
        match bindLexical root inner nm with
        | some r => (some r, seen)
        | none => fgScope reg linked fuel root [root.stmt] nm seen
  | [], fuel, _ => by simp [bindLexical]
  | n :: up, fuel, h => by
    have hn : isModuleStmt n = false := h n (List.mem_cons_self ..)
    have e : (n :: up).length + fuel = (up.length + fuel) + 1 := by simp only [List.length_cons]; omega
    rw [e, List.cons_append, fgScope_cons]
    unfold bindLexical
    change (match declares n nm with | some g => _ | none => _) = _
    cases hd : declares n nm with
    | some g => rfl
    | none =>
      simp only [hn, Bool.false_and, Bool.false_eq_true, if_false, fgImports_nil, fgIncludes_nil, orElse_none]
      have hv : viaOwner reg linked (up.length + fuel) root false nm seen = (none, seen) := by
        simp [viaOwner]
      rw [hv, orElse_none]
      exact walk_inner reg linked root nm seen up fuel (fun x hx => h x (List.mem_cons_of_mem _ hx))


/-! ### fuel -/

/-- Greatest number of substatements of a statement of the list. -/
def maxSubs : List Stmt → Nat
  | [] => 0
  | s :: l => max s.subs.length (maxSubs l)

theorem le_maxSubs {l : List Stmt} {s : Stmt} (h : s ∈ l) : s.subs.length ≤ maxSubs l := by
  induction l with
  | nil => cases h
  | cons a l ih =>
    unfold maxSubs
    rcases List.mem_cons.1 h with rfl | h
    · exact Nat.le_max_left _ _
    · exact Nat.le_trans (ih h) (Nat.le_max_right _ _)

/-- The greatest number of substatements of the using (sub)module statement and of any loaded
(sub)module statement. -/
def width (reg : Registry) (root : Mod) : Nat := maxSubs (root.stmt :: reg.mods.map (·.stmt))

/-- Fuel that is enough for `findGrouping` started below `inner` in `root`: one unit per enclosing
statement, and per loaded (sub)module (each is entered at most once along a call path) its import
and include lists plus three. -/
def bindFuel (reg : Registry) (root : Mod) (inner : List Stmt) : Nat :=
  inner.length + 1 + (reg.mods.length + 2) * (width reg root + 3)

theorem width_mods (reg : Registry) (root : Mod) : ∀ t ∈ reg.mods, t.stmt.subs.length ≤ width reg root :=
  fun _ ht => le_maxSubs (List.mem_cons_of_mem _ (List.mem_map_of_mem ht))

theorem width_root (reg : Registry) (root : Mod) : root.stmt.subs.length ≤ width reg root :=
  le_maxSubs (List.mem_cons_self ..)

/-- **Binding of an unprefixed (or own-prefixed) name.** -/
theorem findGrouping_local (reg : Registry) (linked : List Nat) (root : Mod) (inner : List Stmt) (name : String)
    (fuel : Nat) (hinner : ∀ n ∈ inner, isModuleStmt n = false) (hb : isBare (localName root name) = true)
    (hf : bindFuel reg root inner ≤ fuel) :
    (findGrouping reg linked fuel root (inner ++ [root.stmt]) name []).1 = bindGrouping reg linked root inner name := by
  unfold bindFuel at hf
  have hmul : (reg.mods.length + 2) * (width reg root + 3) =
      (reg.mods.length + 1) * (width reg root + 3) + (width reg root + 3) := Nat.succ_mul _ _
  obtain ⟨F, rfl⟩ : ∃ F, fuel = inner.length + F + 1 := ⟨fuel - inner.length - 1, by omega⟩
  rw [findGrouping.eq_2, trimLocalPrefix_eq, walk_inner reg linked root _ [] inner F hinner]
  unfold bindGrouping
  simp only [hb, if_true]
  cases bindLexical root inner (localName root name) with
  | some r => rfl
  | none =>
    exact fgScope_top reg linked _ hb (width reg root) (width_mods reg root) root (width_root reg root) F (by omega)


/-! ### a foreign prefix -/

/-- The import statement `i` is the one the reference `nm` is written with. -/
def importMatches (nm : String) (i : Stmt) : Bool :=
  carries ((i.argOf? "prefix").getD "") nm && isBare (afterPrefix ((i.argOf? "prefix").getD "") nm)

theorem importHit_eq (reg : Registry) (linked : List Nat) (fuel : Nat) (i : Stmt) (nm : String) (seen : List String) :
    importHit reg linked fuel i nm seen =
      if importMatches nm i then
        match reg.findModule false i with
        | some im => findGrouping reg linked fuel im [im.stmt] (afterPrefix ((i.argOf? "prefix").getD "") nm) seen
        | none => (none, seen)
      else (none, seen) := by
  unfold importHit importMatches
  simp only [carries_iff, afterPrefix_eq, contains_colon, Bool.not_not]

theorem fgImports_inert (reg : Registry) (linked : List Nat) (nm : String) : ∀ (fuel : Nat) (l : List Stmt) (seen : List String),
    (∀ i ∈ l, importMatches nm i = false) → fgImports reg linked fuel l nm seen = (none, seen)
  | 0, _, _, _ => by simp [fgImports]
  | fuel + 1, [], seen, _ => fgImports_nil ..
  | fuel + 1, i :: rest, seen, h => by
    rw [fgImports_cons, importHit_eq, h i (List.mem_cons_self ..)]
    simp only [Bool.false_eq_true, if_false, orElse_none]
    exact fgImports_inert reg linked nm fuel rest seen (fun x hx => h x (List.mem_cons_of_mem _ hx))

/-- The import loop when at most one import statement carries the reference's prefix. -/
theorem imports_agree (reg : Registry) (linked : List Nat) (nm : String) (F0 : Nat) (S : Stmt → Option GroupingRef)
    (seen : List String)
    (hS : ∀ i g, importMatches nm i = true → F0 ≤ g → (importHit reg linked g i nm seen).1 = S i) :
    ∀ (l : List Stmt) (G : Nat), l.length + 1 + F0 ≤ G → (l.filter (importMatches nm)).length ≤ 1 →
      (fgImports reg linked G l nm seen).1 = l.findSome? fun i => if importMatches nm i then S i else none
  | [], G, _, _ => by rw [fgImports_nil]; rfl
  | i :: rest, G, hG, hu => by
    obtain ⟨g, rfl⟩ : ∃ g, G = g + 1 := ⟨G - 1, by simp at hG; omega⟩
    simp only [List.length_cons] at hG
    rw [fgImports_cons, List.findSome?_cons]
    cases hm : importMatches nm i with
    | false =>
      rw [importHit_eq, hm]
      simp only [Bool.false_eq_true, if_false, orElse_none]
      refine imports_agree reg linked nm F0 S seen hS rest g (by omega) ?_
      simpa [List.filter_cons, hm] using hu
    | true =>
      simp only [if_true]
      have hrest : ∀ x ∈ rest, importMatches nm x = false := by
        intro x hx
        cases hx' : importMatches nm x with
        | false => rfl
        | true =>
          have : x ∈ rest.filter (importMatches nm) := List.mem_filter.2 ⟨hx, hx'⟩
          have hpos := List.length_pos_of_mem this
          rw [List.filter_cons_of_pos hm, List.length_cons] at hu
          omega
      have hhit := hS i g hm (by omega)
      generalize importHit reg linked g i nm seen = r at hhit
      obtain ⟨r1, r2⟩ := r
      cases r1 with
      | some x => simp only [orElse]; simp only at hhit; rw [← hhit]
      | none =>
        simp only [orElse_none, fgImports_inert reg linked nm g rest r2 hrest]
        simp only at hhit
        rw [← hhit]
        symm
        rw [List.findSome?_eq_none_iff]
        intro x hx
        simp [hrest x hx]

theorem bindLexical_none (root : Mod) (nm : String) : ∀ (inner : List Stmt), (∀ n ∈ inner, declares n nm = none) →
    bindLexical root inner nm = none
  | [], _ => rfl
  | n :: up, h => by
    unfold bindLexical
    rw [h n (List.mem_cons_self ..)]
    exact bindLexical_none root nm up (fun x hx => h x (List.mem_cons_of_mem _ hx))

/-- **Binding of a name with a foreign prefix**, when no enclosing statement declares a grouping
whose name is literally the prefixed text and at most one import statement of the (sub)module
carries the prefix. -/
theorem findGrouping_foreign (reg : Registry) (linked : List Nat) (root : Mod) (inner : List Stmt) (name : String)
    (fuel : Nat) (hinner : ∀ n ∈ inner, isModuleStmt n = false) (hb : isBare (localName root name) = false)
    (hdecl : ∀ n ∈ inner ++ [root.stmt], declares n (localName root name) = none)
    (huniq : (importsFor root (localName root name)).length ≤ 1)
    (hf : bindFuel reg root inner ≤ fuel) :
    (findGrouping reg linked fuel root (inner ++ [root.stmt]) name []).1 = bindGrouping reg linked root inner name := by
  unfold bindFuel at hf
  have hmul : (reg.mods.length + 2) * (width reg root + 3) =
      (reg.mods.length + 1) * (width reg root + 3) + (width reg root + 3) := Nat.succ_mul _ _
  obtain ⟨F, rfl⟩ : ∃ F, fuel = inner.length + (F + 1) + 1 := ⟨fuel - inner.length - 2, by omega⟩
  rw [findGrouping.eq_2, trimLocalPrefix_eq, walk_inner reg linked root _ [] inner (F + 1) hinner,
    bindLexical_none root _ inner (fun n hn => hdecl n (List.mem_append_left _ hn))]
  simp only
  unfold bindGrouping
  simp only [hb, Bool.false_eq_true, if_false]
  generalize localName root name = nm at hb hdecl huniq
  rw [fgScope_cons]
  have hd : List.find? (fun x => x.arg == nm) (root.stmt.all "grouping") = none := hdecl root.stmt (by simp)
  simp only [hd]
  have hnb : (!nm.contains ':') = false := by rw [contains_colon, hb]; rfl
  simp only [hnb, Bool.and_false, Bool.false_eq_true, if_false, fgIncludes_nil]
  have hv : ∀ s, viaOwner reg linked F root false nm s = (none, s) := by intro s; simp [viaOwner]
  -- what the one matching import statement yields
  have hS : ∀ i g, importMatches nm i = true → (reg.mods.length + 1) * (width reg root + 3) + 1 ≤ g →
      (importHit reg linked g i nm []).1 =
        (reg.findModule false i).bind fun x => bindTop reg linked x (afterPrefix ((i.argOf? "prefix").getD "") nm) := by
    intro i g hm hg
    rw [importHit_eq, hm]
    simp only [if_true]
    cases hx : reg.findModule false i with
    | none => rfl
    | some x =>
      obtain ⟨g', rfl⟩ : ∃ g', g = g' + 1 := ⟨g - 1, by omega⟩
      have hrb : isBare (afterPrefix ((i.argOf? "prefix").getD "") nm) = true := by
        unfold importMatches at hm
        simp only [Bool.and_eq_true] at hm
        exact hm.2
      simp only [Option.bind_some]
      rw [findGrouping_bare reg linked _ hrb]
      exact fgScope_top reg linked _ hrb (width reg root) (width_mods reg root) x
        (width_mods reg root x (findModule_mem hx)) g' (by omega)
  have hlen : (root.stmt.all "import").length ≤ width reg root :=
    Nat.le_trans (List.length_filter_le _ _) (width_root reg root)
  have key : (fgImports reg linked F (if isModuleStmt root.stmt && linked.contains root.seq then root.stmt.all "import" else []) nm []).1 =
      if isModuleStmt root.stmt && linked.contains root.seq then
        root.imports.findSome? fun i =>
          if importMatches nm i then
            (reg.findModule false i).bind fun x => bindTop reg linked x (afterPrefix ((i.argOf? "prefix").getD "") nm)
          else none
      else none := by
    cases (isModuleStmt root.stmt && linked.contains root.seq) with
    | false => simp only [Bool.false_eq_true, if_false]; rw [fgImports_nil]
    | true =>
      simp only [if_true]
      exact imports_agree reg linked nm _ _ [] hS _ F (by omega) huniq
  generalize fgImports reg linked F (if isModuleStmt root.stmt && linked.contains root.seq then root.stmt.all "import" else []) nm [] = r at key
  obtain ⟨r1, r2⟩ := r
  simp only at key
  subst key
  unfold importMatches
  split
  · next h =>
    generalize List.findSome? _ root.imports = o
    cases o with
    | some x => rfl
    | none => simp only [orElse_none, hv, fgScope_nil]
  · next h => simp only [orElse_none, hv, fgScope_nil]

/-! ### reading the binding: where the grouping was found -/

theorem declares_spec {s : Stmt} {name : String} {g : Stmt} (h : declares s name = some g) :
    g.kw = "grouping" ∧ g ∈ s.subs ∧ g.arg = name := by
  unfold declares at h
  have hm := List.mem_of_find?_eq_some h
  have ha := List.find?_some h
  unfold Stmt.all at hm
  rw [List.mem_filter] at hm
  exact ⟨by simpa using hm.2, hm.1, by simpa using ha⟩

theorem found_some {ms : List Mod} {name : String} {r : GroupingRef} (h : found ms name = some r) :
    ∃ s ∈ ms, declares s.stmt name = some r.1 ∧ r.2.1 = s ∧ r.2.2 = [s.stmt] := by
  unfold found at h
  obtain ⟨s, hs, hf⟩ := List.exists_of_findSome?_eq_some h
  cases hd : declares s.stmt name with
  | none => simp [hd] at hf
  | some g =>
    simp only [hd, Option.map_some, Option.some.injEq] at hf
    subst hf
    exact ⟨s, hs, hd, rfl, rfl⟩

theorem bindLexical_some (root : Mod) (nm : String) : ∀ (inner : List Stmt) (r : GroupingRef),
    bindLexical root inner nm = some r →
    ∃ pre n up, inner = pre ++ n :: up ∧ declares n nm = some r.1 ∧ r.2.1 = root ∧ r.2.2 = n :: up ++ [root.stmt] ∧
      ∀ x ∈ pre, declares x nm = none
  | [], r, h => by simp [bindLexical] at h
  | n :: up, r, h => by
    unfold bindLexical at h
    cases hd : declares n nm with
    | some g =>
      simp only [hd, Option.some.injEq] at h
      subst h
      exact ⟨[], n, up, rfl, hd, rfl, rfl, by simp⟩
    | none =>
      simp only [hd] at h
      obtain ⟨pre, n', up', h1, h2, h3, h4, h5⟩ := bindLexical_some root nm up r h
      refine ⟨n :: pre, n', up', by rw [h1]; rfl, h2, h3, h4, ?_⟩
      intro x hx
      rcases List.mem_cons.1 hx with rfl | hx
      · exact hd
      · exact h5 x hx

/-! ### reading the search order: only the files of the whole module occur in it -/

theorem reach_trans {reg : Registry} {linked : List Nat} {a b c : Mod} (h1 : Reach reg linked a b) (h2 : Reach reg linked b c) :
    Reach reg linked a c := by
  induction h2 with
  | refl => exact h1
  | tail _ hs ih => exact Reach.tail ih hs

theorem next_step {reg : Registry} {linked : List Nat} {m t : Mod} (h : t ∈ next reg linked m) : Spec.Uses.Step reg linked m t := by
  unfold next at h
  cases hm : isModuleStmt m.stmt with
  | false => simp [hm] at h
  | true =>
    simp only [hm, if_true, List.mem_append] at h
    rcases h with h | h
    · cases hl : linked.contains m.seq with
      | false =>
        rw [hl] at h
        simp at h
      | true =>
        simp only [hl, if_true, List.mem_filterMap] at h
        obtain ⟨i, hi, hf⟩ := h
        exact Spec.Uses.Step.incl hm hl hi hf
    · cases hs : m.isSub with
      | false => simp [hs] at h
      | true =>
        simp only [hs, if_true, Option.mem_toList] at h
        exact Spec.Uses.Step.owner hm hs h

theorem visitList_reach {reg : Registry} {linked : List Nat} (V : Mod → List String → List Mod × List String) (m : Mod)
    (hV : ∀ t s x, Spec.Uses.Step reg linked m t → x ∈ (V t s).1 → Reach reg linked m x) :
    ∀ (ts : List Mod) (seen : List String), (∀ t ∈ ts, Spec.Uses.Step reg linked m t) →
      ∀ x ∈ (visitList V ts seen).1, Reach reg linked m x
  | [], seen, _, x, hx => by simp [visitList] at hx
  | t :: ts, seen, hts, x, hx => by
    rw [visitList_cons] at hx
    split at hx
    · exact visitList_reach V m hV ts seen (fun y hy => hts y (List.mem_cons_of_mem _ hy)) x hx
    · simp only [List.mem_append] at hx
      rcases hx with hx | hx
      · exact hV t _ x (hts t (List.mem_cons_self ..)) hx
      · exact visitList_reach V m hV ts _ (fun y hy => hts y (List.mem_cons_of_mem _ hy)) x hx

/-- Every (sub)module in the search order from `m` is reached from `m` through include statements
and belongs-to statements. -/
theorem visit_reach (reg : Registry) (linked : List Nat) : ∀ (d : Nat) (m : Mod) (seen : List String),
    ∀ x ∈ (visit reg linked d m seen).1, Reach reg linked m x
  | 0, m, seen, x, hx => by
    simp [visit] at hx
    subst hx
    exact Reach.refl _
  | d + 1, m, seen, x, hx => by
    unfold visit at hx
    simp only [List.mem_cons] at hx
    rcases hx with rfl | hx
    · exact Reach.refl _
    · refine visitList_reach (visit reg linked d) m ?_ _ seen (fun t ht => next_step ht) x hx
      intro t s y hst hy
      exact reach_trans (Reach.tail (Reach.refl m) hst) (visit_reach reg linked d t s y hy)

/-! ### later uses -/

/-- A grouping that has been converted before yields its cached entry, whatever the scope and the
in-progress set of the later caller; the state is unchanged. -/
theorem toEntry_grouping_cached (env : Env) (fuel : Nat) (groot : Mod) (gscope : List Stmt) (g : Stmt)
    (visiting : List NodeId) (st : TState) (k : NodeId) (e : Entry) (hkw : g.kw = "grouping")
    (h : st.gcache.find? (·.1 == nodeId groot g) = some (k, e)) :
    toEntry env (fuel + 1) groot gscope g visiting st = (e, st) := by
  rw [toEntry]
  simp only [hkw, String.reduceBEq, Bool.or_self, Bool.false_eq_true, if_false, if_true, h]

/-! ### `merge` keeps the receiver's name -/

theorem name_withDir (e : Entry) (c : List Entry) : (e.withDir c).name = e.name := by cases e; rfl
theorem name_addErr (e : Entry) (x : Err) : (e.addErr x).name = e.name := by cases e; rfl
theorem name_addErrs (e : Entry) (xs : List Err) : (e.addErrs xs).name = e.name := by cases e; rfl

theorem foldl_name {α : Type} (f : Entry → α → Entry) (hf : ∀ e a, (f e a).name = e.name) (l : List α) (e : Entry) :
    (l.foldl f e).name = e.name := by
  induction l generalizing e with
  | nil => rfl
  | cons a l ih => simp only [List.foldl_cons]; rw [ih, hf]

theorem merge_name (e : Entry) (ns : Option String) (oe : Entry) : (e.merge ns oe).name = e.name := by
  unfold Entry.merge
  simp only
  rw [foldl_name]
  · exact name_addErrs _ _
  · intro e a
    split
    · exact name_addErr _ _
    · exact name_withDir _ _

/-! ### one step of the `uses` arm of `toEntry` -/

/-- The body of the fold over `n.all "uses"` in the directory case of `toEntry`: convert the `uses`
statement `u` (which converts the grouping it denotes), merge the result without namespace. -/
def usesStep (env : Env) (fuel : Nat) (root : Mod) (sub : List Stmt) (visiting : List NodeId)
    (acc : Entry × TState) (u : Stmt) : Entry × TState :=
  let (ge, st) := toEntry env fuel root sub u visiting acc.2
  (acc.1.merge none ge, st)

theorem merge_none_free (e oe : Entry) (hfresh : ∀ v ∈ oe.dir, v.name ∉ names e) (hnodup : (oe.dir.map (·.name)).Nodup) :
    e.merge none oe = (e.addErrs (importedErrors oe)).withDir (e.dir ++ oe.dir) := by
  rw [merge_none_eq, mergeLoop_free _ _ _ (by intro v hv; unfold names; rw [dir_addErrs]; exact hfresh v hv) hnodup,
    dir_addErrs]

/-! ### the `uses` step is the first field step of `toEntry` -/

/-- The children of `b` are those of `a` followed by more. -/
def DirGrows (a b : Entry) : Prop := ∃ tail, b.dir = a.dir ++ tail

theorem DirGrows.refl (a : Entry) : DirGrows a a := ⟨[], by simp⟩
theorem DirGrows.trans {a b c : Entry} (h1 : DirGrows a b) (h2 : DirGrows b c) : DirGrows a c := by
  obtain ⟨t1, h1⟩ := h1
  obtain ⟨t2, h2⟩ := h2
  exact ⟨t1 ++ t2, by rw [h2, h1, List.append_assoc]⟩
theorem DirGrows.of_eq {a b : Entry} (h : b.dir = a.dir) : DirGrows a b := ⟨[], by simp [h]⟩

theorem dir_withD (e : Entry) (f : EData → EData) : (e.withD f).dir = e.dir := by cases e; rfl
theorem dir_addErr (e : Entry) (x : Err) : (e.addErr x).dir = e.dir := by cases e; rfl

theorem add_grows (e : Entry) (k : String) (v : Entry) : DirGrows e (e.add k v) := by
  unfold Entry.add
  split
  · exact DirGrows.of_eq (dir_addErr _ _)
  · exact ⟨[v], by rw [dir_withDir]⟩

theorem importErrors_grows (e c : Entry) : DirGrows e (e.importErrors c) :=
  DirGrows.of_eq (by unfold Entry.importErrors; exact dir_addErrs _ _)

theorem foldl_grows {α : Type} (f : Entry × TState → α → Entry × TState) (hf : ∀ acc a, DirGrows acc.1 (f acc a).1)
    (l : List α) (acc : Entry × TState) : DirGrows acc.1 (l.foldl f acc).1 := by
  induction l generalizing acc with
  | nil => exact DirGrows.refl _
  | cons a l ih => exact (hf acc a).trans (ih (f acc a))

/-- The entry a directory-like statement other than `list` and `choice` starts from. -/
def dir0 (root : Mod) (n : Stmt) : Entry :=
  .mk { name := n.arg, kind := kindOfKw n.kw, hasDir := true, node := n, nodeMod := root.seq, nodeKw := n.kw } [] [] []

/-- Peel the field steps of `toEntry` that follow the `uses` step: each only appends children. -/
macro "peel_dir" : tactic => `(tactic|
  repeat' first
    | exact DirGrows.refl _
    | refine DirGrows.trans ?_ (foldl_grows _ (fun acc a => add_grows _ _ _) _ _)
    | refine DirGrows.trans ?_ (foldl_grows _ (fun acc a => importErrors_grows _ _) _ _)
    | refine DirGrows.trans ?_ (DirGrows.of_eq (dir_addErrs _ _))
    | refine DirGrows.trans ?_ (DirGrows.of_eq (dir_withD _ _))
    | split)

/-- **The `uses` step comes first.**  The children of the entry `toEntry` builds for a `container`
statement are those the fold of `usesStep` over its `uses` substatements produces from the empty
entry, followed by whatever the other substatements add. -/
theorem toEntry_container_uses_first (env : Env) (fuel : Nat) (root : Mod) (scope : List Stmt) (n : Stmt)
    (visiting : List NodeId) (st : TState) (hkw : n.kw = "container") :
    DirGrows ((n.all "uses").foldl (usesStep env fuel root (n :: scope) visiting) (dir0 root n, st)).1
      (toEntry env (fuel + 1) root scope n visiting st).1 := by
  rw [toEntry]
  simp only [hkw, String.reduceBEq, Bool.or_self, Bool.false_eq_true, ↓reduceIte, Bool.false_and, fieldOrder,
    List.foldl_cons, List.foldl_nil]
  unfold usesStep dir0
  simp only [hkw]
  peel_dir

theorem toEntry_case_uses_first (env : Env) (fuel : Nat) (root : Mod) (scope : List Stmt) (n : Stmt)
    (visiting : List NodeId) (st : TState) (hkw : n.kw = "case") :
    DirGrows ((n.all "uses").foldl (usesStep env fuel root (n :: scope) visiting) (dir0 root n, st)).1
      (toEntry env (fuel + 1) root scope n visiting st).1 := by
  rw [toEntry]
  simp only [hkw, String.reduceBEq, Bool.or_self, Bool.false_eq_true, ↓reduceIte, Bool.false_and, fieldOrder,
    List.foldl_cons, List.foldl_nil]
  unfold usesStep dir0
  simp only [hkw]
  peel_dir

theorem toEntry_input_uses_first (env : Env) (fuel : Nat) (root : Mod) (scope : List Stmt) (n : Stmt)
    (visiting : List NodeId) (st : TState) (hkw : n.kw = "input") :
    DirGrows ((n.all "uses").foldl (usesStep env fuel root (n :: scope) visiting) (dir0 root n, st)).1
      (toEntry env (fuel + 1) root scope n visiting st).1 := by
  rw [toEntry]
  simp only [hkw, String.reduceBEq, Bool.or_self, Bool.false_eq_true, ↓reduceIte, Bool.false_and, fieldOrder,
    List.foldl_cons, List.foldl_nil]
  unfold usesStep dir0
  simp only [hkw]
  peel_dir

theorem toEntry_output_uses_first (env : Env) (fuel : Nat) (root : Mod) (scope : List Stmt) (n : Stmt)
    (visiting : List NodeId) (st : TState) (hkw : n.kw = "output") :
    DirGrows ((n.all "uses").foldl (usesStep env fuel root (n :: scope) visiting) (dir0 root n, st)).1
      (toEntry env (fuel + 1) root scope n visiting st).1 := by
  rw [toEntry]
  simp only [hkw, String.reduceBEq, Bool.or_self, Bool.false_eq_true, ↓reduceIte, Bool.false_and, fieldOrder,
    List.foldl_cons, List.foldl_nil]
  unfold usesStep dir0
  simp only [hkw]
  peel_dir

theorem toEntry_notification_uses_first (env : Env) (fuel : Nat) (root : Mod) (scope : List Stmt) (n : Stmt)
    (visiting : List NodeId) (st : TState) (hkw : n.kw = "notification") :
    DirGrows ((n.all "uses").foldl (usesStep env fuel root (n :: scope) visiting) (dir0 root n, st)).1
      (toEntry env (fuel + 1) root scope n visiting st).1 := by
  rw [toEntry]
  simp only [hkw, String.reduceBEq, Bool.or_self, Bool.false_eq_true, ↓reduceIte, Bool.false_and, fieldOrder,
    List.foldl_cons, List.foldl_nil]
  unfold usesStep dir0
  simp only [hkw]
  peel_dir

/-- The entry a `list` statement starts from. -/
def list0 (root : Mod) (n : Stmt) : Entry :=
  .mk { name := n.arg, kind := kindOfKw n.kw, hasDir := true, node := n, nodeMod := root.seq, nodeKw := n.kw,
        listAttr := some (listAttrOf n).1, errors := (listAttrOf n).2 } [] [] []

theorem toEntry_list_uses_first (env : Env) (fuel : Nat) (root : Mod) (scope : List Stmt) (n : Stmt)
    (visiting : List NodeId) (st : TState) (hkw : n.kw = "list") :
    DirGrows ((n.all "uses").foldl (usesStep env fuel root (n :: scope) visiting) (list0 root n, st)).1
      (toEntry env (fuel + 1) root scope n visiting st).1 := by
  rw [toEntry]
  simp only [hkw, String.reduceBEq, Bool.or_self, Bool.false_eq_true, ↓reduceIte, Bool.false_and, fieldOrder,
    List.foldl_cons, List.foldl_nil]
  unfold usesStep list0
  simp only [hkw]
  peel_dir

end Goyang.Lemmas.Uses
