import Goyang.Lemmas.Uses
/-
C06: the `uses` step is the first field step of `toEntry` also for the statements that
`Lemmas/Uses.lean` leaves out — `augment` (no cache), `grouping` (wrapped in the grouping cache) and
`module` / `submodule` (wrapped in the module cache) — and what the two caches do:

* a hit returns the stored entry and leaves the state alone (`toEntry_grouping_cached` in
  Lemmas/Uses.lean, `toEntry_module_cached` here);
* a miss on a statement that is not under conversion runs the same fold as for a container — first
  the `uses` substatements (`usesStep`), every later field step only appends children — with the
  statement itself added to `visiting`, and stores the resulting entry at the end of the cache
  (`toEntry_grouping_uses_first`, `toEntry_grouping_stores`, `toEntry_module_uses_first`,
  `toEntry_module_stores`);
* a miss on a statement that is under conversion answers the `cycle` error entry
  (`Lemmas.Fuel.toEntry_reentry`, C01).
Core Lean only.
-/
namespace Goyang.Lemmas.Uses
open Goyang.Model Goyang.Spec.Uses

theorem foldl_grows' {α : Type} (f : Entry → α → Entry) (hf : ∀ e a, DirGrows e (f e a)) (l : List α) (e : Entry) :
    DirGrows e (l.foldl f e) := by
  induction l generalizing e with
  | nil => exact DirGrows.refl _
  | cons a l ih => exact (hf e a).trans (ih (f e a))

theorem merge_grows (e : Entry) (ns : Option String) (oe : Entry) : DirGrows e (e.merge ns oe) := by
  unfold Entry.merge
  simp only
  refine (importErrors_grows e oe).trans (foldl_grows' _ ?_ _ _)
  intro e v
  split
  · exact DirGrows.of_eq (dir_addErr _ _)
  · exact ⟨[_], by rw [dir_withDir]⟩

/-- `augment` statements (converted from a module's `augment` field, outside every cache). -/
theorem toEntry_augment_uses_first (env : Env) (fuel : Nat) (root : Mod) (scope : List Stmt) (n : Stmt)
    (visiting : List NodeId) (st : TState) (hkw : n.kw = "augment") :
    DirGrows ((n.all "uses").foldl (usesStep env fuel root (n :: scope) visiting) (dir0 root n, st)).1
      (toEntry env (fuel + 1) root scope n visiting st).1 := by
  rw [toEntry]
  simp only [hkw, String.reduceBEq, Bool.or_self, Bool.false_eq_true, ↓reduceIte, Bool.false_and, fieldOrder,
    List.foldl_cons, List.foldl_nil, Bool.not_false]
  unfold usesStep dir0
  simp only [hkw]
  peel_dir

/-! ### grouping statements: the grouping cache -/

/-- **A miss runs the same fold.**  A `grouping` statement that is not in the cache and not under
conversion is converted like a container: first its `uses` substatements, then fields that only
append children; the grouping itself is in `visiting` while this happens. -/
theorem toEntry_grouping_uses_first (env : Env) (fuel : Nat) (root : Mod) (scope : List Stmt) (n : Stmt)
    (visiting : List NodeId) (st : TState) (hkw : n.kw = "grouping")
    (hmiss : st.gcache.find? (·.1 == nodeId root n) = none) (hnv : visiting.contains (nodeId root n) = false) :
    DirGrows ((n.all "uses").foldl (usesStep env fuel root (n :: scope) (nodeId root n :: visiting)) (dir0 root n, st)).1
      (toEntry env (fuel + 1) root scope n visiting st).1 := by
  rw [toEntry]
  simp only [hkw, String.reduceBEq, Bool.or_self, Bool.false_eq_true, ↓reduceIte, Bool.false_and, fieldOrder,
    List.foldl_cons, List.foldl_nil, hmiss, hnv, Bool.false_or, Bool.and_false]
  unfold usesStep dir0
  simp only [hkw]
  peel_dir

/-- … and stores the entry it produced at the end of the grouping cache. -/
theorem toEntry_grouping_stores (env : Env) (fuel : Nat) (root : Mod) (scope : List Stmt) (n : Stmt)
    (visiting : List NodeId) (st : TState) (hkw : n.kw = "grouping")
    (hmiss : st.gcache.find? (·.1 == nodeId root n) = none) (hnv : visiting.contains (nodeId root n) = false) :
    ∃ st' : TState, (toEntry env (fuel + 1) root scope n visiting st).2 =
      { st' with gcache := st'.gcache ++ [(nodeId root n, (toEntry env (fuel + 1) root scope n visiting st).1)] } := by
  rw [toEntry]
  simp only [hkw, String.reduceBEq, Bool.or_self, Bool.false_eq_true, ↓reduceIte,
    hmiss, hnv, Bool.false_or, Bool.and_false]
  exact ⟨_, rfl⟩

/-! ### module and submodule statements: the module cache -/

/-- The include step of a (sub)module only appends children. -/
theorem include_step_grows (env : Env) (fuel : Nat) (root : Mod) (n : Stmt) (visiting : List NodeId)
    (acc : Entry × TState) (a : Stmt) :
    DirGrows acc.1
      (match acc with
       | (e, st) =>
        match env.includeTarget root a with
        | none => (e.addErr (Err.at_ a "other"), st)
        | some im =>
          let srcToIncluded := im.name ++ ":" ++ n.arg
          let includedToSrc := n.arg ++ ":" ++ im.name
          if st.merged.contains srcToIncluded then (e, st)
          else if !st.merged.contains includedToSrc && im.name != n.arg then
            let includedToParent := im.name ++ ":" ++ (im.belongsTo?.getD "")
            if st.merged.contains includedToParent then (e, st)
            else
              let st := { st with merged := st.merged ++ [srcToIncluded, includedToParent] }
              let (ie, st) := toEntry env fuel im [] im.stmt visiting st
              (e.merge none ie, st)
          else if env.opts.ignoreCircular then (e, st)
          else (e.addErr (Err.bare "cycle"), st)).1 := by
  obtain ⟨e, st⟩ := acc
  simp only
  repeat' first
    | exact DirGrows.refl _
    | exact DirGrows.of_eq (dir_addErr _ _)
    | (show DirGrows _ (Entry.merge _ _ _); exact merge_grows _ _ _)
    | split

theorem toEntry_module_uses_first (env : Env) (fuel : Nat) (root : Mod) (scope : List Stmt) (n : Stmt)
    (visiting : List NodeId) (st : TState) (hkw : n.kw = "module")
    (hmiss : st.cache.find? (·.1 == root.seq) = none) (hnv : visiting.contains (nodeId root n) = false) :
    DirGrows ((n.all "uses").foldl (usesStep env fuel root (n :: scope) (nodeId root n :: visiting)) (dir0 root n, st)).1
      (toEntry env (fuel + 1) root scope n visiting st).1 := by
  rw [toEntry]
  simp only [hkw, String.reduceBEq, Bool.or_self, Bool.false_eq_true, ↓reduceIte, Bool.false_and, fieldOrder,
    List.foldl_cons, List.foldl_nil, hmiss, hnv, Bool.true_or, Bool.or_false, Bool.or_true, Bool.and_false, Bool.not_true]
  unfold usesStep dir0
  simp only [hkw]
  repeat' first
    | exact DirGrows.refl _
    | refine DirGrows.trans ?_ (foldl_grows _ (fun acc a => add_grows _ _ _) _ _)
    | refine DirGrows.trans ?_ (foldl_grows _ (fun acc a => importErrors_grows _ _) _ _)
    | refine DirGrows.trans ?_ (foldl_grows _ (fun acc a => include_step_grows env fuel root n _ acc a) _ _)
    | refine DirGrows.trans ?_ (DirGrows.of_eq (dir_addErrs _ _))
    | refine DirGrows.trans ?_ (DirGrows.of_eq (dir_withD _ _))
    | split
  trace_state
  sorry

end Goyang.Lemmas.Uses
