import Goyang.Lemmas.Uses
import Goyang.Lemmas.Fuel
/-
C06: the `uses` step is the first field step of `toEntry` also for the statements that
`Lemmas/Uses.lean` leaves out — `augment` (no cache), `grouping` (wrapped in the grouping cache) and
`module` / `submodule` (wrapped in the module cache) — and what the two caches do:

* a hit returns the stored entry and leaves the state alone (`toEntry_grouping_cached` in
  Lemmas/Uses.lean, `toEntry_module_cached` here);
* a miss on a statement that is not under conversion runs the same fold as for a container — first
  the `uses` substatements (`usesStep`), every later field step only appends children — with the
  statement itself added to `visiting`, and stores the resulting entry at the end of the cache
  (`toEntry_grouping_uses_first`, `toEntry_grouping_stores`, `toEntry_module_uses_first`,
  `toEntry_module_stores`);
* a miss on a statement that is under conversion answers the `cycle` error entry
  (`Lemmas.Fuel.toEntry_reentry`, C01).
Core Lean only.
-/
set_option linter.unusedSimpArgs false
namespace Goyang.Lemmas.Uses
open Goyang.Model Goyang.Spec.Uses

theorem foldl_grows' {α : Type} (f : Entry → α → Entry) (hf : ∀ e a, DirGrows e (f e a)) (l : List α) (e : Entry) :
    DirGrows e (l.foldl f e) := by
  induction l generalizing e with
  | nil => exact DirGrows.refl _
  | cons a l ih => exact (hf e a).trans (ih (f e a))

theorem merge_grows (e : Entry) (ns : Option String) (oe : Entry) : DirGrows e (e.merge ns oe) := by
  unfold Entry.merge
  simp only
  refine (importErrors_grows e oe).trans (foldl_grows' _ ?_ _ _)
  intro e v
  split
  · exact DirGrows.of_eq (dir_addErr _ _)
  · exact ⟨[_], by rw [dir_withDir]⟩

/-- `augment` statements (converted from a module's `augment` field, outside every cache). -/
theorem toEntry_augment_uses_first (env : Env) (fuel : Nat) (root : Mod) (scope : List Stmt) (n : Stmt)
    (visiting : List NodeId) (st : TState) (hkw : n.kw = "augment") :
    DirGrows ((n.all "uses").foldl (usesStep env fuel root (n :: scope) visiting) (dir0 root n, st)).1
      (toEntry env (fuel + 1) root scope n visiting st).1 := by
  rw [toEntry]
  simp only [hkw, String.reduceBEq, Bool.or_self, Bool.false_eq_true, ↓reduceIte, Bool.false_and, fieldOrder,
    List.foldl_cons, List.foldl_nil, Bool.not_false]
  unfold usesStep dir0
  simp only [hkw]
  peel_dir

/-! ### grouping statements: the grouping cache -/

/-- **A miss runs the same fold.**  A `grouping` statement that is not in the cache and not under
conversion is converted like a container: first its `uses` substatements, then fields that only
append children; the grouping itself is in `visiting` while this happens. -/
theorem toEntry_grouping_uses_first (env : Env) (fuel : Nat) (root : Mod) (scope : List Stmt) (n : Stmt)
    (visiting : List NodeId) (st : TState) (hkw : n.kw = "grouping")
    (hmiss : st.gcache.find? (·.1 == nodeId root n) = none) (hnv : visiting.contains (nodeId root n) = false) :
    DirGrows ((n.all "uses").foldl (usesStep env fuel root (n :: scope) (nodeId root n :: visiting)) (dir0 root n, st)).1
      (toEntry env (fuel + 1) root scope n visiting st).1 := by
  rw [toEntry]
  simp only [hkw, String.reduceBEq, Bool.or_self, Bool.false_eq_true, ↓reduceIte, Bool.false_and, fieldOrder,
    List.foldl_cons, List.foldl_nil, hmiss, hnv, Bool.false_or, Bool.and_false]
  unfold usesStep dir0
  simp only [hkw]
  peel_dir

/-- … and stores the entry it produced at the end of the grouping cache. -/
theorem toEntry_grouping_stores (env : Env) (fuel : Nat) (root : Mod) (scope : List Stmt) (n : Stmt)
    (visiting : List NodeId) (st : TState) (hkw : n.kw = "grouping")
    (hmiss : st.gcache.find? (·.1 == nodeId root n) = none) (hnv : visiting.contains (nodeId root n) = false) :
    ∃ st' : TState, (toEntry env (fuel + 1) root scope n visiting st).2 =
      { st' with gcache := st'.gcache ++ [(nodeId root n, (toEntry env (fuel + 1) root scope n visiting st).1)] } := by
  rw [toEntry]
  simp only [hkw, String.reduceBEq, Bool.or_self, Bool.false_eq_true, ↓reduceIte,
    hmiss, hnv, Bool.false_or, Bool.and_false]
  exact ⟨_, rfl⟩

/-! ### module and submodule statements: the module cache -/

open Goyang.Lemmas.Fuel (stepB toEntryBody skeleton toEntry_succ)

/-- Every field step of the directory case only appends children (the `uses` step included). -/
theorem stepB_grows (env : Env) (rec : Goyang.Lemmas.Fuel.Rec) (root : Mod) (n : Stmt) (sub : List Stmt)
    (vis : List NodeId) (isMod : Bool) (acc : Entry × TState) (f : String) :
    DirGrows acc.1 (stepB env rec root n sub vis isMod acc f).1 := by
  obtain ⟨e, st⟩ := acc
  unfold stepB
  dsimp only
  split
  all_goals
    repeat' first
      | exact DirGrows.refl _
      | exact foldl_grows _ (fun acc a => add_grows _ _ _) _ _
      | exact foldl_grows _ (fun acc a => importErrors_grows _ _) _ _
      | refine foldl_grows _ (fun acc a => ?_) _ _
      | exact DirGrows.of_eq (dir_addErr _ _)
      | exact DirGrows.of_eq (dir_withD _ _)
      | exact merge_grows _ _ _
      | exact importErrors_grows _ _
      | refine DirGrows.trans ?_ (DirGrows.of_eq (dir_addErr _ _))
      | refine DirGrows.trans ?_ (DirGrows.of_eq (dir_addErrs _ _))
      | refine DirGrows.trans ?_ (DirGrows.of_eq (dir_withD _ _))
      | split
      | (dsimp only; done)
      | (dsimp only; exact merge_grows _ _ _)
      | (dsimp only; exact importErrors_grows _ _)
      | (dsimp only; refine DirGrows.trans ?_ (DirGrows.of_eq (dir_addErr _ _)))

/-- The first field step, `uses`, is the fold of `usesStep`. -/
theorem stepB_uses (env : Env) (fuel : Nat) (root : Mod) (n : Stmt) (sub : List Stmt) (vis : List NodeId) (isMod : Bool)
    (acc : Entry × TState) :
    stepB env (toEntry env fuel) root n sub vis isMod acc "uses" = (n.all "uses").foldl (usesStep env fuel root sub vis) acc := by
  obtain ⟨e, st⟩ := acc
  rfl

/-- **A hit returns the stored entry**: a (sub)module statement whose module is in the cache is not
converted again; the state stays as it is. -/
theorem toEntry_module_cached (env : Env) (fuel : Nat) (root : Mod) (scope : List Stmt) (n : Stmt)
    (visiting : List NodeId) (st : TState) (k : Nat) (e : Entry) (hkw : n.kw = "module" ∨ n.kw = "submodule")
    (h : st.cache.find? (·.1 == root.seq) = some (k, e)) :
    toEntry env (fuel + 1) root scope n visiting st = (e, st) := by
  rw [toEntry]
  rcases hkw with hkw | hkw <;>
    simp only [hkw, String.reduceBEq, Bool.or_self, Bool.true_or, Bool.or_true, Bool.false_eq_true, if_false, if_true, h]

/-- **A miss runs the same fold.**  A (sub)module statement whose module is not in the cache and
not under conversion is converted like a container: first its `uses` substatements (`usesStep`),
then fields that only append children (the children of included submodules among them); the
statement is in `visiting` while this happens. -/
theorem toEntry_module_uses_first (env : Env) (fuel : Nat) (root : Mod) (scope : List Stmt) (n : Stmt)
    (visiting : List NodeId) (st : TState) (hkw : n.kw = "module" ∨ n.kw = "submodule")
    (hmiss : st.cache.find? (·.1 == root.seq) = none) (hnv : visiting.contains (nodeId root n) = false) :
    DirGrows ((n.all "uses").foldl (usesStep env fuel root (n :: scope) (nodeId root n :: visiting)) (dir0 root n, st)).1
      (toEntry env (fuel + 1) root scope n visiting st).1 := by
  rw [toEntry_succ]
  unfold toEntryBody skeleton
  rcases hkw with hkw | hkw
  all_goals
    simp only [hkw, String.reduceBEq, Bool.or_self, Bool.true_or, Bool.or_true, Bool.false_eq_true, if_false, if_true,
      hmiss, hnv, Bool.and_false, Bool.or_false, fieldOrder, Goyang.Lemmas.Fuel.visiting', Goyang.Lemmas.Fuel.isTracked]
    rw [List.foldl_cons, stepB_uses]
    refine DirGrows.trans ?_ (foldl_grows _ (fun acc f => stepB_grows env _ root n _ _ _ acc f) _ _)
    unfold dir0
    simp only [hkw]
    exact DirGrows.of_eq rfl

/-- … and stores the entry it produced at the end of the module cache. -/
theorem toEntry_module_stores (env : Env) (fuel : Nat) (root : Mod) (scope : List Stmt) (n : Stmt)
    (visiting : List NodeId) (st : TState) (hkw : n.kw = "module" ∨ n.kw = "submodule")
    (hmiss : st.cache.find? (·.1 == root.seq) = none) (hnv : visiting.contains (nodeId root n) = false) :
    ∃ st' : TState, (toEntry env (fuel + 1) root scope n visiting st).2 =
      { st' with cache := st'.cache ++ [(root.seq, (toEntry env (fuel + 1) root scope n visiting st).1)] } := by
  rw [toEntry_succ]
  unfold toEntryBody skeleton
  rcases hkw with hkw | hkw
  all_goals
    simp only [hkw, String.reduceBEq, Bool.or_self, Bool.true_or, Bool.or_true, Bool.false_eq_true, if_false, if_true,
      hmiss, hnv, Bool.and_false, Bool.or_false]
    exact ⟨_, rfl⟩

end Goyang.Lemmas.Uses
