import Goyang.Lemmas.UsesCache
/-
C06: how the conversion state moves through `toEntry` — what is needed to say that a later hit of
the grouping cache returns *the entry converted earlier*.

* `toEntry_state`: a reflexive, transitive relation on conversion states that holds across every
  elementary state change of `toEntry` (a mark of the include bookkeeping, the pending augments, an
  entry appended to the module cache, an entry appended to the grouping cache under a key that is
  not under conversion) holds between the state a call starts from and the state it returns.
* `gcache_extends`: the grouping cache only grows at its end; a binding once made stays the first
  binding of its key (`gcache_binding_stays`).
* `gcache_no_key_in_progress`: no call adds a binding for a grouping that is under conversion.
* `toEntry_grouping_fills`: the first conversion of a grouping (a miss) returns the entry `e` and a
  state in which the grouping is bound to `e`.
Core Lean only.
-/
set_option linter.unusedSimpArgs false
namespace Goyang.Lemmas.Uses
open Goyang.Model Goyang.Spec.Uses
open Goyang.Lemmas.Fuel (stepB toEntryBody skeleton toEntry_succ Rec visiting' isTracked)

theorem foldl_state {α β : Type} (R : TState → TState → Prop) (hrefl : ∀ s, R s s)
    (htrans : ∀ a b c, R a b → R b c → R a c) (f : β × TState → α → β × TState)
    (hf : ∀ acc a, R acc.2 (f acc a).2) (l : List α) (acc : β × TState) : R acc.2 (l.foldl f acc).2 := by
  induction l generalizing acc with
  | nil => exact hrefl _
  | cons a l ih => exact htrans _ _ _ (hf acc a) (ih (f acc a))

theorem foldl_state' {α β : Type} (R : TState → TState → Prop) (hrefl : ∀ s, R s s)
    (htrans : ∀ a b c, R a b → R b c → R a c) (f : β × TState → α → β × TState)
    (hf : ∀ acc a, R acc.2 (f acc a).2) (l : List α) (e : β) (st : TState) : R st (l.foldl f (e, st)).2 :=
  foldl_state R hrefl htrans f hf l (e, st)

/-- Every field step of the directory case moves the state along `R`. -/
theorem stepB_state (R : TState → TState → Prop) (hrefl : ∀ s, R s s) (htrans : ∀ a b c, R a b → R b c → R a c)
    (hmerged : ∀ (s : TState) (m : List String), R s { s with merged := m })
    (haugs : ∀ (s : TState) (a : List (Nat × List Entry)), R s { s with augs := a })
    (env : Env) (rec : Rec) (root : Mod) (n : Stmt) (sub : List Stmt) (vis : List NodeId) (isMod : Bool)
    (hrec : ∀ root' scope' n' st', R st' (rec root' scope' n' vis st').2)
    (acc : Entry × TState) (f : String) : R acc.2 (stepB env rec root n sub vis isMod acc f).2 := by
  obtain ⟨e, st⟩ := acc
  unfold stepB
  dsimp only
  split
  all_goals
    repeat' first
      | exact hrefl _
      | exact hrec _ _ _ _
      | refine foldl_state' R hrefl htrans _ (fun acc a => ?_) _ _ _
      | exact htrans _ _ _ (hmerged _ _) (hrec _ _ _ _)
      | exact htrans _ _ _ (foldl_state' R hrefl htrans _ (fun acc a => hrec _ _ _ _) _ _ _) (haugs _ _)
      | split
      | (dsimp only; done)
      | (dsimp only; exact hrefl _)
      | (dsimp only; exact hrec _ _ _ _)
      | (dsimp only; exact htrans _ _ _ (hmerged _ _) (hrec _ _ _ _))
  -- the augment field of a (sub)module: the fold over the augment statements, then the pending list
  have hfold := foldl_state' R hrefl htrans
    (fun (acc : List Entry × TState) a => (acc.fst ++ [(rec root sub a vis acc.snd).fst], (rec root sub a vis acc.snd).snd))
    (fun acc a => hrec _ _ _ _) (n.all "augment") [] st
  exact htrans _ _ _ hfold (haugs _ _)

/-- **The state moves along `R` through every call of `toEntry`**, for a relation `R` kept by the
elementary state changes; `G visiting` is what is assumed of the statements under conversion (kept
when one more is added), and an entry may be appended to the grouping cache under a key that is
not under conversion. -/
theorem toEntry_state (R : TState → TState → Prop) (hrefl : ∀ s, R s s) (htrans : ∀ a b c, R a b → R b c → R a c)
    (hmerged : ∀ (s : TState) (m : List String), R s { s with merged := m })
    (haugs : ∀ (s : TState) (a : List (Nat × List Entry)), R s { s with augs := a })
    (hcache : ∀ (s : TState) (x : Nat × Entry), R s { s with cache := s.cache ++ [x] })
    (G : List NodeId → Prop) (hG : ∀ vis x, G vis → G (x :: vis))
    (hgc : ∀ (vis : List NodeId) (s : TState) (k : NodeId) (e : Entry), G vis → vis.contains k = false →
      R s { s with gcache := s.gcache ++ [(k, e)] })
    (env : Env) : ∀ (fuel : Nat) (root : Mod) (scope : List Stmt) (n : Stmt) (vis : List NodeId) (st : TState),
      G vis → R st (toEntry env fuel root scope n vis st).2
  | 0, _, _, _, _, _, _ => hrefl _
  | fuel + 1, root, scope, n, vis, st, hvis => by
    have ih := toEntry_state R hrefl htrans hmerged haugs hcache G hG hgc env fuel
    have hvis' : G (visiting' root n vis) := by
      unfold visiting'
      split
      · exact hG _ _ hvis
      · exact hvis
    rw [toEntry_succ]
    unfold toEntryBody skeleton
    dsimp only
    split
    · exact hrefl _
    split
    · exact hrefl _
    split
    · exact hrefl _
    rename_i hcyc
    split
    · exact hrefl _
    split
    · exact hrefl _
    split
    · -- uses
      split
      · exact hrefl _
      · exact ih _ _ _ _ _ hvis'
    -- directory node
    have hfold : ∀ (isMod : Bool) (e0 : Entry), R st ((fieldOrder n.kw).foldl
        (stepB env (toEntry env fuel) root n (n :: scope) (visiting' root n vis) isMod) (e0, st)).2 := fun isMod e0 =>
      foldl_state' R hrefl htrans _
        (fun acc f => stepB_state R hrefl htrans hmerged haugs env _ root n _ _ isMod
          (fun root' scope' n' st' => ih root' scope' n' _ st' hvis') acc f) _ _ _
    split
    · exact htrans _ _ _ (hfold _ _) (hcache _ _)
    split
    · rename_i hg
      have hnc : vis.contains (nodeId root n) = false := by
        cases hc : vis.contains (nodeId root n) with
        | false => rfl
        | true => exact absurd (by rw [hg, hc]; simp) hcyc
      exact htrans _ _ _ (hfold _ _) (hgc vis _ _ _ hvis hnc)
    · exact hfold _ _

/-! ### the grouping cache -/

/-- **The grouping cache only grows at its end**, through every call of `toEntry`. -/
theorem gcache_extends (env : Env) (fuel : Nat) (root : Mod) (scope : List Stmt) (n : Stmt) (vis : List NodeId) (st : TState) :
    ∃ ext, (toEntry env fuel root scope n vis st).2.gcache = st.gcache ++ ext :=
  toEntry_state (fun s s' => ∃ ext, s'.gcache = s.gcache ++ ext) (fun _ => ⟨[], by simp⟩)
    (fun a b c ⟨e1, h1⟩ ⟨e2, h2⟩ => ⟨e1 ++ e2, by rw [h2, h1, List.append_assoc]⟩)
    (fun _ _ => ⟨[], by simp⟩) (fun _ _ => ⟨[], by simp⟩) (fun _ _ => ⟨[], by simp⟩)
    (fun _ => True) (fun _ _ _ => trivial) (fun _ _ k e _ _ => ⟨[(k, e)], rfl⟩) env fuel root scope n vis st trivial

/-- **A binding of the grouping cache stays**: whatever is converted later, the key keeps the entry
it was first bound to. -/
theorem gcache_binding_stays (env : Env) (fuel : Nat) (root : Mod) (scope : List Stmt) (n : Stmt) (vis : List NodeId)
    (st : TState) (k : NodeId) (x : NodeId × Entry) (h : st.gcache.find? (·.1 == k) = some x) :
    (toEntry env fuel root scope n vis st).2.gcache.find? (·.1 == k) = some x := by
  obtain ⟨ext, he⟩ := gcache_extends env fuel root scope n vis st
  rw [he, List.find?_append, h]
  rfl

/-- The key `k` stays unbound from `s` to `s'`. -/
def KeepsFree (k : NodeId) (s s' : TState) : Prop :=
  s.gcache.find? (·.1 == k) = none → s'.gcache.find? (·.1 == k) = none

theorem KeepsFree.refl (k : NodeId) (s : TState) : KeepsFree k s s := fun h => h
theorem KeepsFree.trans (k : NodeId) (a b c : TState) (h1 : KeepsFree k a b) (h2 : KeepsFree k b c) : KeepsFree k a c :=
  fun h => h2 (h1 h)

/-- **No call binds a grouping that is under conversion.** -/
theorem gcache_no_key_in_progress (env : Env) (k : NodeId) (fuel : Nat) (root : Mod) (scope : List Stmt) (n : Stmt)
    (vis : List NodeId) (st : TState) (hk : k ∈ vis) : KeepsFree k st (toEntry env fuel root scope n vis st).2 :=
  toEntry_state (KeepsFree k) (KeepsFree.refl k) (KeepsFree.trans k) (fun _ _ h => h) (fun _ _ h => h) (fun _ _ h => h)
    (fun vis => k ∈ vis) (fun _ _ h => List.mem_cons_of_mem _ h)
    (fun vis s k' e hkv hc h => by
      have hne : (k' == k) = false := by
        cases hb : k' == k with
        | false => rfl
        | true =>
          have : k' = k := by simpa using hb
          subst this
          have : vis.contains k' = true := by simpa using hkv
          rw [this] at hc; cases hc
      show (s.gcache ++ [(k', e)]).find? (·.1 == k) = none
      rw [List.find?_append, h]
      simp [hne])
    env fuel root scope n vis st hk

/-- **The first conversion fills the cache with what it returns.**  A `grouping` statement that is
not in the cache and not under conversion: after its conversion the cache binds it to exactly the
entry the conversion returned. -/
theorem toEntry_grouping_fills (env : Env) (fuel : Nat) (root : Mod) (scope : List Stmt) (n : Stmt)
    (visiting : List NodeId) (st : TState) (hkw : n.kw = "grouping")
    (hmiss : st.gcache.find? (·.1 == nodeId root n) = none) (hnv : visiting.contains (nodeId root n) = false) :
    (toEntry env (fuel + 1) root scope n visiting st).2.gcache.find? (·.1 == nodeId root n) =
      some (nodeId root n, (toEntry env (fuel + 1) root scope n visiting st).1) := by
  have hfold : ∀ (e0 : Entry), ((fieldOrder n.kw).foldl
      (stepB env (toEntry env fuel) root n (n :: scope) (nodeId root n :: visiting) false) (e0, st)).2.gcache.find?
        (·.1 == nodeId root n) = none := fun e0 =>
    foldl_state' (KeepsFree (nodeId root n)) (KeepsFree.refl _) (KeepsFree.trans _) _
      (fun acc f => stepB_state (KeepsFree (nodeId root n)) (KeepsFree.refl _) (KeepsFree.trans _)
        (fun _ _ h => h) (fun _ _ h => h) env _ root n _ _ false
        (fun root' scope' n' st' => gcache_no_key_in_progress env (nodeId root n) fuel root' scope' n' _ st'
          (List.mem_cons_self ..)) acc f) _ _ _ hmiss
  rw [toEntry_succ]
  unfold toEntryBody skeleton
  simp only [hkw, String.reduceBEq, Bool.or_self, Bool.false_eq_true, if_false, if_true,
    hmiss, hnv, Bool.false_or, Bool.and_false, visiting', isTracked, Bool.or_true, Bool.true_or]
  rw [hkw] at hfold
  rw [List.find?_append, hfold]
  simp

/-- The module cache, likewise: a (sub)module statement that is not in the cache and not under
conversion is bound afterwards, and a binding of the module cache stays (`cache_extends`). -/
theorem cache_extends (env : Env) (fuel : Nat) (root : Mod) (scope : List Stmt) (n : Stmt) (vis : List NodeId) (st : TState) :
    ∃ ext, (toEntry env fuel root scope n vis st).2.cache = st.cache ++ ext :=
  toEntry_state (fun s s' => ∃ ext, s'.cache = s.cache ++ ext) (fun _ => ⟨[], by simp⟩)
    (fun a b c ⟨e1, h1⟩ ⟨e2, h2⟩ => ⟨e1 ++ e2, by rw [h2, h1, List.append_assoc]⟩)
    (fun _ _ => ⟨[], by simp⟩) (fun _ _ => ⟨[], by simp⟩) (fun s x => ⟨[x], rfl⟩)
    (fun _ => True) (fun _ _ _ => trivial) (fun _ _ k e _ _ => ⟨[], by simp⟩) env fuel root scope n vis st trivial

end Goyang.Lemmas.Uses
