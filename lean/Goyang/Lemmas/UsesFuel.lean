import Goyang.Lemmas.Uses
import Goyang.Lemmas.Fuel
/-
C06: the fuel side condition of `uses_scope` / `uses_is_copy` (`bindFuel … ≤ 2 * fuel + 16`: the
fuel `toEntry` hands to `findGrouping` reaches what the binding theorem asks) holds at every call of
`toEntry` that a top-level call of `processAll` leads to.

* `Reached env fuel root scope n visiting`: the calls of `toEntry` reachable from the top-level
  calls `processAll` makes (a loaded (sub)module statement, or one of its deviate statements, with
  `entryFuel reg`), through the call sites of the body (`Lemmas.Fuel.Callee`: a substatement, the
  grouping a `uses` resolves to — with whatever fuel the lookup had —, an included submodule).  It
  over-approximates the real call tree (`Lemmas.Fuel.body_congr`: the body calls itself only at
  these sites).
* `reached_good`: along such a path the remaining fuel stays at least `need + slack`, where `need`
  is C01's measure and `slack = entryFuel reg - entryNeed reg`; the scope is the chain of
  ancestors of the node up to the (sub)module statement.
* `bindFuel_le_slack` (arithmetic over the statement counts of the registry): `bindFuel` is at
  most `2 * slack + 18`.
* `reached_bindFuel`: hence `bindFuel env.reg root inner ≤ 2 * fuel + 16` at every reached `uses`.
Core Lean only.
-/
namespace Goyang.Lemmas.Uses
open Goyang.Model Goyang.Spec.Uses
open Goyang.Lemmas.Fuel (Inv need Callee callee_need need_pos entryNeed height isTracked free maxHeight tracked totalStmts
  findGrouping_sound Sub)

/-! ### counting statements -/

theorem len_le_countL : (l : List Stmt) → l.length ≤ stmtCount.countL l
  | [] => Nat.le_refl _
  | c :: cs => by
    have h1 : 1 ≤ stmtCount c := by cases c; simp only [stmtCount]; omega
    have h2 := len_le_countL cs
    simp only [List.length_cons, stmtCount.countL]; omega

theorem count_pos (x : Stmt) : 1 ≤ stmtCount x := by cases x; simp only [stmtCount]; omega

theorem subs_lt_count (x : Stmt) : x.subs.length + 1 ≤ stmtCount x := by
  cases x with
  | mk kw ha arg file line col subs =>
    have := len_le_countL subs
    simp only [stmtCount, Stmt.subs]; omega

theorem len_heightL_le : (l : List Stmt) → l.length + height.heightL l ≤ stmtCount.countL l + 1
  | [] => by simp [height.heightL, stmtCount.countL]
  | c :: cs => by
    have h1 := Goyang.Lemmas.Fuel.height_le_count c
    have h2 := len_le_countL cs
    have h3 := len_heightL_le cs
    have h4 := count_pos c
    simp only [List.length_cons, height.heightL, stmtCount.countL]; omega

theorem subs_height_le (x : Stmt) : x.subs.length + height x ≤ stmtCount x + 1 := by
  cases x with
  | mk kw ha arg file line col subs =>
    have := len_heightL_le subs
    simp only [stmtCount, height, Stmt.subs]; omega

theorem foldl_max_shift (l : List Mod) (a : Nat) :
    l.foldl (fun a m => max a (height m.stmt)) a = max a (l.foldl (fun a m => max a (height m.stmt)) 0) := by
  induction l generalizing a with
  | nil => simp
  | cons x xs ih =>
    simp only [List.foldl_cons]
    rw [ih (max a (height x.stmt)), ih (max 0 (height x.stmt))]; omega

/-- The counts of a list of loaded (sub)modules against each other. -/
theorem counts (l : List Mod) :
    let s := l.foldl (fun a m => a + stmtCount m.stmt) 0
    let H := l.foldl (fun a m => max a (height m.stmt)) 0
    let W := maxSubs (l.map (·.stmt))
    l.length ≤ s ∧ H ≤ s ∧ W + l.length ≤ s ∧ l.length + H ≤ s + 1 ∧ W + H ≤ s + 1 := by
  induction l with
  | nil => simp [maxSubs]
  | cons x xs ih =>
    simp only [List.foldl_cons, Nat.zero_add, List.map_cons, maxSubs, List.length_cons] at ih ⊢
    rw [Goyang.Lemmas.Fuel.foldl_sum_shift, foldl_max_shift]
    have h1 := count_pos x.stmt
    have h2 := subs_lt_count x.stmt
    have h3 := Goyang.Lemmas.Fuel.height_le_count x.stmt
    have h4 := subs_height_le x.stmt
    have h5 := Goyang.Lemmas.Fuel.height_pos x.stmt
    omega

/-! ### the arithmetic -/

theorem slack_arith (s T H M W I : Nat) (hT : T ≤ s) (hM1 : 1 ≤ M) (hB : M + H ≤ s + 1) (hD : W + H ≤ s + 1)
    (hI : I + 2 ≤ H) :
    I + 1 + (M + 2) * (W + 3) + 2 * ((T + 1) * (H + 2)) ≤ 2 * ((s + 2) * (s + 2) + 64) + 18 := by
  obtain ⟨a, ha⟩ : ∃ a, a + H = s + 1 := ⟨s + 1 - H, by omega⟩
  have h1 : (T + 1) * (H + 2) ≤ (s + 1) * (H + 2) := Nat.mul_le_mul_right _ (by omega)
  have h2 : (M + 2) * (W + 3) ≤ (a + 2) * (a + 3) := Nat.mul_le_mul (by omega) (by omega)
  have e1 : (s + 1) * (H + 2) = s * H + 2 * s + H + 2 := by
    rw [Nat.add_mul, Nat.mul_add, Nat.one_mul]; omega
  have e2 : (a + 2) * (a + 3) = a * a + 5 * a + 6 := by
    rw [Nat.add_mul, Nat.mul_add, Nat.mul_add]; omega
  have e3 : (s + 2) * (s + 2) = s * s + 4 * s + 4 := by
    rw [Nat.add_mul, Nat.mul_add, Nat.mul_add]; omega
  have e4 : s * H + s * a = s * s + s := by
    rw [← Nat.mul_add, show H + a = s + 1 by omega, Nat.mul_add, Nat.mul_one]
  have h3 : a * a ≤ s * a := Nat.mul_le_mul_right a (by omega)
  have h4 : s ≤ s * a := Nat.le_mul_of_pos_right s (by omega)
  by_cases h66 : 66 ≤ a
  · have h5 : s * 66 ≤ s * a := Nat.mul_le_mul_left s h66
    omega
  · omega

/-- **`bindFuel` against the slack of `entryFuel`.**  For a loaded (sub)module `root` and a scope
whose length is bounded by the statement height, `bindFuel` is at most twice the difference
between the fuel the model passes and C01's bound, plus 18. -/
theorem bindFuel_le_slack (reg : Registry) (root : Mod) (inner : List Stmt) (hroot : root ∈ reg.mods)
    (hI : inner.length + 2 ≤ maxHeight reg) :
    bindFuel reg root inner ≤ 2 * (entryFuel reg - entryNeed reg) + 18 := by
  have hc := counts reg.mods
  simp only at hc
  obtain ⟨c1, c2, c3, c4, c5⟩ := hc
  have hT := Goyang.Lemmas.Fuel.tracked_le_total reg
  have hle := Goyang.Lemmas.Fuel.entryNeed_le_entryFuel reg
  have hW : width reg root = maxSubs (reg.mods.map (·.stmt)) := by
    have hle : root.stmt.subs.length ≤ maxSubs (reg.mods.map (·.stmt)) :=
      le_maxSubs (List.mem_map_of_mem (f := (·.stmt)) hroot)
    show max root.stmt.subs.length (maxSubs (reg.mods.map (·.stmt))) = _
    exact Nat.max_eq_right hle
  have hM1 : 1 ≤ reg.mods.length := List.length_pos_of_mem hroot
  unfold bindFuel
  rw [hW]
  rw [Goyang.Lemmas.Fuel.entryFuel_eq] at hle ⊢
  unfold entryNeed at hle ⊢
  have := slack_arith (totalStmts reg) (tracked reg).length (maxHeight reg) reg.mods.length
    (maxSubs (reg.mods.map (·.stmt))) inner.length hT hM1 c4 c5 hI
  unfold totalStmts maxHeight at *
  omega

/-! ### the calls reached from `processAll`'s top-level calls -/

/-- `scope` is the chain of ancestors of `n`, nearest first. -/
def Chain : Stmt → List Stmt → Prop
  | _, [] => True
  | n, a :: up => n ∈ a.subs ∧ Chain a up

theorem chain_height : ∀ (inner : List Stmt) (n r : Stmt), Chain n (inner ++ [r]) → height n + inner.length + 1 ≤ height r
  | [], n, r, h => by
    have := Goyang.Lemmas.Fuel.height_child_lt h.1
    simp only [List.length_nil]; omega
  | a :: up, n, r, h => by
    have h1 := Goyang.Lemmas.Fuel.height_child_lt h.1
    have h2 := chain_height up a r h.2
    simp only [List.length_cons]; omega

theorem chain_suffix : ∀ (pre : List Stmt) (n a : Stmt) (up : List Stmt), Chain n (pre ++ a :: up) → Chain a up
  | [], _, _, _, h => h.2
  | _ :: pre, _, a, up, h => chain_suffix pre _ a up h.2

theorem suffix_shape {α : Type} (r : α) : ∀ (pre inner : List α) (a : α) (up : List α), pre ++ a :: up = inner ++ [r] →
    ∃ inner', a :: up = inner' ++ [r]
  | [], inner, a, up, h => ⟨inner, h⟩
  | b :: pre, [], a, up, h => by
    simp only [List.cons_append, List.nil_append, List.cons.injEq] at h
    have := congrArg List.length h.2
    simp at this
  | b :: pre, c :: inner, a, up, h => by
    simp only [List.cons_append, List.cons.injEq] at h
    exact suffix_shape r pre inner a up h.2

/-- The calls of `toEntry` reached from the top-level calls of `processAll`. -/
inductive Reached (env : Env) : Nat → Mod → List Stmt → Stmt → List NodeId → Prop
  | top {m : Mod} : m ∈ env.reg.mods → Reached env (entryFuel env.reg) m [] m.stmt []
  | deviate {m : Mod} {dv ds : Stmt} : m ∈ env.reg.mods → dv ∈ m.stmt.all "deviation" → ds ∈ dv.all "deviate" →
      Reached env (entryFuel env.reg) m [dv, m.stmt] ds []
  | call {fuel : Nat} {root : Mod} {scope : List Stmt} {n : Stmt} {vis : List NodeId}
      {root' : Mod} {scope' : List Stmt} {n' : Stmt} {vis' : List NodeId} :
      Reached env (fuel + 1) root scope n vis → ¬ (isTracked n && vis.contains (nodeId root n)) = true →
      Callee env root scope n vis root' scope' n' vis' → Reached env fuel root' scope' n' vis'

/-- What holds at every reached call. -/
structure Good (env : Env) (fuel : Nat) (root : Mod) (scope : List Stmt) (n : Stmt) (vis : List NodeId) : Prop where
  inv : Inv env root scope n
  fuel : need env.reg root n vis + (entryFuel env.reg - entryNeed env.reg) ≤ fuel
  shape : (scope = [] ∧ n = root.stmt) ∨ (∃ inner, scope = inner ++ [root.stmt] ∧ Chain n scope)

theorem reached_good (env : Env) {fuel : Nat} {root : Mod} {scope : List Stmt} {n : Stmt} {vis : List NodeId}
    (h : Reached env fuel root scope n vis) : Good env fuel root scope n vis := by
  induction h with
  | top hm =>
    refine ⟨Goyang.Lemmas.Fuel.Inv.top hm, ?_, Or.inl ⟨rfl, rfl⟩⟩
    have h1 := Goyang.Lemmas.Fuel.need_le_entryNeed (env := env) [] (Goyang.Lemmas.Fuel.Inv.top hm)
    have h2 := Goyang.Lemmas.Fuel.entryNeed_le_entryFuel env.reg
    omega
  | deviate hm hdv hds =>
    refine ⟨Goyang.Lemmas.Fuel.Inv.deviate hm hdv hds, ?_, Or.inr ⟨[_], rfl, ?_⟩⟩
    · have h1 := Goyang.Lemmas.Fuel.need_le_entryNeed (env := env) [] (Goyang.Lemmas.Fuel.Inv.deviate hm hdv hds)
      have h2 := Goyang.Lemmas.Fuel.entryNeed_le_entryFuel env.reg
      omega
    · exact ⟨Goyang.Lemmas.Fuel.mem_all_subs hds, Goyang.Lemmas.Fuel.mem_all_subs hdv, trivial⟩
  | call hr hc hcal ih =>
    rename_i fuel root scope n vis root' scope' n' vis'
    obtain ⟨inv, hfuel, hshape⟩ := ih
    have hpos := need_pos vis inv
    have hcn := callee_need (fuel := fuel - (entryFuel env.reg - entryNeed env.reg)) inv (by omega) hc hcal
    refine ⟨hcn.1, by have := hcn.2; omega, ?_⟩
    cases hcal with
    | child hcm =>
      right
      rcases hshape with ⟨hs, hn⟩ | ⟨inner, hs, hch⟩
      · subst hs; subst hn
        exact ⟨[], rfl, hcm, trivial⟩
      · exact ⟨n :: inner, by rw [hs]; rfl, hcm, hch⟩
    | uses hfg =>
      right
      obtain ⟨_, ⟨n0, up, hgs, hgm⟩, hloc⟩ := findGrouping_sound hfg
      rcases hloc with ⟨hroot, pre, hpre⟩ | ⟨_, hgs'⟩
      · subst hroot
        rcases hshape with ⟨hs, _⟩ | ⟨inner, hs, hch⟩
        · rw [hs, hgs] at hpre
          have := congrArg List.length hpre
          simp at this
        · rw [hgs] at hpre ⊢
          obtain ⟨inner', hi'⟩ := suffix_shape root'.stmt pre inner n0 up (by rw [← hpre, hs])
          refine ⟨inner', hi', hgm, ?_⟩
          rw [hpre] at hch
          exact chain_suffix pre n n0 up hch
      · refine ⟨[], by rw [hgs']; rfl, ?_⟩
        rw [hgs'] at hgs ⊢
        cases hgs
        exact ⟨hgm, trivial⟩
    | include_ _ _ => exact Or.inl ⟨rfl, rfl⟩

/-- **The fuel side condition holds at every reached `uses`.**  At a call of `toEntry` on a
statement that is not a grouping or (sub)module statement (a `uses` statement in particular),
reached from a top-level call of `processAll`, the fuel `2 * fuel + 16` handed to `findGrouping`
is at least `bindFuel`. -/
theorem reached_bindFuel (env : Env) {fuel : Nat} {root : Mod} {inner : List Stmt} {u : Stmt} {vis : List NodeId}
    (h : Reached env (fuel + 1) root (inner ++ [root.stmt]) u vis) (hu : isTracked u = false) :
    bindFuel env.reg root inner ≤ 2 * fuel + 16 := by
  obtain ⟨inv, hfuel, hshape⟩ := reached_good env h
  have hch : Chain u (inner ++ [root.stmt]) := by
    rcases hshape with ⟨hs, _⟩ | ⟨_, _, hch⟩
    · have := congrArg List.length hs
      simp at this
    · exact hch
  have hh := chain_height inner u root.stmt hch
  have hH := Goyang.Lemmas.Fuel.height_le_maxHeight inv.root_mem
  have hup := Goyang.Lemmas.Fuel.height_pos u
  have hb := bindFuel_le_slack env.reg root inner inv.root_mem (by omega)
  have hneed : 2 ≤ need env.reg root u vis := by
    unfold need
    rw [if_neg (by rw [hu]; exact Bool.false_ne_true)]
    omega
  omega

/-- The same without naming the predecessor of the fuel: a reached call has fuel left. -/
theorem reached_bindFuel' (env : Env) {fuel : Nat} {root : Mod} {inner : List Stmt} {u : Stmt} {vis : List NodeId}
    (h : Reached env fuel root (inner ++ [root.stmt]) u vis) (hu : isTracked u = false) :
    1 ≤ fuel ∧ bindFuel env.reg root inner ≤ 2 * (fuel - 1) + 16 := by
  have hg := reached_good env h
  have hpos := need_pos vis hg.inv
  have h1 : 1 ≤ fuel := by have := hg.fuel; omega
  obtain ⟨k, rfl⟩ : ∃ k, fuel = k + 1 := ⟨fuel - 1, by omega⟩
  exact ⟨h1, reached_bindFuel env h hu⟩

/-- A substatement of a reached statement that is not being re-entered is reached, with one unit
of fuel less. -/
theorem Reached.child' {env : Env} {fuel : Nat} {root : Mod} {scope : List Stmt} {n c : Stmt} {vis : List NodeId}
    (h : Reached env fuel root scope n vis) (hc : ¬ (isTracked n && vis.contains (nodeId root n)) = true)
    (hcm : c ∈ n.subs) : Reached env (fuel - 1) root (n :: scope) c (Goyang.Lemmas.Fuel.visiting' root n vis) := by
  have hg := reached_good env h
  have hpos := need_pos vis hg.inv
  obtain ⟨k, rfl⟩ : ∃ k, fuel = k + 1 := ⟨fuel - 1, by have := hg.fuel; omega⟩
  exact Reached.call h hc (Callee.child hcm)

end Goyang.Lemmas.Uses
