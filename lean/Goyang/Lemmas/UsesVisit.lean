import Goyang.Lemmas.Uses
/-
C06, completeness of the search order of `Spec.Uses` (the depth-first walk with a marked set of
names): every (sub)module reached from the start through include / belongs-to statements occurs in
`searchOrder` — provided the reached (sub)modules have pairwise different names (the marks are
names: RFC 7950 5.1 requires module and submodule names to be unique; goyang keeps modules and
submodules in two tables and loads a module and a submodule of one name without complaint, and its
`FindGrouping` marks by name like the specification does).  `Lemmas.Uses.visit_reach` is the other
direction.

The proof is the usual one for a depth-first search with marks: when a call returns, every
successor of every (sub)module it listed is marked (`Closed`), every new mark is the name of a
listed (sub)module, and the depth bound is never hit because every step down marks the name of a
loaded (sub)module that was not marked before (`unseen` decreases).
Core Lean only.
-/
namespace Goyang.Lemmas.Uses
open Goyang.Model Goyang.Spec.Uses

/-! ### `next` is exactly `Step` -/

theorem step_next {reg : Registry} {linked : List Nat} {m t : Mod} (h : Spec.Uses.Step reg linked m t) :
    t ∈ next reg linked m := by
  unfold next
  cases h with
  | incl hm hl hi hf =>
    rw [if_pos hm, if_pos hl]
    exact List.mem_append_left _ (List.mem_filterMap.2 ⟨_, hi, hf⟩)
  | owner hm hs ho =>
    rw [if_pos hm, if_pos hs]
    exact List.mem_append_right _ (by rw [ho]; simp)

theorem step_iff_next {reg : Registry} {linked : List Nat} {m t : Mod} :
    Spec.Uses.Step reg linked m t ↔ t ∈ next reg linked m := ⟨step_next, next_step⟩

/-- What a step leads to is a loaded (sub)module. -/
theorem step_mem {reg : Registry} {linked : List Nat} {m t : Mod} (h : Spec.Uses.Step reg linked m t) : t ∈ reg.mods := by
  cases h with
  | incl _ _ _ hf => exact findModule_mem hf
  | owner _ _ ho => exact owner_mem ho

/-! ### what a returning call guarantees -/

/-- The result `r` of a walk started with the marks `s`: the marks only grow, every new mark is the
name of a listed (sub)module, and every successor of a listed (sub)module is marked. -/
structure Closed (reg : Registry) (linked : List Nat) (s : List String) (r : List Mod × List String) : Prop where
  mono : s ⊆ r.2
  marks : ∀ n ∈ r.2, n ∈ s ∨ ∃ y ∈ r.1, y.name = n
  succ : ∀ y ∈ r.1, ∀ t, Spec.Uses.Step reg linked y t → t.name ∈ r.2

/-- The loop over the successors: given that every visit of a loaded, unmarked (sub)module with at
most `d` unmarked names before it returns `Closed` and lists the (sub)module itself, the loop returns
`Closed` and every element of the list is marked afterwards. -/
theorem visitList_closed (reg : Registry) (linked : List Nat) (V : Mod → List String → List Mod × List String) (d : Nat)
    (hV : ∀ t ∈ reg.mods, ∀ s, s.contains t.name = false → unseen reg s ≤ d →
      Closed reg linked (s ++ [t.name]) (V t (s ++ [t.name])) ∧ t ∈ (V t (s ++ [t.name])).1) :
    ∀ (ts : List Mod) (seen : List String), (∀ t ∈ ts, t ∈ reg.mods) → unseen reg seen ≤ d →
      Closed reg linked seen (visitList V ts seen) ∧ ∀ t ∈ ts, t.name ∈ (visitList V ts seen).2
  | [], seen, _, _ => by
    refine ⟨⟨?_, ?_, ?_⟩, ?_⟩
    · simp [visitList]
    · intro n hn; exact Or.inl (by simpa [visitList] using hn)
    · intro y hy; simp [visitList] at hy
    · intro t ht; cases ht
  | t :: ts, seen, hts, hu => by
    have htm : t ∈ reg.mods := hts t (List.mem_cons_self ..)
    have hts' : ∀ x ∈ ts, x ∈ reg.mods := fun x hx => hts x (List.mem_cons_of_mem _ hx)
    rw [visitList_cons]
    cases hs : seen.contains t.name with
    | true =>
      simp only [if_true]
      obtain ⟨hc, hm⟩ := visitList_closed reg linked V d hV ts seen hts' hu
      refine ⟨hc, ?_⟩
      intro x hx
      rcases List.mem_cons.1 hx with rfl | hx
      · exact hc.mono (by simpa using hs)
      · exact hm x hx
    | false =>
      simp only [Bool.false_eq_true, if_false]
      obtain ⟨hc1, hself⟩ := hV t htm seen hs hu
      have hsub1 : seen ⊆ (V t (seen ++ [t.name])).2 := fun x hx => hc1.mono (List.mem_append_left _ hx)
      have hu1 : unseen reg (V t (seen ++ [t.name])).2 ≤ d := Nat.le_trans (unseen_mono hsub1) hu
      obtain ⟨hc2, hm2⟩ := visitList_closed reg linked V d hV ts (V t (seen ++ [t.name])).2 hts' hu1
      refine ⟨⟨?_, ?_, ?_⟩, ?_⟩
      · exact fun x hx => hc2.mono (hsub1 hx)
      · intro n hn
        rcases hc2.marks n hn with h | ⟨y, hy, hyn⟩
        · rcases hc1.marks n h with h | ⟨y, hy, hyn⟩
          · rcases List.mem_append.1 h with h | h
            · exact Or.inl h
            · right
              refine ⟨t, List.mem_append_left _ hself, ?_⟩
              exact (List.mem_singleton.1 h).symm
          · exact Or.inr ⟨y, List.mem_append_left _ hy, hyn⟩
        · exact Or.inr ⟨y, List.mem_append_right _ hy, hyn⟩
      · intro y hy x hx
        rcases List.mem_append.1 hy with hy | hy
        · exact hc2.mono (hc1.succ y hy x hx)
        · exact hc2.succ y hy x hx
      · intro x hx
        rcases List.mem_cons.1 hx with rfl | hx
        · exact hc2.mono (hc1.mono (by simp))
        · exact hm2 x hx

/-- **The walk is closed.**  With a depth bound that covers the unmarked names of loaded
(sub)modules, `visit` returns with every successor of every listed (sub)module marked. -/
theorem visit_closed (reg : Registry) (linked : List Nat) : ∀ (d : Nat) (m : Mod) (seen : List String),
    unseen reg seen ≤ d → Closed reg linked seen (visit reg linked (d + 1) m seen)
  | d, m, seen, hu => by
    have hV : ∀ t ∈ reg.mods, ∀ s, s.contains t.name = false → unseen reg s ≤ d →
        Closed reg linked (s ++ [t.name]) (visit reg linked d t (s ++ [t.name])) ∧
          t ∈ (visit reg linked d t (s ++ [t.name])).1 := by
      intro t ht s hs hsu
      have hlt := unseen_lt ht hs
      match d, hsu with
      | 0, hsu => omega
      | d' + 1, hsu =>
        refine ⟨visit_closed reg linked d' t (s ++ [t.name]) (by omega), ?_⟩
        unfold visit
        exact List.mem_cons_self ..
    obtain ⟨hc, hm⟩ := visitList_closed reg linked (visit reg linked d) d hV (next reg linked m) seen
      (fun t ht => step_mem (next_step ht)) hu
    unfold visit
    refine ⟨hc.mono, ?_, ?_⟩
    · intro n hn
      rcases hc.marks n hn with h | ⟨y, hy, hyn⟩
      · exact Or.inl h
      · exact Or.inr ⟨y, List.mem_cons_of_mem _ hy, hyn⟩
    · intro y hy t hst
      rcases List.mem_cons.1 hy with rfl | hy
      · exact hm t (step_next hst)
      · exact hc.succ y hy t hst

/-- The names of the (sub)modules reached from `m` are pairwise different. -/
def ReachNamesDistinct (reg : Registry) (linked : List Nat) (m : Mod) : Prop :=
  ∀ a b, Reach reg linked m a → Reach reg linked m b → a.name = b.name → a = b

/-- **Completeness of the search order.**  Every (sub)module reached from `m` through include and
belongs-to statements is listed in the search order from `m`, when the reached (sub)modules have
pairwise different names. -/
theorem visit_complete (reg : Registry) (linked : List Nat) (m : Mod) (hnames : ReachNamesDistinct reg linked m)
    (x : Mod) (h : Reach reg linked m x) : x ∈ searchOrder reg linked m := by
  have hc := visit_closed reg linked reg.mods.length m [] (unseen_nil_le reg)
  unfold searchOrder
  induction h with
  | refl =>
    unfold visit
    exact List.mem_cons_self ..
  | tail hab hbc ih =>
    rename_i b c
    have hmark := hc.succ b ih c hbc
    rcases hc.marks _ hmark with h | ⟨y, hy, hyn⟩
    · cases h
    · have hry : Reach reg linked m y := visit_reach reg linked _ m [] y hy
      have : y = c := hnames y c hry (Reach.tail hab hbc) hyn
      exact this ▸ hy

/-- The search order from `m` lists exactly the (sub)modules reached from `m`. -/
theorem visit_iff_reach (reg : Registry) (linked : List Nat) (m : Mod) (hnames : ReachNamesDistinct reg linked m) (x : Mod) :
    x ∈ searchOrder reg linked m ↔ Reach reg linked m x :=
  ⟨visit_reach reg linked _ m [] x, visit_complete reg linked m hnames x⟩

/-- A sufficient condition on the registry alone: the loaded (sub)modules and the start have
pairwise different names. -/
theorem reachNamesDistinct_of_mods (reg : Registry) (linked : List Nat) (m : Mod)
    (h : ∀ a ∈ m :: reg.mods, ∀ b ∈ m :: reg.mods, a.name = b.name → a = b) : ReachNamesDistinct reg linked m := by
  have hmem : ∀ a, Reach reg linked m a → a ∈ m :: reg.mods := by
    intro a ha
    cases ha with
    | refl => exact List.mem_cons_self ..
    | tail _ hs => exact List.mem_cons_of_mem _ (step_mem hs)
  exact fun a b ha hb hn => h a (hmem a ha) b (hmem b hb) hn

theorem eq_of_nodup_map {α β : Type} (f : α → β) : ∀ (l : List α), (l.map f).Nodup → ∀ a ∈ l, ∀ b ∈ l, f a = f b → a = b
  | [], _, a, ha, _, _, _ => by cases ha
  | x :: l, h, a, ha, b, hb, hab => by
    simp only [List.map_cons, List.nodup_cons] at h
    rcases List.mem_cons.1 ha with rfl | ha' <;> rcases List.mem_cons.1 hb with rfl | hb'
    · rfl
    · exact absurd (hab ▸ List.mem_map_of_mem hb') h.1
    · exact absurd (hab ▸ List.mem_map_of_mem ha') h.1
    · exact eq_of_nodup_map f l h.2 a ha' b hb' hab

/-- The usual case: the start is a loaded (sub)module and no two loaded (sub)modules have the same
name (a decidable condition on the registry). -/
theorem reachNamesDistinct_of_nodup (reg : Registry) (linked : List Nat) (m : Mod) (hm : m ∈ reg.mods)
    (h : (reg.mods.map (·.name)).Nodup) : ReachNamesDistinct reg linked m := by
  have hmem : ∀ a, Reach reg linked m a → a ∈ reg.mods := by
    intro a ha
    cases ha with
    | refl => exact hm
    | tail _ hs => exact step_mem hs
  exact fun a b ha hb hn => eq_of_nodup_map (·.name) reg.mods h a (hmem a ha) b (hmem b hb) hn

theorem found_of_mem {ms : List Mod} {s : Mod} {name : String} {g : Stmt} (hs : s ∈ ms)
    (hd : declares s.stmt name = some g) : ∃ r, found ms name = some r := by
  induction ms with
  | nil => cases hs
  | cons a l ih =>
    rw [found_cons]
    cases ha : declares a.stmt name with
    | some g' => exact ⟨_, rfl⟩
    | none =>
      rcases List.mem_cons.1 hs with rfl | hs
      · rw [hd] at ha; cases ha
      · exact ih hs

/-- A grouping declared at the top level of any file of the whole module is found from every
file of it: the top-level binding does not answer `none`. -/
theorem bindTop_complete (reg : Registry) (linked : List Nat) (m : Mod) (hnames : ReachNamesDistinct reg linked m)
    (s : Mod) (hs : Reach reg linked m s) (name : String) (g : Stmt) (hd : declares s.stmt name = some g) :
    ∃ r, bindTop reg linked m name = some r :=
  found_of_mem (ms := searchOrder reg linked m) (visit_complete reg linked m hnames s hs) hd

end Goyang.Lemmas.Uses
