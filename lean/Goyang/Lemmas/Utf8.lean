/-
Facts about the UTF-8 glue (`Goyang.Model.Utf8`).
-/
import Goyang.Model.Utf8

namespace Goyang.Lemmas.Utf8
open Goyang.Model.Utf8

theorem dec2_width (s0 : Nat) (t : List UInt8) : 1 ≤ (dec2 s0 t).2 ∧ (dec2 s0 t).2 ≤ t.length + 1 := by
  unfold dec2; split
  · split <;> simp
  · simp

theorem dec3_width (s0 : Nat) (t : List UInt8) : 1 ≤ (dec3 s0 t).2 ∧ (dec3 s0 t).2 ≤ t.length + 1 := by
  unfold dec3; split
  · split <;> simp
  · simp

theorem dec4_width (s0 : Nat) (t : List UInt8) : 1 ≤ (dec4 s0 t).2 ∧ (dec4 s0 t).2 ≤ t.length + 1 := by
  unfold dec4; split
  · split <;> simp
  · simp

/-- a decoded rune takes at least one byte and never more than there are -/
theorem decodeRune_width (s : List UInt8) :
    (decodeRune s).2 ≤ s.length ∧ (s ≠ [] → 1 ≤ (decodeRune s).2) := by
  unfold decodeRune
  split
  · simp
  · rename_i b0 t
    have h2 := dec2_width b0.toNat t
    have h3 := dec3_width b0.toNat t
    have h4 := dec4_width b0.toNat t
    simp only [List.length_cons, ne_eq, reduceCtorEq, not_false_eq_true, forall_const]
    repeat' split
    all_goals first | simp | omega

theorem dec2_lt (s0 : Nat) (h : s0 < 256) (t : List UInt8) : (dec2 s0 t).1 < 0x7fffffff := by
  unfold dec2; split
  · rename_i b1 _
    have := UInt8.toNat_lt b1
    split
    · simp only; omega
    · simp [runeError]
  · simp [runeError]

theorem dec3_lt (s0 : Nat) (h : s0 < 256) (t : List UInt8) : (dec3 s0 t).1 < 0x7fffffff := by
  unfold dec3; split
  · rename_i b1 b2 _
    have := UInt8.toNat_lt b1
    have := UInt8.toNat_lt b2
    split
    · simp only; omega
    · simp [runeError]
  · simp [runeError]

theorem dec4_lt (s0 : Nat) (h : s0 < 256) (t : List UInt8) : (dec4 s0 t).1 < 0x7fffffff := by
  unfold dec4; split
  · rename_i b1 b2 b3 _
    have := UInt8.toNat_lt b1
    have := UInt8.toNat_lt b2
    have := UInt8.toNat_lt b3
    split
    · simp only; omega
    · simp [runeError]
  · simp [runeError]

/-- a decoded rune is below the end marker `eof` -/
theorem decodeRune_lt (s : List UInt8) : (decodeRune s).1 < 0x7fffffff := by
  unfold decodeRune
  split
  · simp [runeError]
  · rename_i b0 t
    have h0 := UInt8.toNat_lt b0
    have h2 := dec2_lt b0.toNat h0 t
    have h3 := dec3_lt b0.toNat h0 t
    have h4 := dec4_lt b0.toNat h0 t
    repeat' split
    all_goals first | (simp only [runeError]; omega) | omega

/-! ## encoding of characters -/

/-- UTF-8 of one character -/
def encChar (c : Char) : List UInt8 := encodeRune c.toNat

theorem char_valid (c : Char) : validRune c.toNat = true := by
  have h := c.valid
  unfold validRune maxRune
  have : c.toNat = c.val.toNat := rfl
  rw [this]
  rcases h with h | ⟨h1, h2⟩
  · simp only [Bool.or_eq_true, decide_eq_true_eq, Bool.and_eq_true]; left; omega
  · simp only [Bool.or_eq_true, decide_eq_true_eq, Bool.and_eq_true]; right; omega

theorem encChar_eq (c : Char) : encChar c =
    if c.toNat ≤ 127 then [UInt8.ofNat c.toNat]
    else if c.toNat ≤ 2047 then [UInt8.ofNat (c.toNat / 64 % 32 + 192), UInt8.ofNat (c.toNat % 64 + 128)]
    else if c.toNat ≤ 65535 then
      [UInt8.ofNat (c.toNat / 4096 % 16 + 224), UInt8.ofNat (c.toNat / 64 % 64 + 128),
       UInt8.ofNat (c.toNat % 64 + 128)]
    else
      [UInt8.ofNat (c.toNat / 262144 % 8 + 240), UInt8.ofNat (c.toNat / 4096 % 64 + 128),
       UInt8.ofNat (c.toNat / 64 % 64 + 128), UInt8.ofNat (c.toNat % 64 + 128)] := by
  unfold encChar encodeRune
  simp only [char_valid c, if_true]

/-- the model's encoder is core Lean's -/
theorem encChar_eq_core (c : Char) : encChar c = String.utf8EncodeChar c := by
  rw [encChar_eq]; rfl

theorem encChar_ne_nil (c : Char) : encChar c ≠ [] := by
  rw [encChar_eq]; repeat' split
  all_goals simp

theorem encChar_length_pos (c : Char) : 1 ≤ (encChar c).length := by
  rw [encChar_eq]; repeat' split
  all_goals simp

theorem encodeChars_nil : encodeChars [] = [] := rfl

theorem encodeChars_cons (c : Char) (cs : List Char) : encodeChars (c :: cs) = encChar c ++ encodeChars cs := by
  simp [encodeChars, encChar]

theorem encodeChars_append (a b : List Char) : encodeChars (a ++ b) = encodeChars a ++ encodeChars b := by
  simp [encodeChars]

theorem encodeChars_eq_nil (cs : List Char) (h : encodeChars cs = []) : cs = [] := by
  cases cs with
  | nil => rfl
  | cons c r =>
    rw [encodeChars_cons] at h
    have := encChar_ne_nil c
    simp at h
    exact absurd h.1 this

/-- an ASCII character is its own single byte -/
theorem encChar_ascii (c : Char) (h : c.toNat ≤ 127) : encChar c = [UInt8.ofNat c.toNat] := by
  rw [encChar_eq, if_pos h]

/-- a single byte below 0x80 can only be the encoding of that ASCII character -/
theorem encChar_eq_single (c : Char) (b : UInt8) (hb : b.toNat < 128) (h : encChar c = [b]) :
    c.toNat = b.toNat := by
  rw [encChar_eq] at h
  split at h
  · rename_i hc
    simp only [List.cons.injEq, and_true] at h
    rw [← h]
    simp only [UInt8.toNat_ofNat']
    omega
  · split at h
    · simp at h
    · split at h <;> simp at h

theorem encodeChars_eq_single (cs : List Char) (c : Char) (hc : c.toNat ≤ 127)
    (h : encodeChars cs = [UInt8.ofNat c.toNat]) : cs = [c] := by
  cases cs with
  | nil => simp [encodeChars] at h
  | cons d r =>
    rw [encodeChars_cons] at h
    have hd := encChar_length_pos d
    have hlen := congrArg List.length h
    simp only [List.length_append, List.length_cons, List.length_nil] at hlen
    have hr : (encodeChars r).length = 0 := by omega
    have hr' : encodeChars r = [] := List.eq_nil_of_length_eq_zero hr
    have := encodeChars_eq_nil r hr'
    subst this
    rw [hr', List.append_nil] at h
    have h2 := encChar_eq_single d (UInt8.ofNat c.toNat) (by simp only [UInt8.toNat_ofNat']; omega) h
    simp only [UInt8.toNat_ofNat'] at h2
    have : d.toNat = c.toNat := by omega
    have : d = c := by
      apply Char.ext
      apply UInt32.toNat_inj.mp
      exact this
    rw [this]

/-- a character outside ASCII starts with a byte of at least 0x80 ... in fact 0xC2 -/
theorem encChar_head_ge (c : Char) (h : 127 < c.toNat) : ∃ b t, encChar c = b :: t ∧ 128 ≤ b.toNat := by
  rw [encChar_eq, if_neg (by omega)]
  split
  · exact ⟨_, _, rfl, by simp only [UInt8.toNat_ofNat']; omega⟩
  · split
    · exact ⟨_, _, rfl, by simp only [UInt8.toNat_ofNat']; omega⟩
    · exact ⟨_, _, rfl, by simp only [UInt8.toNat_ofNat']; omega⟩

theorem char_eq_of_toNat_eq (c d : Char) (h : c.toNat = d.toNat) : c = d := by
  apply Char.ext
  apply UInt32.toNat_inj.mp
  exact h

/-- an ASCII text is the encoding of itself only -/
theorem encodeChars_inj_ascii : ∀ (as cs : List Char), (∀ c ∈ as, c.toNat ≤ 127) →
    encodeChars cs = encodeChars as → cs = as := by
  intro as
  induction as with
  | nil => intro cs _ h; exact encodeChars_eq_nil cs h
  | cons a as ih =>
    intro cs has h
    have ha : a.toNat ≤ 127 := has a (by simp)
    cases cs with
    | nil =>
      rw [encodeChars_nil, encodeChars_cons] at h
      exact absurd h.symm (by simp [encChar_ne_nil])
    | cons d r =>
      rw [encodeChars_cons, encodeChars_cons, encChar_ascii a ha] at h
      by_cases hd : d.toNat ≤ 127
      · rw [encChar_ascii d hd] at h
        simp only [List.cons_append, List.nil_append, List.cons.injEq] at h
        have h1 := congrArg UInt8.toNat h.1
        simp only [UInt8.toNat_ofNat'] at h1
        have : d = a := char_eq_of_toNat_eq d a (by omega)
        rw [this, ih r (fun c hc => has c (by simp [hc])) h.2]
      · obtain ⟨b, t, hb, hge⟩ := encChar_head_ge d (by omega)
        rw [hb] at h
        simp only [List.cons_append, List.nil_append, List.cons.injEq] at h
        have h1 := congrArg UInt8.toNat h.1
        simp only [UInt8.toNat_ofNat'] at h1
        omega

/-! ## decoding an encoded character -/

theorem char_range (c : Char) : c.toNat < 0xD800 ∨ (0xDFFF < c.toNat ∧ c.toNat < 0x110000) := by
  have h := c.valid
  have : c.toNat = c.val.toNat := rfl
  rw [this]
  rcases h with h | ⟨h1, h2⟩
  · left; omega
  · right; omega

/-- `utf8.DecodeRuneInString` on the encoding of `c` followed by anything returns `c` and its width -/
theorem decodeRune_encChar (c : Char) (r : List UInt8) :
    decodeRune (encChar c ++ r) = (c.toNat, (encChar c).length) := by
  have hr := char_range c
  rw [encChar_eq]
  by_cases h1 : c.toNat ≤ 127
  · rw [if_pos h1]
    simp only [List.cons_append, List.nil_append, decodeRune, UInt8.toNat_ofNat', List.length_cons, List.length_nil]
    rw [if_pos (by omega)]
    refine Prod.ext ?_ rfl
    simp only
    omega
  · rw [if_neg h1]
    by_cases h2 : c.toNat ≤ 2047
    · rw [if_pos h2]
      simp only [List.cons_append, List.nil_append, decodeRune, dec2, isCont, UInt8.toNat_ofNat', List.length_cons,
        List.length_nil]
      rw [if_neg (by omega), if_neg (by omega), if_pos (by omega)]
      rw [if_pos (by simp only [Bool.and_eq_true, decide_eq_true_eq]; omega)]
      refine Prod.ext ?_ rfl
      simp only
      omega
    · rw [if_neg h2]
      by_cases h3 : c.toNat ≤ 65535
      · rw [if_pos h3]
        simp only [List.cons_append, List.nil_append, decodeRune, dec3, isCont, lo2, hi2, UInt8.toNat_ofNat',
          List.length_cons, List.length_nil]
        rw [if_neg (by omega), if_neg (by omega), if_neg (by omega), if_pos (by omega)]
        have hcond : (decide ((if (c.toNat / 4096 % 16 + 224) % 256 = 224 then 160
              else if (c.toNat / 4096 % 16 + 224) % 256 = 240 then 144 else 128) ≤ (c.toNat / 64 % 64 + 128) % 256) &&
            decide ((c.toNat / 64 % 64 + 128) % 256 ≤ (if (c.toNat / 4096 % 16 + 224) % 256 = 237 then 159
              else if (c.toNat / 4096 % 16 + 224) % 256 = 244 then 143 else 191)) &&
            (decide (128 ≤ (c.toNat % 64 + 128) % 256) && decide ((c.toNat % 64 + 128) % 256 ≤ 191))) = true := by
          simp only [Bool.and_eq_true, decide_eq_true_eq]
          refine ⟨⟨?_, ?_⟩, ?_, ?_⟩
          · split
            · omega
            · split <;> omega
          · split
            · omega
            · split <;> omega
          · omega
          · omega
        rw [if_pos hcond]
        refine Prod.ext ?_ rfl
        simp only
        omega
      · rw [if_neg h3]
        simp only [List.cons_append, List.nil_append, decodeRune, dec4, isCont, lo2, hi2, UInt8.toNat_ofNat',
          List.length_cons, List.length_nil]
        rw [if_neg (by omega), if_neg (by omega), if_neg (by omega), if_neg (by omega), if_pos (by omega)]
        have hcond : (decide ((if (c.toNat / 262144 % 8 + 240) % 256 = 224 then 160
              else if (c.toNat / 262144 % 8 + 240) % 256 = 240 then 144 else 128) ≤
                (c.toNat / 4096 % 64 + 128) % 256) &&
            decide ((c.toNat / 4096 % 64 + 128) % 256 ≤ (if (c.toNat / 262144 % 8 + 240) % 256 = 237 then 159
              else if (c.toNat / 262144 % 8 + 240) % 256 = 244 then 143 else 191)) &&
            (decide (128 ≤ (c.toNat / 64 % 64 + 128) % 256) && decide ((c.toNat / 64 % 64 + 128) % 256 ≤ 191)) &&
            (decide (128 ≤ (c.toNat % 64 + 128) % 256) && decide ((c.toNat % 64 + 128) % 256 ≤ 191))) = true := by
          simp only [Bool.and_eq_true, decide_eq_true_eq]
          refine ⟨⟨⟨?_, ?_⟩, ?_, ?_⟩, ?_, ?_⟩
          · split
            · omega
            · split <;> omega
          · split
            · omega
            · split <;> omega
          · omega
          · omega
          · omega
          · omega
        rw [if_pos hcond]
        refine Prod.ext ?_ rfl
        simp only
        omega

/-! ## bytes of an encoding -/

/-- every byte of a character outside ASCII is at least 0x80 -/
theorem encChar_bytes_ge (c : Char) (h : 127 < c.toNat) : ∀ x ∈ encChar c, 128 ≤ x.toNat := by
  rw [encChar_eq, if_neg (by omega)]
  intro x hx
  split at hx
  · simp only [List.mem_cons, List.not_mem_nil, or_false] at hx
    rcases hx with hx | hx <;> (rw [hx]; simp only [UInt8.toNat_ofNat']; omega)
  · split at hx
    · simp only [List.mem_cons, List.not_mem_nil, or_false] at hx
      rcases hx with hx | hx | hx <;> (rw [hx]; simp only [UInt8.toNat_ofNat']; omega)
    · simp only [List.mem_cons, List.not_mem_nil, or_false] at hx
      rcases hx with hx | hx | hx | hx <;> (rw [hx]; simp only [UInt8.toNat_ofNat']; omega)

/-- an ASCII byte occurs in the encoding of a character only as that character -/
theorem mem_encChar_ascii (d : Char) (b : UInt8) (hb : b.toNat < 128) (h : b ∈ encChar d) :
    encChar d = [b] ∧ d.toNat = b.toNat := by
  by_cases hd : d.toNat ≤ 127
  · rw [encChar_ascii d hd] at h ⊢
    simp only [List.mem_cons, List.not_mem_nil, or_false] at h
    rw [h]
    simp only [UInt8.toNat_ofNat', true_and]
    omega
  · have := encChar_bytes_ge d (by omega) b h
    omega

theorem not_mem_encChar (d c : Char) (hc : c.toNat ≤ 127) (hne : d ≠ c) : UInt8.ofNat c.toNat ∉ encChar d := by
  intro h
  have := (mem_encChar_ascii d (UInt8.ofNat c.toNat) (by simp only [UInt8.toNat_ofNat']; omega) h).2
  simp only [UInt8.toNat_ofNat'] at this
  exact hne (char_eq_of_toNat_eq d c (by omega))

theorem not_mem_encodeChars (cs : List Char) (c : Char) (hc : c.toNat ≤ 127) (h : c ∉ cs) :
    UInt8.ofNat c.toNat ∉ encodeChars cs := by
  induction cs with
  | nil => simp [encodeChars]
  | cons d r ih =>
    rw [encodeChars_cons, List.mem_append]
    intro hm
    rcases hm with hm | hm
    · exact not_mem_encChar d c hc (fun he => h (by rw [he]; simp)) hm
    · exact ih (fun hr => h (by simp [hr])) hm

/-- runes of an encoded text -/
theorem runesAux_enc : ∀ (cs : List Char) (f : Nat), (encodeChars cs).length ≤ f →
    runesAux f (encodeChars cs) = cs.map Char.toNat := by
  intro cs
  induction cs with
  | nil => intro f _; cases f <;> simp [runesAux, encodeChars]
  | cons c r ih =>
    intro f hf
    have hlen := encChar_length_pos c
    rw [encodeChars_cons] at hf ⊢
    rw [List.length_append] at hf
    obtain ⟨f, rfl⟩ : ∃ f', f = f' + 1 := ⟨f - 1, by omega⟩
    cases he : encChar c with
    | nil => exact absurd he (encChar_ne_nil c)
    | cons b bs =>
      simp only [List.cons_append, runesAux]
      have hd := decodeRune_encChar c (encodeChars r)
      rw [he] at hd
      simp only [List.cons_append] at hd
      rw [hd]
      simp only [List.map_cons, List.cons.injEq, true_and]
      have : List.drop (b :: bs).length (b :: (bs ++ encodeChars r)) = encodeChars r := by
        rw [← List.cons_append, List.drop_left']; rfl
      rw [this]
      apply ih
      rw [he] at hf
      simp only [List.length_cons] at hf
      omega

theorem runes_enc (cs : List Char) : runes (encodeChars cs) = cs.map Char.toNat :=
  runesAux_enc cs _ (Nat.le_refl _)

end Goyang.Lemmas.Utf8
