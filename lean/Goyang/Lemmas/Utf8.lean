/-
Facts about the UTF-8 glue (`Goyang.Model.Utf8`).
-/
import Goyang.Model.Utf8

namespace Goyang.Lemmas.Utf8
open Goyang.Model.Utf8

theorem dec2_width (s0 : Nat) (t : List UInt8) : 1 ≤ (dec2 s0 t).2 ∧ (dec2 s0 t).2 ≤ t.length + 1 := by
  unfold dec2; split
  · split <;> simp
  · simp

theorem dec3_width (s0 : Nat) (t : List UInt8) : 1 ≤ (dec3 s0 t).2 ∧ (dec3 s0 t).2 ≤ t.length + 1 := by
  unfold dec3; split
  · split <;> simp
  · simp

theorem dec4_width (s0 : Nat) (t : List UInt8) : 1 ≤ (dec4 s0 t).2 ∧ (dec4 s0 t).2 ≤ t.length + 1 := by
  unfold dec4; split
  · split <;> simp
  · simp

/-- a decoded rune takes at least one byte and never more than there are -/
theorem decodeRune_width (s : List UInt8) :
    (decodeRune s).2 ≤ s.length ∧ (s ≠ [] → 1 ≤ (decodeRune s).2) := by
  unfold decodeRune
  split
  · simp
  · rename_i b0 t
    have h2 := dec2_width b0.toNat t
    have h3 := dec3_width b0.toNat t
    have h4 := dec4_width b0.toNat t
    simp only [List.length_cons, ne_eq, reduceCtorEq, not_false_eq_true, forall_const]
    repeat' split
    all_goals first | simp | omega

theorem dec2_lt (s0 : Nat) (h : s0 < 256) (t : List UInt8) : (dec2 s0 t).1 < 0x7fffffff := by
  unfold dec2; split
  · rename_i b1 _
    have := UInt8.toNat_lt b1
    split
    · simp only; omega
    · simp [runeError]
  · simp [runeError]

theorem dec3_lt (s0 : Nat) (h : s0 < 256) (t : List UInt8) : (dec3 s0 t).1 < 0x7fffffff := by
  unfold dec3; split
  · rename_i b1 b2 _
    have := UInt8.toNat_lt b1
    have := UInt8.toNat_lt b2
    split
    · simp only; omega
    · simp [runeError]
  · simp [runeError]

theorem dec4_lt (s0 : Nat) (h : s0 < 256) (t : List UInt8) : (dec4 s0 t).1 < 0x7fffffff := by
  unfold dec4; split
  · rename_i b1 b2 b3 _
    have := UInt8.toNat_lt b1
    have := UInt8.toNat_lt b2
    have := UInt8.toNat_lt b3
    split
    · simp only; omega
    · simp [runeError]
  · simp [runeError]

/-- a decoded rune is below the end marker `eof` -/
theorem decodeRune_lt (s : List UInt8) : (decodeRune s).1 < 0x7fffffff := by
  unfold decodeRune
  split
  · simp [runeError]
  · rename_i b0 t
    have h0 := UInt8.toNat_lt b0
    have h2 := dec2_lt b0.toNat h0 t
    have h3 := dec3_lt b0.toNat h0 t
    have h4 := dec4_lt b0.toNat h0 t
    repeat' split
    all_goals first | (simp only [runeError]; omega) | omega

end Goyang.Lemmas.Utf8
