import Goyang.Model.AstTable
/-
Impl model of the reflection-driven AST builder: `pkg/yang/ast.go` (`build`, the per-field functions
created by `initTypes`) and the top-level handling in `pkg/yang/modules.go` (`Modules.Parse`,
`Modules.add`).  The model is generic over the tag table exactly as the Go builder is generic by
reflection: `initTypes` is reduced to the table (`Goyang/Gen/AstSchema.lean`, regenerated from the
source on every run) and its well-formedness (`Goyang.Spec.Ast.WF`).

The code modelled is the repaired tree (fix commits a6c22d9, 40e58d4):
 * the functions for `Name`/`Statement`/`Parent` live in `yangStatement.special`, not in `funcs`;
 * a keyword without `nameMap` entry is the error `unknown statement`.

Go panics (nil dereference, failed type assertion, reflect panics) are the error class `crash`.
Errors are compared by class and position, never by wording.  Map iteration order (`range
y.sRequired`) only selects which field name the message mentions, so it is not modelled.
-/
namespace Goyang.Model.Ast

/-- A parsed statement (`yang.Statement`); `line`/`col` are 1-based as the parser reports them. -/
inductive Stmt where
  | mk (kw : Bytes) (hasArg : Bool) (arg : Bytes) (line col : Nat) (subs : List Stmt)
  deriving Repr, Inhabited

namespace Stmt
def kw : Stmt → Bytes | .mk k _ _ _ _ _ => k
def hasArg : Stmt → Bool | .mk _ h _ _ _ _ => h
def arg : Stmt → Bytes | .mk _ _ a _ _ _ => a
def line : Stmt → Nat | .mk _ _ _ l _ _ => l
def col : Stmt → Nat | .mk _ _ _ _ c _ => c
def subs : Stmt → List Stmt | .mk _ _ _ _ _ s => s
def pos (s : Stmt) : Option (Nat × Nat) := some (s.line, s.col)

mutual
/-- Decidable equality, written out because the deriving handler does not cover nested inductives. -/
def decEq : (a b : Stmt) → Decidable (a = b)
  | .mk k h a l c s, .mk k' h' a' l' c' s' =>
    if hk : k = k' then
      if hh : h = h' then
        if ha : a = a' then
          if hl : l = l' then
            if hc : c = c' then
              match decEqList s s' with
              | isTrue hs => isTrue (by subst hk hh ha hl hc hs; rfl)
              | isFalse hs => isFalse (by intro e; cases e; exact hs rfl)
            else isFalse (by intro e; cases e; exact hc rfl)
          else isFalse (by intro e; cases e; exact hl rfl)
        else isFalse (by intro e; cases e; exact ha rfl)
      else isFalse (by intro e; cases e; exact hh rfl)
    else isFalse (by intro e; cases e; exact hk rfl)
def decEqList : (a b : List Stmt) → Decidable (a = b)
  | [], [] => isTrue rfl
  | [], _ :: _ => isFalse (by intro e; cases e)
  | _ :: _, [] => isFalse (by intro e; cases e)
  | a :: as, b :: bs =>
    match decEq a b with
    | isTrue h =>
      match decEqList as bs with
      | isTrue hs => isTrue (by subst h hs; rfl)
      | isFalse hs => isFalse (by intro e; cases e; exact hs rfl)
    | isFalse h => isFalse (by intro e; cases e; exact h rfl)
end

instance : DecidableEq Stmt := decEq
end Stmt

inductive ErrClass where
  | unknownStmt   -- `%s: unknown statement: %s`            (no Node type for the keyword)
  | unknownField  -- `%s: unknown %s field: %s`
  | alreadySet    -- `%s: already set`                       (no position in the message)
  | noExt         -- `%s: no extension function`
  | missing       -- `%s: missing required %s field: %s`
  | notModule     -- `not a module or submodule: …`          (Modules.add; no position)
  | duplicate     -- `duplicate %s %s at %s and %s`          (Modules.add; no leading position)
  | badName       -- `%s: invalid %s name %q: '@' separates name and revision`   (Modules.add, fix b0bffce)
  | crash         -- a Go panic
  deriving DecidableEq, Repr, Inhabited

structure Err where
  cls : ErrClass
  /-- the `file:line:col:` the message starts with, if any -/
  pos : Option (Nat × Nat)
  deriving DecidableEq, Repr, Inhabited

/-- Generic AST node: what the reflection walk over a built node sees.
`fields` has one child list per tagged struct field, in struct order (always empty for the four
meta fields); a `ptr` field holds at most one child, a `slice` field its children in the order they
were appended. -/
inductive ANode where
  | mk (ty : Nat) (name : Bytes) (src : Option Stmt) (parent : Option Nat)
       (fields : List (List ANode)) (exts : List Stmt)
  deriving Repr, Inhabited

namespace ANode
def ty : ANode → Nat | .mk t _ _ _ _ _ => t
def name : ANode → Bytes | .mk _ n _ _ _ _ => n
def src : ANode → Option Stmt | .mk _ _ s _ _ _ => s
def parent : ANode → Option Nat | .mk _ _ _ p _ _ => p
def fields : ANode → List (List ANode) | .mk _ _ _ _ f _ => f
def exts : ANode → List Stmt | .mk _ _ _ _ _ e => e
end ANode

/-! ### `yangStatement` as read off the table -/

/-- `strings.Split(kw, ":")` (non-empty separator): the pieces between colons. -/
def splitColon : Bytes → List Bytes
  | [] => [[]]
  | b :: rest =>
    if b = 58 then [] :: splitColon rest
    else match splitColon rest with
      | [] => [[b]]          -- unreachable: the result is never empty
      | p :: ps => (b :: p) :: ps

/-- `len(strings.Split(ss.Keyword, ":")) == 2` -/
def isExtKw (kw : Bytes) : Bool := (splitColon kw).length == 2

namespace TypeDef

/-- `y.special[…] != nil` for the meta-name whose field has Go kind `k`
(`initTypes` ties `string`↔`Name`, `*Statement`↔`Statement`, interface↔`Parent`). -/
def hasKind (T : TypeDef) (k : FKind) : Bool := T.fields.any (·.kind = k)

/-- Scan for `y.funcs[k]`: the map is filled in struct order, so the last field registering the
name wins. Returns the field index. -/
def funcIdxAux (tbl : Schema) (k : Nat) : List Field → Nat → Option Nat → Option Nat
  | [], _, acc => acc
  | f :: fs, i, acc => funcIdxAux tbl k fs (i + 1) (if f.kind.isSub && tbl.alias f.tag == k then some i else acc)

/-- `y.funcs[k]` as the index of the field whose function it is. -/
def funcIdx (tbl : Schema) (T : TypeDef) (k : Nat) : Option Nat := funcIdxAux tbl k T.fields 0 none

/-- `y.required`: alias-resolved tag names of the fields tagged `required`, in struct order. -/
def required (tbl : Schema) (T : TypeDef) : List Nat :=
  (T.fields.filter (·.required)).map (tbl.alias ·.tag)

/-- `y.sRequired[kind]`: alias-resolved tag names of the fields tagged `required=kind`. -/
def sRequired (tbl : Schema) (T : TypeDef) (kind : Option Nat) : List Nat :=
  (T.fields.filter (fun f => f.reqKinds.any (some · == kind))).map (tbl.alias ·.tag)

/-- The names in `y.sRequired[n]` for some `n` different from `kind`. -/
def sRequiredOther (tbl : Schema) (T : TypeDef) (kind : Option Nat) : List Nat :=
  (T.fields.filter (fun f => f.reqKinds.any (some · != kind))).map (tbl.alias ·.tag)

end TypeDef

/-! ### `build` -/

/-- The node under construction: the struct `v` points to, as far as substatements fill it in,
and the `found` map. -/
structure Partial where
  fields : List (List ANode)
  exts : List Stmt
  /-- `found`: interned keywords of the substatements seen so far (`none` = not in the table) -/
  found : List (Option Nat)
  deriving Inhabited

def crash : Err := ⟨.crash, none⟩

/-- `y.special["Parent"]`: called only when `parent.IsValid()`; its function panics unless the
parent's type implements `Node`. -/
def setParent (tbl : Schema) (T : TypeDef) (parent : Option Nat) : Except Err (Option Nat) :=
  if T.hasKind .iface then
    match parent with
    | none => .ok none
    | some p =>
      match tbl.types[p]? with
      | none => .error crash
      | some P => if P.isNode then .ok (some p) else .error crash
  else .ok none

/-- One iteration of `for _, ss := range stmt.statements` in `build`, for a node of type `t` (`T`).
`child ()` is the recursive `build(ss, v, types)`, run only where the Go code runs it. -/
def addSub (tbl : Schema) (T : TypeDef) (ss : Stmt) (st : Partial)
    (child : Unit → Except Err ANode) : Except Err Partial :=
  let k := tbl.kwId ss.kw
  -- found[ss.Keyword] = true
  let found := st.found ++ [k]
  -- fn := y.funcs[ss.Keyword]
  match k.bind (T.funcIdx tbl) with
  | some i =>
    match T.fields[i]?, st.fields[i]? with
    | some f, some cur =>
      -- pointer field: `if !fv.IsNil() { return errors.New(stmt.Keyword + ": already set") }`
      if f.kind = .ptr && !cur.isEmpty then .error ⟨.alreadySet, none⟩
      else
        match child () with
        | .error e => .error e
        | .ok c =>
          -- `v.Elem().Field(i).Set(sv)` / `reflect.Append(fv, sv)` panic on a type mismatch
          if c.ty ≠ f.elem then .error crash
          else .ok ⟨st.fields.set i (cur ++ [c]), st.exts, found⟩
    | _, _ => .error crash
  | none =>
    -- case len(strings.Split(ss.Keyword, ":")) == 2
    if isExtKw ss.kw then
      -- y.addext == nil ⇒ error, else append to the Ext field
      if T.hasKind .ext then .ok ⟨st.fields, st.exts ++ [ss], found⟩
      else .error ⟨.noExt, ss.pos⟩
    else .error ⟨.unknownField, ss.pos⟩

/-- The three checks after the loop, then `return v, nil`. `kid` is the interned `stmt.Keyword`. -/
def finish (tbl : Schema) (t : Nat) (T : TypeDef) (kid : Option Nat) (pos : Nat × Nat)
    (name : Bytes) (src : Option Stmt) (par : Option Nat) (st : Partial) : Except Err ANode :=
  let found := fun (r : Nat) => st.found.contains (some r)
  -- Make sure all of our required field are there.
  if (T.required tbl).any (fun r => !found r) then .error ⟨.missing, some pos⟩
  -- Make sure required fields based on our keyword are there (module vs submodule)
  else if (T.sRequired tbl kid).any (fun r => !found r) then .error ⟨.missing, some pos⟩
  -- Make sure we don't have any field set that is required by a different keyword.
  else if (T.sRequiredOther tbl kid).any found then .error ⟨.unknownField, some pos⟩
  else .ok (.mk t name src par st.fields st.exts)

mutual
/-- `build(stmt, parent, types)`; `parent` is the type id of the enclosing node (`none` = `nilValue`). -/
def build (tbl : Schema) : Stmt → Option Nat → Except Err ANode
  | .mk kw hasArg arg line col subs, parent =>
    -- keyword := stmt.Keyword; if k, ok := aliases[stmt.Keyword]; ok { keyword = k }
    let kid := tbl.kwId kw
    let keyword := kid.map tbl.alias
    -- t, ok := nameMap[keyword]; if !ok { return error }
    match keyword.bind tbl.typeOf with
    | none => .error ⟨.unknownStmt, some (line, col)⟩
    | some t =>
    -- y := typeMap[t]   (nil ⇒ the first use of y dereferences nil)
    match tbl.types[t]? with
    | none => .error crash
    | some T =>
    -- y.special["Name"], y.special["Statement"], y.special["Parent"]
    let name := if T.hasKind .str then arg else []
    let src := if T.hasKind .stmt then some (Stmt.mk kw hasArg arg line col subs) else none
    match setParent tbl T parent with
    | .error e => .error e
    | .ok par =>
    match buildSubs tbl t T subs ⟨T.fields.map (fun _ => []), [], []⟩ with
    | .error e => .error e
    | .ok st => finish tbl t T kid (line, col) name src par st

/-- The loop `for _, ss := range stmt.statements` of `build` for a node of type `t` (`T`). -/
def buildSubs (tbl : Schema) (t : Nat) (T : TypeDef) : List Stmt → Partial → Except Err Partial
  | [], st => .ok st
  | ss :: rest, st =>
    match addSub tbl T ss st (fun _ => build tbl ss (some t)) with
    | .error e => .error e
    | .ok st => buildSubs tbl t T rest st
end

/-! ### `Modules.Parse` after the generic parser: build every top-level statement, then `add` each

The code modelled (after commit 8f4df12, which made `Parse` atomic) first builds *every* top-level
statement and only then registers the nodes one by one.  What `Modules.add` does when module names
collide (duplicate detection, revisions rebinding the bare name) is the registry's business
(property C13) and changes independently of the builder; it enters here as an oracle `dup` — "given
what was added so far, is this one refused as a duplicate" — and every theorem holds for all
oracles.  The driver runs with the oracle that never refuses; the correspondence inputs use
distinct module names. -/

def kwModule : Bytes := [109, 111, 100, 117, 108, 101]                       -- "module"
def kwSubmodule : Bytes := [115, 117, 98, 109, 111, 100, 117, 108, 101]      -- "submodule"

/-- `n.Kind()`: the type's constant, except where probing found it to depend on a field being set
(`Module.Kind()` is `submodule` iff `BelongsTo != nil`).  `a.fields` always has one entry per struct
field, so the default of `getD` is never used on a built node. -/
def nodeKind (T : TypeDef) (a : ANode) : Nat :=
  match T.kindIf.find? (fun (i, _) => !(a.fields.getD i []).isEmpty) with
  | some (_, k) => k
  | none => T.kind0

/-- A node handed to `Modules.add` that landed in `Modules.Modules` (`isSub = false`) or
`Modules.SubModules`. -/
structure TopMod where
  isSub : Bool
  node : ANode
  deriving Inhabited

/-- First loop of `Modules.Parse`: `buildASTWithTypeDict` for every statement, in order. -/
def buildAll (tbl : Schema) : List Stmt → Except Err (List ANode)
  | [] => .ok []
  | s :: rest =>
    match build tbl s none with
    | .error e => .error e
    | .ok a =>
      match tbl.types[a.ty]? with
      | none => .error crash
      | some T =>
        -- v.Interface().(Node)
        if !T.isNode then .error crash else
        match buildAll tbl rest with
        | .error e => .error e
        | .ok as => .ok (a :: as)

/-- `Modules.add` for one node. -/
def addTop (tbl : Schema) (dup : List TopMod → TopMod → Bool) (mods : List TopMod) (a : ANode) :
    Except Err (List TopMod) :=
  match tbl.types[a.ty]? with
  | none => .error crash
  | some T =>
    let kind := tbl.kwName (nodeKind T a)
    let isSub : Option Bool :=
      if kind == some kwModule then some false
      else if kind == some kwSubmodule then some true
      else none
    match isSub with
    | none => .error ⟨.notModule, none⟩
    | some isSub =>
      -- if strings.Contains(name, "@") { return fmt.Errorf("%s: invalid %s name …", Source(n), …) }
      if a.name.contains 64 then .error ⟨.badName, a.src.bind (·.pos)⟩ else
      -- mod := n.(*Module)
      if a.ty ≠ tbl.moduleTy then .error crash else
      if dup mods ⟨isSub, a⟩ then .error ⟨.duplicate, none⟩
      else .ok (mods ++ [⟨isSub, a⟩])

/-- Second loop of `Modules.Parse`. -/
def addAll (tbl : Schema) (dup : List TopMod → TopMod → Bool) : List ANode → List TopMod → Except Err (List TopMod)
  | [], mods => .ok mods
  | a :: rest, mods =>
    match addTop tbl dup mods a with
    | .error e => .error e
    | .ok mods => addAll tbl dup rest mods

/-- `Modules.Parse` on the statements the generic parser returned, for a fresh `Modules`. -/
def parseTop (tbl : Schema) (dup : List TopMod → TopMod → Bool) (ss : List Stmt) : Except Err (List TopMod) :=
  match buildAll tbl ss with
  | .error e => .error e
  | .ok nodes => addAll tbl dup nodes []

end Goyang.Model.Ast
