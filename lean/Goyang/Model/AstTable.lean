/-
The tag table of the reflection-driven AST builder (`pkg/yang/ast.go`, `initTypes`) as data.

`Goyang/Gen/AstSchema.lean` is regenerated from the Go source on every run by
`harness/cmd/extract-ast` and contains one value of type `Schema`.  Keywords (yang tag names, the
reflection meta-names `Name`/`Statement`/`Parent`/`Ext`, the `KIND`s of `required=KIND`, alias
names, `Kind()` strings) and Go type names are interned as `Nat` ids; `kwNames`/`typeNames` give the
spelling of an id.  Everything here is core Lean (used by Model, Spec and the driver).
-/
namespace Goyang.Model.Ast

abbrev Bytes := List UInt8

/-- Go kind of a tagged struct field, as `initTypes` distinguishes them. -/
inductive FKind where
  | str    -- `string`: the `Name` field
  | stmt   -- `*Statement`: the `Statement` field
  | iface  -- interface: the `Parent` field
  | ptr    -- pointer to an AST struct: single-valued substatement
  | slice  -- slice of pointers to an AST struct: multi-valued substatement
  | ext    -- `[]*Statement` tagged `Ext`: where prefixed unknown statements are kept
  deriving DecidableEq, Repr, Inhabited

/-- One tagged struct field, in struct order. -/
structure Field where
  /-- keyword id of the first part of the `yang:"…"` tag (alias *not* applied) -/
  tag : Nat
  kind : FKind
  /-- type id of the pointed-to struct for `ptr`/`slice` fields (0 otherwise) -/
  elem : Nat
  /-- the tag carries `required` -/
  required : Bool
  /-- keyword ids `KIND` of every `required=KIND` attribute of the tag -/
  reqKinds : List Nat
  deriving Repr, Inhabited

/-- One AST struct type. -/
structure TypeDef where
  /-- index into `Schema.typeNames` -/
  name : Nat
  /-- pointer-to-struct implements the `Node` interface -/
  isNode : Bool
  /-- `Kind()` of the zero value (keyword id) -/
  kind0 : Nat
  /-- `(field index, keyword id)`: `Kind()` of the value in which only that pointer or slice field is
  set, listed where it differs from `kind0` (found by probing the built package) -/
  kindIf : List (Nat × Nat)
  fields : List Field
  deriving Repr, Inhabited

structure Schema where
  kwNames : List Bytes
  typeNames : List Bytes
  /-- index = type id, in the order `initTypes` enters the types into `typeMap` -/
  types : List TypeDef
  /-- `nameMap`: keyword id ↦ type id, in discovery order -/
  nameMap : List (Nat × Nat)
  /-- `aliases`: keyword id ↦ keyword id -/
  aliases : List (Nat × Nat)
  /-- type id of `yang.Module` (the only type `Modules.add` accepts) -/
  moduleTy : Nat
  deriving Repr, Inhabited

namespace FKind
/-- Fields that are filled in by substatements (they get an entry in `yangStatement.funcs`). -/
def isSub : FKind → Bool
  | ptr => true
  | slice => true
  | _ => false
end FKind

namespace Schema

/-- Id of a keyword spelling: the first index carrying that name. -/
def kwId (tbl : Schema) (kw : Bytes) : Option Nat :=
  let i := tbl.kwNames.idxOf kw
  if i < tbl.kwNames.length then some i else none

/-- `if a, ok := aliases[name]; ok { name = a }` on ids. -/
def alias (tbl : Schema) (k : Nat) : Nat :=
  match tbl.aliases.lookup k with
  | some k' => k'
  | none => k

/-- `nameMap[k]`. -/
def typeOf (tbl : Schema) (k : Nat) : Option Nat := tbl.nameMap.lookup k

def kwName (tbl : Schema) (k : Nat) : Option Bytes := tbl.kwNames[k]?

end Schema

end Goyang.Model.Ast
