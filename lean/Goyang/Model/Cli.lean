import Goyang.Model.Indent
import Goyang.Model.ErrorSort
import Goyang.Model.Process
/-
Impl model of the two formatters of the `goyang` command that property C05 names (/repo/tree.go
`Write`, /repo/types.go `doTypes`) and of the selection of what is printed (/repo/yang.go, the end
of `main`), as functions of what they read of the processed trees.

`Write` prints through nested `indent.NewWriter(w, "  ")` writers in many small chunks; by
`Props.C20.stream_eq_oneshot` what reaches the underlying writer is `Indent.indent "  "` of the
concatenated chunks, which is how the nesting is written here.  A Go map (`Entry.Dir`, the
`Types` set) is a list in *some* order.  Core Lean only.
-/
namespace Goyang.Model.Cli
open Goyang.Model.Indent (Bytes indent)

/-- What `Write` reads of one `*yang.Entry` besides its children. -/
structure TNode where
  name : Bytes                      -- e.Name, the key under which the parent's Dir holds the entry
  shown : Bytes                     -- e.Prefix.Name + ":" + e.Name, or e.Name
  description : Bytes := []
  exts : List (Bytes × Bytes) := [] -- (Kind, NName) of e.Exts
  isRpc : Bool := false             -- e.RPC != nil
  readOnly : Bool := false          -- e.ReadOnly()
  typeName : Option Bytes := none   -- e.Type.Root.Name when e.Type != nil
  hasDir : Bool := true             -- e.Dir != nil
  isList : Bool := false            -- e.ListAttr != nil
  key : Bytes := []
  deriving Repr, DecidableEq

/-- An entry as the tree formatter sees it: node, rpc input, rpc output (zero or one element
each), children (`Dir`, in some order). -/
inductive Tree where
  | mk (n : TNode) (inp out : List Tree) (dir : List Tree)
  deriving Repr

def Tree.n : Tree → TNode | .mk n _ _ _ => n
def Tree.dir : Tree → List Tree | .mk _ _ _ d => d

def str (s : String) : Bytes := s.toUTF8.toList

def extLine (x : Bytes × Bytes) : Bytes :=
  if x.2 ≠ [] then str "  " ++ x.1 ++ str " " ++ x.2 ++ str ";\n" else str "  " ++ x.1 ++ str ";\n"

/-- Everything `Write` prints before it turns to the children. `none` in the second component:
the entry is a leaf or leaf-list and `Write` has returned. -/
def header (n : TNode) : Bytes × Bool :=
  let d := if n.description ≠ [] then str "\n" ++ indent (str "// ") (n.description ++ str "\n") else []
  let x := if n.exts ≠ [] then str "extensions: {\n" ++ (n.exts.map extLine).flatten ++ str "}\n" else []
  let m := if n.isRpc then str "RPC: " else if n.readOnly then str "RO: " else str "rw: "
  let t := match n.typeName with | some t => t ++ str " " | none => []
  let pre := d ++ x ++ m ++ t
  if !n.hasDir && n.isList then (pre ++ str "[]" ++ n.shown ++ str "\n", false)
  else if !n.hasDir then (pre ++ n.shown ++ str "\n", false)
  else if n.isList then (pre ++ str "[" ++ n.key ++ str "]" ++ n.shown ++ str " {\n", true)
  else (pre ++ n.shown ++ str " {\n", true)

/-- `sort.Strings` order on (key, rendering) pairs. -/
def keyLt (a b : Bytes × Bytes) : Bool := ErrorSort.bytesLt a.1 b.1

mutual
/-- tree.go `Write(w, e)`: everything it writes to `w`.  Go sorts the keys and then renders the
children in that order; here the children are rendered first, each with its key, and the
renderings are put in key order — the same thing, since the order only looks at the keys (and
it keeps the recursion structural). -/
def write : Tree → Bytes
  | .mk n inp out dir =>
    let (h, more) := header n
    if !more then h
    else h ++ ((writeKids inp).map (·.2)).flatten ++ ((writeKids out).map (·.2)).flatten ++
      ((sortBy keyLt (writeKids dir)).map (·.2)).flatten ++ str "}\n"
/-- Key and `Write(indent.NewWriter(w, "  "), c)` for each `c`. -/
def writeKids : List Tree → List (Bytes × Bytes)
  | [] => []
  | c :: cs => (c.n.name, indent (str "  ") (write c)) :: writeKids cs
end

/-- `doTree`: the entries in the order `main` hands them over. -/
def doTree (entries : List Tree) : Bytes := (entries.map write).flatten

/-- The end of `main`: of everything in `ms.Modules` one entry per module *name* (the one the
bare name is bound to), in name order.  `mods` is the map as a list of (key, module name, tree of
the module the key is bound to) in some order; `bound name` is `ms.Modules[name]`. -/
def selectEntries (mods : List (Bytes × Bytes × Tree)) (bound : Bytes → Option Tree) : List Tree :=
  let names := (mods.map fun m => m.2.1).eraseDups
  (sortBy ErrorSort.bytesLt names).filterMap bound

/-- types.go `doTypes` without `--types_debug`: `types` is the set `Types` (a map keyed by
`*YangType`) as a list in some order, `printType` the rendering of one type (a placeholder here:
its content is the C09 layer's business).  Every rendering is collected, the strings are sorted,
then written. -/
def doTypes {τ : Type} (printType : τ → Bytes) (types : List τ) : Bytes :=
  (sortBy ErrorSort.bytesLt (types.map printType)).flatten

end Goyang.Model.Cli
