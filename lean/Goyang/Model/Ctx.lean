import Goyang.Model.Stmt
import Goyang.Model.StrOrd
/-
Module registry and linkage (pkg/yang/modules.go: add, FindModule; yang.go: Module.Current,
FullName, GetPrefix; node.go: FindModuleByPrefix, module()).  Pure: a module "pointer" is the
load sequence number `seq`; the two Go maps are association lists (the first binding of a key is
the current one: `bind` replaces).

`Registry.add`, `findModule`, `Mod.current`, `Mod.fullName` are the subject of property C13
(Goyang/Props/C13.lean); they mirror the code after the repair of D16 (a module without a
revision is remembered in `Modules.unrevisioned` and holds its bare name only while no revision
of the same name is present) and of D61 (a name containing `@` is rejected).  String comparison is Go's byte-wise `<` (`strLt`).
-/
namespace Goyang.Model

/-- A loaded module or submodule. -/
structure Mod where
  seq : Nat
  stmt : Stmt
  deriving Repr, Inhabited

namespace Mod

/-- Go: `Module.Kind()` is "submodule" iff `BelongsTo != nil`. -/
def isSub (m : Mod) : Bool := (m.stmt.one? "belongs-to").isSome

def name (m : Mod) : String := m.stmt.arg

/-- `Module.Current`: the greatest revision argument (byte-wise string order), "" if none.
Go: `for _, r := range s.Revision { if r.Name > rev { rev = r.Name } }`. -/
def current (m : Mod) : String :=
  (m.stmt.all "revision").foldl (fun rev r => if strLt rev r.arg then r.arg else rev) ""

/-- `Module.FullName`. -/
def fullName (m : Mod) : String :=
  let rev := m.current
  if rev != "" then m.name ++ "@" ++ rev else m.name

/-- `Module.getPrefix`: own prefix statement for modules, the belongs-to's for submodules. -/
def prefixStmt? (m : Mod) : Option Stmt :=
  match m.stmt.one? "belongs-to" with
  | some b => b.one? "prefix"
  | none => m.stmt.one? "prefix"

/-- `Module.GetPrefix` ("" when there is none). -/
def getPrefix (m : Mod) : String := (m.prefixStmt?.map (·.arg)).getD ""

def belongsTo? (m : Mod) : Option String := m.stmt.argOf? "belongs-to"

def imports (m : Mod) : List Stmt := m.stmt.all "import"
def includes (m : Mod) : List Stmt := m.stmt.all "include"

end Mod

abbrev KeyMap := List (String × Nat)

def KeyMap.get? (m : KeyMap) (k : String) : Option Nat := (m.find? (·.1 == k)).map (·.2)

/-- Go map assignment `m[k] = v`. -/
def KeyMap.bind (m : KeyMap) (k : String) (v : Nat) : KeyMap :=
  if m.any (·.1 == k) then m.map (fun kv => if kv.1 == k then (k, v) else kv) else m ++ [(k, v)]

structure Registry where
  mods : List Mod := []            -- everything added so far, in load order (seq = index)
  modules : KeyMap := []           -- ms.Modules
  subModules : KeyMap := []        -- ms.SubModules
  /-- `ms.unrevisioned`, the part with keys `"module " ++ name` -/
  unrevModules : KeyMap := []
  /-- `ms.unrevisioned`, the part with keys `"submodule " ++ name` (the two kinds cannot collide:
  the Go keys start with different letters and the kind contains no blank) -/
  unrevSubs : KeyMap := []
  deriving Repr, Inhabited

namespace Registry

def byId (r : Registry) (id : Nat) : Option Mod := r.mods.find? (·.seq == id)

def getModule (r : Registry) (key : String) : Option Mod := (r.modules.get? key).bind r.byId
def getSub (r : Registry) (key : String) : Option Mod := (r.subModules.get? key).bind r.byId

inductive AddErr
  | duplicate (kind fullName : String)
  /-- the name contains `@`, the separator of name and revision in the table keys -/
  | badName (kind name : String)
  deriving Repr

/-- The table for a kind: `ms.SubModules` or `ms.Modules` (Go: `m` in `add` and `FindModule`). -/
def kmOf (r : Registry) (sub : Bool) : KeyMap := if sub then r.subModules else r.modules

/-- The part of `ms.unrevisioned` for a kind. -/
def umOf (r : Registry) (sub : Bool) : KeyMap := if sub then r.unrevSubs else r.unrevModules

def withKm (r : Registry) (sub : Bool) (km : KeyMap) : Registry :=
  if sub then { r with subModules := km } else { r with modules := km }

def withUm (r : Registry) (sub : Bool) (um : KeyMap) : Registry :=
  if sub then { r with unrevSubs := um } else { r with unrevModules := um }

/-- `Modules.add` after the check of the name: everything from `mod := n.(*Module)` on. -/
def addChecked (r : Registry) (s : Stmt) : Except AddErr Registry :=
  let m : Mod := { seq := r.mods.length, stmt := s }
  let sub := m.isSub
  let kind := if sub then "submodule" else "module"
  let km := r.kmOf sub
  let name := m.name
  let full := m.fullName
  -- the new module can be looked up by its id from here on (Go: `mod` is a live pointer)
  let r1 : Registry := { r with mods := r.mods ++ [m] }
  if full == name then
    -- no revision: ranks below every revision of the same name
    match (r.umOf sub).get? name with
    | some _ => .error (.duplicate kind full)
    | none =>
      let um := (r.umOf sub).bind name m.seq
      let km := match km.get? name with
        | some _ => km
        | none => km.bind name m.seq
      .ok ((r1.withUm sub um).withKm sub km)
  else
    match km.get? full with
    | some _ => .error (.duplicate kind full)
    | none =>
      let km := km.bind full m.seq
      -- `if o := m[name]; o == nil || o.FullName() < fullName { m[name] = mod }`
      let km := match km.get? name with
        | none => km.bind name m.seq
        | some oid =>
          match r1.byId oid with
          | none => km     -- not reachable: every id in a table is the seq of a loaded module
          | some o => if strLt o.fullName full then km.bind name m.seq else km
      .ok (r1.withKm sub km)

/-- `Modules.add` for a statement already built as a module/submodule node (the `default:` arm of
the kind switch cannot be reached from `Parse`: the AST builder only returns `*Module` there).
A name containing `@` is refused before anything is written (`strings.Contains(name, "@")`).
On an error the registry is unchanged (Go has by then at most set `mod.Modules`). -/
def add (r : Registry) (s : Stmt) : Except AddErr Registry :=
  -- `name := n.NName()` is the argument of the statement (`Mod.name`)
  if s.arg.toList.contains '@' then
    .error (.badName (if (Mod.mk r.mods.length s).isSub then "submodule" else "module") s.arg)
  else r.addChecked s

/-- An accepted `add` passed the name check and is the rest of the function. -/
theorem add_ok {r r' : Registry} {s : Stmt} (h : r.add s = .ok r') :
    s.arg.toList.contains '@' = false ∧ r.addChecked s = .ok r' := by
  unfold add at h
  by_cases hc : s.arg.toList.contains '@' = true
  · rw [if_pos hc] at h; cases h
  · rw [if_neg hc] at h; exact ⟨Bool.eq_false_iff.mpr hc, h⟩

/-- For a name without `@`, `add` is the rest of the function. -/
theorem add_eq_addChecked {r : Registry} {s : Stmt} (h : s.arg.toList.contains '@' = false) :
    r.add s = r.addChecked s := by
  unfold add
  rw [if_neg (by rw [h]; exact Bool.false_ne_true)]

/-- A name with `@` is refused. -/
theorem add_badName {r : Registry} {s : Stmt} (h : s.arg.toList.contains '@' = true) :
    ∃ e, r.add s = .error e := by
  unfold add
  rw [if_pos h]
  exact ⟨_, rfl⟩

/-- Outcome of one load as `Modules.Parse` reports it. -/
abbrev LoadOutcome := Option AddErr

/-- Load statements one after the other into `r` (each is one `ms.add`); a rejected one leaves the
registry as it was.  Returns the final registry and, per load, the error if any. -/
def loadFrom (r : Registry) : List Stmt → Registry × List LoadOutcome
  | [] => (r, [])
  | s :: rest =>
    match r.add s with
    | .ok r' => let (rf, out) := loadFrom r' rest; (rf, none :: out)
    | .error e => let (rf, out) := loadFrom r rest; (rf, some e :: out)

/-- Load into a fresh `NewModules()`. -/
def loadAll (ss : List Stmt) : Registry × List LoadOutcome := loadFrom {} ss

/-- `Modules.Parse` on the statements of one source text (what parser and AST builder hand over):
each is added in turn, every one seeing those added before it — also its siblings of the same
text; when one is refused the whole text is refused (`restoreNames`: the caller keeps `r`). -/
def addText (r : Registry) (ss : List Stmt) : Except AddErr Registry := ss.foldlM (fun r s => r.add s) r

/-- Load texts (each a list of top-level statements) one after the other, each atomically.
Returns the final registry and, per text, the error of the first statement refused, if any. -/
def loadTextsFrom (r : Registry) : List (List Stmt) → Registry × List LoadOutcome
  | [] => (r, [])
  | t :: rest =>
    match r.addText t with
    | .ok r' => let (rf, out) := loadTextsFrom r' rest; (rf, none :: out)
    | .error e => let (rf, out) := loadTextsFrom r rest; (rf, some e :: out)

/-- Texts into a fresh `NewModules()`. -/
def loadTexts (ts : List (List Stmt)) : Registry × List LoadOutcome := loadTextsFrom {} ts

/-- `Modules.FindModule` for an import (`isInclude = false`) or include statement, in-memory part
only: reading a missing module from the search path is outside the model (the harness runs in
an empty directory with an empty path, where the read fails). -/
def findModule (r : Registry) (isInclude : Bool) (i : Stmt) : Option Mod :=
  let name := i.arg
  let rev := match i.argOf? "revision-date" with
    | some d => name ++ "@" ++ d
    | none => name
  let get := if isInclude then r.getSub else r.getModule
  -- `if n := m[rev]; n != nil { return n }; if n := m[name]; n != nil { return n }`; the reads from
  -- the search path that follow a miss are outside this function
  match get rev with
  | some m => some m
  | none => get name

/-- `FindModuleByPrefix(n, prefix)` where `root` is `RootNode(n)`. -/
def findModuleByPrefix (r : Registry) (root : Mod) (pfx : String) : Option Mod :=
  if pfx == "" || pfx == root.getPrefix then some root
  else match root.imports.find? (fun i => (i.argOf? "prefix") == some pfx) with
    | some i => r.findModule false i
    | none => none

/-- `module(n)`: the module a (sub)module root belongs to. `none` is Go's nil. -/
def owner (r : Registry) (root : Mod) : Option Mod :=
  match root.belongsTo? with
  | some b => r.getModule b
  | none => some root

/-- Distinct modules held in `ms.Modules` (each is usually bound under two keys). -/
def distinctModules (r : Registry) : List Mod :=
  r.mods.filter fun m => r.modules.any (·.2 == m.seq)

def distinctSubs (r : Registry) : List Mod :=
  r.mods.filter fun m => r.subModules.any (·.2 == m.seq)

end Registry

/-- Split `pfx:name` at the first colon (Go `getPrefix` = `strings.SplitN(s, ":", 2)`); written
over character lists so that the kernel can evaluate it in `decide` examples. -/
def splitPrefix (s : String) : String × String :=
  let cs := s.toList
  if cs.contains ':' then
    (String.ofList (cs.takeWhile (· != ':')), String.ofList ((cs.dropWhile (· != ':')).drop 1))
  else ("", s)

end Goyang.Model
