import Goyang.Model.Stmt
/-
Module registry and linkage (pkg/yang/modules.go: add, FindModule; yang.go: Module.Current,
FullName, GetPrefix; node.go: FindModuleByPrefix, module()).  Pure: a module "pointer" is the
load sequence number `seq`; the two Go maps are association lists (the first binding of a key is
the current one: `bind` replaces).
-/
namespace Goyang.Model

/-- A loaded module or submodule. -/
structure Mod where
  seq : Nat
  stmt : Stmt
  deriving Repr, Inhabited

namespace Mod

/-- Go: `Module.Kind()` is "submodule" iff `BelongsTo != nil`. -/
def isSub (m : Mod) : Bool := (m.stmt.one? "belongs-to").isSome

def name (m : Mod) : String := m.stmt.arg

/-- `Module.Current`: the greatest revision argument (byte-wise string order), "" if none. -/
def current (m : Mod) : String :=
  (m.stmt.all "revision").foldl (fun rev r => if r.arg > rev then r.arg else rev) ""

/-- `Module.FullName`. -/
def fullName (m : Mod) : String :=
  let rev := m.current
  if rev != "" then m.name ++ "@" ++ rev else m.name

/-- `Module.getPrefix`: own prefix statement for modules, the belongs-to's for submodules. -/
def prefixStmt? (m : Mod) : Option Stmt :=
  match m.stmt.one? "belongs-to" with
  | some b => b.one? "prefix"
  | none => m.stmt.one? "prefix"

/-- `Module.GetPrefix` ("" when there is none). -/
def getPrefix (m : Mod) : String := (m.prefixStmt?.map (·.arg)).getD ""

def belongsTo? (m : Mod) : Option String := m.stmt.argOf? "belongs-to"

def imports (m : Mod) : List Stmt := m.stmt.all "import"
def includes (m : Mod) : List Stmt := m.stmt.all "include"

end Mod

abbrev KeyMap := List (String × Nat)

def KeyMap.get? (m : KeyMap) (k : String) : Option Nat := (m.find? (·.1 == k)).map (·.2)

/-- Go map assignment `m[k] = v`. -/
def KeyMap.bind (m : KeyMap) (k : String) (v : Nat) : KeyMap :=
  if m.any (·.1 == k) then m.map (fun kv => if kv.1 == k then (k, v) else kv) else m ++ [(k, v)]

structure Registry where
  mods : List Mod := []            -- everything added so far, in load order (seq = index)
  modules : KeyMap := []           -- ms.Modules
  subModules : KeyMap := []        -- ms.SubModules
  deriving Repr, Inhabited

namespace Registry

def byId (r : Registry) (id : Nat) : Option Mod := r.mods.find? (·.seq == id)

def getModule (r : Registry) (key : String) : Option Mod := (r.modules.get? key).bind r.byId
def getSub (r : Registry) (key : String) : Option Mod := (r.subModules.get? key).bind r.byId

inductive AddErr | duplicate (kind fullName : String)
  deriving Repr

/-- `Modules.add` for a statement already built as a module/submodule node. -/
def add (r : Registry) (s : Stmt) : Except AddErr Registry :=
  let m : Mod := { seq := r.mods.length, stmt := s }
  let km := if m.isSub then r.subModules else r.modules
  let full := m.fullName
  match km.get? full with
  | some _ => .error (.duplicate (if m.isSub then "submodule" else "module") full)
  | none =>
    let km := km.bind full m.seq
    let km :=
      if full == m.name then km else
      match (km.get? m.name).bind r.byId with
      | none => km.bind m.name m.seq
      | some o => if o.fullName < full then km.bind m.name m.seq else km
    let r := { r with mods := r.mods ++ [m] }
    .ok (if m.isSub then { r with subModules := km } else { r with modules := km })

/-- `Modules.FindModule` for an import (`isInclude = false`) or include statement, in-memory part
only: reading a missing module from the search path is outside the model (the harness runs in
an empty directory with an empty path, where the read fails). -/
def findModule (r : Registry) (isInclude : Bool) (i : Stmt) : Option Mod :=
  let name := i.arg
  let rev := match i.argOf? "revision-date" with
    | some d => name ++ "@" ++ d
    | none => name
  let get := if isInclude then r.getSub else r.getModule
  match get rev with
  | some m => some m
  | none => get name

/-- `FindModuleByPrefix(n, prefix)` where `root` is `RootNode(n)`. -/
def findModuleByPrefix (r : Registry) (root : Mod) (pfx : String) : Option Mod :=
  if pfx == "" || pfx == root.getPrefix then some root
  else match root.imports.find? (fun i => (i.argOf? "prefix") == some pfx) with
    | some i => r.findModule false i
    | none => none

/-- `module(n)`: the module a (sub)module root belongs to. `none` is Go's nil. -/
def owner (r : Registry) (root : Mod) : Option Mod :=
  match root.belongsTo? with
  | some b => r.getModule b
  | none => some root

/-- Distinct modules held in `ms.Modules` (each is usually bound under two keys). -/
def distinctModules (r : Registry) : List Mod :=
  r.mods.filter fun m => r.modules.any (·.2 == m.seq)

def distinctSubs (r : Registry) : List Mod :=
  r.mods.filter fun m => r.subModules.any (·.2 == m.seq)

end Registry

/-- Split `pfx:name` at the first colon (Go `getPrefix`). -/
def splitPrefix (s : String) : String × String :=
  match s.splitOn ":" with
  | [_] => ("", s)
  | p :: rest => (p, ":".intercalate rest)
  | [] => ("", s)

end Goyang.Model
