import Goyang.Model.Process
/-
Canonical dump of a `Process` outcome, the text both sides of the correspondence print.
One record per node, depth first, children in name order, then rpc input, then output:

  N <module full name> <path> kind=… dir=0|1 rpc=0|1 cfg=… mand=… def=[hex,…] units=hex key=hex
    la=min:max:user|- type=hex|- ro=0|1 ns=hex im=hex|!

Records are separated by " ; ".  Errors: `E file:line:col:class`.  Each property compares its own
projection of these fields (harness/lib/dump.go).
-/
namespace Goyang.Model
open Goyang.Proto

def hexS (s : String) : String := encStr s

def dumpNode (reg : Registry) (f : Forest) (modName : String) (root : Entry) (loc : Loc) (e : Entry) : String :=
  let d := e.d
  let la := match d.listAttr with
    | some la => s!"{la.min}:{la.max}:{if la.orderedByUser then 1 else 0}"
    | none => "-"
  let ty := match d.type with | some t => hexS t.dump | none => "-"
  let im := match instantiatingModuleAt reg f loc with | some m => hexS m | none => "!"
  s!"N {hexS modName} {hexS (root.pathString loc.2)} kind={d.kind.name} dir={if d.hasDir then 1 else 0} " ++
  s!"rpc={if d.isRpc then 1 else 0} cfg={d.config.name} mand={d.mandatory.name} " ++
  s!"def=[{",".intercalate (d.default.map hexS)}] units={hexS d.units} key={hexS d.key} la={la} type={ty} " ++
  s!"ro={if root.readOnlyAt loc.2 then 1 else 0} ns={hexS (namespaceAt reg f loc)} im={im}"

/-- Depth-first walk in canonical order. Recursion on fuel (the depth of the tree). -/
def dumpTree (reg : Registry) (f : Forest) (modName : String) (root : Entry) (id : Nat) :
    (fuel : Nat) → (path : Path) → (e : Entry) → List String
  | 0, _, _ => ["N out-of-fuel"]
  | fuel + 1, path, e =>
    let kids := sortBy (fun (a b : Entry) => a.name < b.name) e.dir
    dumpNode reg f modName root (id, path) e ::
      ((kids.map fun c => dumpTree reg f modName root id fuel (path ++ [.child c.name]) c).flatten ++
       (e.inp.map fun c => dumpTree reg f modName root id fuel (path ++ [.input]) c).flatten ++
       (e.out.map fun c => dumpTree reg f modName root id fuel (path ++ [.output]) c).flatten)

def entryDepth : Entry → Nat
  | .mk _ c i o => 1 + max (depthL c) (max (depthL i) (depthL o))
where depthL : List Entry → Nat
  | [] => 0
  | e :: es => max (entryDepth e) (depthL es)

/-- The whole outcome: errors, then (only when there are none) every module's tree. -/
def dumpOutcome (o : Outcome) : String :=
  let errs := o.errors.map fun e => "E " ++ e.render
  let trees :=
    if !o.errors.isEmpty then [] else
    let mods := sortBy (fun (a b : Mod) => a.fullName < b.fullName) o.reg.distinctModules
    (mods.map fun m =>
      match o.forest.tree? m.seq with
      | some root => dumpTree o.reg o.forest m.fullName root m.seq (entryDepth root + 1) [] root
      | none => [s!"N {hexS m.fullName} missing"]).flatten
  " ; ".intercalate (errs ++ trees)

end Goyang.Model
