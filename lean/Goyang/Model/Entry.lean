import Goyang.Model.Ctx
import Goyang.Model.Err
/-
Impl model of pkg/yang/entry.go (ToEntry, add, merge, dup, importErrors, FindGrouping) as pure
rose trees.  `Parent` pointers are not stored: whatever Go computes by walking parents is computed
along the path from the root (Model/Find.lean).  Pointer sharing is what C04/C06 check on the Go
side; after the `dup` repair a copy is a copy, which is what a pure value is.

Type resolution is a parameter (`TypeRes`), supplied by Model/Types.lean.
-/
namespace Goyang.Model

inductive Kind | leaf | directory | anydata | anyxml | case_ | choice | input | notification | output | deviate
  deriving Repr, BEq, DecidableEq, Inhabited

def Kind.name : Kind → String
  | .leaf => "Leaf" | .directory => "Directory" | .anydata => "AnyData" | .anyxml => "AnyXML"
  | .case_ => "Case" | .choice => "Choice" | .input => "Input" | .notification => "Notification"
  | .output => "Output" | .deviate => "Deviate"

inductive Tri | unset | true_ | false_
  deriving Repr, BEq, DecidableEq, Inhabited

def Tri.name : Tri → String | .unset => "unset" | .true_ => "true" | .false_ => "false"

def maxU64 : Nat := 18446744073709551615

structure ListAttr where
  min : Nat := 0
  max : Nat := maxU64
  orderedByUser : Bool := false
  deriving Repr, BEq, DecidableEq, Inhabited

/-- What the entry model needs to know about a resolved type: its canonical dump (compared with
Go's), and the two facts `DefaultValues` reads. `none` = Go's nil `Entry.Type`. -/
structure TypeInfo where
  dump : String
  hasDefault : Bool := false
  default : String := ""
  deriving Repr, BEq, Inhabited

/-- Type resolution as seen from the entry layer: registry, root module of the referencing
statement, ancestors of the `type` statement (nearest first), the `type` statement. -/
structure TypeRes where
  resolve : Registry → Mod → List Stmt → Stmt → Option TypeInfo × List Err

/-- Per-node data of an `Entry` (everything but the children). -/
structure EData where
  name : String := ""
  kind : Kind := .directory
  hasDir : Bool := true            -- Go: Dir != nil
  config : Tri := .unset
  mandatory : Tri := .unset
  default : List String := []
  description : String := ""
  units : String := ""
  key : String := ""
  listAttr : Option ListAttr := none
  type : Option TypeInfo := none
  isRpc : Bool := false            -- Go: RPC != nil
  ns : Option String := none       -- Go: the unexported `namespace` stamp (its Name)
  errors : List Err := []
  node : Stmt := Inhabited.default -- Go: Node (its source statement)
  nodeMod : Nat := 0               -- seq of RootNode(Node)
  nodeKw : String := ""            -- kind of the AST node (`leaf` for the synthetic leaf of a leaf-list, `case` for an implicit case)
  -- deviate entries only
  hasMin : Bool := false
  hasMax : Bool := false
  deriving Repr, Inhabited

/-- A schema tree node: data, `Dir` children (in insertion order; keys are the children's
names and are unique), rpc input and output (zero or one element each). -/
inductive Entry where
  | mk (d : EData) (dir : List Entry) (inp : List Entry) (out : List Entry)
  deriving Repr, Inhabited

namespace Entry

def d : Entry → EData | .mk d _ _ _ => d
def dir : Entry → List Entry | .mk _ c _ _ => c
def inp : Entry → List Entry | .mk _ _ i _ => i
def out : Entry → List Entry | .mk _ _ _ o => o
def name (e : Entry) : String := e.d.name

def withD (e : Entry) (f : EData → EData) : Entry := match e with | .mk d c i o => .mk (f d) c i o
def withDir (e : Entry) (c : List Entry) : Entry := match e with | .mk d _ i o => .mk d c i o

def child? (e : Entry) (k : String) : Option Entry := e.dir.find? (·.name == k)

def addErr (e : Entry) (x : Err) : Entry := e.withD fun d => { d with errors := d.errors ++ [x] }
def addErrs (e : Entry) (xs : List Err) : Entry := e.withD fun d => { d with errors := d.errors ++ xs }

mutual
/-- All errors recorded in the tree (Go: `checkErrors`, which after the repair also visits rpc
input and output). -/
def allErrors : Entry → List Err
  | .mk d c i o => allErrorsL c ++ allErrorsL i ++ allErrorsL o ++ d.errors
def allErrorsL : List Entry → List Err
  | [] => []
  | e :: es => allErrors e ++ allErrorsL es
end

/-- Go: `e.importErrors(c)`: c's own errors, then those of its Dir and rpc subtrees. -/
def importErrors (e c : Entry) : Entry := e.addErrs (c.d.errors ++ allErrorsL c.dir ++ allErrorsL c.inp ++ allErrorsL c.out)

/-- Go: `e.add(key, value)`: a duplicate key is an error on `e` and the first child stays. -/
def add (e : Entry) (key : String) (v : Entry) : Entry :=
  match e.child? key with
  | some _ => e.addErr (Err.at_ e.d.node "duplicate-key")
  | none => e.withDir (e.dir ++ [v])

/-- Go: `e.merge(prefix, namespace, oe)`: errors imported first; each child of `oe` is copied,
stamped with `ns` when given, and added unless the name is taken (then an error positioned at
`oe`'s node is recorded on `e` and the child is dropped). -/
def merge (e : Entry) (ns : Option String) (oe : Entry) : Entry :=
  let e := e.importErrors oe
  oe.dir.foldl (fun e v =>
    let v := match ns with
      | some n => v.withD fun d => { d with ns := some n }
      | none => v
    match e.child? v.name with
    | some _ => e.addErr (Err.at_ oe.d.node "duplicate-node")
    | none => e.withDir (e.dir ++ [v])) e

end Entry

/-- Reverse struct field order of the AST node types (ToEntry walks the fields from the last to
the second), reduced to the keywords ToEntry acts on. Tied to the source by the regenerated AST
schema (Props/C04: `fieldOrder_matches_schema`). -/
def fieldOrder : String → List String
  | "module" | "submodule" =>
    ["uses", "rpc", "prefix", "notification", "list", "leaf-list", "leaf", "include", "identity", "grouping",
     "deviation", "description", "container", "choice", "augment", "anyxml", "anydata"]
  | "container" =>
    ["uses", "notification", "list", "leaf-list", "leaf", "grouping", "description", "container", "config",
     "choice", "anyxml", "action", "anydata"]
  | "list" =>
    ["uses", "notification", "list", "leaf-list", "leaf", "key", "grouping", "description", "container", "config",
     "choice", "anyxml", "action", "anydata"]
  | "choice" =>
    ["mandatory", "list", "leaf-list", "leaf", "description", "default", "container", "config", "case", "anyxml", "anydata"]
  | "case" =>
    ["uses", "list", "leaf-list", "leaf", "description", "container", "choice", "anyxml", "anydata"]
  | "anyxml" | "anydata" => ["mandatory", "description", "config"]
  | "grouping" =>
    ["uses", "notification", "list", "leaf-list", "leaf", "grouping", "description", "container", "choice", "anyxml",
     "action", "anydata"]
  | "rpc" | "action" => ["output", "input", "grouping", "description"]
  | "input" | "output" =>
    ["uses", "list", "leaf-list", "leaf", "grouping", "container", "choice", "anyxml", "anydata"]
  | "notification" =>
    ["uses", "list", "leaf-list", "leaf", "grouping", "description", "container", "choice", "anyxml", "anydata"]
  | "augment" =>
    ["uses", "notification", "list", "leaf-list", "leaf", "description", "container", "choice", "case", "anyxml",
     "action", "anydata"]
  | "deviation" => ["deviate", "description"]
  | "deviate" => ["units", "type", "min-elements", "max-elements", "mandatory", "default", "config"]
  | _ => []

/-- Go: `tristateValue`: the error names the node being converted. -/
def tristate (n : Stmt) (v : Option Stmt) : Tri × List Err :=
  match v with
  | none => (.unset, [])
  | some v =>
    if v.arg == "true" then (.true_, [])
    else if v.arg == "false" then (.false_, [])
    else (.unset, [Err.at_ n "bad-tristate"])

/-- strconv.ParseUint(s, 10, 64) on a decimal digit string (no sign, no underscores). -/
def parseUint10 (s : String) : Option Nat :=
  if s.isEmpty then none
  else if s.toList.all (fun c => '0' ≤ c ∧ c ≤ '9') then
    let v := s.toList.foldl (fun a c => a * 10 + (c.toNat - 48)) 0
    if v ≤ maxU64 then some v else none
  else none

/-- Go: `semCheckMaxElements`; on a parse error Go stores what ParseUint returned (0, or the
maximum on overflow). -/
def semMax (v : Option Stmt) : Nat × List Err :=
  match v with
  | none => (maxU64, [])
  | some v =>
    if v.arg == "unbounded" then (maxU64, []) else
    match parseUint10 v.arg with
    | none =>
      let overflow := !v.arg.isEmpty && v.arg.toList.all (fun c => '0' ≤ c ∧ c ≤ '9')
      (if overflow then maxU64 else 0, [Err.at_ v "bad-max-elements"])
    | some 0 => (0, [Err.at_ v "bad-max-elements"])
    | some n => (n, [])

/-- Go: `semCheckMinElements`. -/
def semMin (v : Option Stmt) : Nat × List Err :=
  match v with
  | none => (0, [])
  | some v =>
    match parseUint10 v.arg with
    | none =>
      let overflow := !v.arg.isEmpty && v.arg.toList.all (fun c => '0' ≤ c ∧ c ≤ '9')
      (if overflow then maxU64 else 0, [Err.at_ v "bad-min-elements"])
    | some n => (n, [])

/-- List attributes of a list / leaf-list statement: ordered-by, max-elements, min-elements, in
the order Go checks them. -/
def listAttrOf (s : Stmt) : ListAttr × List Err :=
  let (ob, e1) := match s.one? "ordered-by" with
    | none => (false, [])
    | some o =>
      if o.arg == "user" then (true, [])
      else if o.arg == "system" then (false, [])
      else (false, [Err.at_ o "bad-ordered-by"])
  let (mx, e2) := semMax (s.one? "max-elements")
  let (mn, e3) := semMin (s.one? "min-elements")
  ({ min := mn, max := mx, orderedByUser := ob }, e1 ++ e2 ++ e3)

/-- Mutable state threaded through `ToEntry` of module-level nodes: the `mergedSubmodule` keys
and the cache of module / submodule entries (their construction depends on that state, so the
cached value, not a recomputation, is what later callers see). -/
structure TState where
  merged : List String := []
  cache : List (Nat × Entry) := []
  /-- Go's entry cache restricted to groupings (the only other nodes converted more than once):
  a grouping's entry is whatever its first conversion produced, including a cycle error that
  depends on what was in progress then. Keyed by module seq and statement position. -/
  gcache : List ((Nat × Nat × Nat) × Entry) := []
  /-- `e.Augments` of each (sub)module entry: the converted augment statements, parent = that entry. -/
  augs : List (Nat × List Entry) := []
  deriving Inhabited

structure Opts where
  ignoreCircular : Bool := false
  ignoreNotSupported : Bool := false
  deriving Repr, Inhabited

/-- Identity of an AST node for the in-progress set: module seq and statement position. -/
abbrev NodeId := Nat × Nat × Nat
def nodeId (root : Mod) (s : Stmt) : NodeId := (root.seq, s.line, s.col)

section Find
variable (reg : Registry)
-- `linked`: seqs of the modules whose import / include statements `Modules.include` linked (Go
-- follows `i.Module`, which stays nil for a (sub)module that no loaded module reaches)
variable (linked : List Nat)

/-- Go: `trimLocalPrefix`. -/
def trimLocalPrefix (root : Mod) (name : String) : String :=
  let pfx := root.getPrefix
  let pfx := if pfx != "" then pfx ++ ":" else pfx
  if pfx != "" && name.startsWith pfx then (name.drop pfx.length).toString else name

abbrev GroupingRef := Stmt × Mod × List Stmt

mutual
/-- Go: `FindGrouping(n, name, seen)`. `scope` = n and its ancestors, nearest first, ending with
the (sub)module statement of `root`. Returns the grouping, its root module and the ancestor chain
it was found in. Includes/imports whose module is not loaded are skipped (Go: never linked). Every
recursive call spends fuel; `findGrouping` is given more fuel than the walk can use
(see `groupingFuel`). -/
def findGrouping (fuel : Nat) (root : Mod) (scope : List Stmt) (name : String) (seen : List String) :
    Option GroupingRef × List String :=
  match fuel with
  | 0 => (none, seen)
  | fuel + 1 => fgScope fuel root scope (trimLocalPrefix root name) seen

/-- The loop `for n != nil { … n = n.ParentNode() }`. -/
def fgScope (fuel : Nat) (root : Mod) (scope : List Stmt) (name : String) (seen : List String) :
    Option GroupingRef × List String :=
  match fuel with
  | 0 => (none, seen)
  | fuel + 1 =>
    match scope with
    | [] => (none, seen)
    | n :: up =>
      match (n.all "grouping").find? (·.arg == name) with
      | some g => (some (g, root, n :: up), seen)
      | none =>
        let isMod := n.kw == "module" || n.kw == "submodule"
        -- a name that still carries a prefix is resolved only by this (sub)module's own imports
        let bare := !name.contains ':'
        -- unlinked import / include statements are skipped
        let isMod' := isMod
        let isMod := isMod && linked.contains root.seq
        match fgImports fuel (if isMod then n.all "import" else []) name seen with
        | (some r, seen) => (some r, seen)
        | (none, seen) =>
          match fgIncludes fuel (if isMod && bare then n.all "include" else []) name seen with
          | (some r, seen) => (some r, seen)
          | (none, seen) =>
            -- a submodule also sees the groupings of its owner and of the owner's other submodules
            let viaOwner : Option GroupingRef × List String :=
              if isMod' && bare && root.isSub then
                match (root.belongsTo?.bind reg.getModule) with
                | some owner =>
                  if seen.contains owner.name then (none, seen)
                  else findGrouping fuel owner [owner.stmt] name (seen ++ [owner.name])
                | none => (none, seen)
              else (none, seen)
            match viaOwner with
            | (some r, seen) => (some r, seen)
            | (none, seen) => fgScope fuel root up name seen

def fgImports (fuel : Nat) (imports : List Stmt) (name : String) (seen : List String) :
    Option GroupingRef × List String :=
  match fuel with
  | 0 => (none, seen)
  | fuel + 1 =>
    match imports with
    | [] => (none, seen)
    | i :: rest =>
      let ip := (i.argOf? "prefix").getD ""
      let hit : Option GroupingRef × List String :=
        if name.startsWith (ip ++ ":") && !((name.drop (ip.length + 1)).toString.contains ':') then
          match reg.findModule false i with
          | some im => findGrouping fuel im [im.stmt] (name.drop (ip.length + 1)).toString seen
          | none => (none, seen)
        else (none, seen)
      match hit with
      | (some r, seen) => (some r, seen)
      | (none, seen) => fgImports fuel rest name seen

def fgIncludes (fuel : Nat) (includes : List Stmt) (name : String) (seen : List String) :
    Option GroupingRef × List String :=
  match fuel with
  | 0 => (none, seen)
  | fuel + 1 =>
    match includes with
    | [] => (none, seen)
    | i :: rest =>
      let hit : Option GroupingRef × List String :=
        match reg.findModule true i with
        | none => (none, seen)
        | some im =>
          if seen.contains im.name then (none, seen)
          else findGrouping fuel im [im.stmt] name (seen ++ [im.name])
      match hit with
      | (some r, seen) => (some r, seen)
      | (none, seen) => fgIncludes fuel rest name seen
end

end Find

end Goyang.Model
