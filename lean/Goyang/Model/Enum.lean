/-
Impl model of `EnumType` (`pkg/yang/types_builtin.go`: NewEnumType, NewBitfield, Set, SetNext, Name, Value,
IsDefined, Names, Values, NameMap, ValueMap) and of the `set` closure and the enum/bit loops of
`(*Type).resolve` (`pkg/yang/types.go`), as the code is after repair 85b770e (the first member gets 0,
the running maximum is the highest value so far also below zero, `SetNext` compares with `e.max`).

Go maps are association lists with unique keys: `mapSet` removes an older binding of the key and puts
the new one in front; views sort by key, so the representation order never shows.
`int64` arithmetic (`e.last+1`) is written with its two's-complement wrap.  Core Lean only.
-/
import Goyang.Model.Number

namespace Goyang.Model.Enum
open Goyang.Model.Number (NumErr toI64 toU64 parseInt toInt)

abbrev Name := List UInt8

/-- error classes of `Set` / `SetNext` / the `set` closure (wording is never compared) -/
inductive EnumErr
  | dupName     -- "field %s already assigned"
  | dupValue    -- "fields %s and %s conflict on value %d"
  | tooSmall    -- "value %d for %s too small"
  | tooLarge    -- "value %d for %s too large"
  | needValue   -- "must specify a value since previous enum is the maximum value allowed"
  | num (e : NumErr)   -- ParseInt / Int() failed in the `set` closure
deriving Repr, DecidableEq, Inhabited

def EnumErr.name : EnumErr → String
  | .dupName => "dupName" | .dupValue => "dupValue" | .tooSmall => "tooSmall" | .tooLarge => "tooLarge"
  | .needValue => "needValue" | .num e => "num." ++ e.name

/-- Go map lookup -/
def mapGet {α β : Type} [DecidableEq α] (m : List (α × β)) (k : α) : Option β :=
  match m with
  | [] => none
  | (k', v) :: rest => if k' = k then some v else mapGet rest k

/-- Go map assignment `m[k] = v` -/
def mapSet {α β : Type} [DecidableEq α] (m : List (α × β)) (k : α) (v : β) : List (α × β) :=
  (k, v) :: m.filter (fun p => p.1 ≠ k)

/-- Go: `EnumType` -/
structure EnumType where
  last : Int                          -- maximum value assigned thus far
  min : Int                           -- minimum value allowed
  max : Int                           -- maximum value allowed
  unique : Bool                       -- numeric values must be unique (enums)
  toString : List (Int × Name)        -- ToString map[int64]string
  toInt : List (Name × Int)           -- ToInt    map[string]int64
deriving Repr, DecidableEq, Inhabited

def MaxEnum : Int := 2147483647
def MinEnum : Int := -2147483648
def MaxBitfieldSize : Int := 4294967296

/-- Go: `NewEnumType()` -/
def newEnumType : EnumType :=
  { last := -1, min := MinEnum, max := MaxEnum, unique := true, toString := [], toInt := [] }

/-- Go: `NewBitfield()` -/
def newBitfield : EnumType :=
  { last := -1, min := 0, max := MaxBitfieldSize - 1, unique := false, toString := [], toInt := [] }

/-- Go: `(*EnumType).Set(name, value)`; on an error the receiver is unchanged -/
def EnumType.set (e : EnumType) (name : Name) (value : Int) : Except EnumErr EnumType :=
  if (mapGet e.toInt name).isSome then .error .dupName
  else if e.unique && (mapGet e.toString value).isSome then .error .dupValue
  else if value < e.min then .error .tooSmall
  else if value > e.max then .error .tooLarge
  else
    let last := if e.toInt.length = 0 || value ≥ e.last then value else e.last
    .ok { e with last := last, toString := mapSet e.toString value name, toInt := mapSet e.toInt name value }

/-- Go: `(*EnumType).SetNext(name)`; `e.last+1` is an `int64` addition -/
def EnumType.setNext (e : EnumType) (name : Name) : Except EnumErr EnumType :=
  if e.toInt.length = 0 then e.set name 0          -- the first member is assigned zero
  else if e.last = e.max then .error .needValue
  else e.set name (toI64 (toU64 (e.last + 1)))

/-- what a member says about its value -/
inductive MemberVal
  | implicit                 -- no `value` / `position` statement
  | explicit (i : Int)       -- parsed and narrowed to int64
  | bad (e : NumErr)         -- ParseInt or Int() failed
deriving Repr, DecidableEq

structure Member where
  name : Name
  val : MemberVal
deriving Repr, DecidableEq

/-- the argument handling of the `set` closure: nil ⇒ SetNext, else `ParseInt` then `Int()` -/
def parseMember (value : Option (List UInt8)) : MemberVal :=
  match value with
  | none => .implicit
  | some s =>
    match parseInt s with
    | .error e => .bad e
    | .ok n =>
      match toInt n with
      | .error e => .bad e
      | .ok i => .explicit i

/-- Go: the `set` closure of `(*Type).resolve` (after the argument is parsed) -/
def EnumType.step (e : EnumType) (m : Member) : Except EnumErr EnumType :=
  match m.val with
  | .implicit => e.setNext m.name
  | .explicit i => e.set m.name i
  | .bad err => .error (.num err)

/-- Go: `for _, e := range t.Enum { if err := set(...); err != nil { errs = append(errs, ...) } }`:
    a member whose `set` fails is skipped and an error recorded (with the member's index);
    also what a caller does who issues `Set`/`SetNext` calls one after the other -/
def foldFrom (e : EnumType) (idx : Nat) : List Member → EnumType × List (Nat × EnumErr)
  | [] => (e, [])
  | m :: rest =>
    match e.step m with
    | .ok e' => foldFrom e' (idx + 1) rest
    | .error err =>
      let (ef, errs) := foldFrom e (idx + 1) rest
      (ef, (idx, err) :: errs)

def fold (e : EnumType) (ms : List Member) : EnumType × List (Nat × EnumErr) := foldFrom e 0 ms

/-- the members as they come from YANG text -/
def foldText (e : EnumType) (ms : List (Name × Option (List UInt8))) : EnumType × List (Nat × EnumErr) :=
  fold e (ms.map fun (n, v) => { name := n, val := parseMember v })

/-! ### views -/

/-- byte-wise lexicographic order (Go string comparison, `sort.Strings`) -/
def nameLt : Name → Name → Bool
  | [], [] => false
  | [], _ :: _ => true
  | _ :: _, [] => false
  | a :: as, b :: bs => if a.toNat < b.toNat then true else if b.toNat < a.toNat then false else nameLt as bs

def insertSorted {α : Type} (lt : α → α → Bool) (x : α) : List α → List α
  | [] => [x]
  | y :: ys => if lt y x then y :: insertSorted lt x ys else x :: y :: ys

/-- insertion sort (the sorted result of sorting distinct keys, or equal integers, is unique) -/
def sortBy {α : Type} (lt : α → α → Bool) (l : List α) : List α := l.foldr (insertSorted lt) []

/-- Go: `Names()` -/
def EnumType.names (e : EnumType) : List Name := sortBy nameLt (e.toInt.map (·.1))

/-- Go: `Values()` (one entry per name, so a position shared by two bits appears twice) -/
def EnumType.values (e : EnumType) : List Int := sortBy (fun a b => decide (a < b)) (e.toInt.map (·.2))

/-- Go: `NameMap()`, listed by ascending name -/
def EnumType.nameMap (e : EnumType) : List (Name × Int) := sortBy (fun a b => nameLt a.1 b.1) e.toInt

/-- Go: `ValueMap()`, listed by ascending value -/
def EnumType.valueMap (e : EnumType) : List (Int × Name) := sortBy (fun a b => decide (a.1 < b.1)) e.toString

/-- Go: `Name(value)`: the empty string when absent -/
def EnumType.nameOf (e : EnumType) (v : Int) : Name := (mapGet e.toString v).getD []

/-- Go: `Value(name)`: 0 when absent -/
def EnumType.valueOf (e : EnumType) (n : Name) : Int := (mapGet e.toInt n).getD 0

/-- Go: `IsDefined(name)` -/
def EnumType.isDefined (e : EnumType) (n : Name) : Bool := (mapGet e.toInt n).isSome

end Goyang.Model.Enum
