import Goyang.Model.Stmt
/-
Errors as the correspondence compares them: an optional source position (the leading
`file:line:col:` of the Go message) and a class from the fixed table in
harness/lib/errclass.go.  Wording is never compared.
-/
namespace Goyang.Model

structure Err where
  file : String := ""
  line : Nat := 0
  col : Nat := 0
  cls : String
  deriving Repr, BEq, Inhabited, DecidableEq

namespace Err

/-- An error whose message starts with `Source(n)` of statement `s`. -/
def at_ (s : Stmt) (cls : String) : Err := { file := s.file, line := s.line, col := s.col, cls := cls }

/-- An error without a position. -/
def bare (cls : String) : Err := { cls := cls }

/-- Canonical rendering `file:line:col:class` (`-:0:0:class` without a position). -/
def render (e : Err) : String :=
  (if e.file.isEmpty then "-" else e.file) ++ s!":{e.line}:{e.col}:{e.cls}"

end Err
end Goyang.Model
