/-
Impl model of `errorSort`, `sortedErrors.Less`, `nless` (pkg/yang/entry.go, as repaired by
ba2230f and the follow-up that lets the whole message decide when both messages run out of
fields at the same place) on error *messages*: a Go `error` produced by `fmt.Errorf` without
`%w` / `errors.New` is a `*errors.errorString`, so `reflect.DeepEqual` on two of them is equality
of the message strings (pkg/yang uses no other error type: checked by grep for `%w` and
`Error() string` in the correspondence runner's notes).

Messages are Go strings, i.e. byte strings: `List UInt8`.  Core Lean only.

Also the comparator as it was before the repair (`nlessOld`, `lessOld`): kept to document defect
D24/D37 (`Props.C05.less_old_not_transitive`).
-/
namespace Goyang.Model.ErrorSort

abbrev Msg := List UInt8

def COLON : UInt8 := 58
def MINUS : UInt8 := 45
def PLUS : UInt8 := 43

/-- Go's `a < b` on strings: byte-wise lexicographic, a proper prefix comes first. -/
def bytesLt : Msg → Msg → Bool
  | _, [] => false
  | [], _ :: _ => true
  | a :: as, b :: bs => a < b || (a == b && bytesLt as bs)

/-- `strings.Cut(s, ":")`: the text before the first colon and the text after it. -/
def cut : Msg → Option (Msg × Msg)
  | [] => none
  | b :: rest =>
    if b = COLON then some ([], rest)
    else match cut rest with
      | some (a, r) => some (b :: a, r)
      | none => none

/-- The pieces of `strings.SplitN(s, ":", n + 1)` after the first one are `splitRest n rest`;
`splitN` below puts both together.  The last piece is the unsplit remainder. -/
def splitMore : Nat → Msg → Msg × List Msg
  | 0, s => (s, [])
  | n + 1, s =>
    match cut s with
    | none => (s, [])
    | some (a, rest) => let (b, more) := splitMore n rest; (a, b :: more)

/-- `errorSplitCount`. -/
def errorSplitCount : Nat := 4

/-- `strings.SplitN(s, ":", 4)` as first field and the (at most three) further fields.  Go's
result is never empty for a positive count (`SplitN("", ":", 4) = [""]`), which is what makes
`fi[0]` safe: here that is the shape of the result. -/
def fields (s : Msg) : Msg × List Msg := splitMore (errorSplitCount - 1) s

def isDigit (b : UInt8) : Bool := 48 ≤ b && b ≤ 57

/-- The magnitude of a digit string. -/
def digitsVal (ds : Msg) : Nat := ds.foldl (fun a d => a * 10 + (d.toNat - 48)) 0

/-- `strconv.Atoi(s)` with a 64-bit `int`; `none` = the error is not nil (syntax or range).
Both code paths of Atoi (the fast path for fewer than 19 bytes and `ParseInt(s, 10, 0)`) accept
exactly: an optional `+` or `-`, one or more decimal digits (no underscores in base 10), value
in [-2^63, 2^63 - 1]. -/
def atoi (s : Msg) : Option Int :=
  let (neg, ds) : Bool × Msg := match s with
    | b :: r => if b = MINUS then (true, r) else if b = PLUS then (false, r) else (false, s)
    | [] => (false, s)
  if ds.isEmpty then none
  else if ds.all isDigit then
    let v := digitsVal ds
    if neg then (if v ≤ 9223372036854775808 then some (-(v : Int)) else none)
    else (if v < 9223372036854775808 then some (v : Int) else none)
  else none

/-- `nless(a, b)` after the repair: numbers before text; -1 / 0 / 1 as `Ordering`. -/
def nless (a b : Msg) : Ordering :=
  match atoi a, atoi b with
  | some an, some bn => if an < bn then .lt else if an > bn then .gt else .eq
  | some _, none => .lt
  | none, some _ => .gt
  | none, none => if bytesLt a b then .lt else if bytesLt b a then .gt else .eq

/-- The loop `for k := 1; k < errorSplitCount; k++` of `Less` on the fields that are left, with
`n = errorSplitCount - k` iterations to go; `si`, `sj` are the whole messages. -/
def lessLoop (si sj : Msg) : Nat → List Msg → List Msg → Bool
  | 0, _, _ => bytesLt si sj                 -- `return s[i].s < s[j].s` after the loop
  | n + 1, fi, fj =>
    match fi, fj with
    | [], [] => bytesLt si sj                -- case len(fi) == k && len(fj) == k
    | _ :: _, [] => false                    -- case len(fj) == k
    | [], _ :: _ => true                     -- case len(fi) == k
    | a :: as, b :: bs =>
      match nless a b with
      | .lt => true
      | .gt => false
      | .eq => lessLoop si sj n as bs

/-- `sortedErrors.Less` on two messages. -/
def less (si sj : Msg) : Bool :=
  let (fi0, fi) := fields si
  let (fj0, fj) := fields sj
  if bytesLt fi0 fj0 then true
  else if bytesLt fj0 fi0 then false
  else lessLoop si sj (errorSplitCount - 1) fi fj

/-- The de-duplication loop of `errorSort`: an element equal to the last one kept is skipped. -/
def dedupFrom (last : Msg) : List Msg → List Msg
  | [] => []
  | x :: t => if x = last then dedupFrom last t else x :: dedupFrom x t

def dedupAdj : List Msg → List Msg
  | [] => []
  | x :: t => x :: dedupFrom x t

/-- What `sort.IsSorted` checks: no element is `less` than its predecessor. -/
def AdjSorted : List Msg → Prop
  | [] => True
  | [_] => True
  | a :: b :: t => less b a = false ∧ AdjSorted (b :: t)

/-- `r` is a possible return value of Go's `errorSort(l)`.  `sort.Sort` is not stable and its
algorithm is not part of its contract: all that is assumed of it is that it leaves a permutation
`p` of its input for which `sort.IsSorted` holds. -/
def IsResult (l r : List Msg) : Prop :=
  match l with
  | [] => r = []
  | [x] => r = [x]
  | _ => ∃ p, p.Perm l ∧ AdjSorted p ∧ r = dedupAdj p

/-- A particular sort (insertion from the right). -/
def ins (x : Msg) : List Msg → List Msg
  | [] => [x]
  | y :: ys => if less x y then x :: y :: ys else y :: ins x ys

def isort (l : List Msg) : List Msg := l.foldr ins []

/-- The model's `errorSort`: one of the possible results (`Props.C05.errorSort_isResult`), and by
`Props.C05.errorSort_perm_invariant` the only one. -/
def errorSort (l : List Msg) : List Msg :=
  match l with
  | [] => []
  | [x] => [x]
  | _ => dedupAdj (isort l)

/-! ### the comparator before the repair (D24, D37) -/

/-- `nless` before ba2230f: numeric only if both parse, else lexicographic. -/
def nlessOld (a b : Msg) : Ordering :=
  match atoi a, atoi b with
  | some an, some bn => if an < bn then .lt else if an > bn then .gt else .eq
  | _, _ => if bytesLt a b then .lt else if bytesLt b a then .gt else .eq

def lessLoopOld : Nat → List Msg → List Msg → Bool
  | 0, _, _ => false                         -- `return false` after the loop
  | n + 1, fi, fj =>
    match fi, fj with
    | _, [] => false
    | [], _ :: _ => true
    | a :: as, b :: bs =>
      match nlessOld a b with
      | .lt => true
      | .gt => false
      | .eq => lessLoopOld n as bs

def lessOld (si sj : Msg) : Bool :=
  let (fi0, fi) := fields si
  let (fj0, fj) := fields sj
  if bytesLt fi0 fj0 then true
  else if bytesLt fj0 fi0 then false
  else lessLoopOld (errorSplitCount - 1) fi fj

/-! ### the comparator between ba2230f and b1f5bf9 (D47) -/

/-- The loop as repaired by ba2230f alone: when both messages run out of fields at the same
place, neither is less. -/
def lessLoopMid (si sj : Msg) : Nat → List Msg → List Msg → Bool
  | 0, _, _ => bytesLt si sj
  | n + 1, fi, fj =>
    match fi, fj with
    | _, [] => false
    | [], _ :: _ => true
    | a :: as, b :: bs =>
      match nless a b with
      | .lt => true
      | .gt => false
      | .eq => lessLoopMid si sj n as bs

def lessMid (si sj : Msg) : Bool :=
  let (fi0, fi) := fields si
  let (fj0, fj) := fields sj
  if bytesLt fi0 fj0 then true
  else if bytesLt fj0 fi0 then false
  else lessLoopMid si sj (errorSplitCount - 1) fi fj

end Goyang.Model.ErrorSort
