import Goyang.Model.StrOrd
/-
The file chooser of pkg/yang/file.go over an abstract directory tree: `findInDir`, `findFile`,
`AddPath`, `PathsWithModules`.  Core Lean only.

What is modelled of the operating system (trusted glue, covered by the correspondence run on
real temporary directories):
* the file system below the current directory is a finite tree `FsNode`; a name denotes a
  regular file or a directory (no symbolic links, every file is readable, nothing changes
  during a search);
* `ioutil.ReadDir` lists a directory in byte order of the names (`FsNode.norm` puts a tree into
  that order once; all functions below expect listings in ReadDir order) and fails on
  anything that is not a directory;
* path strings are *clean relative* paths (`a/b`, `.`; no `.`/`..`/empty components, no leading
  or trailing `/`): for those `filepath.Join` is concatenation with `/`, `filepath.Dir` drops
  the last component and `filepath.Base` is the last component, so a path is the list of its
  components (`Path`, `[]` = `.`).  Anything else is answered `outside` (outside the model),
  never guessed;
* the regular expression `^@\d{4}-\d{2}-\d{2}\.yang$` is written out as `matchesRevSuffix`
  (`\d` is the ASCII digits, `$` matches at the very end only — Go's RE2 semantics).
Names are `List Char` (valid UTF-8 only; byte order = code point order there).
-/
namespace Goyang.Model.File
open Goyang.Model

abbrev Name := List Char

/-- A node of the directory tree: a regular file, or a directory with its entries. -/
inductive FsNode where
  | file
  | dir (entries : List (Name × FsNode))
  deriving Repr, Inhabited

/-- Components below the current directory; `[]` is `.`. -/
abbrev Path := List Name

def FsNode.isDir : FsNode → Bool
  | .file => false
  | .dir _ => true

/-! ### ReadDir order -/

/-- Insert an entry into a listing sorted by name (after entries with an equal name). -/
def insertEntry (e : Name × FsNode) : List (Name × FsNode) → List (Name × FsNode)
  | [] => [e]
  | f :: rest => if charsLt e.1 f.1 then e :: f :: rest else f :: insertEntry e rest

mutual
/-- The same tree with every listing in the order `ioutil.ReadDir` returns it (sorted by name). -/
def FsNode.norm : FsNode → FsNode
  | .file => .file
  | .dir es => .dir (normEntries es)
def normEntries : List (Name × FsNode) → List (Name × FsNode)
  | [] => []
  | (n, x) :: rest => insertEntry (n, x.norm) (normEntries rest)
end

/-- What a clean relative path denotes, if anything. -/
def lookup : FsNode → Path → Option FsNode
  | n, [] => some n
  | .file, _ :: _ => none
  | .dir es, c :: rest =>
    match es.find? (fun e => e.1 == c) with
    | some e => lookup e.2 rest
    | none => none

/-! ### findInDir -/

def isDigit (c : Char) : Bool := 48 ≤ c.toNat && c.toNat ≤ 57

def dotYang : Name := ['.', 'y', 'a', 'n', 'g']

/-- `revisionDateSuffixRegex.MatchString(s)` for `^@\d{4}-\d{2}-\d{2}\.yang$`. -/
def matchesRevSuffix : Name → Bool
  | c0 :: y1 :: y2 :: y3 :: y4 :: c5 :: m1 :: m2 :: c8 :: d1 :: d2 :: rest =>
    c0 == '@' && isDigit y1 && isDigit y2 && isDigit y3 && isDigit y4 && c5 == '-' &&
    isDigit m1 && isDigit m2 && c8 == '-' && isDigit d1 && isDigit d2 && rest == dotYang
  | _ => false

/-- `strings.HasPrefix(fn, mname) && revisionDateSuffixRegex.MatchString(strings.TrimPrefix(fn, mname))` -/
def isRevisionOf (mname fn : Name) : Bool :=
  match stripPrefix? mname fn with
  | some rest => matchesRevSuffix rest
  | none => false

/-- `strings.TrimSuffix(s, suf)` -/
def trimSuffix (s suf : Name) : Name :=
  match stripPrefix? suf.reverse s.reverse with
  | some r => r.reverse
  | none => s

/-- Insert into a list sorted by byte order. -/
def insertName (a : Name) : List Name → List Name
  | [] => [a]
  | b :: rest => if charsLe a b then a :: b :: rest else b :: insertName a rest

/-- `sort.Strings` (any correct sort gives the same list: equal strings are indistinguishable). -/
def sortNames : List Name → List Name
  | [] => []
  | a :: rest => insertName a (sortNames rest)

/-- `sort.Strings(revisions); revisions[len(revisions)-1]` (`none` when there are none). -/
def lastSorted (revs : List Name) : Option Name := (sortNames revs).getLast?

mutual
/-- `findInDir(dir, name, recurse)`, `node` being what `dir` denotes; `none` is Go's `""`
(nothing found, or `dir` cannot be listed). -/
def findInDir (name : Name) (recurse : Bool) (dir : Path) : FsNode → Option Path
  | .file => none
  | .dir es => scan name recurse dir es []
/-- The loop over the listing; `revs` is `revisions` so far. -/
def scan (name : Name) (recurse : Bool) (dir : Path) : List (Name × FsNode) → List Name → Option Path
  | [], revs =>
    match lastSorted revs with
    | none => none
    | some fn => some (dir ++ [fn])
  | (fn, x) :: rest, revs =>
    if !x.isDir then
      if fn == name then some (dir ++ [name])
      else if isRevisionOf (trimSuffix name dotYang) fn then scan name recurse dir rest (revs ++ [fn])
      else scan name recurse dir rest revs
    else if recurse then
      match findInDir name recurse (dir ++ [fn]) x with
      | some p => some p
      | none => scan name recurse dir rest revs
    else scan name recurse dir rest revs
end

/-- `scanDir(dir, name, recurse)` for a directory given by its path below the current directory. -/
def scanDir (root : FsNode) (dir : Path) (name : Name) (recurse : Bool) : Option Path :=
  match lookup root dir with
  | some node => findInDir name recurse dir node
  | none => none

/-! ### path strings -/

/-- Split at every `/`. -/
def splitOn (sep : Char) : Name → List Name
  | [] => [[]]
  | c :: rest =>
    if c == sep then [] :: splitOn sep rest
    else match splitOn sep rest with
      | [] => [[c]]          -- not reached: `splitOn` never returns `[]`
      | h :: t => (c :: h) :: t

def dot : Name := ['.']
def dotdot : Name := ['.', '.']
def dots : Name := ['.', '.', '.']

/-- The components of a clean relative path string; `none` when the string is not one. -/
def cleanRel (s : Name) : Option Path :=
  if s == dot then some [] else
  let cs := splitOn '/' s
  if cs.all (fun c => !c.isEmpty && c != dot && c != dotdot) then some cs else none

/-- `.` for `[]`, else the components joined by `/`. -/
def render : Path → Name
  | [] => dot
  | [c] => c
  | c :: rest => c ++ '/' :: render rest

/-- One search path entry: the directory and whether its subdirectories are searched too
(`filepath.Base(dir) == "..."`, then the directory is `filepath.Dir(dir)`). -/
structure Entry where
  dir : Path
  recurse : Bool
  deriving Repr, BEq, DecidableEq

def parseEntry (s : Name) : Option Entry :=
  match cleanRel s with
  | none => none
  | some cs =>
    match cs.getLast? with
    | some l => if l == dots then some ⟨cs.dropLast, true⟩ else some ⟨cs, false⟩
    | none => some ⟨[], false⟩

/-- All entries of a search path in their parsed form; `none` when one of them is outside the model. -/
def parsePath : List Name → Option (List Entry)
  | [] => some []
  | d :: rest =>
    match parseEntry d, parsePath rest with
    | some e, some es => some (e :: es)
    | _, _ => none

/-- `ms.AddPath(p)` on `ms.Path` (assuming `Path` is only ever changed through `AddPath`, so that
`pathMap` is its membership): split at `:`, append what is new. -/
def addPath (path : List Name) (p : Name) : List Name :=
  (splitOn ':' p).foldl (fun acc q => if acc.contains q then acc else acc ++ [q]) path

/-! ### findFile -/

inductive Found where
  /-- the file name returned and `ms.Path` afterwards -/
  | file (name : Name) (path : List Name)
  | noSuchFile
  /-- a path string outside the modelled (clean relative) form was needed -/
  | outside
  deriving Repr, BEq, DecidableEq

/-- The file name a result carries, if any. -/
def Found.chosen : Found → Option Name
  | .file n _ => some n
  | _ => none

/-- The loop over `ms.Path` in `findFile`. -/
def searchPath (root : FsNode) (name : Name) (path0 : List Name) : List Name → Found
  | [] => .noSuchFile
  | d :: rest =>
    match parseEntry d with
    | none => .outside
    | some e =>
      match scanDir root e.dir name e.recurse with
      -- `readFile(n)` succeeds: `findInDir` only returns regular files, all readable
      | some p => .file (render p) path0
      | none => searchPath root name path0 rest

/-- `ms.findFile(name)` with `ms.Path = path`, `root` (in ReadDir order) being the current
directory. -/
def findFileIn (root : FsNode) (path : List Name) (name : Name) : Found :=
  let slash := name.contains '/'
  if slash then
    -- readFile(name); on success ms.AddPath(filepath.Dir(name)); never searches Path
    match cleanRel name with
    | none => .outside
    | some cs =>
      match lookup root cs with
      | some .file => .file name (addPath path (render cs.dropLast))
      | _ => .noSuchFile
  else
    let name1 := if hasSuffix name dotYang then name else name ++ dotYang
    -- the current directory is looked at first, for a module name only
    let name2 :=
      if hasSuffix name dotYang then name1 else
      match scanDir root [] name1 false with
      | some p => render p
      | none => name1
    match lookup root [name2] with
    | some .file => .file name2 (addPath path dot)
    | _ => searchPath root name1 path path

/-- `findFile` on an arbitrary tree: listings are put in ReadDir order first. -/
def findFile (root : FsNode) (path : List Name) (name : Name) : Found :=
  findFileIn root.norm path name

/-! ### PathsWithModules -/

mutual
/-- `filepath.Walk` below a directory at `p` with the callback of `PathsWithModules`: the
directories of files whose name ends in `.yang`, in the order first met (pre-order, name order). -/
def walk (p : Path) : FsNode → List Path → List Path
  | .file, acc =>
    if hasSuffix (render p) dotYang then
      (if acc.contains p.dropLast then acc else acc ++ [p.dropLast])
    else acc
  | .dir es, acc => walkList p es acc
def walkList (p : Path) : List (Name × FsNode) → List Path → List Path
  | [], acc => acc
  | (n, x) :: rest, acc => walkList p rest (walk (p ++ [n]) x acc)
end

/-- `PathsWithModules(root)` for a clean relative `start` (`none`: outside the model).  When
`start` does not exist Go returns no paths (and an error). -/
def pathsWithModules (root : FsNode) (start : Name) : Option (List Name) :=
  match cleanRel start with
  | none => none
  | some cs =>
    match lookup root.norm cs with
    | none => some []
    | some node => some ((walk cs node []).map render)

end Goyang.Model.File
