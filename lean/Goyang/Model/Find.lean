import Goyang.Model.ToEntry
/-
`Entry.Find`, `Entry.Path`, `Entry.Namespace`, `Entry.ReadOnly`, `Entry.InstantiatingModule` on
pure trees.  A node is addressed by its location: the tree (module seq) and the steps from the
root.  What Go computes by following `Parent` pointers is computed along that path.
-/
namespace Goyang.Model

inductive Step | child (name : String) | input | output
  deriving Repr, BEq, DecidableEq, Inhabited

abbrev Path := List Step

namespace Entry

/-- The node reached from `e` by `p`. -/
def getAt (e : Entry) : Path → Option Entry
  | [] => some e
  | .child k :: p => (e.child? k).bind (·.getAt p)
  | .input :: p => e.inp.head?.bind (·.getAt p)
  | .output :: p => e.out.head?.bind (·.getAt p)

/-- Replace the node at `p` by `f` of it (no change if `p` does not exist). -/
def updateAt (e : Entry) (p : Path) (f : Entry → Entry) : Entry :=
  match p with
  | [] => f e
  | .child k :: p =>
    match e with
    | .mk d c i o => .mk d (c.map fun x => if x.name == k then x.updateAt p f else x) i o
  | .input :: p =>
    match e with
    | .mk d c i o => .mk d c (i.map (·.updateAt p f)) o
  | .output :: p =>
    match e with
    | .mk d c i o => .mk d c i (o.map (·.updateAt p f))

/-- Go: `Entry.Path()` of the node at `p` in the tree rooted at `root` (`/root/…/name`). -/
def pathString (root : Entry) (p : Path) : String :=
  let rec go (e : Entry) (p : Path) (acc : String) : String :=
    match p with
    | [] => acc
    | s :: rest =>
      let next := match s with
        | .child k => e.child? k
        | .input => e.inp.head?
        | .output => e.out.head?
      match next with
      | some c => go c rest (acc ++ "/" ++ c.name)
      | none => acc
  go root p ("/" ++ root.name)

/-- Go: `ReadOnly()` of the node at `p`: an output is read-only; else the node's explicit
config; else the parent's answer; the root without config is read-write. -/
def readOnlyAt (root : Entry) (p : Path) : Bool :=
  let rec go (e : Entry) (p : Path) (inherited : Bool) : Bool :=
    let here :=
      if e.d.kind == .output then true
      else match e.d.config with
        | .unset => inherited
        | .true_ => false
        | .false_ => true
    match p with
    | [] => here
    | s :: rest =>
      let next := match s with
        | .child k => e.child? k
        | .input => e.inp.head?
        | .output => e.out.head?
      match next with
      | some c => go c rest here
      | none => here
  go root p false

/-- Go: the namespace stamp that `Namespace()` finds walking up from the node at `p`, stopping
below the root: the stamp of the deepest stamped node on the path, the root excluded. -/
def stampAt (root : Entry) (p : Path) : Option String :=
  let rec go (e : Entry) (p : Path) (acc : Option String) : Option String :=
    match p with
    | [] => acc
    | s :: rest =>
      let next := match s with
        | .child k => e.child? k
        | .input => e.inp.head?
        | .output => e.out.head?
      match next with
      | some c => go c rest (match c.d.ns with | some n => some n | none => acc)
      | none => acc
  go root p none

end Entry

/-- Go: `getPrefix(part)` second component. -/
def stripPrefix (part : String) : String := (splitPrefix part).2

/-- Go: the entry `Find` creates for an rpc whose source has no input / output. -/
def implicitIO (parent : Entry) (isInput : Bool) : Entry :=
  .mk { name := if isInput then "input" else "output", kind := if isInput then .input else .output,
        hasDir := true, node := parent.d.node, nodeMod := parent.d.nodeMod, nodeKw := parent.d.nodeKw } [] [] []

/-- The step loop of `Find` inside one tree. `cur = none` is Go's `e == nil`. Returns the
location reached and the tree (an absent rpc input/output on the way is created, as in Go). -/
def walkParts : (parts : List String) → (root : Entry) → (cur : Option Path) → Option Path × Entry
  | [], root, cur => (cur, root)
  | part :: rest, root, cur =>
    match cur with
    | none => (none, root)
    | some p =>
      match root.getAt p with
      | none => (none, root)
      | some e =>
        if part == "." then walkParts rest root (some p)
        else if part == ".." then
          walkParts rest root (if p.isEmpty then none else some p.dropLast)
        else if e.d.isRpc then
          let nm := stripPrefix part
          if nm == "input" then
            let root := if e.inp.isEmpty then
                root.updateAt p fun e => match e with | .mk d c _ o => .mk d c [implicitIO e true] o
              else root
            walkParts rest root (some (p ++ [.input]))
          else if nm == "output" then
            let root := if e.out.isEmpty then
                root.updateAt p fun e => match e with | .mk d c i _ => .mk d c i [implicitIO e false]
              else root
            walkParts rest root (some (p ++ [.output]))
          else (none, root)
        else
          let nm := stripPrefix part
          if nm == "." then walkParts rest root (some p)
          else if nm == "" || nm == ".." then (none, root)
          else
            match e.child? nm with
            | some _ => walkParts rest root (some (p ++ [.child nm]))
            | none => walkParts rest root none

/-- The schema forest during and after `Process`: one tree per (sub)module, keyed by seq. -/
structure Forest where
  trees : List (Nat × Entry) := []
  deriving Inhabited

namespace Forest
def tree? (f : Forest) (id : Nat) : Option Entry := (f.trees.find? (·.1 == id)).map (·.2)
def setTree (f : Forest) (id : Nat) (e : Entry) : Forest :=
  { trees := f.trees.map fun (i, t) => if i == id then (i, e) else (i, t) }
end Forest

abbrev Loc := Nat × Path

/-- Go: `e.Find(name)` where `e` is the node at `start` and `ctxMod` is `RootNode(e.Node)`.
For an absolute path whose first step carries a prefix the search moves to the tree of the module
the prefix denotes in `ctxMod` (its owner, for a submodule). -/
def find (reg : Registry) (f : Forest) (start : Loc) (ctxMod : Nat) (name : String) : Option Loc × Forest :=
  if name == "" then (none, f) else
  let parts := name.splitOn "/"
  match parts with
  | "" :: parts =>
    -- absolute
    let first := parts.headD ""
    let pfx := (splitPrefix first).1
    let tree : Option Nat :=
      if pfx == "" then
        -- a name without prefix belongs to the current module: a submodule's tree gives way to
        -- its owner's (when the owner is loaded)
        match reg.byId start.1 with
        | some sm => if sm.isSub then ((reg.owner sm).map (·.seq)).getD start.1 else start.1
        | none => some start.1
      else
      match reg.byId ctxMod with
      | none => none
      | some cm =>
        match reg.findModuleByPrefix cm pfx with
        | none => none
        | some m => (reg.owner m).map (·.seq)
    match tree with
    | none =>
      -- Go records "cannot find module giving prefix …" (or "… which module … belongs to") on the
      -- root entry of the tree it started in
      (none, match f.tree? start.1 with
        | some root => f.setTree start.1 (root.addErr (Err.bare "other"))
        | none => f)
    | some t =>
      match f.tree? t with
      | none => (none, f)
      | some root =>
        let (r, root) := walkParts parts root (some [])
        (r.map (t, ·), f.setTree t root)
  | parts =>
    match f.tree? start.1 with
    | none => (none, f)
    | some root =>
      let (r, root) := walkParts parts root (some start.2)
      (r.map (start.1, ·), f.setTree start.1 root)

/-- Go: `Namespace()` name of the node at `loc`: the nearest stamp below the root, else the
namespace of the tree's module (its owner's for a submodule; empty when the owner is not loaded). -/
def namespaceAt (reg : Registry) (f : Forest) (loc : Loc) : String :=
  match f.tree? loc.1 with
  | none => ""
  | some root =>
    match root.stampAt loc.2 with
    | some n => n
    | none =>
      match reg.byId loc.1 with
      | none => ""
      | some m =>
        match reg.owner m with
        | some o => (o.stmt.argOf? "namespace").getD ""
        | none => ""

/-- Go: `InstantiatingModule()`: the name of the loaded module(s) with that namespace; an error
(`none`) when there is none or when loaded modules of different names share it (after the
repair, several revisions of one name are one module). -/
def instantiatingModuleAt (reg : Registry) (f : Forest) (loc : Loc) : Option String :=
  let ns := namespaceAt reg f loc
  match reg.distinctModules.filter (fun m => (m.stmt.argOf? "namespace").getD "" == ns) with
  | [] => none
  | m :: rest => if rest.all (·.name == m.name) then some m.name else none

end Goyang.Model
