import Goyang.Model.Ctx
import Goyang.Model.Err
/-
Identity resolution (pkg/yang/identity.go after the `fix:` commits for D3, D25, nested includes and
absent owners; pkg/yang/modules.go `include`; the identityref branch of `Type.resolve`).

Pointers.  A `*Module` is its load sequence number.  An `*Identity` that sits in the identity
dictionary is the pair `(module(i).Name, i.Name)` (`Vtx`): the dictionary is a Go map keyed by
`module(i).Name + ":" + i.Name`, so two entries never carry the same pair, and only dictionary
entries are ever stored in a `Values` slice.  `Values` of all identities is a function `Vtx → List Vtx`
(nil slice = empty list).

Every Go `range` over a map takes its order from the `Oracle` argument.
-/
namespace Goyang.Model.Identity
open Goyang.Model

/-! ## The two recursive walks and the sort, generic in the pointer type -/

section Generic
variable {α : Type} [DecidableEq α]

/-- Go: `addChildren(r, ids)` and `includeClosure(mod, mods)` — the same pre-order walk, the result
slice doubling as visited set; `succ` are `r.Values` resp. the non-nil `Include.Module`s.
`none`: the recursion budget `fuel` ran out (`walk_fuel` in Lemmas: never with fuel above the number
of nodes). -/
def walk (succ : α → List α) : Nat → α → List α → Option (List α)
  | 0, _, _ => none
  | fuel + 1, r, ids =>
    if r ∈ ids then some ids
    else (succ r).foldlM (fun acc ch => walk succ fuel ch acc) (ids ++ [r])

/-- Go: `for _, j := range xs { ids = addChildren(j, ids) }`. -/
def walkAll (succ : α → List α) (fuel : Nat) (roots : List α) (ids : List α) : Option (List α) :=
  roots.foldlM (fun acc r => walk succ fuel r acc) ids

/-- Insert `x` behind every element that is not greater (stable). -/
def insertSorted (lt : α → α → Bool) (x : α) : List α → List α
  | [] => [x]
  | y :: ys => if lt x y then x :: y :: ys else y :: insertSorted lt x ys

/-- Go: `sort.SliceStable(s, less)` as stable insertion sort. -/
def sortStable (lt : α → α → Bool) (l : List α) : List α :=
  l.foldl (fun acc x => insertSorted lt x acc) []

/-- Go: `b.Values = append(b.Values, i)`. -/
def addDirect (vals : α → List α) (b i : α) : α → List α :=
  fun y => if y = b then vals b ++ [i] else vals y

/-- Go: `i.Values = newValues`. -/
def setVals (vals : α → List α) (i : α) (l : List α) : α → List α :=
  fun y => if y = i then l else vals y

/-- One round of the last loop of `resolveIdentities` for dictionary entry `i`: the closure walk
from the current `Values`, the "is `i` among its own children" test, the sort, the assignment.
Result: new `Values` of everybody and whether a cycle through `i` was seen. -/
def closeOne (lt : α → α → Bool) (fuel : Nat) (vals : α → List α) (i : α) :
    Option ((α → List α) × Bool) :=
  match walkAll vals fuel (vals i) [] with
  | none => none
  | some nv => some (setVals vals i (sortStable lt nv), decide (i ∈ nv))

/-- The last loop over the dictionary in the given order; returns the final `Values` and the
entries for which a cycle was reported, in the order of reporting. -/
def closeAll (lt : α → α → Bool) (fuel : Nat) : List α → (α → List α) → Option ((α → List α) × List α)
  | [], vals => some (vals, [])
  | i :: rest, vals =>
    match closeOne lt fuel vals i with
    | none => none
    | some (vals', cyc) =>
      match closeAll lt fuel rest vals' with
      | none => none
      | some (v, cs) => some (v, if cyc then i :: cs else cs)

end Generic

/-! ## Map iteration order -/

/-- Where Go ranges over a map.  `order site l` is the order in which the entries `l` are visited
at `site`. -/
structure Oracle where
  order : {α : Type} → Nat → List α → List α

/-- An oracle is admissible when it visits every entry exactly once. -/
def Oracle.Valid (o : Oracle) : Prop := ∀ (α : Type) (site : Nat) (l : List α), (o.order site l).Perm l

/-- `range ms.Modules` in `process` (the `include` loop). -/
def siteLink : Nat := 0
/-- `range ms.Modules` in `resolveIdentities`. -/
def siteModules : Nat := 1
/-- first `range ...identities.dict` (direct children). -/
def siteDirect : Nat := 2
/-- second `range ...identities.dict` (closure). -/
def siteClose : Nat := 3

/-- The oracles the driver can be asked for: rotate by `n / 2`, then reverse when `n` is odd,
with a different rotation at every site. -/
def Oracle.ofNat (n : Nat) : Oracle where
  order := fun site l =>
    let k := if l.length = 0 then 0 else (n / 2 * (site + 1)) % l.length
    let l' := l.drop k ++ l.take k
    if n % 2 = 1 then l'.reverse else l'

/-! ## `Modules.include`: linking of include statements -/

/-- What `include` leaves behind: `ms.includes` and the `Include.Module` pointers that were set
(module sequence number, index among its include statements). Import links are not recorded:
identity resolution goes through `FindModuleByPrefix`, which calls `FindModule` again. -/
structure Link where
  visited : List Nat := []
  linked : List (Nat × Nat) := []
  deriving Repr, Inhabited

/-- `for _, i := range m.Include {…}; for _, i := range m.Import {…}` as one list:
(is include, index among the include statements, statement). -/
def linkItems (m : Mod) : List (Bool × Nat × Stmt) :=
  (m.includes.zipIdx.map fun (s, i) => (true, i, s)) ++ (m.imports.map fun s => (false, 0, s))

/-- Go: `ms.include(m)`. The error is returned beside the state because the marks and links made
before the failure stay. `none`: out of fuel. -/
def includeGo (r : Registry) : Nat → Mod → Link → Option (Link × Option Err)
  | 0, _, _ => none
  | fuel + 1, m, st =>
    if m.seq ∈ st.visited then some (st, none) else
    (linkItems m).foldlM (fun (acc : Link × Option Err) (item : Bool × Nat × Stmt) =>
        match acc.2 with
        | some e => some (acc.1, some e)      -- `return err` happened earlier
        | none =>
          match r.findModule item.1 item.2.2 with
          | none => some (acc.1, some (Err.bare (if item.1 then "no-such-submodule" else "no-such-module")))
          | some im =>
            match includeGo r fuel im acc.1 with
            | none => none
            | some (st', some e) => some (st', some e)
            | some (st', none) =>
              some (if item.1 then { st' with linked := st'.linked ++ [(m.seq, item.2.1)] } else st', none))
      ({ st with visited := st.visited ++ [m.seq] }, none)

/-- The values of `ms.Modules`, one per key (most modules are bound under two keys). -/
def moduleEntries (r : Registry) : List Mod := r.modules.filterMap fun kv => r.byId kv.2

/-- `process`: the entries of `ms.Modules` are collected in map order, then
`sort.SliceStable(mods, by FullName)`. -/
def modulesByFullName (o : Oracle) (r : Registry) : List Mod :=
  sortStable (fun a b => decide (a.fullName < b.fullName)) (o.order siteLink (moduleEntries r))

/-- The first loop of `process`: `include` for every entry of `ms.Modules` in full-name order; the
errors are collected. -/
def linkAll (o : Oracle) (r : Registry) : Option (Link × List Err) :=
  (modulesByFullName o r).foldlM (fun (acc : Link × List Err) m =>
      match includeGo r (r.mods.length + 1) m acc.1 with
      | none => none
      | some (st, none) => some (st, acc.2)
      | some (st, some e) => some (st, acc.2 ++ [e]))
    ({}, [])

/-- The non-nil `in.Module` of `m`'s include statements, in source order. -/
def includeTargets (r : Registry) (lk : Link) (m : Mod) : List Mod :=
  m.includes.zipIdx.filterMap fun (s, i) =>
    if (m.seq, i) ∈ lk.linked then r.findModule true s else none

/-- Successor function of `includeClosure` on sequence numbers. -/
def includeSucc (r : Registry) (lk : Link) (s : Nat) : List Nat :=
  match r.byId s with
  | some m => (includeTargets r lk m).map (·.seq)
  | none => []

/-! ## The identity dictionary -/

/-- A dictionary identity: (`module(i).Name`, `i.Name`). -/
abbrev Vtx := String × String

/-- Go: `modulePrefixedName`. -/
def Vtx.key (v : Vtx) : String := v.1 ++ ":" ++ v.2

/-- The comparator handed to `sort.SliceStable`: by name, then by the owning module's name. -/
def vtxLt (a b : Vtx) : Bool :=
  if a.2 != b.2 then decide (a.2 < b.2) else decide (a.1 < b.1)

/-- One entry of `typeDict.identities.dict`. -/
structure DEntry where
  key : String
  vtx : Vtx
  root : Nat          -- RootNode(i): the declaring module or submodule
  idx : Nat           -- which of its identity statements
  stmt : Stmt
  deriving Repr, Inhabited

abbrev Dict := List DEntry

def Dict.get? (d : Dict) (k : String) : Option DEntry := d.find? (·.key == k)

/-- Go: `dict[k] = e`. -/
def Dict.bind (d : Dict) (e : DEntry) : Dict :=
  if d.any (·.key == e.key) then d.map (fun x => if x.key == e.key then e else x) else d ++ [e]

def identities (m : Mod) : List Stmt := m.stmt.all "identity"

/-- The inner statements of the first loop for one (sub)module `m` of an include closure:
absent owner ⇒ error and `continue`, else every identity is (re)bound. -/
def registerMod (r : Registry) (m : Mod) (acc : Dict × List Err) : Dict × List Err :=
  match r.owner m with
  | none =>
    match m.stmt.one? "belongs-to" with
    | some b => (acc.1, acc.2 ++ [Err.at_ b "no-such-module"])
    | none => (acc.1, acc.2 ++ [Err.bare "crash"])   -- cannot happen: only submodules lack an owner
  | some ow =>
    ((identities m).zipIdx.foldl (fun d (s, i) =>
        d.bind { key := Vtx.key (ow.name, s.arg), vtx := (ow.name, s.arg), root := m.seq, idx := i, stmt := s })
      acc.1, acc.2)

/-- `resolveIdentities`: the keys of `ms.Modules` are collected in map order, then `sort.Strings(keys)`
(keys of a map are distinct, so the sorted order is unique); the loop visits `ms.Modules[k]`. -/
def modulesByKey (o : Oracle) (r : Registry) : List Mod :=
  (sortStable (fun a b => decide (a.1 < b.1)) (o.order siteModules r.modules)).filterMap fun kv => r.byId kv.2

/-- First loop of `resolveIdentities`. -/
def buildDict (o : Oracle) (r : Registry) (lk : Link) : Option (Dict × List Err) :=
  (modulesByKey o r).foldlM (fun (acc : Dict × List Err) mod =>
      match walk (includeSucc r lk) (r.mods.length + 1) mod.seq [] with
      | none => none
      | some closure =>
        some (closure.foldl (fun acc s =>
          match r.byId s with
          | some m => registerMod r m acc
          | none => acc) acc))
    ([], [])

/-! ## `findIdentityBase` -/

/-- Go `getPrefix`: split at the first colon (`strings.SplitN(s, ":", 2)`). -/
def splitColon (s : String) : String × String :=
  let cs := s.toList
  if cs.contains ':' then
    (String.ofList (cs.takeWhile (· != ':')), String.ofList ((cs.dropWhile (· != ':')).drop 1))
  else ("", s)

/-- Go: `mod.findIdentityBase(baseStr)` for `mod = root`; every error is positioned at
`Source(mod)`. -/
def findIdentityBase (r : Registry) (dict : Dict) (root : Mod) (baseStr : String) : Except Err DEntry :=
  let pn := splitColon baseStr
  if pn.1 == "" || pn.1 == root.getPrefix then
    match r.owner root with
    | none => .error (Err.at_ root.stmt "identity-base-local")
    | some ow =>
      match dict.get? (ow.name ++ ":" ++ pn.2) with
      | some e => .ok e
      | none => .error (Err.at_ root.stmt "identity-base-local")
  else
    match r.findModuleByPrefix root pn.1 with
    | none => .error (Err.at_ root.stmt "identity-prefix")
    | some ext =>
      match r.owner ext with
      | none => .error (Err.bare "crash")   -- cannot happen: imports resolve in ms.Modules
      | some ow =>
        match dict.get? (ow.name ++ ":" ++ pn.2) with
        | some e => .ok e
        | none => .error (Err.at_ root.stmt "identity-base-remote")

/-! ## Direct children and closure -/

/-- The base statements of one dictionary entry in source order, each resolved. -/
def resolvedBases (r : Registry) (dict : Dict) (e : DEntry) : List (Except Err DEntry) :=
  match r.byId e.root with
  | some root => (e.stmt.all "base").map fun b => findIdentityBase r dict root b.arg
  | none => []

/-- Second loop of `resolveIdentities` for one entry. -/
def directOne (r : Registry) (dict : Dict) (acc : (Vtx → List Vtx) × List Err) (e : DEntry) :
    (Vtx → List Vtx) × List Err :=
  (resolvedBases r dict e).foldl (fun acc rb =>
      match rb with
      | .error err => (acc.1, acc.2 ++ [err])
      | .ok b => (addDirect acc.1 b.vtx e.vtx, acc.2)) acc

def directAll (r : Registry) (dict : Dict) (order : List DEntry) (vals0 : Vtx → List Vtx) :
    (Vtx → List Vtx) × List Err :=
  order.foldl (directOne r dict) (vals0, [])

structure Result where
  dict : Dict
  vals : Vtx → List Vtx
  errs : List Err

/-- The recursion budget handed to the closure walk: one more than the number of dictionary
entries. -/
def closeFuel (dict : Dict) : Nat := dict.length + 1

/-- Go: `ms.resolveIdentities()` on link state `lk`, starting from `Values` as in `vals0`.
`resolveIdentities` first sets `Values = nil` for every identity of every loaded (sub)module
(commit 41df8a9), so Go always runs with `vals0 = fun _ => []` (as `run` does); the parameter is
kept because the theorems also cover a start from the lists of an earlier run. -/
def resolveIdentities (o : Oracle) (r : Registry) (lk : Link) (vals0 : Vtx → List Vtx) : Option Result :=
  match buildDict o r lk with
  | none => none
  | some (dict, errs1) =>
    let (vals1, errs2) := directAll r dict (o.order siteDirect dict) vals0
    match closeAll vtxLt (closeFuel dict) ((o.order siteClose dict).map (·.vtx)) vals1 with
    | none => none
    | some (vals2, cyc) =>
      let errs3 := cyc.filterMap fun v => (dict.get? v.key).map fun e => Err.at_ e.stmt "cycle"
      some { dict := dict, vals := vals2, errs := errs1 ++ errs2 ++ errs3 }

/-! ## identityref leaves (the identityref branch of `Type.resolve`) -/

/-- A `type identityref` statement directly naming the built-in, declared in `root`: the
dictionary entry `y.IdentityBase` is set to, or the errors. -/
def identityrefBase (r : Registry) (dict : Dict) (root : Mod) (ty : Stmt) : Except Err DEntry :=
  match ty.one? "base" with
  | none => .error (Err.at_ ty "identityref-no-base")
  | some b => findIdentityBase r dict root b.arg

/-! ## `process` + the part of `Process` the property observes -/

inductive Outcome where
  | outOfFuel
  /-- an include or import did not resolve; what `Process` then does is outside the C11 model -/
  | linkFailed (errs : List Err)
  | done (res : Result) (leaves : List (String × String × List (Option DEntry) × List Err))

/-- The top-level typedef of `m` a type statement written in `m` names without prefix
(`Type.resolve` looks in the ancestors of the type statement first; the generated schemas have
typedefs at the top level only). -/
def localTypedefType (m : Mod) (ty : Stmt) : Option Stmt :=
  match (m.stmt.all "typedef").find? (·.arg == ty.arg) with
  | some td => td.one? "type"
  | none => none

/-- The identity errors `Type.resolve` returns for a type statement written in `m`: those of an
identityref written directly, of the members of a union, of the typedef it names (`td.resolve`
hands the errors of its own type on).  `fuel` bounds the length of typedef chains. -/
def tyErrs (r : Registry) (dict : Dict) (m : Mod) : Nat → Stmt → List Err
  | 0, _ => []
  | fuel + 1, ty =>
    if ty.arg == "identityref" then
      match identityrefBase r dict m ty with
      | .error e => [e]
      | .ok _ => []
    else if ty.arg == "union" then (ty.all "type").flatMap (tyErrs r dict m fuel)
    else
      match localTypedefType m ty with
      | some tt => tyErrs r dict m fuel tt
      | none => []

/-- What a resolved type is, as far as identityrefs are concerned. -/
inductive TyView where
  /-- no identityref, no union -/
  | other
  /-- `Kind == Yidentityref`: the entry `IdentityBase` points at, or none (base did not resolve;
  `YangType` is set before the base is looked up, so the type exists with a nil base) -/
  | single (x : Option DEntry)
  /-- `Kind == Yunion`: the members of kind identityref that are kept in `YangType.Type`, in order,
  before de-duplication -/
  | union (members : List (Option DEntry))
  /-- resolved through a typedef that failed: `Typedef.resolve` returns the errors and sets no
  `YangType`, so the type statement that names it gets none either -/
  | failed

/-- `Type.resolve` on a type statement written in `m`.  A union keeps a member when the member has
a `YangType`: an identityref written directly always has one, a member that names a failing typedef
has none and is left out. -/
def tyView (r : Registry) (dict : Dict) (m : Mod) : Nat → Stmt → TyView
  | 0, _ => .other
  | fuel + 1, ty =>
    if ty.arg == "identityref" then
      match identityrefBase r dict m ty with
      | .ok e => .single (some e)
      | .error _ => .single none
    else if ty.arg == "union" then
      .union ((ty.all "type").filterMap fun mt =>
        match tyView r dict m fuel mt with
        | .single x => some x
        | _ => none)
    else
      match localTypedefType m ty with
      | some tt => if (tyErrs r dict m fuel tt).isEmpty then tyView r dict m fuel tt else .failed
      | none => .other

/-- `looking:` loop of `Type.resolve`: a member is dropped when an earlier kept member is `Equal`;
for identityref members that is pointer equality of `IdentityBase` (two nil bases are equal). -/
def dedupMembers : List (Option DEntry) → List (Option DEntry)
  | [] => []
  | x :: rest =>
    x :: (dedupMembers rest).filter fun y =>
      match x, y with
      | some a, some b => !(a.key == b.key)
      | none, none => false
      | _, _ => true

/-- Bound on the typedef chains followed (the generated ones are shorter). -/
def tyFuel : Nat := 8

/-- The leaf and leaf-list statements that become top-level nodes of `m`'s entry: its own, and those
of the top-level groupings of `m` that a top-level `uses` names without prefix. -/
def topNodes (m : Mod) : List Stmt :=
  let own := m.stmt.all "leaf" ++ m.stmt.all "leaf-list"
  let used := (m.stmt.all "uses").flatMap fun u =>
    match (m.stmt.all "grouping").find? (·.arg == u.arg) with
    | some g => g.all "leaf" ++ g.all "leaf-list"
    | none => []
  own ++ used

/-- The modules and submodules held in `ms.Modules` / `ms.SubModules` (an unrevisioned module that
a revision superseded is in neither). -/
def tableMods (r : Registry) : List Mod := r.distinctModules ++ r.distinctSubs

/-- Top-level nodes of every module and submodule in the tables whose type is an identityref or a
union (directly or through typedefs of the same root): (root `name@revision`, node name, the
identityref members of the resolved type — one for an identityref, the de-duplicated members for a
union, one `none` for a type that did not resolve —, the errors of the type), as `ToEntry(root)`
resolves them.  `Process` itself gets there (and reports the errors) only when `process` had none. -/
def identityrefLeaves (r : Registry) (dict : Dict) : List (String × String × List (Option DEntry) × List Err) :=
  (tableMods r).flatMap fun m =>
    (topNodes m).filterMap fun l =>
      match l.one? "type" with
      | none => none
      | some ty =>
        let errs := tyErrs r dict m tyFuel ty
        match tyView r dict m tyFuel ty with
        | .other => none
        | .single x => some (m.fullName, l.arg, [x], errs)
        | .union ms => some (m.fullName, l.arg, dedupMembers ms, errs)
        | .failed => some (m.fullName, l.arg, [none], errs)

/-- `resolveTypedefs` (last step of `process`), as far as identities are concerned: the errors of
the top-level typedefs of everything that was parsed (the typedef dictionary is filled by the AST
builder and keeps the typedefs of superseded modules). -/
def typedefErrs (r : Registry) (dict : Dict) : List Err :=
  r.mods.flatMap fun m =>
    (m.stmt.all "typedef").flatMap fun td =>
      match td.one? "type" with
      | some tt => tyErrs r dict m tyFuel tt
      | none => []

def run (o : Oracle) (r : Registry) : Outcome :=
  match linkAll o r with
  | none => .outOfFuel
  | some (lk, lerrs) =>
    if !lerrs.isEmpty then .linkFailed lerrs else
    match resolveIdentities o r lk (fun _ => []) with
    | none => .outOfFuel
    | some res => .done res (identityrefLeaves r res.dict)

/-- The errors `Process` returns, as far as identities are concerned: those of `process`
(`resolveIdentities`, then `resolveTypedefs`), or, when there are none, those of the identityref
leaves (second stage: `ToEntry` + `GetErrors`). -/
def processErrs (r : Registry) (res : Result)
    (leaves : List (String × String × List (Option DEntry) × List Err)) : List Err :=
  let stage1 := res.errs ++ typedefErrs r res.dict
  if stage1.isEmpty then leaves.flatMap (·.2.2.2) else stage1

/-! ## Loading -/

/-- `ms.Parse` for every file in order: every top-level statement is added. -/
def loadAll (files : List SrcFile) : Except Registry.AddErr Registry :=
  files.foldlM (fun r f => f.stmts.foldlM (fun r s => r.add s) r) {}

/-- For the type layer (`Type.resolve` / `Typedef.resolve`): `root.findIdentityBase(baseStr)` against
the dictionary `resolveIdentities` builds for the registry as loaded (insertion-order oracle).
Returns the dictionary key of the resolved identity and the errors as Go returns them. -/
def findIdentityBaseOf (r : Registry) (root : Mod) (baseStr : String) : Option String × List Err :=
  let o := Oracle.ofNat 0
  match linkAll o r with
  | none => (none, [Err.bare "crash"])
  | some (lk, _) =>
    match buildDict o r lk with
    | none => (none, [Err.bare "crash"])
    | some (dict, _) =>
      match findIdentityBase r dict root baseStr with
      | .ok e => (some e.key, [])
      | .error err => (none, [err])

end Goyang.Model.Identity
