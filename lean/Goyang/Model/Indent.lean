/-
Impl model of /repo/pkg/indent/indent.go (whole file).  Transliteration: same split, same join,
same `partial` bit updated before the underlying write, same counting loop on a short write, and
(after the repair of D20-M1, /repo 8883425) on a short write the bit re-set by `partialAfter` to the
line state of the bytes that got through.
-/
namespace Goyang.Model.Indent

abbrev Bytes := List UInt8

def NL : UInt8 := 10

/-- `bytes.SplitAfter(b, "\n")`: pieces end in a line feed, except the last one (possibly empty). -/
def splitAfter : Bytes → List Bytes
  | [] => [[]]
  | b :: rest =>
    if b = NL then [b] :: splitAfter rest
    else match splitAfter rest with
      | h :: t => (b :: h) :: t
      | [] => [[b]]

/-- Go: `if len(lines[len(lines)-1]) == 0 { lines = lines[:len(lines)-1] }`. -/
def dropEmptyLast (l : List Bytes) : List Bytes :=
  match l.getLast? with
  | some [] => l.dropLast
  | _ => l

def lines (b : Bytes) : List Bytes := dropEmptyLast (splitAfter b)

/-- `bytes.Join(parts, sep)`. -/
def join (sep : Bytes) : List Bytes → Bytes
  | [] => []
  | [x] => x
  | x :: rest => x ++ sep ++ join sep rest

/-- `indent.String` / `indent.Bytes`. -/
def indent (pre s : Bytes) : Bytes :=
  if pre.isEmpty || s.isEmpty then s else join pre ([] :: lines s)

/-- `actualWrittenSize(underlay, prefix, lines)` (after the fix of the partial-line case):
`first` is true for element 0, which no prefix precedes.  `remain` and `actual` are signed, as the
Go `int`s are (`remain -= prefix` may go below zero), and so is the result: that it is never
negative is a theorem (`Props.C20.write_short_count`), not a consequence of the type. -/
def written (prefix_ : Nat) : (first : Bool) → (remain : Int) → List Bytes → (actual : Int) → Int
  | _, _, [], actual => actual
  | first, remain, line :: rest, actual =>
    let remain := if first then remain else remain - prefix_
    if remain ≤ 0 then actual
    else if remain ≤ line.length then actual + remain
    else written prefix_ false (remain - line.length) rest (actual + line.length)

/-- The loop of `partialAfter(underlay, prefix, lines, was)` (after `underlay <= 0` has been dealt
with).  `first` is true for element 0.  `remain` is a `Nat`: the Go `int` is only ever decreased
behind a guard (`remain < prefix` returns before `remain -= prefix`; `remain <= len(line)` returns
before `remain -= len(line)`), so it cannot go below zero.  `none` = an index-out-of-range panic
(`line[remain-1]` with `remain = 0`, `lines[len(lines)-1]` / `last[len(last)-1]` on an empty slice);
that it does not happen inside `Write` is part of `Lemmas.Indent.write_some_eq` (`crash := false`).
`all` is the whole of `lines` (for the statement after the loop). -/
def partialAfterGo (prefix_ : Nat) (all : List Bytes) : (first : Bool) → (remain : Nat) → List Bytes → Option Bool
  | _, _, [] =>
    match all.getLast? with
    | none => none
    | some last =>
      match last.getLast? with
      | none => none
      | some b => some (b != NL)
  | first, remain, line :: rest =>
    if !first && remain < prefix_ then some false          -- cut inside the prefix
    else
      let remain := if first then remain else remain - prefix_
      if !first && remain == 0 then some true              -- exactly after the prefix
      else if remain ≤ line.length then
        match remain with
        | 0 => none
        | j + 1 => (line[j]?).map (· != NL)
      else partialAfterGo prefix_ all false (remain - line.length) rest

/-- `partialAfter(underlay, prefix, lines, was)`. -/
def partialAfter (underlay prefix_ : Nat) (lines : List Bytes) (was : Bool) : Option Bool :=
  match underlay with
  | 0 => some was
  | _ => partialAfterGo prefix_ lines true underlay lines

/-- The underlying writer: `none` takes everything and reports success; `some k` takes the
first `k` bytes (`k ≤` length of what it is handed) and reports an error. -/
abbrev Under := Option Nat

structure WriteOut where
  partial_ : Bool      -- writer state afterwards
  handed : Bytes       -- what the underlying writer was handed
  reached : Bytes      -- what it took
  n : Int              -- count returned to the caller (a Go `int`)
  err : Bool
  crash : Bool := false -- an index-out-of-range panic in `partialAfter` (never: `write_some_eq`)
  deriving Repr, DecidableEq

/-- `(*iw).Write` with a non-empty prefix. -/
def write (pre : Bytes) (partial_ : Bool) (buf : Bytes) (u : Under) : WriteOut :=
  if buf.isEmpty then { partial_ := partial_, handed := [], reached := [], n := 0, err := false } else
  let ls := lines buf
  let ls := if partial_ then ls else [] :: ls
  let joined := join pre ls
  let partial' := joined.getLast? != some NL
  match u with
  | none => { partial_ := partial', handed := joined, reached := joined, n := buf.length, err := false }
  | some k =>
    let k := min k joined.length
    -- `w.partial` was assigned `partial'` before the underlying write; the error path re-assigns it
    let st := partialAfter k pre.length ls partial_
    { partial_ := (match st with | some b => b | none => partial'), handed := joined, reached := joined.take k,
      n := written pre.length true k ls 0, err := true, crash := st.isNone }

/-- A sequence of Write calls on one writer, going on after errors with the state the failed call
left (`partialAfter`: that of the bytes that got through — `Props.C20.resume_spec`). Returns everything that reached the underlying
writer, and the per-call results. -/
def writes (pre : Bytes) : Bool → List (Bytes × Under) → Bytes × List (Int × Bool)
  | _, [] => ([], [])
  | p, (buf, u) :: rest =>
    let o := write pre p buf u
    let (outR, resR) := writes pre o.partial_ rest
    (o.reached ++ outR, (o.n, o.err) :: resR)

/-- The writer's `partial` bit after each call of a sequence of Write calls. -/
def trace (pre : Bytes) : Bool → List (Bytes × Under) → List Bool
  | _, [] => []
  | p, (buf, u) :: rest =>
    let o := write pre p buf u
    o.partial_ :: trace pre o.partial_ rest

/-- Two stacked writers: `outer = NewWriter(inner, p2)`, `inner = NewWriter(sink, p1)`, with Write
calls addressed to either of them in any interleaving (all successful). What the outer writer hands
down is what it writes to the inner one. Returns what reaches the sink and the count each call
returns. `true` = the call goes to the outer writer. -/
def nestedWrites (p1 p2 : Bytes) : (pin pout : Bool) → List (Bool × Bytes) → Bytes × List Int
  | _, _, [] => ([], [])
  | pin, pout, (toOuter, buf) :: rest =>
    if toOuter then
      let o := write p2 pout buf none
      let i := write p1 pin o.handed none
      let (outR, resR) := nestedWrites p1 p2 i.partial_ o.partial_ rest
      (i.reached ++ outR, o.n :: resR)
    else
      let i := write p1 pin buf none
      let (outR, resR) := nestedWrites p1 p2 i.partial_ pout rest
      (i.reached ++ outR, i.n :: resR)

end Goyang.Model.Indent
