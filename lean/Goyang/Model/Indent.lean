/-
Impl model of /repo/pkg/indent/indent.go (whole file).  Transliteration: same split, same join,
same `partial` bit updated before the underlying write, same counting loop on a short write.
-/
namespace Goyang.Model.Indent

abbrev Bytes := List UInt8

def NL : UInt8 := 10

/-- `bytes.SplitAfter(b, "\n")`: pieces end in a line feed, except the last one (possibly empty). -/
def splitAfter : Bytes → List Bytes
  | [] => [[]]
  | b :: rest =>
    if b = NL then [b] :: splitAfter rest
    else match splitAfter rest with
      | h :: t => (b :: h) :: t
      | [] => [[b]]

/-- Go: `if len(lines[len(lines)-1]) == 0 { lines = lines[:len(lines)-1] }`. -/
def dropEmptyLast (l : List Bytes) : List Bytes :=
  match l.getLast? with
  | some [] => l.dropLast
  | _ => l

def lines (b : Bytes) : List Bytes := dropEmptyLast (splitAfter b)

/-- `bytes.Join(parts, sep)`. -/
def join (sep : Bytes) : List Bytes → Bytes
  | [] => []
  | [x] => x
  | x :: rest => x ++ sep ++ join sep rest

/-- `indent.String` / `indent.Bytes`. -/
def indent (pre s : Bytes) : Bytes :=
  if pre.isEmpty || s.isEmpty then s else join pre ([] :: lines s)

/-- `actualWrittenSize(underlay, prefix, lines)` (after the fix of the partial-line case):
`first` is true for element 0, which no prefix precedes.  `remain` and `actual` are signed, as the
Go `int`s are (`remain -= prefix` may go below zero), and so is the result: that it is never
negative is a theorem (`Props.C20.write_short_count`), not a consequence of the type. -/
def written (prefix_ : Nat) : (first : Bool) → (remain : Int) → List Bytes → (actual : Int) → Int
  | _, _, [], actual => actual
  | first, remain, line :: rest, actual =>
    let remain := if first then remain else remain - prefix_
    if remain ≤ 0 then actual
    else if remain ≤ line.length then actual + remain
    else written prefix_ false (remain - line.length) rest (actual + line.length)

/-- The underlying writer: `none` takes everything and reports success; `some k` takes the
first `k` bytes (`k ≤` length of what it is handed) and reports an error. -/
abbrev Under := Option Nat

structure WriteOut where
  partial_ : Bool      -- writer state afterwards
  handed : Bytes       -- what the underlying writer was handed
  reached : Bytes      -- what it took
  n : Int              -- count returned to the caller (a Go `int`)
  err : Bool
  deriving Repr, DecidableEq

/-- `(*iw).Write` with a non-empty prefix. -/
def write (pre : Bytes) (partial_ : Bool) (buf : Bytes) (u : Under) : WriteOut :=
  if buf.isEmpty then { partial_ := partial_, handed := [], reached := [], n := 0, err := false } else
  let ls := lines buf
  let ls := if partial_ then ls else [] :: ls
  let joined := join pre ls
  let partial' := joined.getLast? != some NL
  match u with
  | none => { partial_ := partial', handed := joined, reached := joined, n := buf.length, err := false }
  | some k =>
    let k := min k joined.length
    { partial_ := partial', handed := joined, reached := joined.take k,
      n := written pre.length true k ls 0, err := true }

/-- A sequence of Write calls on one writer, going on after errors: the Go writer keeps the state it
recorded before calling the underlying writer (that of the END of the argument, whatever part of it
was taken — see `Props.C20.resume_spec_fails`), and so does this. Returns everything that reached the underlying
writer, and the per-call results. -/
def writes (pre : Bytes) : Bool → List (Bytes × Under) → Bytes × List (Int × Bool)
  | _, [] => ([], [])
  | p, (buf, u) :: rest =>
    let o := write pre p buf u
    let (outR, resR) := writes pre o.partial_ rest
    (o.reached ++ outR, (o.n, o.err) :: resR)

/-- Two stacked writers: `outer = NewWriter(inner, p2)`, `inner = NewWriter(sink, p1)`, with Write
calls addressed to either of them in any interleaving (all successful). What the outer writer hands
down is what it writes to the inner one. Returns what reaches the sink and the count each call
returns. `true` = the call goes to the outer writer. -/
def nestedWrites (p1 p2 : Bytes) : (pin pout : Bool) → List (Bool × Bytes) → Bytes × List Int
  | _, _, [] => ([], [])
  | pin, pout, (toOuter, buf) :: rest =>
    if toOuter then
      let o := write p2 pout buf none
      let i := write p1 pin o.handed none
      let (outR, resR) := nestedWrites p1 p2 i.partial_ o.partial_ rest
      (i.reached ++ outR, o.n :: resR)
    else
      let i := write p1 pin buf none
      let (outR, resR) := nestedWrites p1 p2 i.partial_ pout rest
      (i.reached ++ outR, i.n :: resR)

end Goyang.Model.Indent
