/-
Impl model of `pkg/yang/lex.go` (the tree after the repairs D20 `updateCursor` keeps `tcol`,
D29 invalid escape reported at its backslash, D42 the `*` of `/*` is consumed before the search
for `*/`).  A transliteration: same functions, same case
order, same bookkeeping of `line`/`col`/`tcol`/`width`/`start`, same bounded token queue and
error budget.

Representation choices (data refinements of the Go state, nothing else):
* `(input, pos)` is a zipper: `before` = `input[:pos]` reversed, `rest` = `input[pos:]`; so
  `pos = before.length`.  `start` and `width` stay byte counts as in Go.
* The `items` channel (capacity `maxErrors`) is a list; a send on a full channel is dropped
  (`select … default`).
* `errout` is the list of error lines written so far, each reduced to file, position and class
  (wording is never modelled); the parser shares it (`p.lex.errout = p.errout`).
* The state function pointer is the enumeration `LState`; `done` is Go's `nil` state.
* Go operations that would panic (`input[start:pos]` with `start > pos`, a negative `pos` after
  `backup`) set `fault := crash`; a loop that runs out of fuel sets `fault := outOfFuel`.  Both are
  proved unreachable (`Lemmas/Lex.lean`); the fuel every loop gets is stated next to it, in terms
  of the number of unread input bytes.
* Integers `line`, `col`, `tcol` are `Int` (Go `int`; `backup` makes `col` negative for a moment).
  `(tcol + 8) & ^7` is `(tcol + 8) / 8 * 8` (floor division; equal on two's complement).
-/
import Goyang.Model.Utf8

namespace Goyang.Model.Lex
open Goyang.Model.Utf8

/-- `eof = 0x7fffffff`, "also an invalid rune" -/
def eofRune : Nat := 0x7fffffff
def maxErrors : Nat := 8

/-- token codes; `tEOF` is the absence of a token (`nil`) -/
inductive Code
  | error | string | unquoted
  | punct (c : UInt8)          -- `;` `{` `}` : the code is the character
  deriving DecidableEq, Repr, Inhabited

structure Token where
  code : Code
  text : List UInt8
  file : List UInt8
  line : Int
  col  : Int                   -- 1-based
  deriving DecidableEq, Repr, Inhabited

/-- what an error line says (wording reduced to a class) -/
inductive ErrClass
  | missingSQuote              -- missing closing '
  | missingDQuote              -- missing closing "
  | missingCommentEnd          -- missing closing */
  | noNewline                  -- lexer internal error: all lines should be newline-terminated.
  | invalidEscape              -- invalid escape sequence: \X
  | tooMany                    -- too many errors...
  | unexpectedRBrace           -- unexpected }
  | keywordNotUnquoted         -- keyword token not an unquoted string
  | expectedSemiOrBrace        -- syntax error, expected ';' or '{'
  | unexpectedEOF              -- unexpected EOF
  | missingBraces (n : Int)    -- missing N closing brace(s)
  deriving DecidableEq, Repr, Inhabited

/-- one error line written to `errout`: `file:line:col: …` (`pos = none`: no `line:col` printed) -/
structure ErrLine where
  file : List UInt8
  pos  : Option (Int × Int)    -- as printed
  cls  : ErrClass
  deriving DecidableEq, Repr, Inhabited

inductive LState | ground | qstring | unquoted | done
  deriving DecidableEq, Repr, Inhabited

inductive Fault | none | crash | outOfFuel
  deriving DecidableEq, Repr, Inhabited

structure Lexer where
  errout : List ErrLine
  errcnt : Nat
  file   : List UInt8
  before : List UInt8          -- input[:pos], reversed
  rest   : List UInt8          -- input[pos:]
  start  : Nat
  line   : Int
  col    : Int
  inPattern : Bool
  items  : List Token
  tcol   : Int
  scol   : Int
  sline  : Int
  state  : LState
  width  : Nat
  fault  : Fault
  deriving Repr, Inhabited

def Lexer.pos (l : Lexer) : Nat := l.before.length

/-- `newLexer` (the parser then points `errout` at its own buffer) -/
def newLexer (input path : List UInt8) : Lexer :=
  let input := if input.length > 0 && input.getLast? != some 10 then input ++ [10] else input
  { errout := [], errcnt := 0, file := path, before := [], rest := input, start := 0, line := 1, col := 0,
    inPattern := false, items := [], tcol := 0, scol := 0, sline := 0, state := .ground, width := 0,
    fault := .none }

def setFault (f : Fault) (l : Lexer) : Lexer :=
  if l.fault = .none then { l with fault := f } else l

/-- assignment of the next state (`return lexX`) -/
def setState (s : LState) (l : Lexer) : Lexer := { l with state := s }

/-- `consume` -/
def consume (l : Lexer) : Lexer := { l with start := l.pos }

/-- `emitText`: non-blocking send on the bounded channel, then `consume` -/
def emitText (c : Code) (text : List UInt8) (l : Lexer) : Lexer :=
  let tok : Token := { code := c, text := text, file := l.file, line := l.sline, col := l.scol + 1 }
  let l := if l.items.length < maxErrors then { l with items := l.items ++ [tok] } else l
  consume l

/-- `emit`: the token text is `input[start:pos]` -/
def emit (c : Code) (l : Lexer) : Lexer :=
  if l.start > l.pos then setFault .crash l
  else emitText c (l.before.take (l.pos - l.start)).reverse l

/-- `next` -/
def next (l : Lexer) : Nat × Lexer :=
  match l.rest with
  | [] => (eofRune, { l with width := 0 })
  | _ :: _ =>
    let r := (decodeRune l.rest).1
    let w := (decodeRune l.rest).2
    let l := { l with before := (l.rest.take w).reverse ++ l.before, rest := l.rest.drop w, width := w }
    if r = 10 then (r, { l with line := l.line + 1, col := 0, tcol := 0 })
    else if r = 9 then (r, { l with tcol := (l.tcol + 8) / 8 * 8, col := l.col + 1 })
    else (r, { l with tcol := l.tcol + 1, col := l.col + 1 })

/-- `backup`.  (`pos -= width` below zero does not panic by itself in Go, but every later use of
`pos` slices the input with it and does; the model faults at once.) -/
def backup (l : Lexer) : Lexer :=
  if l.width > l.pos then setFault .crash l else
  let l' := { l with rest := (l.before.take l.width).reverse ++ l.rest, before := l.before.drop l.width }
  if l.width > 0 then
    if l.col - 1 < 0 then { l' with line := l.line - 1, col := 0, tcol := 0 }
    else { l' with col := l.col - 1, tcol := l.tcol - 1 }
  else l'

/-- `peek` -/
def peek (l : Lexer) : Nat × Lexer :=
  let p := next l
  (p.1, backup p.2)

/-- `strings.ContainsRune(" \t\r\n", r)` -/
def isSpaceRune (r : Nat) : Bool := r = 32 || r = 9 || r = 13 || r = 10

/-- the `for` loop of `acceptRun`; fuel: unread bytes + 1 (every accepted rune is at least one byte) -/
def acceptRunLoop : Nat → Bool → Lexer → Bool × Lexer
  | 0, ret, l => (ret, setFault .outOfFuel l)
  | f + 1, ret, l =>
    let p := next l
    if isSpaceRune p.1 then acceptRunLoop f true p.2 else (ret, p.2)

/-- `acceptRun(" \t\r\n")` -/
def acceptRun (l : Lexer) : Bool × Lexer :=
  let p := acceptRunLoop (l.rest.length + 1) false l
  (p.1, backup p.2)

/-- `strings.Index(s, pat)` -/
def indexOf (pat : List UInt8) : List UInt8 → Option Nat
  | [] => if pat.isEmpty then some 0 else none
  | b :: s =>
    if pat.isPrefixOf (b :: s) then some 0
    else (indexOf pat s).map (· + 1)

/-- `s[strings.LastIndex(s, "\n")+1:]` -/
def afterLastNL (s : List UInt8) : List UInt8 := (s.reverse.takeWhile (· != 10)).reverse

/-- body of the `for _, r := range …` loop of `updateCursor` -/
def cursorStep (l : Lexer) (r : Nat) : Lexer :=
  if r = 9 then { l with col := l.col + 1, tcol := (l.tcol + 8) / 8 * 8 }
  else { l with col := l.col + 1, tcol := l.tcol + 1 }

/-- `updateCursor` (repaired: keeps `tcol`) -/
def updateCursor (n : Nat) (l : Lexer) : Lexer :=
  let s := l.rest.take n
  let l := { l with before := s.reverse ++ l.before, rest := l.rest.drop n, width := n }
  let c := s.count 10
  let l := if c > 0 then { l with line := l.line + c, col := 0, tcol := 0 } else l
  (runes (afterLastNL s)).foldl cursorStep l

/-- `skipTo` -/
def skipTo (pat : List UInt8) (l : Lexer) : Bool × Lexer :=
  match indexOf pat l.rest with
  | some x => (true, updateCursor x l)
  | none => (false, l)

theorem skipTo_false (pat : List UInt8) (l : Lexer) (h : (skipTo pat l).1 = false) : (skipTo pat l).2 = l := by
  unfold skipTo at *
  split at h
  · cases h
  · rfl

def tooManyLine : ErrLine := { file := [], pos := none, cls := .tooMany }

/-- `adderror` -/
def adderror (e : ErrLine) (l : Lexer) : Lexer :=
  if l.errcnt = maxErrors then
    { l with before := [], rest := [], start := 0, errout := l.errout ++ [tooManyLine], errcnt := l.errcnt + 1 }
  else if l.errcnt = maxErrors + 1 then l
  else { l with errout := l.errout ++ [e], errcnt := l.errcnt + 1 }

/-- `Errorf`: the line is `file:line:col+1: …` -/
def errorf (cls : ErrClass) (l : Lexer) : Lexer :=
  let e : ErrLine := { file := l.file, pos := some (l.line, l.col + 1), cls := cls }
  adderror e (emit .error l)

/-- `ErrorfAt` -/
def errorfAt (line col : Int) (cls : ErrClass) (l : Lexer) : Lexer :=
  let oline := l.line
  let ocol := l.col
  let l := errorf cls { l with line := line, col := col }
  { l with line := oline, col := ocol }

/-- `lexGround`, first four lines: skip white space, `consume`, note where the token starts -/
def groundStart (l : Lexer) : Lexer :=
  let l := (acceptRun l).2
  let l := consume l
  { l with sline := l.line, scol := l.col }

/-- `lexGround`, `case '\''` (the cursor is before the quote) -/
def groundSQuote (l : Lexer) : Lexer :=
  let l := (next l).2
  let l := consume l
  let p := skipTo [39] l
  if p.1 then
    let l := p.2
    let l := emit .string l
    let l := (next l).2
    setState .ground (l)
  else
    let l := p.2
    setState .done (errorfAt l.line (l.col - 1) .missingSQuote l)

/-- `lexGround`, `case '/'` -/
def groundSlash (l : Lexer) : Lexer :=
  let l := (next l).2
  let p := peek l
  let c2 := p.1
  let l := p.2
  if c2 = 47 then
    let p := skipTo [10] l
    if p.1 then setState .ground (p.2)
    else
      let l := p.2
      setState .done (errorfAt l.line (l.col - 1) .noNewline l)
  else if c2 = 42 then
    let l := (next l).2
    let p := skipTo [42, 47] l
    if p.1 then
      let l := p.2
      let l := (next l).2
      let l := (next l).2
      setState .ground (l)
    else
      let l := p.2
      setState .done (errorfAt l.line (l.col - 2) .missingCommentEnd l)
  else setState .unquoted (l)

/-- `lexGround`, `case '+'` -/
def groundPlus (l : Lexer) : Lexer :=
  let l := (next l).2
  let p := peek l
  let c2 := p.1
  let l := p.2
  if c2 = 34 || c2 = 39 then setState .ground (emit .unquoted l)
  else setState .unquoted (l)

/-- `lexGround`; the returned lexer carries the next state (the cases of the `switch` that are
longer than a line are the functions above) -/
def lexGround (l : Lexer) : Lexer :=
  let l := groundStart l
  let p := peek l
  let c := p.1
  let l := p.2
  if c = eofRune then setState .done (l)
  else if c = 59 || c = 123 || c = 125 then
    setState .ground (emit (.punct (UInt8.ofNat c)) (next l).2)
  else if c = 39 then groundSQuote l
  else if c = 34 then setState .qstring ((next l).2)
  else if c = 47 then groundSlash l
  else if c = 43 then groundPlus l
  else setState .unquoted (l)

/-- the trailing-blank trimming loop of `lexQString` (on bytes) -/
def trimTrailing (text : List UInt8) : List UInt8 :=
  (text.reverse.dropWhile (fun b => b == 32 || b == 9)).reverse

/-- the `for` loop of `lexQString`.  `indent`, `line`, `col` are the locals fixed before the loop,
`text` and `over` the ones it updates.  Fuel: unread bytes + 2 (an iteration reads at least one
byte or meets the end of input and stops; clearing the input only shortens it). -/
def qstringLoop (indent line col : Int) : Nat → List UInt8 → Bool → Lexer → Lexer
  | 0, _, _, l => setFault .outOfFuel l
  | f + 1, text, over, l =>
    let p := next l
    let c := p.1
    let l := p.2
    if c = eofRune then setState .done (errorfAt line col .missingDQuote l)
    else if c = 34 then setState .ground (emitText .string text l)
    else if c = 10 then qstringLoop indent line col f (trimTrailing text ++ encodeRune c) false l
    else if c = 32 || c = 9 then
      if !over && l.tcol ≤ indent then qstringLoop indent line col f text over l
      else qstringLoop indent line col f (text ++ encodeRune c) true l
    else if c = 92 then
      let eline := l.line
      let ecol := l.col - 1
      let p := next l
      let c := p.1
      let l := p.2
      if c = 110 then qstringLoop indent line col f (text ++ encodeRune 10) true l
      else if c = 116 then qstringLoop indent line col f (text ++ encodeRune 9) true l
      else if c = 34 || c = 92 then qstringLoop indent line col f (text ++ encodeRune c) true l
      else
        let l := if !l.inPattern then errorfAt eline ecol .invalidEscape l else l
        qstringLoop indent line col f (text ++ [92] ++ encodeRune c) true l
    else qstringLoop indent line col f (text ++ encodeRune c) true l

/-- `lexQString` -/
def lexQString (l : Lexer) : Lexer :=
  qstringLoop l.tcol l.line (l.col - 1) (l.rest.length + 2) [] true l

/-- the delimiters of `lexUnquoted` -/
def isUnqDelim (c : Nat) : Bool :=
  c = 32 || c = 13 || c = 10 || c = 9 || c = 59 || c = 34 || c = 39 || c = 123 || c = 125 || c = eofRune

/-- the `for` loop of `lexUnquoted`; fuel: unread bytes + 1 -/
def unquotedLoop : Nat → Lexer → Lexer
  | 0, l => setFault .outOfFuel l
  | f + 1, l =>
    let p := peek l
    if isUnqDelim p.1 then setState .ground (emit .unquoted p.2)
    else unquotedLoop f (next p.2).2

def lexUnquoted (l : Lexer) : Lexer := unquotedLoop (l.rest.length + 1) l

/-- the `for { select … }` loop of `NextToken`.  Fuel: unread bytes + 3 (with an empty queue a
state function either queues something, stops the lexer, hands over to `lexQString`/`lexUnquoted`
— which always queue or stop — or has skipped a comment of at least two bytes). -/
def nextTokenLoop : Nat → Lexer → Option Token × Lexer
  | 0, l => (none, setFault .outOfFuel l)
  | f + 1, l =>
    match l.items with
    | t :: ts => (some t, { l with items := ts })
    | [] =>
      match l.state with
      | .done => (none, l)
      | .ground => nextTokenLoop f (lexGround l)
      | .qstring => nextTokenLoop f (lexQString l)
      | .unquoted => nextTokenLoop f (lexUnquoted l)

/-- `NextToken` (`none` = `nil` = end of input) -/
def nextToken (l : Lexer) : Option Token × Lexer := nextTokenLoop (l.rest.length + 3) l

end Goyang.Model.Lex
