import Goyang.Model.Parse
import Goyang.Model.Ast
import Goyang.Gen.AstSchema
import Goyang.Model.Pipeline
/-
Loading from raw text, all in Lean: `Modules.Parse(text, name)` = generic parser (C02 layer) →
AST builder over the regenerated tag table (C03 layer) → registry (`Registry.add`), atomic.
With this a module set is a list of (name, text) pairs on both sides and nothing of the Go
front end is trusted by the resolver correspondence.
-/
namespace Goyang.Model

/-- A parsed statement as the AST builder model sees it (byte strings). -/
def toAstStmt : Parse.Statement → Ast.Stmt
  | ⟨kw, ha, arg, _, line, col, subs⟩ => .mk kw ha arg line.toNat col.toNat (toAstL subs)
where toAstL : List Parse.Statement → List Ast.Stmt
  | [] => []
  | s :: rest => toAstStmt s :: toAstL rest

def bytesToString? (bs : List UInt8) : Option String := String.fromUTF8? (ByteArray.mk bs.toArray)

/-- A parsed statement as the resolver layers see it (`none`: some keyword or argument is not
valid UTF-8, which the resolver model does not interpret). -/
def toStmt? (file : String) : Parse.Statement → Option Stmt
  | ⟨kw, ha, arg, _, line, col, subs⟩ => do
    let k ← bytesToString? kw
    let a ← bytesToString? arg
    let ss ← toStmtL? file subs
    some (.mk k ha a file line.toNat col.toNat ss)
where toStmtL? (file : String) : List Parse.Statement → Option (List Stmt)
  | [] => some []
  | s :: rest => do
    let x ← toStmt? file s
    let xs ← toStmtL? file rest
    some (x :: xs)

inductive LoadResult
  | accepted
  | rejectedSyntax      -- the generic parser rejected the text
  | rejectedBuild       -- the AST builder rejected a statement (unknown / duplicate / missing substatement …)
  | rejectedTop         -- a top-level statement is not a module or submodule
  | rejectedAdd         -- `Modules.add` refused (duplicate module)
  | outside (why : String)
  deriving Repr, BEq

/-- `Modules.Parse(text, name)`. -/
def loadText (reg : Registry) (name text : List UInt8) : Registry × LoadResult :=
  match Parse.parseText name text with
  | .rejected _ => (reg, .rejectedSyntax)
  | .fault _ => (reg, .outside "parser-fault")
  | .ok forest =>
    match Ast.buildAll Gen.AstSchema.table (forest.map toAstStmt) with
    | .error _ => (reg, .rejectedBuild)
    | .ok _ =>
      if !(forest.all fun s => s.keyword == Ast.kwModule || s.keyword == Ast.kwSubmodule) then (reg, .rejectedTop) else
      match bytesToString? name with
      | none => (reg, .outside "file-name-not-utf8")
      | some fname =>
        match toStmt?.toStmtL? fname forest with
        | none => (reg, .outside "not-utf8")
        | some stmts =>
          match stmts.foldlM (fun r s => r.add s) reg with
          | .ok r => (r, .accepted)
          | .error _ => (reg, .rejectedAdd)

/-- Load texts in order into a fresh registry; per text its result. -/
def loadTexts (texts : List (List UInt8 × List UInt8)) : Registry × List LoadResult :=
  texts.foldl (fun (acc : Registry × List LoadResult) nt =>
    let (r, res) := loadText acc.1 nt.1 nt.2
    (r, acc.2 ++ [res])) ({}, [])

end Goyang.Model
