/-
C19 — lock discipline.

Part 1 (semantics, the independent reading of "no data race"): threads are sequences of events
`acquire m shared|excl`, `release m`, `read ℓ`, `write ℓ`; one step runs the next event of one
thread; an exclusive acquire needs the mutex free, a shared acquire needs it free of an exclusive
holder (sync.Mutex = always exclusive, sync.RWMutex = both); a state is reachable by any
interleaving of any number of threads; a race is a reachable state in which two different threads
are both about to access one location and at least one of the accesses is a write.

Part 2 (the regenerated fact table): what `harness/cmd/extract-access` derives from the Go source
per function — shared-location reads and writes with the mutexes held at that point, call edges —
and for the whole program; the abstract program these facts describe (`Run`, `Calls`); and the
decidable predicates that `Props/C19.lean` evaluates on the table with `decide +kernel`.

Core Lean only.
-/
namespace Goyang.Model.Lockset

/-! ## Part 1: events, states, steps, races -/

inductive Mode where
  | shared | excl
deriving DecidableEq, Repr

/-- One event of a thread.  `M` names mutexes, `L` names memory locations. -/
inductive Ev (M L : Type) where
  | acquire (m : M) (mode : Mode)
  | release (m : M)
  | read (l : L)
  | write (l : L)
deriving DecidableEq, Repr

/-- How a thread currently holds mutexes (multisets: a read lock may be taken twice). -/
structure Held (M : Type) where
  excl : List M
  shared : List M
deriving Repr

def Held.empty {M : Type} : Held M := ⟨[], []⟩

variable {M L : Type} [DecidableEq M]

/-- Effect of an event on the set of held mutexes.  A thread never holds one mutex in both modes
(see `Enabled`), so `release` may simply drop one occurrence from whichever list has it. -/
def Held.after (h : Held M) : Ev M L → Held M
  | .acquire m .excl => ⟨m :: h.excl, h.shared⟩
  | .acquire m .shared => ⟨h.excl, m :: h.shared⟩
  | .release m => ⟨h.excl.erase m, h.shared.erase m⟩
  | .read _ => h
  | .write _ => h

/-- The mutexes held after running a sequence of events from nothing held. -/
def heldAfter (evs : List (Ev M L)) : Held M := evs.foldl Held.after Held.empty

/-- A thread: what it holds and the events it still has to run. -/
structure Thread (M L : Type) where
  held : Held M
  todo : List (Ev M L)

/-- A state: the threads, thread id = index. -/
abbrev State (M L : Type) := List (Thread M L)

/-- May the event run now?  Lock: nobody (the thread itself included: Go mutexes are not
re-entrant) holds the mutex in any mode.  RLock: nobody holds it exclusively. -/
def Enabled (s : State M L) : Ev M L → Prop
  | .acquire m .excl => ∀ (j : Nat) (tj : Thread M L), s[j]? = some tj → m ∉ tj.held.excl ∧ m ∉ tj.held.shared
  | .acquire m .shared => ∀ (j : Nat) (tj : Thread M L), s[j]? = some tj → m ∉ tj.held.excl
  | _ => True

/-- One step: thread `i` runs its next event. -/
inductive Step : State M L → State M L → Prop where
  | mk (s : State M L) (i : Nat) (t : Thread M L) (e : Ev M L) (rest : List (Ev M L)) :
      s[i]? = some t → t.todo = e :: rest → Enabled s e →
      Step s (s.set i ⟨t.held.after e, rest⟩)

/-- The start state of a program (one event list per thread): nothing held, nothing run. -/
def start (prog : List (List (Ev M L))) : State M L := prog.map fun p => ⟨Held.empty, p⟩

/-- Reachability under every interleaving. -/
inductive Reach (prog : List (List (Ev M L))) : State M L → Prop where
  | start : Reach prog (start prog)
  | step {s s' : State M L} : Reach prog s → Step s s' → Reach prog s'

/-- A data race on `l`: two different threads whose next events are accesses of `l`, one of them a
write. -/
def RaceOn (s : State M L) (l : L) : Prop :=
  ∃ (i j : Nat) (ti tj : Thread M L) (ri rj : List (Ev M L)), i ≠ j ∧ s[i]? = some ti ∧ s[j]? = some tj ∧
    ti.todo = .write l :: ri ∧ (tj.todo = .write l :: rj ∨ tj.todo = .read l :: rj)

def Race (s : State M L) : Prop := ∃ l, RaceOn s l

/-- The access event of a kind. -/
def acc (isWrite : Bool) (l : L) : Ev M L := if isWrite then .write l else .read l

/-- Two lock sets exclude each other: some mutex is in both, exclusively on at least one side. -/
def Protects (a b : Held M) : Prop :=
  ∃ m, (m ∈ a.excl ∧ (m ∈ b.excl ∨ m ∈ b.shared)) ∨ (m ∈ b.excl ∧ (m ∈ a.excl ∨ m ∈ a.shared))

/-- The discipline for location `l`, stated on the program text: wherever one thread writes `l`
and another thread reads or writes `l`, the lock sets held at the two program points (computed
from the acquire/release events before them) exclude each other. -/
def DisciplinedOn (prog : List (List (Ev M L))) (l : L) : Prop :=
  ∀ (i j : Nat) (pi pj prei posti prej postj : List (Ev M L)) (b : Bool), i ≠ j →
    prog[i]? = some pi → prog[j]? = some pj →
    pi = prei ++ .write l :: posti → pj = prej ++ acc b l :: postj →
    Protects (heldAfter prei) (heldAfter prej)

def Disciplined (prog : List (List (Ev M L))) : Prop := ∀ l, DisciplinedOn prog l

/-! ## Part 2: the regenerated facts -/

/-- One access or call site.  `tgt`: location id (reads/writes) or function id (calls).
`held`: the mutexes (id, exclusive?) that are held on every path reaching the site inside its
function.  `allow`: 0 = inside the claim of the property, k+1 = tagged by allow-list entry k. -/
structure Acc where
  tgt : Nat
  held : List (Nat × Bool)
  allow : Nat
deriving Repr

/-- The facts of one function.  `leaks`: a reference to (or held in) the package-level variable
`tgt` leaves the function — returned, stored into memory, sent, or passed to a function of the
packages; `allow` = k+1 when the variable is explained by entry k of `global_refs_ok` in
allow.json, else 0 (`held` is unused).  `escapes`: callable from outside the call graph seen
here (exported, a method, or used as a value). -/
structure Fn where
  reads : List Acc
  writes : List Acc
  calls : List Acc
  leaks : List Acc
  escapes : Bool
deriving Repr

/-- The table.  `readerReach` and `initOnly` are certificates computed by the translator; the
predicates below check the closure properties that make them sound, they are not trusted. -/
structure Facts where
  fns : List Fn                       -- index = function id
  readerRoots : List Nat              -- the reader API of the property
  readerReach : List Nat              -- superset of what the reader API reaches over untagged calls
  initRoots : List Nat                -- package initialisers (they also run the variable initialisers)
  initOnly : List Nat                 -- functions that run only below the package initialisers
  globals : List Nat                  -- locations that are package-level variables (or their elements)
  guards : List (Nat × Nat × Bool)    -- declared guards: (location, mutex, reads must hold it too)
  immutable : List Nat                -- locations declared never written after package initialisation
  mustReach : List (Nat × Nat × Bool) -- (function, callee, "after the named call succeeded the callee runs on every path to the exit")
  goStmts : Nat                       -- `go` statements inside the packages

/-! ### The abstract program a table describes

Mutexes and locations of the abstract program are pairs (instance, id).  Instance 0 holds the
package-level variables (one copy per process); every module set is an instance of its own.
A function activation is abstracted flow-insensitively: any sequence of its sites, each access
wrapped in acquire/release of the mutexes the function holds there, each call wrapped likewise
around a run of the callee.  (Splitting a critical section into one section per site only adds
interleavings; a thread is about to access `ℓ` holding `H` in the real program only if it can be
in the abstract one.) -/

abbrev AEv := Ev (Nat × Nat) (Nat × Nat)

def mode (x : Bool) : Mode := if x then .excl else .shared

def acquires (inst : Nat) (held : List (Nat × Bool)) : List AEv :=
  held.map fun p => .acquire (inst, p.1) (mode p.2)

def releases (inst : Nat) (held : List (Nat × Bool)) : List AEv :=
  held.map fun p => .release (inst, p.1)

def memN (x : Nat) : List Nat → Bool
  | [] => false
  | y :: ys => Nat.beq x y || memN x ys

/-- Where location id `l` of a thread working on instance `inst` lives. -/
def locOf (F : Facts) (inst : Nat) (l : Nat) : Nat × Nat :=
  if memN l F.globals then (0, l) else (inst, l)

/-- `Run F ok inst f tr`: `tr` is a possible event sequence of one activation of function `f`
working on instance `inst`, using only the sites that satisfy `ok`. -/
inductive Run (F : Facts) (ok : Acc → Bool) (inst : Nat) : Nat → List AEv → Prop where
  | done (f : Nat) : Run F ok inst f []
  | access (f : Nat) (fn : Fn) (w : Bool) (a : Acc) (rest : List AEv) :
      F.fns[f]? = some fn → a ∈ (if w then fn.writes else fn.reads) → ok a = true →
      Run F ok inst f rest →
      Run F ok inst f (acquires inst a.held ++ acc w (locOf F inst a.tgt) :: (releases inst a.held ++ rest))
  | call (f : Nat) (fn : Fn) (a : Acc) (sub rest : List AEv) :
      F.fns[f]? = some fn → a ∈ fn.calls → ok a = true →
      Run F ok inst a.tgt sub → Run F ok inst f rest →
      Run F ok inst f (acquires inst a.held ++ sub ++ (releases inst a.held ++ rest))

/-- A thread: any sequence of calls of functions from `roots`. -/
inductive Calls (F : Facts) (ok : Acc → Bool) (inst : Nat) (roots : Nat → Prop) : List AEv → Prop where
  | nil : Calls F ok inst roots []
  | cons (r : Nat) (tr rest : List AEv) : roots r → Run F ok inst r tr → Calls F ok inst roots rest →
      Calls F ok inst roots (tr ++ rest)

def inClaim (a : Acc) : Bool := Nat.beq a.allow 0

/-- The shared processed module set is instance 1. -/
def sharedInst : Nat := 1

/-- A reader goroutine: any sequence of reader-API calls against the shared set, never taking a
path the allow-list puts outside the claim. -/
def ReaderThread (F : Facts) (p : List AEv) : Prop :=
  Calls F inClaim sharedInst (fun f => memN f F.readerRoots = true) p

/-- A pipeline goroutine, number `k`: any sequence of calls of any functions of the packages
except those that only run during initialisation, every site allowed, on a module set of its own
(instance `k + 2`). -/
def PipelineThread (F : Facts) (k : Nat) (p : List AEv) : Prop :=
  Calls F (fun _ => true) (k + 2) (fun f => memN f F.initOnly = false) p

/-- Any goroutine working on the shared set with the whole API (used for the declared guards). -/
def AnyThread (F : Facts) (p : List AEv) : Prop :=
  Calls F (fun _ => true) sharedInst (fun _ => True) p

/-- The programs of the property: every goroutine is a reader of the shared processed set or a
pipeline on a module set of its own (goroutine number = index, so the private sets differ). -/
def C19Program (F : Facts) (prog : List (List AEv)) : Prop :=
  ∀ (k : Nat) (p : List AEv), prog[k]? = some p → ReaderThread F p ∨ PipelineThread F k p

/-- Goroutines that all use the whole API on one shared set. -/
def AnyProgram (F : Facts) (prog : List (List AEv)) : Prop :=
  ∀ (k : Nat) (p : List AEv), prog[k]? = some p → AnyThread F p

/-! ### The decidable predicates -/

def heldHas (m : Nat) (h : List (Nat × Bool)) : Bool := h.any fun p => Nat.beq p.1 m
def heldExcl (m : Nat) (h : List (Nat × Bool)) : Bool := h.any fun p => Nat.beq p.1 m && p.2

/-- The static lock sets of two sites exclude each other. -/
def protects (w a : List (Nat × Bool)) : Bool :=
  w.any (fun p => p.2 && heldHas p.1 a) || a.any (fun p => p.2 && heldHas p.1 w)

/-- untagged writes / accesses of the functions in `fs` (an id without a function contributes
nothing here; `ReaderDiscipline` separately requires every id of the certificate to exist) -/
def claimWrites (F : Facts) (fs : List Nat) : List Acc :=
  fs.flatMap fun f => match F.fns[f]? with
    | some fn => fn.writes.filter inClaim
    | none => []
def claimAccesses (F : Facts) (fs : List Nat) : List Acc :=
  fs.flatMap fun f => match F.fns[f]? with
    | some fn => (fn.writes ++ fn.reads).filter inClaim
    | none => []

/-- ReaderDiscipline: (0) the packages start no goroutines of their own; (1) the certificate
`readerReach` contains the reader API, names existing functions and is closed under untagged call
edges; (2) every untagged write in a function of `readerReach` and every untagged access of the
same location in a function of `readerReach` hold a common mutex, one side exclusively — in
particular every such write is inside a mutex region, against itself. -/
def ReaderDiscipline (F : Facts) : Bool :=
  Nat.beq F.goStmts 0 &&
  F.readerRoots.all (fun r => memN r F.readerReach) &&
  F.readerReach.all (fun f => match F.fns[f]? with
    | some fn => fn.calls.all (fun c => !inClaim c || memN c.tgt F.readerReach)
    | none => false) &&
  (claimWrites F F.readerReach).all (fun w =>
    (claimAccesses F F.readerReach).all (fun a => !Nat.beq a.tgt w.tgt || protects w.held a.held))

def allIdx {α : Type} (l : List α) (p : Nat → α → Bool) : Bool :=
  go 0 l
where
  go (i : Nat) : List α → Bool
    | [] => true
    | x :: xs => p i x && go (i + 1) xs

/-- GlobalsInitOnly: (1) a function that writes a package-level variable is in `initOnly`;
(2) whoever calls a function of `initOnly` is in `initOnly`; (3) a function of `initOnly` is a
package initialiser or cannot be reached from outside the call graph; (4) the reader API is not
in `initOnly`.  Together: package-level variables are written only while the package is being
initialised (before any goroutine of the user exists). -/
def GlobalsInitOnly (F : Facts) : Bool :=
  allIdx F.fns (fun i fn =>
    (fn.writes.all (fun w => !memN w.tgt F.globals || memN i F.initOnly)) &&
    (fn.calls.all (fun c => !memN c.tgt F.initOnly || memN i F.initOnly))) &&
  F.initOnly.all (fun f => memN f F.initRoots || match F.fns[f]? with
    | some fn => !fn.escapes
    | none => false) &&
  F.readerRoots.all (fun r => !memN r F.initOnly)

/-- GuardedLocations: for every declared guard (ℓ, m, r): every write of ℓ anywhere in the
packages — tagged or not — holds m exclusively, and when r is set every read of ℓ holds m. -/
def GuardedLocations (F : Facts) : Bool :=
  F.guards.all fun g =>
    !memN g.1 F.globals &&
    F.fns.all fun fn =>
      fn.writes.all (fun w => !Nat.beq w.tgt g.1 || heldExcl g.2.1 w.held) &&
      (!g.2.2 || fn.reads.all (fun r => !Nat.beq r.tgt g.1 || heldHas g.2.1 r.held))

/-- NoGlobalEscapes: a reference to the object of a package-level variable leaves a function
only during package initialisation, or the variable is explained in the reviewed list.  This is
the checkable part of the assumption behind `locOf`: memory that is not a package-level variable
belongs to one module set (instance).  A package-level object that became reachable from the
entries or nodes of a set would be shared by every set of the process while its fields are named
(type, field) like private memory — the theorems would not speak about it.  (Only the first
level is seen: a reference loaded from a field of such an object is named by the field.) -/
def NoGlobalEscapes (F : Facts) : Bool :=
  allIdx F.fns (fun i fn => fn.leaks.all (fun l => !Nat.beq l.allow 0 || memN i F.initOnly))

/-- ImmutableLocations: the locations declared immutable in allow.json (the (type, field) names
of the memory that hangs below the shared package-level tables: `Number.*`, `YRange.*`) are written
by no function that runs after package initialisation — tagged or not, locked or not.  Like
`NoGlobalEscapes` this checks an assumption of the model instead of feeding a theorem: objects
below package-level variables are reached by every module set (as the parents of its own range
and length restrictions), and (type, field) names cannot tell them from private memory, so the
only checkable form of "read-only by convention" is that nothing of that name is ever stored to
through a pointer. -/
def ImmutableLocations (F : Facts) : Bool :=
  allIdx F.fns (fun i fn => fn.writes.all (fun w => !memN w.tgt F.immutable || memN i F.initOnly))

/-- MustReach: the control-flow facts named in allow.json (`must_reach`) hold in the current
source: once `beginEntry(n)` has succeeded, `ToEntry` calls `setEntryCache` on every path to its
exit (directly or in a deferred closure whose body has no path around the call).  It supports
the guard under which the cache-miss region of `ToEntry` is outside the reader claim: what
`Process` converted is cached, so a reader's `ToEntry` on it takes the cache-hit path. -/
def MustReach (F : Facts) : Bool := F.mustReach.all (fun r => r.2.2)

end Goyang.Model.Lockset
