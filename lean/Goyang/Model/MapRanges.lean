/-
Record type of the regenerated table of map-order iterations (Goyang/Gen/MapRanges.lean, written
by harness/cmd/extract-ranges from the Go source on every run) and the executable obligation
`AllRangesJustified` (property C05): every iteration of the Go code whose order the runtime
randomises, or that inherits such an order, is either of a class whose order provably cannot
matter (computed by the translator from the loop body) or is covered by a reviewed allow-list
entry that names the reason and the theorem carrying it.  Core Lean only.
-/
namespace Goyang.Model.MapRanges

/-- One iteration in (inherited) map order.  `anchor`: the function the site is attributed to
(the enclosing function, or the only function through which it is reached when the enclosing one
is an unexported helper); `expr`: the walked expression in `Type.field` form; `cls`, `effects`:
computed by the translator. -/
structure Range where
  pkg : String
  anchor : String
  inFunc : String
  kind : String          -- map | inherited | via-helper | call
  expr : String
  text : String
  keyUsed : Bool
  valUsed : Bool
  cls : String
  effects : List String
  calls : List String
  deriving Repr, DecidableEq

/-- An allow-list entry: up to `count` sites of `anchor` over `expr` whose effects stay within
`effects` (besides the harmless ones); `requires`: facts the reason depends on (name, least
value). -/
structure Allow where
  pkg : String
  anchor : String
  expr : String
  effects : List String
  count : Nat
  reason : String
  thm : String
  requires : List (String × Nat)
  deriving Repr

structure Fact where
  name : String
  value : Nat
  deriving Repr

/-- Classes whose order cannot matter, by construction of the class. -/
def okClasses : List String :=
  ["collect-then-sort", "set-build", "commutative-write", "element-reset", "iterates-for-caller", "exists-test"]

/-- Effects that are order independent one by one. -/
def harmless : List String := ["commwrite", "setinsert", "count", "reset", "callparam"]

def Range.classified (r : Range) : Bool := okClasses.contains r.cls

def Allow.covers (a : Allow) (r : Range) : Bool :=
  a.pkg == r.pkg && a.anchor == r.anchor && a.expr == r.expr &&
  r.effects.all fun e => harmless.contains e || a.effects.contains e

def factValue (facts : List Fact) (n : String) : Nat :=
  match facts.find? (·.name == n) with
  | some f => f.value
  | none => 0

/-- Sites an entry is used for. -/
def Allow.used (a : Allow) (t : List Range) : Nat := (t.filter fun r => !r.classified && a.covers r).length

/-- Every iteration is justified: it is of a harmless class or covered by an allow-list entry; no
entry is used for more sites than were reviewed; the facts a used entry relies on hold. -/
def AllRangesJustified (allow : List Allow) (facts : List Fact) (t : List Range) : Bool :=
  (t.all fun r => r.classified || allow.any (·.covers r)) &&
  (allow.all fun a =>
    a.used t ≤ a.count &&
    (a.used t == 0 || a.requires.all fun q => factValue facts q.1 ≥ q.2))

/-- The offending records (what the translator's notes list). -/
def unjustified (allow : List Allow) (t : List Range) : List Range :=
  t.filter fun r => !(r.classified || allow.any (·.covers r))

end Goyang.Model.MapRanges
