/-
Impl model of the number part of `pkg/yang/types_builtin.go` (goyang), as the code is *after* the
repairs af191e8 (Int no longer wraps), 45d3673 (Less normalises negative zero) and b530b19
(ParseDecimal counts fraction digits in an `int`), plus `Value.asRangeInt` of `pkg/yang/yang.go`.

Conventions
* strings are byte lists (`List UInt8`);
* `uint64` values are `Nat` with `% W` written at every Go operation that can wrap, `int64` values are
  `Int` with the two's-complement reinterpretations `toI64`/`toU64`/`negI64` written out;
* `FractionDigits` is a `uint8` in Go: the model takes a `Nat` and is only meaningful below 256
  (`uint8(18-frac)` is written out as `(18 + 256 - fd) % 256`);
* Go operations that can panic (`Trunc` divides by `pow10 fd`, which is 0 from 64 fraction digits on;
  `String` slices an 18 byte constant) come as a total function plus a `…Panics` predicate and an
  `Option`-valued `…?` version combining both; the drivers use the `?` versions.  Neither panic is
  reachable for `fd ≤ 18` (`Goyang.Lemmas.Number`).
* external: `strconv.FormatUint(_, 10)`, `strconv.ParseUint(_, 0|10, 64)`, `strconv.ParseInt(_, 10, 64)`,
  `strings.TrimSpace`, `strings.Index(_, ".")` are re-implemented here from the Go 1.23 sources
  (trusted glue, covered by the correspondence run).
Core Lean only.
-/
namespace Goyang.Model.Number

/-- 2^64 -/
def W : Nat := 18446744073709551616
/-- 2^63 -/
def H : Nat := 9223372036854775808

/-- Go: `Number{Value uint64, FractionDigits uint8, Negative bool}` -/
structure Number where
  value : Nat
  fd : Nat
  neg : Bool
deriving Repr, DecidableEq, Inhabited

/-- error classes (wording is never compared) -/
inductive NumErr
  | syntax      -- strconv.ErrSyntax
  | range       -- strconv.ErrRange
  | empty       -- "converting empty string to number"
  | signOnly    -- "sign with no value"
  | precision   -- "... has too much precision"
  | badFd       -- "invalid number of fraction digits"
  | decimalInt  -- "called Int() on decimal64 value"
  | overflow    -- "signed integer overflow"
  | missing     -- asRangeInt on a nil *Value
  | outOfRange  -- asRangeInt: value outside [min..max]
deriving Repr, DecidableEq, Inhabited

def NumErr.name : NumErr → String
  | .syntax => "syntax" | .range => "range" | .empty => "empty" | .signOnly => "signOnly"
  | .precision => "precision" | .badFd => "badFd" | .decimalInt => "decimalInt"
  | .overflow => "overflow" | .missing => "missing" | .outOfRange => "outOfRange"

/-! ### two's complement glue -/

/-- Go `int64(v)` for a `uint64` v -/
def toI64 (v : Nat) : Int :=
  if v % W < H then ((v % W : Nat) : Int) else ((v % W : Nat) : Int) - (W : Int)

/-- Go `uint64(x)` for an `int64` x -/
def toU64 (x : Int) : Nat := (x % (W : Int)).toNat

/-- Go `-x` on `int64` (wraps at the minimum) -/
def negI64 (x : Int) : Int := toI64 (toU64 (-x))

/-! ### pow10, Trunc, frac, Less, Equal, addQuantum -/

/-- Go: `pow10(e uint8) uint64`, the loop `out *= 10` wraps mod 2^64 -/
def pow10 : Nat → Nat
  | 0 => 1
  | e + 1 => (pow10 e * 10) % W

/-- Go's `Trunc` panics (integer divide by zero) exactly when `pow10 fd = 0` -/
def truncPanics (n : Number) : Bool := pow10 n.fd == 0

/-- Go: `n.Value / pow10(n.FractionDigits)`; see `truncPanics` -/
def trunc (n : Number) : Nat := n.value / pow10 n.fd

/-- Go: `frac()`: `i := Trunc()*pow10(fd); (Value - i) * pow10(uint8(18-fd))`, all `uint64`/`uint8` -/
def frac (n : Number) : Nat :=
  let i := (trunc n * pow10 n.fd) % W
  (((n.value + W - i) % W) * pow10 ((18 + 256 - n.fd) % 256)) % W

/-- sign after the negative-zero normalisation at the head of `Less` -/
def nsign (n : Number) : Bool := if n.value = 0 then false else n.neg

/-- Go: `Number.Less` (repaired: a zero magnitude has no sign) -/
def less (n m : Number) : Bool :=
  let nn := nsign n
  let mn := nsign m
  if nn && !mn then true
  else if !nn && mn then false
  else
    let nt := trunc n
    let mt := trunc m
    let lt := decide (nt < mt)
    let lt :=
      if nt = mt then
        let nf := frac n
        let mf := frac m
        if nf = mf then none else some (decide (nf < mf))
      else some lt
    match lt with
    | none => false
    | some lt => if nn then !lt else lt

/-- `Less` reaches `Trunc` only when the normalised signs agree -/
def lessPanics (n m : Number) : Bool :=
  let nn := nsign n
  let mn := nsign m
  if nn && !mn then false
  else if !nn && mn then false
  else truncPanics n || truncPanics m

def less? (n m : Number) : Option Bool := if lessPanics n m then none else some (less n m)

/-- Go: `Number.Equal` = `!n.Less(m) && !m.Less(n)` -/
def equal (n m : Number) : Bool := !less n m && !less m n

def equal? (n m : Number) : Option Bool :=
  if lessPanics n m || lessPanics m n then none else some (equal n m)

/-- Go: `addQuantum(i uint64)`; `Value += i` wraps mod 2^64 -/
def addQuantum (n : Number) (i : Nat) : Number :=
  if n.neg then
    if n.value ≤ i then { n with value := i - n.value, neg := false }
    else { n with value := n.value - i }
  else { n with value := (n.value + i) % W }

/-! ### String -/

def digitChar (d : Nat) : UInt8 := UInt8.ofNat (48 + d)

/-- `strconv.FormatUint(n, 10)` -/
def natDigits (n : Nat) : List UInt8 :=
  if n < 10 then [digitChar n] else natDigits (n / 10) ++ [digitChar (n % 10)]
termination_by n
decreasing_by omega

/-- Go: `space18` -/
def space18 : List UInt8 := List.replicate 18 48

/-- `space18[:-ofd+1]` is out of range (slice bounds panic) -/
def toStrPanics (n : Number) : Bool :=
  n.fd ≠ 0 && (natDigits n.value).length ≤ n.fd && n.fd - (natDigits n.value).length + 1 > 18

/-- Go: `Number.String`; see `toStrPanics` -/
def toStr (n : Number) : List UInt8 :=
  let out := natDigits n.value
  let out :=
    if n.fd ≠ 0 then
      if out.length ≤ n.fd then
        -- ofd <= 0: we want 0.1 not .1
        let out := space18.take (n.fd - out.length + 1) ++ out
        out.take 1 ++ [46] ++ out.drop 1
      else
        let ofd := out.length - n.fd
        out.take ofd ++ [46] ++ out.drop ofd
    else out
  if n.neg then 45 :: out else out

def toStr? (n : Number) : Option (List UInt8) := if toStrPanics n then none else some (toStr n)

/-! ### Int, FromInt, FromUint -/

/-- Go: `Number.Int` (repaired: negative magnitudes above 2^63 are an error) -/
def toInt (n : Number) : Except NumErr Int :=
  if n.fd ≠ 0 then .error .decimalInt
  else if n.neg then
    if n.value > H then .error .overflow
    else .ok (negI64 (toI64 n.value))
  else if n.value ≤ H - 1 then .ok (toI64 n.value)
  else .error .overflow

/-- Go: `FromInt(i int64)` -/
def fromInt (i : Int) : Number :=
  if i < 0 then { value := toU64 (negI64 i), fd := 0, neg := true }
  else { value := toU64 i, fd := 0, neg := false }

/-- Go: `FromUint(i uint64)` -/
def fromUint (u : Nat) : Number := { value := u, fd := 0, neg := false }

/-! ### strings.TrimSpace -/

/-- UTF-8 encodings of the runes for which `unicode.IsSpace` holds (Unicode White_Space) -/
def spaceEncodings : List (List UInt8) :=
  [[0x09], [0x0a], [0x0b], [0x0c], [0x0d], [0x20],
   [0xc2, 0x85], [0xc2, 0xa0],
   [0xe1, 0x9a, 0x80],
   [0xe2, 0x80, 0x80], [0xe2, 0x80, 0x81], [0xe2, 0x80, 0x82], [0xe2, 0x80, 0x83],
   [0xe2, 0x80, 0x84], [0xe2, 0x80, 0x85], [0xe2, 0x80, 0x86], [0xe2, 0x80, 0x87],
   [0xe2, 0x80, 0x88], [0xe2, 0x80, 0x89], [0xe2, 0x80, 0x8a],
   [0xe2, 0x80, 0xa8], [0xe2, 0x80, 0xa9], [0xe2, 0x80, 0xaf],
   [0xe2, 0x81, 0x9f],
   [0xe3, 0x80, 0x80]]

/-- length of the white-space rune encoding `s` starts with (patterns given), 0 when there is none -/
def spacePrefixLen (pats : List (List UInt8)) (s : List UInt8) : Nat :=
  match pats.find? (fun p => p.isPrefixOf s) with
  | some p => p.length
  | none => 0

/-- drop leading white space; `fuel` ≥ length suffices -/
def trimLeftFuel (pats : List (List UInt8)) : Nat → List UInt8 → List UInt8
  | 0, s => s
  | fuel + 1, s =>
    match spacePrefixLen pats s with
    | 0 => s
    | k => trimLeftFuel pats fuel (s.drop k)

def trimLeft (s : List UInt8) : List UInt8 := trimLeftFuel spaceEncodings s.length s

/-- trailing white space: the same on the reversed string with reversed encodings (Go decodes the last
    rune by scanning back to the nearest start byte, which for a well-formed suffix is its first byte) -/
def trimRight (s : List UInt8) : List UInt8 :=
  (trimLeftFuel (spaceEncodings.map List.reverse) s.length s.reverse).reverse

/-- `strings.TrimSpace` -/
def trimSpace (s : List UInt8) : List UInt8 := trimRight (trimLeft s)

/-! ### strconv.ParseUint / ParseInt -/

/-- strconv `lower(c)` = `c | ('x' - 'X')` -/
def lower (c : UInt8) : UInt8 := c ||| 0x20

def isDigit (c : UInt8) : Bool := 48 ≤ c.toNat && c.toNat ≤ 57

inductive Saw | start | digit | under | other
deriving DecidableEq, Repr

/-- the loop of strconv `underscoreOK` -/
def uokLoop (hex : Bool) : List UInt8 → Saw → Bool
  | [], saw => saw != .under
  | c :: rest, saw =>
    if isDigit c || (hex && 97 ≤ (lower c).toNat && (lower c).toNat ≤ 102) then uokLoop hex rest .digit
    else if c == 95 then
      if saw != .digit then false else uokLoop hex rest .under
    else if saw == .under then false
    else uokLoop hex rest .other

/-- strconv `underscoreOK` -/
def underscoreOK (s : List UInt8) : Bool :=
  let s := match s with
    | c :: rest => if c == 45 || c == 43 then rest else s
    | [] => s
  match s with
  | c0 :: c1 :: rest =>
    if c0 == 48 && (lower c1 == 98 || lower c1 == 111 || lower c1 == 120) then
      uokLoop (lower c1 == 120) rest .digit
    else uokLoop false s .start
  | _ => uokLoop false s .start

/-- digit value of a byte in strconv's loop (`none`: syntax error) -/
def digitVal (c : UInt8) : Option Nat :=
  if isDigit c then some (c.toNat - 48)
  else if 97 ≤ (lower c).toNat && (lower c).toNat ≤ 122 then some ((lower c).toNat - 97 + 10)
  else none

/-- the digit loop of `strconv.ParseUint(_, _, 64)`; returns the value and whether an underscore was seen -/
def puLoop (base0 : Bool) (base : Nat) : List UInt8 → Nat → Bool → Except NumErr (Nat × Bool)
  | [], n, us => .ok (n, us)
  | c :: rest, n, us =>
    if c == 95 && base0 then puLoop base0 base rest n true
    else
      match digitVal c with
      | none => .error .syntax
      | some d =>
        if d ≥ base then .error .syntax
        else if n ≥ (W - 1) / base + 1 then .error .range     -- n*base overflows
        else
          let n := (n * base) % W
          let n1 := (n + d) % W
          if n1 < n || n1 > W - 1 then .error .range          -- n+d overflows
          else puLoop base0 base rest n1 us

/-- base selection of `strconv.ParseUint`: for base 0 look for a `0b 0o 0x` prefix (only when at least three
    bytes long), a leading `0` alone means octal; returns the base and the digits that remain -/
def basePrefix (base0 : Bool) (s : List UInt8) : Nat × List UInt8 :=
  if base0 then
    match s with
    | c0 :: rest0 =>
      if c0 == 48 then
        match rest0 with
        | c1 :: rest1 =>
          if s.length ≥ 3 && lower c1 == 98 then (2, rest1)
          else if s.length ≥ 3 && lower c1 == 111 then (8, rest1)
          else if s.length ≥ 3 && lower c1 == 120 then (16, rest1)
          else (8, rest0)
        | [] => (8, rest0)
      else (10, s)
    | [] => (10, s)
  else (10, s)

/-- `strconv.ParseUint(s, 0, 64)` when `base0`, else `strconv.ParseUint(s, 10, 64)`.
    (On a range error Go also returns the value 2^64-1; `strconvParseInt10` accounts for it.) -/
def parseUint (base0 : Bool) (s : List UInt8) : Except NumErr Nat :=
  if s.isEmpty then .error .syntax else
  match puLoop base0 (basePrefix base0 s).1 (basePrefix base0 s).2 0 false with
  | .error e => .error e
  | .ok (n, us) => if us && !underscoreOK s then .error .syntax else .ok n

/-- `strconv.ParseUint(s, 0, 64)`: base prefixes `0x 0o 0b`, leading `0` = octal, `_` separators -/
def parseUintBase0 (s : List UInt8) : Except NumErr Nat := parseUint true s

/-- `strconv.ParseInt`: pick off a leading sign -/
def splitSign (s : List UInt8) : Bool × List UInt8 :=
  match s with
  | c :: rest => if c == 43 then (false, rest) else if c == 45 then (true, rest) else (false, s)
  | [] => (false, s)

/-- `strconv.ParseInt(s, 10, 64)` -/
def strconvParseInt10 (s : List UInt8) : Except NumErr Int :=
  if s.isEmpty then .error .syntax else
  let neg := (splitSign s).1
  let un? : Except NumErr Nat :=
    match parseUint false (splitSign s).2 with
    | .ok un => .ok un
    | .error .range => .ok (W - 1)      -- ParseUint returned maxVal with ErrRange; ParseInt goes on
    | .error e => .error e
  match un? with
  | .error e => .error e
  | .ok un =>
    if !neg && un ≥ H then .error .range
    else if neg && un > H then .error .range
    else
      let n := toI64 un
      .ok (if neg then negI64 n else n)

/-! ### yang.ParseInt, yang.ParseDecimal -/

/-- Go: `yang.ParseInt` -/
def parseInt (s : List UInt8) : Except NumErr Number :=
  let s := trimSpace s
  if s = [] then .error .empty
  else if s = [43] || s = [45] then .error .signOnly
  else
    let neg := (splitSign s).1
    let ns := (splitSign s).2
    match parseUintBase0 ns with
    | .error e => .error e
    | .ok v => .ok { value := v, fd := 0, neg := neg }

/-- `strings.Index(s, ".")` -/
def indexDot : List UInt8 → Option Nat
  | [] => none
  | c :: rest => if c == 46 then some 0 else (indexDot rest).map (· + 1)

/-- the head of `decimalValueFromString`: number of bytes after the first `.` and the string without it -/
def dropDot (numStr : List UInt8) : Nat × List UInt8 :=
  match indexDot numStr with
  | some dx => (numStr.length - 1 - dx, numStr.take dx ++ numStr.drop (dx + 1))
  | none => (0, numStr)

/-- the guard of the repaired `decimalValueFromString` (D10-S1, /repo 6916d90): the first `.` is directly
followed by a sign (`dx+1 < len(s) && (s[dx+1] == '-' || s[dx+1] == '+')`) -/
def signAfterDot (numStr : List UInt8) : Bool :=
  match indexDot numStr with
  | some dx =>
    match numStr.drop (dx + 1) with
    | c :: _ => c == 45 || c == 43
    | [] => false
  | none => false

/-- Go: `decimalValueFromString` (repaired: the count of written fraction digits is an `int`; a point directly
followed by a sign is refused as not a valid decimal number, before the precision is looked at) -/
def decimalValueFromString (numStr : List UInt8) (fd : Nat) : Except NumErr Number :=
  if fd > 18 || fd < 1 then .error .badFd else
  if signAfterDot numStr then .error .syntax else
  let fracDig := (dropDot numStr).1
  if fracDig > fd then .error .precision else
  let s := (dropDot numStr).2 ++ space18.take (fd - fracDig)
  match strconvParseInt10 s with
  | .error e => .error e
  | .ok v =>
    let negative := decide (v < 0)
    let v := if negative then negI64 v else v
    .ok { value := toU64 v, fd := fd, neg := negative }

/-- Go: `yang.ParseDecimal` -/
def parseDecimal (s : List UInt8) (fd : Nat) : Except NumErr Number :=
  let s := trimSpace s
  if s = [] then .error .empty
  else if s = [43] || s = [45] then .error .signOnly
  else decimalValueFromString s fd

/-! ### Value.asRangeInt -/

/-- Go: `(*Value).asRangeInt(min, max)`; `none` is the nil `*Value` -/
def asRangeInt (v : Option (List UInt8)) (min max : Int) : Except NumErr Int :=
  match v with
  | none => .error .missing
  | some s =>
    match parseInt s with
    | .error e => .error e
    | .ok n =>
      match toInt n with
      | .error e => .error e
      | .ok i => if i < min || i > max then .error .outOfRange else .ok i

end Goyang.Model.Number
