/-
Impl model of `pkg/yang/parse.go`: `Parse`, `push`/`pop`/`next` (string concatenation with
one-token look-ahead and LIFO push-back), `nextStatement`, `checkStatementDepthIsZero`, the shared
sentinel statements `ignoreMe` / `hitBrace`.

The parser is written once, over a token source `Source σ` (what the parser needs of `*lexer`:
the next non-error token, the shared error buffer, and the cursor for the end-of-input report),
and instantiated with the lexer model (`lexSource`).  Nothing else in this file depends on what
the source is; the refinement proof instantiates the same parser with a plain token list.

Deviations in form, not in behaviour:
* `p.lex.inPattern = …; t = p.next(); p.lex.inPattern = false` is `next (inPattern := …)`: the
  flag is handed to each fetch from the source made during that call (the lexer source stores it
  in `Lexer.inPattern` before running the state machine).  Every fetch happens inside some
  `p.next()` and every other `p.next()` runs with the flag `false`, so nothing is lost.
* `nextStatement` returns the sum `NS` instead of a pointer compared against `nil`, `p.hitBrace`
  (whose position fields it has just overwritten) and anything else.  `ignoreMe` is the all-zero
  statement and is appended by the callers exactly as in Go.
* Go recurses on nesting depth and loops on siblings; the model takes fuel.  `parseText` supplies
  `input length + 4`: every `nextStatement` that does not end the parse takes at least one token
  of at least one byte out of the input (`Lemmas/Parse.lean`: `fault` stays `none`).
-/
import Goyang.Model.Lex

namespace Goyang.Model.Parse
open Goyang.Model.Lex

/-- `yang.Statement` (fields `Keyword`, `HasArgument`, `Argument`, `statements`, `file`, `line`, `col`) -/
structure Statement where
  keyword : List UInt8
  hasArg  : Bool
  arg     : List UInt8
  file    : List UInt8
  line    : Int
  col     : Int
  subs    : List Statement
  deriving Repr, Inhabited

/-- `var ignoreMe = &Statement{}` -/
def ignoreMe : Statement :=
  { keyword := [], hasArg := false, arg := [], file := [], line := 0, col := 0, subs := [] }

/-- what the parser uses of its lexer -/
structure Source (σ : Type) where
  /-- the closure `next` inside `parser.next`: `NextToken` until the code is not `tError`,
      with `lex.inPattern` as given -/
  pull   : Bool → σ → Option Token × σ
  /-- `p.errout` (shared with the lexer) -/
  errs   : σ → List ErrLine
  /-- `fmt.Fprintf(p.errout, …)` -/
  addErr : ErrLine → σ → σ
  /-- `p.lex.file, p.lex.line, p.lex.col` -/
  endLoc : σ → List UInt8 × Int × Int
  /-- a fault of the source itself -/
  fault  : σ → Fault

structure Parser (σ : Type) where
  src    : σ
  tokens : List Token          -- push-back stack, head = last pushed
  depth  : Int                 -- statementDepth
  fault  : Fault               -- parser loops out of fuel

/-- result of `nextStatement` -/
inductive NS
  | eof                                   -- nil
  | brace (file : List UInt8) (line col : Int)   -- p.hitBrace, fields as just written
  | stmt (s : Statement)                  -- anything else, `ignoreMe` included
  deriving Repr, Inhabited

inductive ParseResult
  | ok (forest : List Statement)
  | rejected (errs : List ErrLine)        -- never empty (`Lemmas/Parse.lean`)
  | fault (f : Fault)                     -- unreachable
  deriving Repr, Inhabited

section generic
variable {σ : Type} (S : Source σ)

def pullTok (b : Bool) (p : Parser σ) : Option Token × Parser σ :=
  let r := S.pull b p.src
  (r.1, { p with src := r.2 })

def addErr (e : ErrLine) (p : Parser σ) : Parser σ := { p with src := S.addErr e p.src }

/-- `p.statementDepth = d` -/
def setDepth (d : Int) (p : Parser σ) : Parser σ := { p with depth := d }

/-- `push(t...)`: the last one listed is returned first -/
def push (ts : List Token) (p : Parser σ) : Parser σ := { p with tokens := ts.reverse ++ p.tokens }

/-- `fmt.Fprintf(p.errout, "%v: …", t)`: `token.String` prints `File:` unless empty and
`Line:Col:` unless `Line == 0` -/
def tokenErr (t : Token) (cls : ErrClass) : ErrLine :=
  { file := t.file, pos := if t.line ≠ 0 then some (t.line, t.col) else none, cls := cls }

/-- the concatenation loop of `parser.next` (`t` is a string token).  Fuel: an iteration that
continues has taken two tokens from the source. -/
def concatLoop (b : Bool) : Nat → Token → Parser σ → Token × Parser σ
  | 0, t, p => (t, { p with fault := .outOfFuel })
  | f + 1, t, p =>
    let r := pullTok S b p
    match r.1 with
    | none => (t, r.2)
    | some nt =>
      if nt.code = Code.unquoted then
        if nt.text ≠ [43] then (t, push [nt] r.2)
        else
          let r2 := pullTok S b r.2
          match r2.1 with
          | none => (t, push [nt] r2.2)
          | some nnt =>
            if nnt.code = Code.string then concatLoop b f { t with text := t.text ++ nnt.text } r2.2
            else (t, push [nnt, nt] r2.2)
      else (t, push [nt] r.2)

/-- `parser.next` with `lex.inPattern = b` -/
def next (b : Bool) (fuel : Nat) (p : Parser σ) : Option Token × Parser σ :=
  match p.tokens with
  | t :: ts => (some t, { p with tokens := ts })
  | [] =>
    let r := pullTok S b p
    match r.1 with
    | none => (none, r.2)
    | some t => if t.code = Code.string then
                  let c := concatLoop S b fuel t r.2
                  (some c.1, c.2)
                else (some t, r.2)

/-- the keyword `pattern` -/
def patternKw : List UInt8 := [112, 97, 116, 116, 101, 114, 110]

/-- `nextStatement`, from `p.lex.inPattern = t.Text == "pattern"` to the end of the first
`switch`: the optional argument and the token after it -/
def fetchArg (kw : Token) (f : Nat) (p : Parser σ) : (Bool × List UInt8) × Option Token × Parser σ :=
  let r := next S (kw.text = patternKw) f p
  match r.1 with
  | some a =>
    if a.code = Code.string || a.code = Code.unquoted then
      let r2 := next S false f r.2
      ((true, a.text), r2.1, r2.2)
    else ((false, []), r.1, r.2)
  | none => ((false, []), none, r.2)

def mkStmt (kw : Token) (arg : Bool × List UInt8) (subs : List Statement) : Statement :=
  { keyword := kw.text, hasArg := arg.1, arg := arg.2, file := kw.file, line := kw.line, col := kw.col,
    subs := subs }

mutual
/-- `nextStatement` -/
def nextStatement : Nat → Parser σ → NS × Parser σ
  | 0, p => (.eof, { p with fault := .outOfFuel })
  | f + 1, p =>
    let r := next S false f p
    match r.1 with
    | none => (.eof, r.2)
    | some t =>
      if t.code = Code.punct 125 then
        (.brace t.file t.line t.col, setDepth (r.2.depth - 1) r.2)
      else if t.code ≠ Code.unquoted then
        (.stmt ignoreMe, addErr S (tokenErr t .keywordNotUnquoted) r.2)
      else
        let a := fetchArg S t f r.2
        match a.2.1 with
        | none => (.eof, addErr S { file := t.file, pos := none, cls := .unexpectedEOF } a.2.2)
        | some e =>
          if e.code = Code.punct 59 then (.stmt (mkStmt t a.1 []), a.2.2)
          else if e.code = Code.punct 123 then
            let b := blockLoop f [] (setDepth (a.2.2.depth + 1) a.2.2)
            match b.1 with
            | none => (.eof, b.2)
            | some subs => (.stmt (mkStmt t a.1 subs), b.2)
          else (.stmt ignoreMe, addErr S (tokenErr e .expectedSemiOrBrace) a.2.2)

/-- the `for` loop after `{`: `none` = end of input reached (`return nil`) -/
def blockLoop : Nat → List Statement → Parser σ → Option (List Statement) × Parser σ
  | 0, _, p => (none, { p with fault := .outOfFuel })
  | f + 1, acc, p =>
    let r := nextStatement f p
    match r.1 with
    | .eof => (none, r.2)
    | .brace _ _ _ => (some acc, r.2)
    | .stmt s => blockLoop f (acc ++ [s]) r.2
end

/-- the `for` loop of `Parse` -/
def topLoop : Nat → List Statement → Parser σ → List Statement × Parser σ
  | 0, acc, p => (acc, { p with fault := .outOfFuel })
  | f + 1, acc, p =>
    let r := nextStatement S f p
    match r.1 with
    | .eof => (acc, r.2)
    | .brace file line col =>
      topLoop f acc (addErr S { file := file, pos := some (line, col), cls := .unexpectedRBrace } r.2)
    | .stmt s => topLoop f (acc ++ [s]) r.2

/-- `checkStatementDepthIsZero` (prints `lex.col` as it is, without the `+ 1`) -/
def checkStatementDepthIsZero (p : Parser σ) : Parser σ :=
  if ¬ (S.errs p.src).isEmpty || p.depth = 0 then p
  else
    addErr S { file := (S.endLoc p.src).1, pos := some ((S.endLoc p.src).2.1, (S.endLoc p.src).2.2),
               cls := .missingBraces p.depth } p

/-- `p := &parser{lex: …}` -/
def initParser (s : σ) : Parser σ := { src := s, tokens := [], depth := 0, fault := .none }

/-- `Parse` over a source in its initial state -/
def parseWith (fuel : Nat) (s : σ) : ParseResult :=
  let r := topLoop S fuel [] (initParser s)
  let p := checkStatementDepthIsZero S r.2
  if p.fault ≠ .none then .fault p.fault
  else if S.fault p.src ≠ .none then .fault (S.fault p.src)
  else if (S.errs p.src).isEmpty then .ok r.1
  else .rejected (S.errs p.src)

end generic

/-- the loop `for { if t := p.lex.NextToken(); t.Code() != tError { return t } }`.
Fuel: queued tokens + unconsumed bytes + 2 (a token that is not yet queued costs at least one
unconsumed byte, except the one a state function may queue when it meets the end of input and stops). -/
def skipErrors : Nat → Lexer → Option Token × Lexer
  | 0, l => (none, setFault .outOfFuel l)
  | f + 1, l =>
    let r := nextToken l
    match r.1 with
    | none => (none, r.2)
    | some t => if t.code = Code.error then skipErrors f r.2 else (some t, r.2)

/-- the lexer as token source -/
def lexSource : Source Lexer where
  pull b l := skipErrors (l.items.length + l.rest.length + (l.pos - l.start) + 2) { l with inPattern := b }
  errs l := l.errout
  addErr e l := { l with errout := l.errout ++ [e] }
  endLoc l := (l.file, l.line, l.col)
  fault l := l.fault

/-- fuel `Parse` needs for an input of `n` bytes -/
def parseFuel (n : Nat) : Nat := n + 4

/-- `yang.Parse(text, file)` -/
def parseText (file : List UInt8) (text : List UInt8) : ParseResult :=
  parseWith lexSource (parseFuel text.length) (newLexer text file)

end Goyang.Model.Parse
