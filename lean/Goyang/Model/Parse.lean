/-
Impl model of `pkg/yang/parse.go`: `Parse`, `push`/`pop`/`next` (string concatenation with
one-token look-ahead and LIFO push-back), `nextStatement`, `checkStatementDepthIsZero`, the shared
sentinel statements `ignoreMe` / `hitBrace`.

The parser is written once, over a token source `Source σ` (what the parser needs of `*lexer`:
the next non-error token, the shared error buffer, and the cursor for the end-of-input report),
and instantiated with the lexer model (`lexSource`).  Nothing else in this file depends on what
the source is; the refinement proof instantiates the same parser with a plain token list.

Deviations in form, not in behaviour:
* `p.lex.inPattern = …; t = p.next(); p.lex.inPattern = false` is `next (inPattern := …)`: the
  flag is handed to each fetch from the source made during that call (the lexer source stores it
  in `Lexer.inPattern` before running the state machine).  Every fetch happens inside some
  `p.next()` and every other `p.next()` runs with the flag `false`, so nothing is lost.
* `nextStatement` returns the sum `NS` instead of a pointer compared against `nil`, `p.hitBrace`
  (whose position fields it has just overwritten) and anything else.  `ignoreMe` is the all-zero
  statement and is appended by the callers exactly as in Go.
* Go recurses on nesting depth and loops on siblings; the model takes fuel.  `parseText` supplies
  `input length + 4`: every `nextStatement` that does not end the parse takes at least one token
  of at least one byte out of the input (`Lemmas/Parse.lean`: `fault` stays `none`).
-/
import Goyang.Model.Lex

namespace Goyang.Model.Parse
open Goyang.Model.Lex

/-- `yang.Statement` (fields `Keyword`, `HasArgument`, `Argument`, `statements`, `file`, `line`, `col`) -/
structure Statement where
  keyword : List UInt8
  hasArg  : Bool
  arg     : List UInt8
  file    : List UInt8
  line    : Int
  col     : Int
  subs    : List Statement
  deriving Repr, Inhabited

/-- `var ignoreMe = &Statement{}` -/
def ignoreMe : Statement :=
  { keyword := [], hasArg := false, arg := [], file := [], line := 0, col := 0, subs := [] }

/-- what the parser uses of its lexer -/
structure Source (σ : Type) where
  /-- the closure `next` inside `parser.next`: `NextToken` until the code is not `tError`,
      with `lex.inPattern` as given -/
  pull   : Bool → σ → Option Token × σ
  /-- `p.errout` (shared with the lexer) -/
  errs   : σ → List ErrLine
  /-- `fmt.Fprintf(p.errout, …)` -/
  addErr : ErrLine → σ → σ
  /-- `p.lex.file, p.lex.line, p.lex.col` -/
  endLoc : σ → List UInt8 × Int × Int
  /-- a fault of the source itself -/
  fault  : σ → Fault

structure Parser (σ : Type) where
  src    : σ
  tokens : List Token          -- push-back stack, head = last pushed
  depth  : Int                 -- statementDepth
  fault  : Fault               -- parser loops out of fuel

/-- result of `nextStatement` -/
inductive NS
  | eof                                   -- nil
  | brace (file : List UInt8) (line col : Int)   -- p.hitBrace, fields as just written
  | stmt (s : Statement)                  -- anything else, `ignoreMe` included
  deriving Repr, Inhabited

inductive ParseResult
  | ok (forest : List Statement)
  | rejected (errs : List ErrLine)        -- never empty (`Lemmas/Parse.lean`)
  | fault (f : Fault)                     -- unreachable
  deriving Repr, Inhabited

section generic
variable {σ : Type} (S : Source σ)

def pullTok (b : Bool) (p : Parser σ) : Option Token × Parser σ :=
  let (t, s) := S.pull b p.src
  (t, { p with src := s })

def addErr (e : ErrLine) (p : Parser σ) : Parser σ := { p with src := S.addErr e p.src }

/-- `push(t...)`: the last one listed is returned first -/
def push (ts : List Token) (p : Parser σ) : Parser σ := { p with tokens := ts.reverse ++ p.tokens }

/-- `fmt.Fprintf(p.errout, "%v: …", t)`: `token.String` prints `File:` unless empty and
`Line:Col:` unless `Line == 0` -/
def tokenErr (t : Token) (cls : ErrClass) : ErrLine :=
  { file := t.file, pos := if t.line ≠ 0 then some (t.line, t.col) else none, cls := cls }

/-- the concatenation loop of `parser.next` (`t` is a string token).  Fuel: an iteration that
continues has taken two tokens from the source. -/
def concatLoop (b : Bool) : Nat → Token → Parser σ → Token × Parser σ
  | 0, t, p => (t, { p with fault := .outOfFuel })
  | f + 1, t, p =>
    let (nt, p) := pullTok S b p
    match nt with
    | none => (t, p)
    | some nt =>
      if nt.code = Code.unquoted then
        if nt.text ≠ [43] then (t, push [nt] p)
        else
          let (nnt, p) := pullTok S b p
          match nnt with
          | none => (t, push [nt] p)
          | some nnt =>
            if nnt.code = Code.string then concatLoop b f { t with text := t.text ++ nnt.text } p
            else (t, push [nnt, nt] p)
      else (t, push [nt] p)

/-- `parser.next` with `lex.inPattern = b` -/
def next (b : Bool) (fuel : Nat) (p : Parser σ) : Option Token × Parser σ :=
  match p.tokens with
  | t :: ts => (some t, { p with tokens := ts })
  | [] =>
    let (t, p) := pullTok S b p
    match t with
    | none => (none, p)
    | some t => if t.code = Code.string then
                  let (t, p) := concatLoop S b fuel t p
                  (some t, p)
                else (some t, p)

mutual
/-- `nextStatement` -/
def nextStatement : Nat → Parser σ → NS × Parser σ
  | 0, p => (.eof, { p with fault := .outOfFuel })
  | f + 1, p =>
    let (t, p) := next S false f p
    match t with
    | none => (.eof, p)
    | some t =>
      if t.code = Code.punct 125 then
        (.brace t.file t.line t.col, { p with depth := p.depth - 1 })
      else if t.code ≠ Code.unquoted then
        (.stmt ignoreMe, addErr S (tokenErr t .keywordNotUnquoted) p)
      else
        let kw := t
        let (t, p) := next S (kw.text = [112, 97, 116, 116, 101, 114, 110]) f p
        let (hasArg, arg, t, p) :=
          match t with
          | some a =>
            if a.code = Code.string || a.code = Code.unquoted then
              let (t, p) := next S false f p
              (true, a.text, t, p)
            else (false, [], t, p)
          | none => (false, [], t, p)
        match t with
        | none => (.eof, addErr S { file := kw.file, pos := none, cls := .unexpectedEOF } p)
        | some t =>
          if t.code = Code.punct 59 then
            (.stmt { keyword := kw.text, hasArg := hasArg, arg := arg, file := kw.file, line := kw.line,
                     col := kw.col, subs := [] }, p)
          else if t.code = Code.punct 123 then
            let (subs, p) := blockLoop f [] { p with depth := p.depth + 1 }
            match subs with
            | none => (.eof, p)
            | some subs =>
              (.stmt { keyword := kw.text, hasArg := hasArg, arg := arg, file := kw.file, line := kw.line,
                       col := kw.col, subs := subs }, p)
          else (.stmt ignoreMe, addErr S (tokenErr t .expectedSemiOrBrace) p)

/-- the `for` loop after `{`: `none` = end of input reached (`return nil`) -/
def blockLoop : Nat → List Statement → Parser σ → Option (List Statement) × Parser σ
  | 0, _, p => (none, { p with fault := .outOfFuel })
  | f + 1, acc, p =>
    match nextStatement f p with
    | (.eof, p) => (none, p)
    | (.brace _ _ _, p) => (some acc, p)
    | (.stmt s, p) => blockLoop f (acc ++ [s]) p
end

/-- the `for` loop of `Parse` -/
def topLoop : Nat → List Statement → Parser σ → List Statement × Parser σ
  | 0, acc, p => (acc, { p with fault := .outOfFuel })
  | f + 1, acc, p =>
    match nextStatement S f p with
    | (.eof, p) => (acc, p)
    | (.brace file line col, p) =>
      topLoop f acc (addErr S { file := file, pos := some (line, col), cls := .unexpectedRBrace } p)
    | (.stmt s, p) => topLoop f (acc ++ [s]) p

/-- `checkStatementDepthIsZero` (prints `lex.col` as it is, without the `+ 1`) -/
def checkStatementDepthIsZero (p : Parser σ) : Parser σ :=
  if ¬ (S.errs p.src).isEmpty || p.depth = 0 then p
  else
    let (file, line, col) := S.endLoc p.src
    addErr S { file := file, pos := some (line, col), cls := .missingBraces p.depth } p

/-- `Parse` over a source in its initial state -/
def parseWith (fuel : Nat) (s : σ) : ParseResult :=
  let p : Parser σ := { src := s, tokens := [], depth := 0, fault := .none }
  let (statements, p) := topLoop S fuel [] p
  let p := checkStatementDepthIsZero S p
  if p.fault ≠ .none then .fault p.fault
  else if S.fault p.src ≠ .none then .fault (S.fault p.src)
  else if (S.errs p.src).isEmpty then .ok statements
  else .rejected (S.errs p.src)

end generic

/-- the loop `for { if t := p.lex.NextToken(); t.Code() != tError { return t } }`.
Fuel: queued tokens + unread bytes + 3 (a token that is not yet queued costs at least one unread
byte, except the one a state function may queue when it meets the end of input and stops). -/
def skipErrors : Nat → Lexer → Option Token × Lexer
  | 0, l => (none, setFault .outOfFuel l)
  | f + 1, l =>
    match nextToken l with
    | (none, l) => (none, l)
    | (some t, l) => if t.code = Code.error then skipErrors f l else (some t, l)

/-- the lexer as token source -/
def lexSource : Source Lexer where
  pull b l := let l := { l with inPattern := b }; skipErrors (l.items.length + l.rest.length + 3) l
  errs l := l.errout
  addErr e l := { l with errout := l.errout ++ [e] }
  endLoc l := (l.file, l.line, l.col)
  fault l := l.fault

/-- fuel `Parse` needs for an input of `n` bytes -/
def parseFuel (n : Nat) : Nat := n + 4

/-- `yang.Parse(text, file)` -/
def parseText (file : List UInt8) (text : List UInt8) : ParseResult :=
  parseWith lexSource (parseFuel text.length) (newLexer text file)

end Goyang.Model.Parse
