import Goyang.Model.Dump
import Goyang.Model.Types
/-
The resolver pipeline assembled from the layers: loading (Modules.Parse, atomic), the plug of
type resolution (C09 layer) and identity resolution (C11 layer) into `processAll`, and the
classification of inputs the resolver model does not interpret.  Shared by every driver that
runs the whole pipeline (Drv/Res.lean, Drv/FindDrv.lean, …).
-/
namespace Goyang.Model

mutual
/-- Statements the resolver model does not interpret (`parentKw` = keyword of the parent). -/
def outside (parentKw : String) : Stmt → Option String
  | .mk kw _ arg _ _ _ subs =>
    if kw == "refine" then some "refine"
    else if kw == "augment" && parentKw == "uses" then some "uses-augment"
    else if kw == "augment" && !arg.startsWith "/" then some "relative-augment"
    else if (kw.splitOn ":").length == 2 && (kw.splitOn "posix-pattern").length > 1 then some "posix-pattern"
    else outsideL kw subs
def outsideL (parentKw : String) : List Stmt → Option String
  | [] => none
  | s :: rest =>
    match outside parentKw s with
    | some w => some w
    | none => outsideL parentKw rest
end

/-- `Modules.Parse` (after the repair it is atomic: either every top-level statement of the text
is added or none). -/
def loadFile (reg : Registry) (f : SrcFile) : Registry :=
  match f.stmts.foldlM (fun r s => r.add s) reg with
  | .ok r => r
  | .error _ => reg

def loadFiles (files : List SrcFile) : Registry := files.foldl loadFile {}

/-- Which statement of a cyclic type definition Go reports depends on where the cycle is entered
first (memoisation); the dump compares such errors without their position. -/
def normTypeErr (e : Err) : Err := if e.cls == "cycle" then Err.bare "type-cycle" else e

/-- The other layers plugged in: type resolution (C09 layer) and identity resolution (C11 layer),
with the environment (links, identity dictionary) built once per registry. -/
def plugFull (reg : Registry) : Plug :=
  let env := Types.Env.of reg
  { tres := { resolve := fun _ root scope t =>
      let (y, errs) := Types.resolveTypeE env root scope t
      (y.map fun y => { dump := y.dump, hasDefault := y.hasDefault, default := y.default }, errs.map normTypeErr) },
    identityErrs := fun reg =>
      match Identity.run (Identity.Oracle.ofNat 0) reg with
      | .done res _ => res.errs
      | _ => [],
    typedefErrs := fun _ => (Types.resolveAllTypedefsE env).map normTypeErr }

/-- Load the files in order and process: the whole pipeline after generic parsing. `none` when a
file holds a statement outside the model. -/
def processFiles (opts : Opts) (files : List SrcFile) : Except String Outcome :=
  match files.findSome? fun f => outsideL "" f.stmts with
  | some why => .error why
  | none =>
    let reg := loadFiles files
    .ok (processAll reg opts (plugFull reg))

end Goyang.Model
