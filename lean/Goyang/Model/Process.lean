import Goyang.Model.Find
/-
`Modules.process` / `Modules.Process` (pkg/yang/modules.go), `Entry.Augment`, `Entry.FixChoice`,
`Entry.ApplyDeviate`, `errorSort` on the pure forest.
-/
namespace Goyang.Model

/-- Stages of `process()` that live in other layers, plugged in by the driver. -/
structure Plug where
  tres : TypeRes
  identityErrs : Registry → List Err      -- Modules.resolveIdentities
  typedefErrs : Registry → List Err       -- typeDictionary.resolveTypedefs

/-- Stable insertion sort. -/
def insertBy {α} (lt : α → α → Bool) (x : α) : List α → List α
  | [] => [x]
  | y :: ys => if lt x y then x :: y :: ys else y :: insertBy lt x ys

def sortBy {α} (lt : α → α → Bool) (l : List α) : List α := l.foldr (insertBy lt) []

/-! ### include / import linking (`Modules.include`) -/

/-- Go: `ms.include(m)`: depth-first, a module is marked before its statements are walked and
never revisited; the first missing (sub)module aborts the walk of everything above it. -/
def includeWalk (reg : Registry) : (fuel : Nat) → (visited : List Nat) → (m : Mod) → List Nat × Option Err
  | 0, visited, _ => (visited, some (Err.bare "out-of-fuel"))
  | fuel + 1, visited, m =>
    if visited.contains m.seq then (visited, none) else
    let visited := m.seq :: visited
    let walkList (isInclude : Bool) (acc : List Nat × Option Err) (stmts : List Stmt) : List Nat × Option Err :=
      stmts.foldl (fun (acc : List Nat × Option Err) i =>
        match acc.2 with
        | some _ => acc
        | none =>
          match reg.findModule isInclude i with
          | none => (acc.1, some (Err.bare (if isInclude then "no-such-submodule" else "no-such-module")))
          | some im => includeWalk reg fuel acc.1 im) acc
    let acc := walkList true (visited, none) m.includes
    walkList false acc m.imports

/-- The linking part of `process()`: modules in full-name order. Returns the linked set and the
errors. -/
def linkAll (reg : Registry) : List Nat × List Err :=
  let mods := sortBy (fun (a b : Mod) => a.fullName < b.fullName) reg.distinctModules
  mods.foldl (fun (acc : List Nat × List Err) m =>
    let (v, e) := includeWalk reg (reg.mods.length + 1) acc.1 m
    (v, match e with | some e => acc.2 ++ [e] | none => acc.2)) ([], [])

/-! ### errors -/

/-- Errors are compared as sets of (position, class): de-duplicated and put in a canonical order
(file, line, col, class). -/
def canonErrs (es : List Err) : List Err :=
  let lt (a b : Err) : Bool :=
    if a.file != b.file then a.file < b.file
    else if a.line != b.line then a.line < b.line
    else if a.col != b.col then a.col < b.col
    else a.cls < b.cls
  (sortBy lt es).eraseDups

/-! ### augment -/

structure PState where
  forest : Forest := {}
  pending : List (Nat × List Entry) := []     -- e.Augments per tree
  deriving Inhabited

def PState.pendingOf (s : PState) (id : Nat) : List Entry :=
  ((s.pending.find? (·.1 == id)).map (·.2)).getD []

def PState.setPending (s : PState) (id : Nat) (l : List Entry) : PState :=
  { s with pending := s.pending.map fun (i, p) => if i == id then (i, l) else (i, p) }

/-- Kinds that cannot take children from an augment (after the repair). -/
def cannotHaveChildren (e : Entry) : Bool :=
  !e.d.hasDir || e.d.kind == .anydata || e.d.kind == .anyxml || e.d.isRpc

/-- Go: `ToEntry(m).Augment(addErrors)` for the tree `id`: returns processed and skipped counts. -/
def augmentTree (reg : Registry) (id : Nat) (addErrors : Bool) (s : PState) : PState × Nat × Nat :=
  let augs := s.pendingOf id
  let nsOf : String := namespaceAt reg s.forest (id, [])
  let (s, unapplied, p, k) := augs.foldl (fun (acc : PState × List Entry × Nat × Nat) a =>
    let (s, unapplied, p, k) := acc
    -- the augment entry's parent is the module entry: an absolute path starts at that root
    let (target, forest) := find reg s.forest (id, []) a.d.nodeMod a.d.name
    let s := { s with forest := forest }
    let fail (s : PState) : PState × List Entry × Nat × Nat :=
      let s := if addErrors then
          match s.forest.tree? id with
          | some root => { s with forest := s.forest.setTree id (root.addErr (Err.at_ a.d.node "augment-not-found")) }
          | none => s
        else s
      (s, unapplied ++ [a], p, k + 1)
    match target with
    | none => fail s
    | some (t, path) =>
      match (s.forest.tree? t).bind (·.getAt path) with
      | none => fail s
      | some te =>
        if cannotHaveChildren te then fail s else
        match s.forest.tree? t with
        | none => fail s
        | some root =>
          let root := root.updateAt path fun te => te.merge (some nsOf) a
          ({ s with forest := s.forest.setTree t root }, unapplied, p + 1, k)) (s, [], 0, 0)
  (s.setPending id unapplied, p, k)

/-- One pass of the augment loop over `mods` (Go: the inner `for i := 0; i < len(mods);` with
swap-remove of modules that have nothing left). -/
def augmentPass (reg : Registry) : (fuel : Nat) → (mods : Array Nat) → (i : Nat) → (processed : Nat) → PState →
    Array Nat × Nat × PState
  | 0, mods, _, processed, s => (mods, processed, s)
  | fuel + 1, mods, i, processed, s =>
    if h : i < mods.size then
      let (s, p, k) := augmentTree reg mods[i] false s
      if k == 0 then
        let mods := (mods.set i (mods.back?.getD 0) h).pop
        augmentPass reg fuel mods i (processed + p) s
      else augmentPass reg fuel mods (i + 1) (processed + p) s
    else (mods, processed, s)

/-- Go: `for len(mods) > 0 { … if processed == 0 { break } }` — the closure `augmentLoop` of
`Modules.Process` (its result, the number of augments applied, is in `augmentLoopN` below). -/
def augmentLoop (reg : Registry) : (fuel : Nat) → Array Nat → PState → Array Nat × PState
  | 0, mods, s => (mods, s)
  | fuel + 1, mods, s =>
    if mods.isEmpty then (mods, s) else
    let (mods, processed, s) := augmentPass reg (mods.size + 1) mods 0 0 s
    if processed == 0 then (mods, s) else augmentLoop reg fuel mods s

/-! ### FixChoice -/

/-- Wrap every non-case child of a choice into an implicit case of the same name. -/
def wrapCases : List Entry → List Entry
  | [] => []
  | ce :: es =>
    (if ce.d.kind == .case_ then ce
     else .mk { name := ce.d.name, kind := .case_, hasDir := true, config := ce.d.config, node := ce.d.node,
                nodeMod := ce.d.nodeMod, nodeKw := "case" } [ce] [] []) :: wrapCases es

mutual
/-- Go: `FixChoice` (after the repair it also descends into rpc input / output). Go wraps the
children of a choice first and then descends into the (new) children; descending first and
wrapping the results is the same thing, because wrapping only looks at the children's kinds and
the wrapper itself is not a choice. -/
def fixChoice : Entry → Entry
  | .mk d c i o =>
    let c' := fixChoiceL c
    .mk d (if d.kind == .choice && d.errors.isEmpty then wrapCases c' else c') (fixChoiceL i) (fixChoiceL o)
def fixChoiceL : List Entry → List Entry
  | [] => []
  | e :: es => fixChoice e :: fixChoiceL es
end

/-! ### deviations -/

def Entry.isList (e : Entry) : Bool := e.d.hasDir && e.d.listAttr.isSome
def Entry.isLeafList (e : Entry) : Bool := !e.d.hasDir && e.d.kind == .leaf && e.d.listAttr.isSome

/-- One deviate statement applied to (a copy of) the target node. Returns the new node, whether
the target is to be removed from its parent, and the errors. `modStmt` is the deviating module's
statement (several messages are positioned there). Mirrors the `continue` statements: an element
bound on a non-list abandons the rest of this deviate. -/
def applyOneDeviate (opts : Opts) (modStmt : Stmt) (kind : String) (spec : Entry) (hasParent : Bool) (node : Entry) :
    Entry × Bool × List Err :=
  let sd := spec.d
  let setMin (n : Entry) (v : Nat) : Entry := n.withD fun d => { d with listAttr := d.listAttr.map fun la => { la with min := v } }
  let setMax (n : Entry) (v : Nat) : Entry := n.withD fun d => { d with listAttr := d.listAttr.map fun la => { la with max := v } }
  let specMin := (sd.listAttr.getD {}).min
  let specMax := (sd.listAttr.getD {}).max
  if kind == "add" || kind == "replace" then
    let node := if sd.config != .unset then node.withD fun d => { d with config := sd.config } else node
    let (node, errs) : Entry × List Err :=
      if sd.default.isEmpty then (node, [])
      else if kind == "add" then
        if node.isLeafList then (node.withD fun d => { d with default := d.default ++ sd.default }, [])
        else if sd.default.length > 1 then (node, [Err.at_ modStmt "deviate-add-many-defaults"])
        else if !node.d.default.isEmpty then (node, [Err.at_ modStmt "deviate-add-default-exists"])
        else (node.withD fun d => { d with default := sd.default.take 1 }, [])
      else (node.withD fun d => { d with default := sd.default }, [])
    let node := if sd.mandatory != .unset then node.withD fun d => { d with mandatory := sd.mandatory } else node
    if sd.hasMin && !(node.isList || node.isLeafList) then (node, false, errs ++ [Err.bare "deviate-min-nonlist"]) else
    let node := if sd.hasMin then setMin node specMin else node
    if sd.hasMax && !(node.isList || node.isLeafList) then (node, false, errs ++ [Err.bare "deviate-max-nonlist"]) else
    let node := if sd.hasMax then setMax node specMax else node
    let node := if sd.units != "" then node.withD fun d => { d with units := sd.units } else node
    let node := if sd.type.isSome then node.withD fun d => { d with type := sd.type } else node
    (node, false, errs)
  else if kind == "not-supported" then
    if !hasParent then (node, false, [Err.at_ modStmt "deviate-no-parent"])
    else (node, !opts.ignoreNotSupported, [])
  else if kind == "delete" then
    let node := if sd.config != .unset then node.withD fun d => { d with config := .unset } else node
    let (node, errs) : Entry × List Err :=
      if sd.default.isEmpty then (node, [])
      else if node.isLeafList then (node, [Err.at_ modStmt "deviate-delete-default-leaflist"])
      else if node.d.default.isEmpty then (node, [Err.at_ modStmt "deviate-delete-default-missing"])
      else if sd.default.head? != node.d.default.head? then (node, [Err.at_ modStmt "deviate-delete-default-mismatch"])
      else (node.withD fun d => { d with default := [] }, [])
    let node := if sd.mandatory != .unset then node.withD fun d => { d with mandatory := .unset } else node
    if sd.hasMin && !(node.isList || node.isLeafList) then (node, false, errs ++ [Err.bare "deviate-min-nonlist"]) else
    let (node, errs) :=
      if sd.hasMin then
        (setMin node 0, if (node.d.listAttr.getD {}).min != specMin then errs ++ [Err.bare "deviate-delete-min-mismatch"] else errs)
      else (node, errs)
    if sd.hasMax && !(node.isList || node.isLeafList) then (node, false, errs ++ [Err.bare "deviate-max-nonlist"]) else
    let (node, errs) :=
      if sd.hasMax then
        (setMax node maxU64, if (node.d.listAttr.getD {}).max != specMax then errs ++ [Err.bare "deviate-delete-max-mismatch"] else errs)
      else (node, errs)
    (node, false, errs)
  else (node, false, [Err.bare "deviate-unknown-kind"])

/-- Remove the node at `p` from its parent's Dir (Go: `dp.delete(name)`; an rpc input/output is
not in a Dir, so nothing is removed there). -/
def removeAt (root : Entry) (p : Path) : Entry :=
  match p.getLast? with
  | some (.child k) => root.updateAt p.dropLast fun pe => pe.withDir (pe.dir.filter (·.name != k))
  | some .input => root.updateAt p.dropLast fun pe => match pe with | .mk d c _ o => .mk d c [] o
  | some .output => root.updateAt p.dropLast fun pe => match pe with | .mk d c i _ => .mk d c i []
  | none => root

/-- Go: `ToEntry(m).ApplyDeviate(opts)` for module `m`; `devs` = its deviation statements with
the entries of their deviate statements (`toEntry` of each, in written order, unknown kinds
dropped). -/
def applyDeviations (reg : Registry) (opts : Opts) (m : Mod) (devs : List (Stmt × List (String × Entry)))
    (f : Forest) : Forest × List Err :=
  devs.foldl (fun (acc : Forest × List Err) dv =>
    let (f, errs) := acc
    let (dstmt, deviates) := dv
    let (target, f) := find reg f (m.seq, []) m.seq dstmt.arg
    match target with
    | none => (f, errs ++ [Err.bare "deviate-no-target"])
    | some (t, path) =>
      match (f.tree? t).bind (·.getAt path) with
      | none => (f, errs ++ [Err.bare "deviate-no-target"])
      | some node0 =>
        -- `node` is Go's deviatedNode pointer: it keeps receiving the changes even after it has
        -- been unlinked from the tree by not-supported
        let (f, _, _, errs) := deviates.foldl (fun (acc : Forest × Entry × Bool × List Err) ds =>
          let (f, node, detached, errs) := acc
          let (node', remove, es) := applyOneDeviate opts m.stmt ds.1 ds.2 (!path.isEmpty) node
          -- removing a node that an earlier not-supported already unlinked is an error
          let es := if remove && detached then es ++ [Err.at_ m.stmt "deviate-already-removed"] else es
          let f := if detached then f else
            match f.tree? t with
            | none => f
            | some root =>
              let root := root.updateAt path fun _ => node'
              f.setTree t (if remove then removeAt root path else root)
          (f, node', detached || remove, errs ++ es))
          (f, node0, false, errs)
        (f, errs)) (f, [])

/-! ### Process -/

/-- Outcome of `Modules.Process()`: the returned errors (canonical set) and, when there are
none, the forest. -/
structure Outcome where
  errors : List Err
  forest : Forest
  reg : Registry

/-- Go: the closure `augmentLoop` of `Modules.Process` with its result: `augmentLoop` together with
the number of augments it applied (the sum of `processed` over the productive passes). -/
def augmentLoopN (reg : Registry) : (fuel : Nat) → Array Nat → PState → Array Nat × PState × Nat
  | 0, mods, s => (mods, s, 0)
  | fuel + 1, mods, s =>
    if mods.isEmpty then (mods, s, 0) else
    let (mods, processed, s) := augmentPass reg (mods.size + 1) mods 0 0 s
    if processed == 0 then (mods, s, 0) else
    let (mods, s, applied) := augmentLoopN reg fuel mods s
    (mods, s, processed + applied)

/-- Go: `for augmentLoop() > 0 { fixChoice() }` — the retry rounds after the first `FixChoice`: the
modules that still hold pending augments are retried (an augment whose target is the implied case
of a choice only becomes applicable once that case exists, and may create the target of another
one); when a round applied something, `FixChoice` runs everywhere and the rest is retried again.
`n` bounds the number of rounds: every productive round removes at least one pending augment, so
(number of pending augments + 1) rounds reach the round that applies nothing. -/
def leftoverRounds (reg : Registry) (fuel : Nat) : (n : Nat) → Array Nat → PState → Array Nat × PState
  | 0, mods, s => (mods, s)
  | n + 1, mods, s =>
    let (mods, s, applied) := augmentLoopN reg fuel mods s
    if applied == 0 then (mods, s) else
    leftoverRounds reg fuel n mods
      { s with forest := { trees := s.forest.trees.map fun (i, e) => (i, fixChoice e) } }

/-- Go: `Modules.Process` from the augment loop to the last `FixChoice`: the loop, FixChoice
everywhere, the retry rounds (`leftoverRounds`: a fixpoint, so the outcome does not depend on the
order in which the remaining modules are visited), the reporting sweep over what is still pending
(now with errors; nothing that a retry could have applied is left), and FixChoice again should the
sweep have applied something.  `fuel` bounds the passes of each loop and the number of rounds
(every productive pass, and every productive round, removes at least one pending augment; the
caller passes the number of pending augments + 2). -/
def augmentPhase (reg : Registry) (order : List Nat) (fuel : Nat) (s : PState) : PState :=
  let (left, s) := augmentLoop reg fuel order.toArray s
  let s := { s with forest := { trees := s.forest.trees.map fun (i, e) => (i, fixChoice e) } }
  let (left, s) := leftoverRounds reg fuel fuel left s
  let (s, applied) := left.foldl (fun (acc : PState × Nat) id =>
    let (s, p, _) := augmentTree reg id true acc.1
    (s, acc.2 + p)) (s, 0)
  if applied > 0 then { s with forest := { trees := s.forest.trees.map fun (i, e) => (i, fixChoice e) } } else s

/-- Go: `Modules.Process()`. -/
def processAll (reg : Registry) (opts : Opts) (plug : Plug) : Outcome :=
  -- process(): linking, identities, typedefs
  let (linked, lerrs) := linkAll reg
  let errs := lerrs ++ plug.identityErrs reg ++ plug.typedefErrs reg
  if !errs.isEmpty then { errors := canonErrs errs, forest := {}, reg := reg } else
  let env : Env := { reg := reg, opts := opts, tres := plug.tres, linked := linked }
  let fuel := entryFuel reg
  let mods := reg.distinctModules
  let subs := reg.distinctSubs
  -- ToEntry of every module, then every submodule (the cache makes the order matter only through
  -- the merged-submodule bookkeeping)
  -- in key order of the two maps (a module bound under two keys is converted once: the cache)
  let convOrder : List Mod :=
    let keys (km : KeyMap) := (sortBy (fun (a b : String × Nat) => a.1 < b.1) km).filterMap fun kv => reg.byId kv.2
    keys reg.modules ++ keys reg.subModules
  let st : TState := convOrder.foldl (fun st m => (toEntry env fuel m [] m.stmt [] st).2) {}
  let forest : Forest := { trees := st.cache }
  let errs := (forest.trees.map fun (_, e) => e.allErrors).flatten
  if !errs.isEmpty then { errors := canonErrs errs, forest := forest, reg := reg } else
  -- pending augments of every tree: ToEntry of each augment statement, parent = the module entry
  let pending := (mods ++ subs).map fun m => (m.seq, ((st.augs.find? (·.1 == m.seq)).map (·.2)).getD [])
  let s : PState := { forest := forest, pending := pending }
  -- the loop visits every key of both maps, in (full name, kind) order
  let keyed : List Mod := (reg.modules ++ reg.subModules).filterMap fun kv => reg.byId kv.2
  let order := sortBy (fun (a b : Mod) =>
      if a.fullName != b.fullName then a.fullName < b.fullName else !a.isSub && b.isSub) keyed
  let total := pending.foldl (fun n p => n + p.2.length) 0
  let s := augmentPhase reg (order.map (·.seq)) (total + 2) s
  let errs := (s.forest.trees.map fun (_, e) => e.allErrors).flatten
  -- deviations, once per module name, keys in sorted order (modules, then submodules)
  let devOrder : List Mod :=
    let keys (km : KeyMap) := (sortBy (fun (a b : String × Nat) => a.1 < b.1) km).filterMap fun kv => reg.byId kv.2
    keys reg.modules ++ keys reg.subModules
  let (forest, derrs, _) := devOrder.foldl (fun (acc : Forest × List Err × List String) m =>
    let (f, errs, done) := acc
    if done.contains m.name then acc else
    let devs := (m.stmt.all "deviation").map fun dv =>
      (dv, (dv.all "deviate").filterMap fun ds =>
        if deviateKinds.contains ds.arg then some (ds.arg, (toEntry env fuel m [dv, m.stmt] ds [] {}).1) else none)
    let (f, es) := applyDeviations reg opts m devs f
    (f, errs ++ es, done ++ [m.name])) (s.forest, [], [])
  { errors := canonErrs (errs ++ derrs), forest := forest, reg := reg }

end Goyang.Model
