/-
Line protocol shared by every driver executable (core Lean only).

A request is one line of space-separated fields; the first field is the op name.  Byte strings
travel hex-encoded (`-` stands for the empty string), numbers in decimal.  The answer is one
line.  Drivers are pure functions `List String → String` wrapped by `Proto.loop`.
-/
namespace Goyang.Proto

def hexDigit (n : Nat) : Char :=
  if n < 10 then Char.ofNat (48 + n) else Char.ofNat (87 + n)

def hexVal (c : Char) : Option Nat :=
  if '0' ≤ c ∧ c ≤ '9' then some (c.toNat - 48)
  else if 'a' ≤ c ∧ c ≤ 'f' then some (c.toNat - 87)
  else if 'A' ≤ c ∧ c ≤ 'F' then some (c.toNat - 55)
  else none

/-- Hex-encode a byte list; the empty list is written `-`. -/
def encBytes (bs : List UInt8) : String :=
  if bs.isEmpty then "-" else
  String.ofList (bs.flatMap fun b => [hexDigit (b.toNat / 16), hexDigit (b.toNat % 16)])

def decHexAux : List Char → List UInt8 → Option (List UInt8)
  | [], acc => some acc.reverse
  | [_], _ => none
  | a :: b :: rest, acc =>
    match hexVal a, hexVal b with
    | some x, some y => decHexAux rest (UInt8.ofNat (x * 16 + y) :: acc)
    | _, _ => none

/-- Decode a hex field (`-` is the empty string). -/
def decBytes (s : String) : Option (List UInt8) :=
  if s == "-" then some [] else decHexAux s.toList []

def encStr (s : String) : String := encBytes s.toUTF8.toList

def decNat (s : String) : Option Nat := s.toNat?

def decInt (s : String) : Option Int := s.toInt?

def fields (line : String) : List String :=
  (line.trimAscii.toString.splitOn " ").filter (· ≠ "")

partial def loop (handle : List String → String) : IO Unit := do
  let stdin ← IO.getStdin
  let stdout ← IO.getStdout
  let rec go : IO Unit := do
    let line ← stdin.getLine
    if line.isEmpty then
      stdout.flush
      return ()
    -- `!flush` produces no answer line: it makes the answers so far visible to an interactive
    -- client (batch clients never send it and get block-buffered output)
    if line.trimAscii.toString == "!flush" then
      stdout.flush
    else
      stdout.putStrLn (handle (fields line))
    go
  go

end Goyang.Proto
