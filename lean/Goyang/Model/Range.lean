/-
Impl model of the range part of `pkg/yang/types_builtin.go` (`YRange`, `YangRange`: Valid, String,
Equal, Less, Sort, Validate, Contains; `coalesce` as repaired by 6d0735a; `parseChildRanges`,
`ParseRangesInt`, `ParseRangesDecimal`; the eight built-in ranges) and of the range / length
overlay inside `(*Type).resolve` (`pkg/yang/types.go:241-320`).

Conventions (see also `Goyang.Model.Number`)
* strings are byte lists; `fracDigRequired uint8` is a `Nat` (meaningful below 256);
* slices are lists; an index walk over a slice (`ri`, `cr[i]`) becomes a walk over the suffix /
  a "current element" argument; every function below names the Go loop it renders;
* Go errors become `RangeErr` classes, raised in the same order as in the Go code;
* `sort.Sort` (pdqsort) runs `insertionSort` on slices of at most 12 elements, which is what `sort`
  transliterates; on longer slices pdqsort may order *ties* differently.  Two parts tie under
  `rangeLess` only when both bounds are `Number.equal`, which at a common number of fraction digits
  means equal mantissas: such parts differ at most in the sign of a zero (`-0` / `0`), denote the
  same interval and `coalesce` merges them into one part (`Goyang.Lemmas.Range.sortZ_*`).
* external: `strings.Split` (for the separators "|" and ".."), `strings.Join`, `strings.TrimSpace`
  (from `Model.Number`) are re-implemented (trusted glue, covered by the correspondence run).
Core Lean only.
-/
import Goyang.Model.Number

namespace Goyang.Model.Range
open Goyang.Model.Number

abbrev Bytes := List UInt8

/-- Go: `YRange{Min, Max Number}` -/
structure YRange where
  min : Number
  max : Number
deriving Repr, DecidableEq, Inhabited

/-- Go: `type YangRange []YRange` (nil and empty are not distinguished by any function below) -/
abbrev YangRange := List YRange

/-- error classes (wording is never compared) -/
inductive RangeErr
  | num (e : NumErr)   -- from ParseInt / ParseDecimal
  | kwMax              -- "cannot resolve 'max' keyword using an empty YangRange parent object"
  | kwMin              -- "cannot resolve 'min' keyword using an empty YangRange parent object"
  | dots               -- "too many '..' in ..."
  | order              -- "range boundaries out of order"
  | outside            -- "... not within ..."
  | unsorted           -- Validate: "range not sorted"
  | invalid            -- Validate: "invalid number"
  | overlap            -- Validate: "overlapping ranges"
  | negLength          -- types.go: "negative length"
deriving Repr, DecidableEq, Inhabited

def RangeErr.name : RangeErr → String
  | .num e => "num." ++ e.name
  | .kwMax => "kwMax" | .kwMin => "kwMin" | .dots => "dots" | .order => "order"
  | .outside => "outside" | .unsorted => "unsorted" | .invalid => "invalid" | .overlap => "overlap"
  | .negLength => "negLength"

/-! ### YRange -/

/-- Go: `YRange.Valid` = `!r.Max.Less(r.Min)` -/
def YRange.valid (r : YRange) : Bool := !Number.less r.max r.min

/-- Go: `YRange.String` -/
def YRange.toStr (r : YRange) : Bytes :=
  if Number.equal r.min r.max then Number.toStr r.min
  else Number.toStr r.min ++ [46, 46] ++ Number.toStr r.max

/-- Go: `YRange.Equal` -/
def YRange.equal (r s : YRange) : Bool := Number.equal r.min s.min && Number.equal r.max s.max

/-! ### YangRange: String, Less, Sort, IsSorted, Validate, Equal, Contains -/

/-- `strings.Join(_, "|")` -/
def joinBar : List Bytes → Bytes
  | [] => []
  | [x] => x
  | x :: rest => x ++ [124] ++ joinBar rest

/-- Go: `YangRange.String` -/
def toStr (r : YangRange) : Bytes := joinBar (r.map YRange.toStr)

/-- Go: `YangRange.Less(i, j)` on the elements `a = r[i]`, `b = r[j]` -/
def rangeLess (a b : YRange) : Bool :=
  if less a.min b.min then true
  else if less b.min a.min then false
  else less a.max b.max

/-- inner loop of `insertionSort`: `for j := i; j > a && data.Less(j, j-1); j-- { Swap(j, j-1) }`.
`revPre` is the already sorted prefix `data[a:i]` in reverse (nearest neighbour first), the result is
`data[a:i+1]` in reverse. -/
def bubble (x : YRange) : List YRange → List YRange
  | [] => [x]
  | y :: ys => if rangeLess x y then y :: bubble x ys else x :: y :: ys

/-- outer loop of `insertionSort` -/
def sortLoop : List YRange → List YRange → List YRange
  | revPre, [] => revPre.reverse
  | revPre, x :: xs => sortLoop (bubble x revPre) xs

/-- Go: `YangRange.Sort` = `sort.Sort(r)` (see the header on ties beyond 12 elements) -/
def sort (r : YangRange) : YangRange := sortLoop [] r

/-- `sort.IsSorted`: `for i := n-1; i > 0; i-- { if Less(i, i-1) { return false } }`
(which adjacent pair is looked at first does not matter for a Boolean without effects) -/
def isSorted : YangRange → Bool
  | [] => true
  | [_] => true
  | a :: b :: rest => !rangeLess b a && isSorted (b :: rest)

/-- Go: `YangRange.Validate`; `none` is the nil error.  Every later part is compared with the first
only (as in the Go code). -/
def validate (r : YangRange) : Option RangeErr :=
  if !isSorted r then some .unsorted
  else match r with
    | [] => none
    | p :: rest =>
      if !p.valid then some .invalid
      else if rest.any (fun n => less n.min p.max) then some .overlap
      else none

/-- Go: `YangRange.Equal` -/
def equal : YangRange → YangRange → Bool
  | [], [] => true
  | a :: r, b :: q => a.equal b && equal r q
  | _, _ => false

/-- Go: `for r[ri].Max.Less(ss.Min) { ri++; if ri == len(r) { return false } }` on the suffix
`cur :: rest = r[ri:]`; `none` is `return false`. -/
def advance (ssMin : Number) (cur : YRange) : List YRange → Option (YRange × List YRange)
  | [] => if less cur.max ssMin then none else some (cur, [])
  | n :: rest' => if less cur.max ssMin then advance ssMin n rest' else some (cur, n :: rest')

/-- the `for _, ss := range s` loop of `Contains` with `cur :: rest = r[ri:]` -/
def containsLoop : YRange → List YRange → List YRange → Bool
  | _, _, [] => true
  | cur, rest, ss :: more =>
    match advance ss.min cur rest with
    | none => false
    | some (cur', rest') =>
      if less ss.min cur'.min || less cur'.max ss.max then false
      else containsLoop cur' rest' more

/-- Go: `YangRange.Contains`: an empty receiver contains everything, an empty argument is contained -/
def contains (r s : YangRange) : Bool :=
  match r, s with
  | [], _ => true
  | _, [] => true
  | cur :: rest, s => containsLoop cur rest s

/-! ### coalesce -/

/-- the loop of `coalesce` with `cur = cr[i]`; the parts before `cr[i]` are emitted as they are
finished.  `next := cr[i].Max.addQuantum(1)`; a new part starts only if the addition did not wrap
(`cr[i].Max.Less(next)`) and `next.Less(r1.Min)`. -/
def coalesceLoop (cur : YRange) : List YRange → List YRange
  | [] => [cur]
  | r1 :: rest =>
    let next := addQuantum cur.max 1
    if less cur.max next && less next r1.min then cur :: coalesceLoop r1 rest
    else if less cur.max r1.max then coalesceLoop { cur with max := r1.max } rest
    else coalesceLoop cur rest

/-- Go: `coalesce` (`len(r) < 2` returns `r` itself, which is what the loop gives too) -/
def coalesce : YangRange → YangRange
  | [] => []
  | r0 :: rest => coalesceLoop r0 rest

/-! ### strings.Split for "|" and ".." -/

/-- `strings.Split(s, "|")`: first piece and the remaining pieces (Split never returns an empty slice) -/
def splitBar : Bytes → Bytes → Bytes × List Bytes
  | [], acc => (acc.reverse, [])
  | c :: rest, acc =>
    if c = 124 then
      let (h, t) := splitBar rest []
      (acc.reverse, h :: t)
    else splitBar rest (c :: acc)

/-- `strings.Split(s, "..")`: occurrences are found left to right and do not overlap -/
def splitDots : Bytes → Bytes → Bytes × List Bytes
  | [], acc => (acc.reverse, [])
  | [c], acc => ((c :: acc).reverse, [])
  | c :: d :: rest, acc =>
    if c = 46 ∧ d = 46 then
      let (h, t) := splitDots rest []
      (acc.reverse, h :: t)
    else splitDots (d :: rest) (c :: acc)

/-! ### parseChildRanges -/

def kwMin : Bytes := [109, 105, 110]   -- "min"
def kwMax : Bytes := [109, 97, 120]    -- "max"

/-- the closure `parseNumber` of `parseChildRanges` (`y` is the parent) -/
def parseNumber (y : YangRange) (decimal : Bool) (fd : Nat) (s : Bytes) : Except RangeErr Number :=
  if s = kwMax then
    match y.getLast? with
    | none => .error .kwMax
    | some l => .ok { l.max with fd := fd }
  else if s = kwMin then
    match y.head? with
    | none => .error .kwMin
    | some h => .ok { h.min with fd := fd }
  else if decimal then
    match parseDecimal s fd with
    | .ok n => .ok n
    | .error e => .error (.num e)
  else
    match parseInt s with
    | .ok n => .ok n
    | .error e => .error (.num e)

/-- body of the `for i, s := range parts` loop -/
def parsePart (y : YangRange) (decimal : Bool) (fd : Nat) (s : Bytes) : Except RangeErr YRange :=
  let (p0, more) := splitDots s []
  match parseNumber y decimal fd (trimSpace p0) with
  | .error e => .error e
  | .ok min =>
    let max? : Except RangeErr Number :=
      match more with
      | [] => .ok min
      | [p1] => parseNumber y decimal fd (trimSpace p1)
      | _ => .error .dots
    match max? with
    | .error e => .error e
    | .ok max => if less max min then .error .order else .ok { min := min, max := max }

/-- the loop over the `|`-separated parts: stops at the first error -/
def parseParts (y : YangRange) (decimal : Bool) (fd : Nat) : List Bytes → Except RangeErr YangRange
  | [] => .ok []
  | s :: rest =>
    match parsePart y decimal fd s with
    | .error e => .error e
    | .ok r =>
      match parseParts y decimal fd rest with
      | .error e => .error e
      | .ok rs => .ok (r :: rs)

/-- Go: `(y YangRange).parseChildRanges(s, decimal, fracDigRequired)` -/
def parseChildRanges (y : YangRange) (s : Bytes) (decimal : Bool) (fd : Nat) : Except RangeErr YangRange :=
  let (p0, more) := splitBar s []
  match parseParts y decimal fd (p0 :: more) with
  | .error e => .error e
  | .ok r =>
    let r := coalesce (sort r)
    if !contains y r then .error .outside
    else match validate r with
      | some e => .error e
      | none => .ok r

/-- Go: `ParseRangesInt` -/
def parseRangesInt (s : Bytes) : Except RangeErr YangRange := parseChildRanges [] s false 0

/-- Go: `ParseRangesDecimal` -/
def parseRangesDecimal (s : Bytes) (fd : Nat) : Except RangeErr YangRange := parseChildRanges [] s true fd

/-! ### built-in ranges -/

def intRange (lo hi : Nat) : YangRange :=
  [{ min := { value := lo, fd := 0, neg := true }, max := { value := hi, fd := 0, neg := false } }]
def uintRange (hi : Nat) : YangRange :=
  [{ min := { value := 0, fd := 0, neg := false }, max := { value := hi, fd := 0, neg := false } }]

/-- Go: `Int8Range = mustParseRangesInt("-128..127")` … (the values; that parsing the literals gives
them is checked by the correspondence run against `yang.Int8Range` … and by `builtin_parse` examples) -/
def int8Range : YangRange := intRange 128 127
def int16Range : YangRange := intRange 32768 32767
def int32Range : YangRange := intRange 2147483648 2147483647
def int64Range : YangRange := intRange 9223372036854775808 9223372036854775807
def uint8Range : YangRange := uintRange 255
def uint16Range : YangRange := uintRange 65535
def uint32Range : YangRange := uintRange 4294967295
def uint64Range : YangRange := uintRange 18446744073709551615

/-- types.go:258: the range a direct `decimal64` gets once `fraction-digits` is known -/
def decimalBase (fd : Nat) : YangRange :=
  [{ min := { value := H, fd := fd, neg := true }, max := { value := H - 1, fd := fd, neg := false } }]

/-! ### the overlay in `(*Type).resolve` -/

/-- types.go:290-299: `if t.Range != nil { … }`; returns the new `y.Range` and the error appended. -/
def applyRange (yRange : YangRange) (s : Bytes) (isDecimal : Bool) (fd : Nat) : YangRange × Option RangeErr :=
  match parseChildRanges yRange s isDecimal fd with
  | .error e => (yRange, some e)
  | .ok yr => if equal yr yRange then (yRange, none) else (yr, none)

/-- types.go:301-320: `if t.Length != nil { … }`.  `y.Length == nil` is the empty list here (a resolved
length is never an empty non-nil slice: `strings.Split` returns at least one part). -/
def applyLength (yLength : YangRange) (s : Bytes) : YangRange × Option RangeErr :=
  let parent := if yLength.isEmpty then uint64Range else yLength
  match parseChildRanges parent s false 0 with
  | .error e => (yLength, some e)
  | .ok yr =>
    if equal yr yLength then (yLength, none)
    else (yr, if yr.any (fun r => r.min.neg) then some .negLength else none)

/-- A derivation chain `typedef t1 { type base { range s1; } } typedef t2 { type t1 { range s2; } } …`:
the range after every step, up to and including the first step that reports an error
(`Typedef.resolve` returns the errors of the type it is based on, so nothing above is resolved). -/
def rangeChain (isDecimal : Bool) (fd : Nat) : YangRange → List Bytes → List (YangRange × Option RangeErr)
  | _, [] => []
  | y, s :: rest =>
    let (y', e) := applyRange y s isDecimal fd
    match e with
    | some _ => [(y', e)]
    | none => (y', e) :: rangeChain isDecimal fd y' rest

def lengthChain : YangRange → List Bytes → List (YangRange × Option RangeErr)
  | _, [] => []
  | y, s :: rest =>
    let (y', e) := applyLength y s
    match e with
    | some _ => [(y', e)]
    | none => (y', e) :: lengthChain y' rest

end Goyang.Model.Range
