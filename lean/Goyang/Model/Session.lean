import Goyang.Model.Load
/-
The state machine of ONE `yang.Modules` value (property C18): `load` = `Modules.Parse`,
`process` = `Modules.Process`, `read` = `ToEntry(ms.Modules[key]).Find(path)`.

What Go keeps in a `Modules` value between calls, and how it appears here:

  Go state                                              | here
  ------------------------------------------------------+--------------------------------------------
  Modules / SubModules / unrevisioned maps              | `Session.reg` (the only state `load` and
                                                        |   `process` read)
  ParseOptions                                          | `Session.opts` (never written by an op)
  entryCache (what `ToEntry` answers from)              | `Session.cache`: the outcome of the latest
                                                        |   `process`; rebuilt from nothing by every
                                                        |   `process`, read and (Find creates an absent
                                                        |   rpc input/output) written by `read`
  typeDict.dict (typedefs by defining node)             | not state: a function of the loaded ASTs
                                                        |   (`Parse` merges a text's typedefs only
                                                        |   when the whole text is accepted)
  typeDict.identities.dict, Identity.Values,            | not state: `processAll reg opts (plug reg)` is
  Type.YangType / Typedef.YangType / Type.resolveErrs,  |   a pure function of the registry - the model
  (since f1bc79c stamped with the run that made them),  |   ASSUMES these
  Import.Module / Include.Module links, includes,       |   memo tables and links are transparent
  mergedSubmodule, byNS, entryInProgress                |   (recomputed or irrelevant in every run);
                                                        |   the correspondence runner corr-c18 is what
                                                        |   checks that assumption on the real code

`load src`: the source is either a raw text (`Src.text`: generic parser model, AST builder model
and registry all run here, `Goyang.Model.loadText`) or the statement trees of a text together
with a flag (`Src.stmts f buildOk`; `buildOk = false` says that the generic parser or the AST
builder rejected the text, decided outside the model).  A text that was built is added statement
by statement (`ms.add`); if any statement is rejected the maps are restored (`restoreNames`), so
the load is atomic.
-/
namespace Goyang.Model

/-- Why `Parse` returned an error. -/
inductive Reject where
  | build                              -- generic parser or AST builder
  | add (e : Registry.AddErr)          -- `ms.add`: duplicate
  | notModule (kw : String)            -- `ms.add`: "not a module or submodule" (a top-level statement
                                       -- with another keyword that the builder knows, e.g. a container)
  | text (res : LoadResult)            -- a raw text: what the Lean front end + registry said (not `accepted`)

/-- What is offered to `Modules.Parse`. -/
inductive Src where
  /-- a text given as the statement trees the generic parser made of it; `buildOk`: the AST builder
  (and the parser) accepted it - decided outside the model (by the caller, from the real Go error) -/
  | stmts (f : SrcFile) (buildOk : Bool)
  /-- a raw text (file name, bytes): parser, AST builder and registry all run in the model
  (`Goyang.Model.loadText`, Load.lean) -/
  | text (name text : List UInt8)

namespace Session

/-- `ms.add(n)` for any top-level node the builder returned (the kind switch of `add`). -/
def addTop (r : Registry) (s : Stmt) : Except Reject Registry :=
  if s.kw == "module" || s.kw == "submodule" then
    match r.add s with
    | .ok r' => .ok r'
    | .error e => .error (.add e)
  else .error (.notModule s.kw)

/-- `Modules.Parse` after the build phase: add every top-level statement of the text; the first
rejected statement rejects the whole text (Go restores the maps: `restoreNames`). -/
def tryLoad (reg : Registry) (f : SrcFile) : Except Reject Registry :=
  f.stmts.foldlM addTop reg

theorem foldlM_addTop_ok (stmts : List Stmt) (reg r : Registry) (h : stmts.foldlM addTop reg = .ok r) :
    stmts.foldlM (fun r s => r.add s) reg = .ok r := by
  induction stmts generalizing reg with
  | nil => rw [List.foldlM_nil] at h ⊢; cases h; rfl
  | cons s rest ih =>
    rw [List.foldlM_cons] at h ⊢
    cases hs : addTop reg s with
    | error e => rw [hs] at h; simp only [bind, Except.bind] at h; cases h
    | ok r' =>
      rw [hs] at h
      have ha : reg.add s = .ok r' := by
        unfold addTop at hs
        split at hs
        · cases ha : reg.add s with
          | ok x => rw [ha] at hs; cases hs; rfl
          | error e => rw [ha] at hs; cases hs
        · cases hs
      rw [ha]
      exact ih r' h

/-- An accepted text is loaded exactly as `Goyang.Model.loadFile` (Pipeline.lean, what the resolver
driver `drv_res` uses) loads it. -/
theorem loadFile_of_ok (reg r : Registry) (f : SrcFile) (h : tryLoad reg f = .ok r) : loadFile reg f = r := by
  unfold loadFile
  rw [foldlM_addTop_ok f.stmts reg r h]

/-- The answer of the Lean front end as `Parse` returns it: the new registry when the text was
accepted, else the reason. -/
def ofLoadText : Registry × LoadResult → Except Reject Registry
  | (r, .accepted) => .ok r
  | (_, res) => .error (.text res)

/-- `Modules.Parse` of either kind of source: the new registry, or why nothing was loaded. -/
def tryLoadSrc (reg : Registry) : Src → Except Reject Registry
  | .stmts f buildOk => if !buildOk then .error .build else tryLoad reg f
  | .text name text => ofLoadText (loadText reg name text)

/-- `Modules.Parse` as a function on registries: a rejected source leaves the registry as it was. -/
def loadSrc (reg : Registry) (src : Src) : Registry :=
  match tryLoadSrc reg src with
  | .ok r => r
  | .error _ => reg

/-- A batch of sources into a fresh `NewModules()`. -/
def loadSrcs (srcs : List Src) : Registry := srcs.foldl loadSrc {}

end Session

/-- One call on a `Modules` value. -/
inductive Op where
  /-- `ms.Parse(text, name)` -/
  | load (src : Src)
  /-- `ms.Process()` -/
  | process
  /-- `ToEntry(ms.Modules[key]).Find(path)` -/
  | read (key : String) (path : String)

def Op.isRead : Op → Bool
  | .read _ _ => true
  | _ => false

/-- What the caller gets back. -/
inductive Out where
  | accepted                           -- `Parse` returned nil
  | rejected (why : Reject)            -- `Parse` returned an error
  | processed (o : Outcome)            -- errors returned by `Process` and the trees `ToEntry` now answers with
  | found (loc : Option Loc)           -- `Find`: the node (tree, steps from its root) or nil
  | noModule                           -- `ms.Modules[key]` is nil
  /-- a read that is not answered from a finished `Process` (none yet, or texts were loaded since):
  Go then converts on the fly with whatever links exist; the documented contract of the library is
  to call `Process` first, and the model says nothing about that answer -/
  | unprocessed

def Out.isReadOut : Out → Bool
  | .found _ | .noModule | .unprocessed => true
  | _ => false

/-- One `Modules` value. -/
structure Session where
  reg : Registry := {}
  opts : Opts := {}
  /-- the latest `Process`: what `ToEntry` answers from until the next one -/
  cache : Option Outcome := none

namespace Session

/-- One call.  `plug reg` are the type and identity layers for the registry `reg` (the driver uses
`plugFull`): like everything else in `process`, a function of the registry alone. -/
def step (plug : Registry → Plug) (s : Session) : Op → Session × Out
  | .load src =>
    match tryLoadSrc s.reg src with
    | .ok r => ({ s with reg := r }, .accepted)
    | .error w => (s, .rejected w)
  | .process =>
    let o := processAll s.reg s.opts (plug s.reg)
    ({ s with cache := some o }, .processed o)
  | .read key path =>
    match s.reg.getModule key with
    | none => (s, .noModule)
    | some m =>
      match s.cache with
      | none => (s, .unprocessed)
      | some o =>
        -- the registry only grows: equal length = nothing was loaded since that Process
        if o.reg.mods.length != s.reg.mods.length then (s, .unprocessed) else
        match o.forest.tree? m.seq with
        | none => (s, .unprocessed)          -- Process stopped before building trees
        | some _ =>
          let (loc, forest) := find s.reg o.forest (m.seq, []) m.seq path
          ({ s with cache := some { o with forest := forest } }, .found loc)

/-- A history from state `s`: final state and the answers. -/
def runFrom (plug : Registry → Plug) (s : Session) : List Op → Session × List Out
  | [] => (s, [])
  | op :: ops =>
    let (s', o) := step plug s op
    let (sf, os) := runFrom plug s' ops
    (sf, o :: os)

/-- A history on a fresh `NewModules()` with the given options. -/
def run (plug : Registry → Plug) (opts : Opts) (h : List Op) : List Out := (runFrom plug { opts := opts } h).2

/-- The state a history leaves behind. -/
def after (plug : Registry → Plug) (opts : Opts) (h : List Op) : Session := (runFrom plug { opts := opts } h).1

end Session

end Goyang.Model
