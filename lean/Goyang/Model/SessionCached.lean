import Goyang.Model.StateInv
/-
A STATEFUL machine of one `yang.Modules` value (property C18): the derived state the Go value keeps
between calls is explicit here and persists from one operation to the next the way the Go value
keeps it.  The machine of Model/Session.lean recomputes (`process` = `processAll reg opts (plug reg)`);
this one STORES results and says WHEN a stored result is reused instead of recomputed.  Core Lean only.

The resolver stays abstract: the machine is parametrised by a `Kit`, the pure functions a processing
run is made of, cut at the places where the Go code parks a result in the value:

  Go (pkg/yang)                                            | here
  ---------------------------------------------------------+------------------------------------------------
  Modules / SubModules / unrevisioned, typeDict.dict        | `CState.reg` (registry class: a function of the
                                                           |   accepted texts); `Kit.loadDirty` = the adds of one
                                                           |   text, statement by statement, with the tables as
                                                           |   they are when the first one is refused
  Parse: snapshotNames / restoreNames, private type         | `load`: `saved := reg`; a refused text puts `saved`
    dictionary merged only on success                      |   back (policy `restoreOnReject`)
  add / Parse and the entry cache                           | `load` does not touch `run` / `extra` (Go's add and
                                                           |   Parse never write entryCache: modules.go 99-261)
  entryCache after a Process                                | `CState.run : Option Outc` (the trees of the latest
                                                           |   run, with what Find wrote into them since)
  entryCache entries made by ToEntry with no Process        | `CState.extra : Option Early` (conversions on the
    since the cache was last emptied (or for a module      |   fly: ToEntry of a module that has no tree in `run`)
    the run has no tree of)                                |
  ClearEntryCache (also the first thing Process does)       | op `clear`; `process` with policy `clearEntry`
  Import.Module / Include.Module links, Modules.includes    | `CState.links : Option Links` (`none` = all nil,
    (visited set of include)                               |   nothing visited); `process` with policy `relink`
                                                           |   forgets them first; a visited module is not linked
                                                           |   again: stored links are reused as a whole
  identityDictionary.dict, Identity.Values                  | `CState.ids : Option Ids`; policy `resetIdents`
  typeDictionary.gen                                        | `CState.gen`; policy `bumpGen`
  Type.YangType / resolveErrs / resolvedGen,                | `CState.memo`: per type statement the stored result
    Typedef.YangType / resolvedGen                         |   and the generation that made it, newest first; a
                                                           |   hit needs `stamp = gen` (policy `genGuard`; without
                                                           |   it any stored result is a hit: the tree before D30/D44)
  ToEntry before a Process resolves types too (D45)         | an early read stores what it resolved, stamped with
                                                           |   the CURRENT generation

What is coarse: links and identity tables are reused all-or-nothing (Go: per module / per identity);
a run that finds trees in an entry cache that was not emptied answers with those trees (Go: per
node); what Go computes on the fly outside the documented contract (`Kit.earlyRead`) is a parameter.
None of this matters under the reset discipline (everything is disposed of before it could be
reused: Lemmas/SessionCached.lean); it fixes what the machine does when a reset is forgotten
(`Policy` with a flag off), i.e. the shape of the defects D30 / D44 / D45 inside the model.
-/
namespace Goyang.Model.SessionCached

/-- The pure functions one `Modules` value is made of. -/
structure Kit where
  Reg : Type
  Opts : Type
  Src : Type
  Rej : Type
  /-- what a processing run produces: errors and trees -/
  Outc : Type
  Key : Type
  Path : Type
  Ans : Type
  Links : Type
  Ids : Type
  /-- a type statement / typedef (the AST node that carries the memo in Go) -/
  TyKey : Type
  TyVal : Type
  Early : Type
  keyEq : TyKey → TyKey → Bool
  /-- the adds of one text in order: the tables after the last add that succeeded, and the refusal -/
  loadDirty : Reg → Src → Reg × Option Rej
  hasModule : Reg → Key → Bool
  size : Reg → Nat
  /-- `Modules.process`: include / import linking -/
  link : Reg → Links
  /-- links of a value that never ran (all nil) -/
  linksNone : Links
  /-- `resolveIdentities` -/
  idents : Reg → Links → Ids
  idsNone : Ids
  /-- `Type.resolve` / `Typedef.resolve` of one statement -/
  resolveTy : Reg → Links → Ids → TyKey → TyVal
  /-- the statements a run resolves -/
  touched : Reg → List TyKey
  /-- the statements ToEntry of one module resolves -/
  touchedEarly : Reg → Key → List TyKey
  /-- conversion, augments, deviations: the rest of `Modules.Process` -/
  build : Reg → Opts → Links → Ids → (TyKey → TyVal) → Outc
  /-- how many modules the run saw -/
  osize : Outc → Nat
  hasTree : Reg → Outc → Key → Bool
  /-- `ToEntry(ms.Modules[key]).Find(path)` on a cached tree: the node and what Find wrote -/
  find : Reg → Outc → Key → Path → Ans × Outc
  /-- the same when ToEntry has to convert on the fly -/
  earlyRead : Reg → Opts → Links → Ids → (TyKey → TyVal) → Option Early → Key → Path → Ans × Early

/-- What `Parse` returns: the tables after the last add if none was refused. -/
def verdict {ρ ε : Type} (p : ρ × Option ε) : Except ε ρ :=
  match p.2 with
  | none => .ok p.1
  | some w => .error w

/-- `Modules.Parse` as a function: the new tables or the refusal. -/
def Kit.tryLoad (K : Kit) (r : K.Reg) (src : K.Src) : Except K.Rej K.Reg := verdict (K.loadDirty r src)

inductive Op (K : Kit) where
  | load (src : K.Src)
  | process
  | read (key : K.Key) (path : K.Path)
  /-- `ms.ClearEntryCache()` -/
  | clear

inductive Out (K : Kit) where
  | accepted
  | rejected (w : K.Rej)
  | processed (o : K.Outc)
  | found (a : K.Ans)
  | noModule
  /-- the pure machine only: a read it does not answer (no finished run, or texts accepted since) -/
  | unprocessed
  | cleared

def Op.isRead {K : Kit} : Op K → Bool
  | .read _ _ => true
  | _ => false

def Out.isReadOut {K : Kit} : Out K → Bool
  | .found _ | .noModule | .unprocessed => true
  | _ => false

/-! ### the pure machine: Model/Session.lean over a kit (plus `clear`) -/

structure PState (K : Kit) where
  reg : K.Reg
  opts : K.Opts
  cache : Option K.Outc := none

/-- A run from nothing. -/
def Kit.processAll (K : Kit) (reg : K.Reg) (opts : K.Opts) : K.Outc :=
  let L := K.link reg
  let I := K.idents reg L
  K.build reg opts L I (K.resolveTy reg L I)

def pstep (K : Kit) (s : PState K) : Op K → PState K × Out K
  | .load src =>
    match K.tryLoad s.reg src with
    | .ok r => ({ s with reg := r }, .accepted)
    | .error w => (s, .rejected w)
  | .process =>
    let o := K.processAll s.reg s.opts
    ({ s with cache := some o }, .processed o)
  | .read key path =>
    if !K.hasModule s.reg key then (s, .noModule) else
    match s.cache with
    | none => (s, .unprocessed)
    | some o =>
      if K.osize o != K.size s.reg then (s, .unprocessed) else
      if !K.hasTree s.reg o key then (s, .unprocessed) else
      let (a, o') := K.find s.reg o key path
      ({ s with cache := some o' }, .found a)
  | .clear => ({ s with cache := none }, .cleared)

def prunFrom (K : Kit) (s : PState K) : List (Op K) → PState K × List (Out K)
  | [] => (s, [])
  | op :: ops =>
    let (s', o) := pstep K s op
    let (sf, os) := prunFrom K s' ops
    (sf, o :: os)

/-! ### the cached machine -/

/-- What the value does about its derived state; `Policy.ofTable` reads it off the regenerated
inventory of the source.  All flags on = the code as it is. -/
structure Policy where
  /-- `Process` starts with `ClearEntryCache()` -/
  clearEntry : Bool := true
  /-- `Process` sets every Import/Include `.Module` to nil and empties `includes` -/
  relink : Bool := true
  /-- `Process` empties the identity dictionary; value lists are rebuilt from empty -/
  resetIdents : Bool := true
  /-- `Process` increments `typeDict.gen` -/
  bumpGen : Bool := true
  /-- a memoised type is used only if its stamp is the current generation -/
  genGuard : Bool := true
  /-- `Parse` puts the name tables back when a statement of the text is refused -/
  restoreOnReject : Bool := true
  deriving Repr, DecidableEq

def Policy.sound (P : Policy) : Bool :=
  P.clearEntry && P.relink && P.resetIdents && P.bumpGen && P.genGuard && P.restoreOnReject

structure CState (K : Kit) where
  reg : K.Reg
  opts : K.Opts
  run : Option K.Outc := none
  extra : Option K.Early := none
  links : Option K.Links := none
  ids : Option K.Ids := none
  gen : Nat := 0
  memo : List (K.TyKey × Nat × K.TyVal) := []

/-- `Type.resolve` with the memo: the newest stored result of the statement, if it may be used. -/
def memoHit (K : Kit) (memo : List (K.TyKey × Nat × K.TyVal)) (guard : Bool) (gen : Nat) (k : K.TyKey) : Option K.TyVal :=
  match memo.find? (fun e => K.keyEq e.1 k) with
  | some (_, g, v) => if !guard || g == gen then some v else none
  | none => none

def tyFun (K : Kit) (memo : List (K.TyKey × Nat × K.TyVal)) (guard : Bool) (gen : Nat)
    (reg : K.Reg) (L : K.Links) (I : K.Ids) (k : K.TyKey) : K.TyVal :=
  match memoHit K memo guard gen k with
  | some v => v
  | none => K.resolveTy reg L I k

def cstep (K : Kit) (P : Policy) (c : CState K) : Op K → CState K × Out K
  | .load src =>
    let saved := c.reg                                  -- snapshotNames
    match K.loadDirty c.reg src with
    | (d, none) => ({ c with reg := d }, .accepted)    -- every add succeeded (typeDict.merge)
    | (d, some w) => ({ c with reg := if P.restoreOnReject then saved else d }, .rejected w)
  | .process =>
    -- the prologue
    let run0 := if P.clearEntry then none else c.run
    let links0 := if P.relink then none else c.links
    let ids0 := if P.resetIdents then none else c.ids
    let gen := if P.bumpGen then c.gen + 1 else c.gen
    -- process(): linking (a visited module is not linked again), identities
    let L := match links0 with | some l => l | none => K.link c.reg
    let I := match ids0 with | some i => i | none => K.idents c.reg L
    let ty := tyFun K c.memo P.genGuard gen c.reg L I
    -- ToEntry of every module answers from the entry cache where it can
    let o := match run0 with | some o => o | none => K.build c.reg c.opts L I ty
    let memo := (K.touched c.reg).map (fun k => (k, gen, ty k)) ++ c.memo
    ({ c with run := some o, extra := if P.clearEntry then none else c.extra, links := some L, ids := some I,
              gen := gen, memo := memo }, .processed o)
  | .read key path =>
    if !K.hasModule c.reg key then (c, .noModule) else
    let hit := match c.run with | some o => if K.hasTree c.reg o key then some o else none | none => none
    match hit with
    | some o =>
      let (a, o') := K.find c.reg o key path
      ({ c with run := some o' }, .found a)
    | none =>
      let L := match c.links with | some l => l | none => K.linksNone
      let I := match c.ids with | some i => i | none => K.idsNone
      let ty := tyFun K c.memo P.genGuard c.gen c.reg L I
      let (a, e) := K.earlyRead c.reg c.opts L I ty c.extra key path
      let memo := (K.touchedEarly c.reg key).map (fun k => (k, c.gen, ty k)) ++ c.memo
      ({ c with extra := some e, memo := memo }, .found a)
  | .clear => ({ c with run := none, extra := none }, .cleared)

def crunFrom (K : Kit) (P : Policy) (c : CState K) : List (Op K) → CState K × List (Out K)
  | [] => (c, [])
  | op :: ops =>
    let (c', o) := cstep K P c op
    let (cf, os) := crunFrom K P c' ops
    (cf, o :: os)

/-- What the pure machine sees of a cached state. -/
def CState.abs {K : Kit} (c : CState K) : K.Reg × K.Opts := (c.reg, c.opts)

/-- An answer of the cached machine agrees with the pure machine's: equal, except that where the
pure machine declines (`unprocessed`: outside the contract "Process first") any read answer does. -/
def Agree {K : Kit} : Out K → Out K → Prop
  | .unprocessed, .found _ => True
  | .unprocessed, _ => False
  | p, c => p = c

/-- Answer by answer. -/
def AgreeAll {K : Kit} : List (Out K) → List (Out K) → Prop
  | [], [] => True
  | p :: ps, c :: cs => Agree p c ∧ AgreeAll ps cs
  | _, _ => False

/-! ### the policy of a regenerated field table -/

open Goyang.Model.StateInv in
/-- The field `owner.name` is derived state with the given computed reset class and nothing stores
into it (or disposes of it) outside its pinned functions. -/
def fieldIs (t : List Field) (owner name : String) (r : Reset) : Bool :=
  match t.find? (fun f => f.owner == owner && f.name == name) with
  | some f => f.allow == .derived && f.reset == r && f.stray.isEmpty
  | none => false

open Goyang.Model.StateInv in
/-- What a table of the shape of `Goyang.Gen.State.table` says the code does.  (`restoreOnReject`
is not derived state: the name tables are registry class, written through local aliases the
translator does not follow; it is part of the machine, with the dynamic check behind it.) -/
def Policy.ofTable (t : List Field) : Policy where
  clearEntry := fieldIs t "Modules" "entryCache" .full && fieldIs t "Modules" "mergedSubmodule" .full
  relink := fieldIs t "Import" "Module" .full && fieldIs t "Include" "Module" .full && fieldIs t "Modules" "includes" .full &&
    fieldIs t "Modules" "byNS" .full
  resetIdents := fieldIs t "identityDictionary" "dict" .full && fieldIs t "Identity" "Values" .full
  bumpGen := fieldIs t "typeDictionary" "gen" .full
  genGuard := fieldIs t "Type" "YangType" .generation && fieldIs t "Type" "resolveErrs" .generation &&
    fieldIs t "Type" "resolvedGen" .generation && fieldIs t "Typedef" "YangType" .generation &&
    fieldIs t "Typedef" "resolvedGen" .generation
  restoreOnReject := true

/-- The derived fields this machine has a component for (`byNS`, the namespace answers of
FindModuleByNamespace, goes with the links; `mergedSubmodule` with the entry cache). -/
def modelled : List (String × String) :=
  [("Modules", "entryCache"), ("Modules", "mergedSubmodule"), ("Modules", "includes"), ("Modules", "byNS"),
   ("Import", "Module"), ("Include", "Module"), ("identityDictionary", "dict"), ("Identity", "Values"),
   ("typeDictionary", "gen"), ("Type", "YangType"), ("Type", "resolveErrs"), ("Type", "resolvedGen"),
   ("Typedef", "YangType"), ("Typedef", "resolvedGen")]

open Goyang.Model.StateInv in
/-- Every field the table classifies as derived state is one the machine models: a new cache in
the source must get a component here (and a reset) before the obligation holds again. -/
def derivedCovered (t : List Field) : Bool :=
  t.all fun f => f.allow != .derived || modelled.contains (f.owner, f.name)

open Goyang.Model.StateInv in
/-- The reset discipline the refinement needs, as a decidable predicate over a field table: every
modelled piece of derived state is disposed of at the start of `Process` (or generation-guarded) with
no stray writer, and there is no derived state beside the modelled pieces. -/
def ResetDiscipline (t : List Field) : Bool := (Policy.ofTable t).sound && derivedCovered t

open Goyang.Model.StateInv in
theorem ResetDiscipline.sound {t : List Field} (h : ResetDiscipline t = true) : (Policy.ofTable t).sound = true := by
  unfold ResetDiscipline at h
  rw [Bool.and_eq_true] at h
  exact h.1

end Goyang.Model.SessionCached
