/-
The state a `yang.Modules` value carries between calls, as facts about the Go source, and the
predicate that says every piece of it is accounted for (property C18).  Core Lean only.

The session model (Goyang/Model/Session.lean) keeps ONE thing between calls, the registry
(`Session.reg`, plus the options and, for reads, the outcome of the latest `process`); its
`process` is `processAll reg opts (plug reg)`: everything else is recomputed from the registry.
The Go value keeps dictionaries, caches, links and memoised results.  The model is a faithful
picture of it only if each of those is either part of the registry / configuration, or derived
state that `Modules.Process` disposes of before it derives anything: reset completely at its start,
or guarded by a generation counter that its start increments.  "Reset at the start of Process" is
therefore the fact that ties the code to a model that recomputes instead of caching.

The facts are regenerated from the source on every run by harness/cmd/extract-state into
Goyang/Gen/State.lean (what the translator sees and how it classifies is described at the top of
its main.go; what each field is *meant* to be, and why, is the reviewed file
harness/cmd/extract-state/allow.json, copied into the table).
-/
namespace Goyang.Model.StateInv

/-- What the reviewed allow-list says a field is today. -/
inductive Allow where
  | registry      -- the loaded modules themselves (and what is a function of the loaded ASTs alone)
  | config        -- set by the caller: options, search path
  | sync          -- a mutex
  | construction  -- written while the object is built, before it is registered (writers pinned)
  | callScoped    -- non-empty only while one call runs (writers pinned)
  | derived       -- per-run derived state: must be reset or generation-guarded
  | unknown       -- not in the allow-list
  deriving Repr, DecidableEq, Inhabited

/-- What the start of `Modules.Process` does to a field, computed from the source. -/
inductive Reset where
  | full          -- assigned a fresh empty value / cleared, unconditionally, for every object that holds it
  | generation    -- a memo whose hits are conjoined with a generation stamp; the counter is incremented
  | partly        -- written at the start of Process, but conditionally or not with a fresh value
  | absent
  deriving Repr, DecidableEq, Inhabited

structure Field where
  owner : String            -- the struct type
  name : String
  type : String
  exported : Bool
  allow : Allow
  reset : Reset
  reads : Nat               -- selections of the field in package yang that are not plain write targets
  writers : List String     -- functions with a write after construction
  pinned : List String      -- allow-list: the only functions that may write it (construction, call-scoped) /
                            -- that may STORE into it (derived: a write that is not a plain reset)
  /-- derived fields, computed: the functions that store into the field (index assignment, a value that
  is not fresh, delete, append) and are neither pinned nor helpers only called from a pinned function;
  and `caller -> writer` for a writing - also merely resetting - function that is called on a path which
  does not start at `Modules.Process` or a pinned function (derived state disposed of on the load path) -/
  stray : List String := []
  deriving Repr, Inhabited

/-- A type whose values can only hang off derived fields (its fields are not listed one by one). -/
structure Owned where
  type : String
  confined : Bool           -- computed: every field of the package that can hold it is a declared owner or belongs to an owned type
  deriving Repr, Inhabited

/-- A package-level variable written outside package initialisation. -/
structure Global where
  name : String
  writers : List String
  explained : Bool          -- the allow-list gives a reason
  deriving Repr, Inhabited

/-- A pinned writer: a function name, or a prefix followed by `*` (`parser.*`: every method of
the parser). -/
def pinMatches (pin w : String) : Bool :=
  match pin.toList.reverse with
  | '*' :: rest => rest.reverse.isPrefixOf w.toList
  | _ => pin == w

def Field.justified (f : Field) : Bool :=
  match f.allow with
  | .registry | .config | .sync => true
  | .construction | .callScoped => f.writers.all fun w => f.pinned.any fun p => pinMatches p w
  | .derived => (f.reset == .full || f.reset == .generation) && f.stray.isEmpty
  -- a field nobody has classified: harmless only if nothing in the package ever reads it
  | .unknown => !f.exported && f.reads == 0

/-- Every field of the carried state is accounted for. -/
def CarriedStateJustified (fields : List Field) : Bool := fields.all Field.justified

/-- The fields that are not (for messages and examples). -/
def unjustified (fields : List Field) : List String :=
  (fields.filter fun f => !f.justified).map fun f => f.owner ++ "." ++ f.name

def OwnedTypesConfined (os : List Owned) : Bool := os.all (·.confined)

def GlobalsExplained (gs : List Global) : Bool := gs.all (·.explained)

end Goyang.Model.StateInv
