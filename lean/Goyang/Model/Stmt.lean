import Goyang.Model.Proto
/-
Statement trees as the resolver layers see them (the output of the generic parser, the input of
the AST builder), and their wire format in the line protocol.

Wire format (tokens separated by blanks):
  stmt   := "(" kw-hex arg ( line ) ( col ) stmt* ")"       arg := "~" (no argument) | hex ("-" = empty argument)
  file   := "F" name-hex stmt* "E"
Strings are UTF-8; a file containing a keyword or argument that is not valid UTF-8 is outside the
resolver model (`decode` fails and the driver answers `outsideModel`).
-/
namespace Goyang.Model

/-- One parsed statement. `file` is the name the text was loaded under (for positions). -/
inductive Stmt where
  | mk (kw : String) (hasArg : Bool) (arg : String) (file : String) (line col : Nat) (subs : List Stmt)
  deriving Repr, Inhabited, BEq

namespace Stmt

def kw : Stmt → String | .mk k _ _ _ _ _ _ => k
def hasArg : Stmt → Bool | .mk _ h _ _ _ _ _ => h
def arg : Stmt → String | .mk _ _ a _ _ _ _ => a
def file : Stmt → String | .mk _ _ _ f _ _ _ => f
def line : Stmt → Nat | .mk _ _ _ _ l _ _ => l
def col : Stmt → Nat | .mk _ _ _ _ _ c _ => c
def subs : Stmt → List Stmt | .mk _ _ _ _ _ _ s => s

/-- Substatements with keyword `k`, in source order (an AST slice field). -/
def all (s : Stmt) (k : String) : List Stmt := s.subs.filter (·.kw == k)

/-- The substatement with keyword `k`, if any (an AST pointer field; the builder rejects a second one). -/
def one? (s : Stmt) (k : String) : Option Stmt := s.subs.find? (·.kw == k)

/-- Argument of the single substatement `k`, if present. -/
def argOf? (s : Stmt) (k : String) : Option String := (s.one? k).map (·.arg)

/-- Go's `Statement.Location()`: `file:line:col` (just `file` parts that are known). -/
def location (s : Stmt) : String :=
  if s.file.isEmpty then
    if s.line == 0 then "unknown" else s!"line {s.line}:{s.col}"
  else if s.line == 0 then s.file else s!"{s.file}:{s.line}:{s.col}"

end Stmt

/-- A loaded source text: the name it was loaded under and its top-level statements. -/
structure SrcFile where
  name : String
  stmts : List Stmt
  deriving Repr, Inhabited

namespace Wire
open Goyang.Proto

def decStr (s : String) : Option String := do
  let bs ← decBytes s
  String.fromUTF8? (ByteArray.mk bs.toArray)

mutual
/-- Decode one statement starting after its opening parenthesis has been seen. -/
def decStmt (fuel : Nat) (file : String) : List String → Option (Stmt × List String)
  | kwx :: argx :: l :: c :: rest =>
    match fuel with
    | 0 => none
    | fuel + 1 => do
      let kw ← decStr kwx
      let (hasArg, arg) ← if argx == "~" then some (false, "") else (decStr argx).map (true, ·)
      let line ← decNat l
      let col ← decNat c
      let (subs, rest) ← decStmts fuel file rest
      match rest with
      | ")" :: rest => some (Stmt.mk kw hasArg arg file line col subs, rest)
      | _ => none
  | _ => none
/-- Decode statements until something that is not `(`. -/
def decStmts (fuel : Nat) (file : String) : List String → Option (List Stmt × List String)
  | "(" :: rest =>
    match fuel with
    | 0 => none
    | fuel + 1 => do
      let (s, rest) ← decStmt fuel file rest
      let (ss, rest) ← decStmts fuel file rest
      some (s :: ss, rest)
  | rest => some ([], rest)
end

/-- Decode a sequence of files `F name stmts E …`; returns the rest of the tokens. -/
def decFiles (fuel : Nat) : List String → Option (List SrcFile × List String)
  | "F" :: namex :: rest =>
    match fuel with
    | 0 => none
    | fuel + 1 => do
      let name ← decStr namex
      let (ss, rest) ← decStmts (rest.length + 1) name rest
      match rest with
      | "E" :: rest =>
        let (fs, rest) ← decFiles fuel rest
        some ({ name := name, stmts := ss } :: fs, rest)
      | _ => none
  | rest => some ([], rest)

end Wire
end Goyang.Model
