/-
Go's string comparison `a < b` (byte-wise lexicographic).  For valid UTF-8 — every Lean `String`
is — byte-wise and code-point-wise lexicographic order coincide, so the order is written on
`List Char` with plain structural recursion, which keeps proofs away from `String` internals.
Core Lean only.
-/
namespace Goyang.Model

/-- `a < b` for Go strings, on the code points. -/
def charsLt : List Char → List Char → Bool
  | _, [] => false
  | [], _ :: _ => true
  | a :: as, b :: bs => a.toNat < b.toNat || (a == b && charsLt as bs)

/-- `a <= b` for Go strings. -/
def charsLe (a b : List Char) : Bool := !charsLt b a

/-- Go's `a < b` on strings. -/
def strLt (a b : String) : Bool := charsLt a.toList b.toList

/-- `strings.HasPrefix(s, p)`; the remainder is `strings.TrimPrefix(s, p)`. -/
def stripPrefix? : (p s : List Char) → Option (List Char)
  | [], s => some s
  | _ :: _, [] => none
  | a :: p, b :: s => if a == b then stripPrefix? p s else none

/-- `strings.HasSuffix(s, suf)`. -/
def hasSuffix (s suf : List Char) : Bool := (stripPrefix? suf.reverse s.reverse).isSome

end Goyang.Model
