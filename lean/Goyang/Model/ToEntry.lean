import Goyang.Model.Entry
/-
`ToEntry` (pkg/yang/entry.go) on statement trees.  One function, recursion on fuel (every
recursive call spends one unit; running out yields an explicit `out-of-fuel` error entry, and
`Props/C01` bounds the fuel needed).
-/
namespace Goyang.Model

/-- Everything `ToEntry` reads besides the node. `linked` = seqs of the modules whose include /
import statements were linked by `Modules.include` (reachable from a loaded module). -/
structure Env where
  reg : Registry
  opts : Opts := {}
  tres : TypeRes
  linked : List Nat := []

namespace Env
/-- Go: `i.Module` of an include statement of `root` (nil when never linked). -/
def includeTarget (env : Env) (root : Mod) (i : Stmt) : Option Mod :=
  if env.linked.contains root.seq then env.reg.findModule true i else none
end Env

/-- Go: `newError(n, …)`: an Entry holding only the node and the error. -/
def errorEntry (root : Mod) (n : Stmt) (cls : String) : Entry :=
  .mk { name := "", kind := .leaf, hasDir := false, errors := [Err.at_ n cls], node := n, nodeMod := root.seq,
        nodeKw := n.kw } [] [] []

def kindOfKw : String → Kind
  | "choice" => .choice | "case" => .case_ | "anydata" => .anydata | "anyxml" => .anyxml
  | "input" => .input | "output" => .output | "notification" => .notification | "deviate" => .deviate
  | _ => .directory

def deviateKinds : List String := ["not-supported", "add", "replace", "delete"]

/-- Go: the `Leaf` case of ToEntry (also used for the synthetic leaf of a leaf-list, which has no
default and no mandatory). -/
def leafEntry (env : Env) (root : Mod) (scope : List Stmt) (n : Stmt) (synthetic : Bool) : Entry :=
  let (ty, terrs) := match n.one? "type" with
    | some t => env.tres.resolve env.reg root (n :: scope) t
    | none => (none, [])
  let (cfg, e1) := tristate n (n.one? "config")
  let (mand, e2) := if synthetic then (Tri.unset, []) else tristate n (n.one? "mandatory")
  .mk { name := n.arg, kind := .leaf, hasDir := false,
        description := (n.argOf? "description").getD "",
        default := if synthetic then [] else (match n.one? "default" with | some d => [d.arg] | none => []),
        type := ty, config := cfg, mandatory := mand,
        errors := terrs ++ e1 ++ e2, node := n, nodeMod := root.seq, nodeKw := "leaf" } [] [] []

/-- Go: `ToEntry(n)`. `scope` = ancestors of `n`, nearest first. `visiting` = groupings and
(sub)modules whose conversion is in progress. -/
def toEntry (env : Env) : (fuel : Nat) → (root : Mod) → (scope : List Stmt) → (n : Stmt) →
    (visiting : List NodeId) → TState → Entry × TState
  | 0, root, _, n, _, st => (errorEntry root n "out-of-fuel", st)
  | fuel + 1, root, scope, n, visiting, st =>
    let isMod := n.kw == "module" || n.kw == "submodule"
    -- entry cache (module-level nodes: the only ones whose conversion depends on `st`)
    match (if isMod then st.cache.find? (·.1 == root.seq) else none) with
    | some (_, e) => (e, st)
    | none =>
    match (if n.kw == "grouping" then st.gcache.find? (·.1 == nodeId root n) else none) with
    | some (_, e) => (e, st)
    | none =>
    let track := isMod || n.kw == "grouping"
    if track && visiting.contains (nodeId root n) then (errorEntry root n "cycle", st) else
    let visiting := if track then nodeId root n :: visiting else visiting
    if n.kw == "leaf" then (leafEntry env root scope n false, st)
    else if n.kw == "leaf-list" then
      let e := leafEntry env root scope n true
      let (la, lerrs) := listAttrOf n
      (e.withD fun d => { d with listAttr := some la, errors := d.errors ++ lerrs,
                                 default := (n.all "default").map (·.arg) }, st)
    else if n.kw == "uses" then
      match (findGrouping env.reg env.linked (2 * fuel + 16) root scope n.arg []).1 with
      | none => (errorEntry root n "unknown-group", st)
      | some (g, groot, gscope) => toEntry env fuel groot gscope g visiting st
    else
    -- directory node
    let base : EData := { name := n.arg, kind := kindOfKw n.kw, hasDir := true, node := n, nodeMod := root.seq,
                          nodeKw := n.kw }
    let (base, kerrs) : EData × List Err :=
      if n.kw == "list" then
        let (la, lerrs) := listAttrOf n
        ({ base with listAttr := some la }, lerrs)
      else if n.kw == "choice" then
        ({ base with default := match n.one? "default" with | some d => [d.arg] | none => [] }, [])
      else (base, [])
    let e0 : Entry := .mk { base with errors := kerrs } [] [] []
    let sub := n :: scope       -- ancestors of n's children
    let addAll (kw : String) (acc : Entry × TState) : Entry × TState :=
      (n.all kw).foldl (fun (acc : Entry × TState) c =>
        let (ce, st) := toEntry env fuel root sub c visiting acc.2
        (acc.1.add c.arg ce, st)) acc
    let step (acc : Entry × TState) (f : String) : Entry × TState :=
      let (e, st) := acc
      match f with
      | "config" =>
        let (t, er) := tristate n (n.one? "config")
        ((e.withD fun d => { d with config := t }).addErrs er, st)
      | "mandatory" =>
        let (t, er) := tristate n (n.one? "mandatory")
        ((e.withD fun d => { d with mandatory := t }).addErrs er, st)
      | "description" =>
        (match n.argOf? "description" with
          | some v => e.withD fun d => { d with description := v }
          | none => e, st)
      | "key" =>
        (match n.argOf? "key" with
          | some v => e.withD fun d => { d with key := v }
          | none => e, st)
      | "anydata" | "anyxml" | "case" | "choice" | "container" | "leaf" | "leaf-list" | "list"
      | "notification" => addAll f acc
      | "rpc" | "action" =>
        -- an rpc / action entry always has its `RPC` set, also without written input or output
        (n.all f).foldl (fun (acc : Entry × TState) c =>
          let (ce, st) := toEntry env fuel root sub c visiting acc.2
          (acc.1.add c.arg (ce.withD fun d => { d with isRpc := true }), st)) acc
      | "grouping" =>
        (n.all "grouping").foldl (fun (acc : Entry × TState) g =>
          let (ge, st) := toEntry env fuel root sub g visiting acc.2
          (acc.1.importErrors ge, st)) acc
      | "uses" =>
        (n.all "uses").foldl (fun (acc : Entry × TState) u =>
          let (ge, st) := toEntry env fuel root sub u visiting acc.2
          (acc.1.merge none ge, st)) acc
      | "input" =>
        match n.one? "input" with
        | none => acc
        | some i =>
          let (ie, st) := toEntry env fuel root sub i visiting st
          let ie := ie.withD fun d => { d with name := "input", kind := .input }
          (match e with | .mk d c _ o => .mk { d with isRpc := true } c [ie] o, st)
      | "output" =>
        match n.one? "output" with
        | none => acc
        | some o =>
          let (oe, st) := toEntry env fuel root sub o visiting st
          let oe := oe.withD fun d => { d with name := "output", kind := .output }
          (match e with | .mk d c i _ => .mk { d with isRpc := true } c i [oe], st)
      | "include" =>
        (n.all "include").foldl (fun (acc : Entry × TState) a =>
          let (e, st) := acc
          match env.includeTarget root a with
          | none => (e.addErr (Err.at_ a "other"), st)
          | some im =>
            let srcToIncluded := im.name ++ ":" ++ n.arg
            let includedToSrc := n.arg ++ ":" ++ im.name
            if st.merged.contains srcToIncluded then (e, st)
            else if !st.merged.contains includedToSrc && im.name != n.arg then
              let includedToParent := im.name ++ ":" ++ (im.belongsTo?.getD "")
              if st.merged.contains includedToParent then (e, st)
              else
                let st := { st with merged := st.merged ++ [srcToIncluded, includedToParent] }
                let (ie, st) := toEntry env fuel im [] im.stmt visiting st
                (e.merge none ie, st)
            else if env.opts.ignoreCircular then (e, st)
            else (e.addErr (Err.bare "cycle"), st)) acc
      | "deviation" =>
        (n.all "deviation").foldl (fun (acc : Entry × TState) dv =>
          let (de, st) := toEntry env fuel root sub dv visiting acc.2
          (acc.1.importErrors de, st)) acc
      | "deviate" =>
        (n.all "deviate").foldl (fun (acc : Entry × TState) dv =>
          let (de, st) := toEntry env fuel root sub dv visiting acc.2
          let e := acc.1.importErrors de
          (if deviateKinds.contains dv.arg then e else e.addErr (Err.at_ n "deviate-unknown-kind"), st)) acc
      | "type" =>
        -- only reached for deviate nodes
        match n.one? "type" with
        | none => acc
        | some t =>
          let (ty, terrs) := env.tres.resolve env.reg root sub t
          if terrs.isEmpty then (e.withD fun d => { d with type := ty }, st)
          else (e.addErr (Err.bare "deviate-bad-type"), st)
      | "default" =>
        if e.d.kind == .deviate then
          (match n.one? "default" with
            | some dflt => e.withD fun d => { d with default := [dflt.arg] }
            | none => e, st)
        else acc
      | "units" =>
        (match n.argOf? "units" with
          | some v => e.withD fun d => { d with units := v }
          | none => e, st)
      | "max-elements" =>
        if e.d.kind != .deviate then acc else
        let e := e.withD fun d => { d with listAttr := some (d.listAttr.getD {}) }
        (match n.one? "max-elements" with
          | none => e
          | some v =>
            let (mx, er) := semMax (some v)
            (e.withD fun d => { d with hasMax := true, listAttr := some { (d.listAttr.getD {}) with max := mx } }).addErrs er, st)
      | "min-elements" =>
        if e.d.kind != .deviate then acc else
        let e := e.withD fun d => { d with listAttr := some (d.listAttr.getD {}) }
        (match n.one? "min-elements" with
          | none => e
          | some v =>
            let (mn, er) := semMin (some v)
            (e.withD fun d => { d with hasMin := true, listAttr := some { (d.listAttr.getD {}) with min := mn } }).addErrs er, st)
      | "augment" =>
        if !isMod then acc else
        let (as, st) := (n.all "augment").foldl (fun (acc : List Entry × TState) a =>
          let (ae, st) := toEntry env fuel root sub a visiting acc.2
          (acc.1 ++ [ae], st)) ([], st)
        (e, { st with augs := st.augs ++ [(root.seq, as)] })
      | _ => acc      -- prefix, identity, …
    let (e, st) := (fieldOrder n.kw).foldl step (e0, st)
    if isMod then (e, { st with cache := st.cache ++ [(root.seq, e)] })
    else if n.kw == "grouping" then (e, { st with gcache := st.gcache ++ [(nodeId root n, e)] })
    else (e, st)

/-- Fuel for one `toEntry` call tree: more than any call depth. Along a call path each grouping and
each module is entered at most once and between two such entries the statement height decreases,
so (tracked nodes + 1) × (height + 2) ≤ (s + 1)(s + 2) suffices (`Lemmas/Fuel.toEntry_fuel`); fuel
is only a counter, a generous value costs nothing. -/
def stmtCount : Stmt → Nat
  | .mk _ _ _ _ _ _ subs => 1 + countL subs
where countL : List Stmt → Nat
  | [] => 0
  | s :: ss => stmtCount s + countL ss

def entryFuel (reg : Registry) : Nat :=
  let s := reg.mods.foldl (fun a m => a + stmtCount m.stmt) 0
  (s + 2) * (s + 2) + 64

end Goyang.Model
