import Goyang.Model.Ctx
import Goyang.Model.Err
import Goyang.Model.Number
import Goyang.Model.Range
import Goyang.Model.Enum
import Goyang.Model.Identity
/-
Impl model of pkg/yang/types.go (typeDictionary add / find / findInModule / findExternal /
resolveTypedefs, Typedef.resolve, Type.resolve with all overlays), of YangType.Equal
(pkg/yang/yangtype.go) and of Entry.DefaultValues (pkg/yang/entry.go), as the code is after the
repairs 67910ae (D7), f17b6ec (D30), 8d5874a (D4), dfaa219 (D19), 15ed7d1 (D18, D36), eab0e8c (D42),
af35f9a (D43), and the coordinator's 673b372 (a union keeps one copy of each member error; that a failed
resolution is memoised has no counterpart here: nothing is memoised, see below).

How the Go state is rendered
* The AST is not modelled: the functions work on statement trees of modules the AST builder has
  accepted.  `typeDict.dict[n][name]` is "the last `typedef name` directly below statement `n`", for
  `n` of a kind that implements `Typedefer`.
* `Type.YangType` / `Typedef.YangType` memoisation is not modelled: a resolution is recomputed every
  time it is needed.  With the repair f17b6ec a memoised type hands back the errors of its first
  resolution, so memoised and recomputed results agree, except for *which statement of a cyclic
  definition is reported* (that depends on where the traversal entered the cycle first; the
  correspondence compares cyclic reports without their position).
* `Type.resolving` (repair 8d5874a) is the list `stack` of the types being resolved further up the
  call chain; a type statement is identified by (sequence number of its module, line, column).
* `YangType.Root` is a pointer to a YangType whose own `Root` is itself: `root = none` says "I am my
  own root", `some r` carries the value of the root (its own `root` field is `none`).
* `Include.Module` pointers are what `Modules.include` has linked (`Identity.Link`, shared with the
  identity layer); the identity dictionary is the one `resolveIdentities` builds (`Identity.Dict`).
* Recursion (typedef chains, union members, include walks) is by fuel; `Env.of` supplies more fuel
  than any run can use (`Goyang.Props.C09.fuel_suffices`, proved in `Goyang.Lemmas.TypesFuel`; an
  exhausted budget would be the error class `out-of-fuel`, which the correspondence run would
  show as a disagreement).
* `regexp/syntax.Parse` (posix-pattern check) is a parameter of the environment (`posixOk`).
Core Lean only.
-/
namespace Goyang.Model.Types
open Goyang.Model

abbrev YangRange := Range.YangRange

def bytesOf (s : String) : List UInt8 := s.toUTF8.toList

/-! ## EnumType: `Goyang.Model.Enum` (property C14) -/

abbrev EnumTab := Enum.EnumType

/-- Go: `NewEnumType()`. -/
def newEnum : EnumTab := Enum.newEnumType
/-- Go: `NewBitfield()`. -/
def newBits : EnumTab := Enum.newBitfield

/-- Class of the message of an error of `Set` / `SetNext` / the `set` closure. -/
def enumErrClass : Enum.EnumErr → String
  | .dupName => "enum-dup-name"
  | .dupValue => "enum-dup-value"
  | .tooSmall => "enum-too-small"
  | .tooLarge => "enum-too-large"
  | .needValue => "enum-max-reached"
  | .num _ => "other"

/-- `cmp.Equal` on two Go maps rendered as association lists with unique keys. -/
def mapEq {α β : Type} [BEq α] [BEq β] (a b : List (α × β)) : Bool :=
  a.length == b.length && a.all fun kv => b.any fun kv' => kv.1 == kv'.1 && kv.2 == kv'.2

/-- The comparer handed to `cmp.Equal` in `YangType.Equal`, lifted to the two pointers. -/
def enumEq : Option EnumTab → Option EnumTab → Bool
  | none, none => true
  | some a, some b => a.unique == b.unique && mapEq a.toInt b.toInt && mapEq a.toString b.toString
  | _, _ => false

/-! ## YangType -/

/-- Go: `YangType` without `Base`.  `kind` is the `TypeKindToName` name; `identityBase` is the
dictionary key `ownerModule:identity` of the `*Identity`. -/
structure YType where
  name : String
  kind : String
  units : String := ""
  default : String := ""
  hasDefault : Bool := false
  fractionDigits : Nat := 0
  length : YangRange := []
  range : YangRange := []
  optionalInstance : Bool := false
  path : String := ""
  pattern : List String := []
  posixPattern : List String := []
  enum : Option EnumTab := none
  bit : Option EnumTab := none
  identityBase : Option String := none
  members : List YType := []
  root : Option YType := none
  deriving Repr, Inhabited

mutual
/-- Go: `y.Equal(t)` on two non-nil YangTypes (pointer equality is the shortcut of a relation that
holds structurally anyway). `Name`, `Base`, `Root` are not compared (`Bit` is, since af35f9a). -/
def YType.equal : YType → YType → Bool
  | ⟨_, k1, u1, d1, h1, f1, l1, r1, o1, p1, pt1, pp1, e1, b1, i1, m1, _⟩,
    ⟨_, k2, u2, d2, h2, f2, l2, r2, o2, p2, pt2, pp2, e2, b2, i2, m2, _⟩ =>
    k1 == k2 && u1 == u2 && d1 == d2 && h1 == h2 && f1 == f2 && i1 == i2 &&
    l1.length == l2.length && Range.equal l1 l2 && o1 == o2 && p1 == p2 && pt1 == pt2 && pp1 == pp2 &&
    r1.length == r2.length && Range.equal r1 r2 && equalL m1 m2 && enumEq e1 e2 && enumEq b1 b2
/-- Go: `tsEqual`. -/
def equalL : List YType → List YType → Bool
  | [], [] => true
  | a :: as, b :: bs => a.equal b && equalL as bs
  | _, _ => false
end

/-- The YangType `y.Root` points to. -/
def YType.rootVal (y : YType) : YType :=
  match y.root with
  | none => y
  | some r => r

/-- Go: `y.Equal(y.Root)`. -/
def YType.equalsRoot (y : YType) : Bool :=
  match y.root with
  | none => true
  | some r => y.equal r

/-- Go: `y := *src` seen from the copy: `y.Root` still points where `src.Root` pointed. -/
def YType.copyOf (src : YType) : YType := { src with root := some src.rootVal }

/-! ## Built-in types -/

/-- Go: `baseTypes` / `BaseTypedefs` (name, kind, range). -/
def builtinTable : List (String × YangRange) :=
  [("int8", Range.int8Range), ("int16", Range.int16Range), ("int32", Range.int32Range), ("int64", Range.int64Range),
   ("uint8", Range.uint8Range), ("uint16", Range.uint16Range), ("uint32", Range.uint32Range), ("uint64", Range.uint64Range),
   ("decimal64", []), ("string", []), ("boolean", []), ("enumeration", []), ("bits", []), ("binary", []),
   ("leafref", []), ("identityref", []), ("empty", []), ("union", []), ("instance-identifier", [])]

/-- Go: `BaseTypedefs[name]` (its YangType; base types are their own root). -/
def builtin? (name : String) : Option YType :=
  (builtinTable.find? (·.1 == name)).map fun (n, r) => { name := n, kind := n, range := r }

/-! ## The typedef dictionary -/

/-- The AST node types that implement `Typedefer`, by keyword. -/
def typedeferKinds : List String :=
  ["module", "submodule", "container", "list", "grouping", "rpc", "input", "output", "notification", "action"]

/-- Go: `d.find(n, name)`: `addTypedefs` stores the typedefs of `n` in source order under their
names, so the last one of a name is the one found. -/
def findIn (n : Stmt) (name : String) : Option Stmt :=
  if typedeferKinds.contains n.kw then ((n.all "typedef").filter (·.arg == name)).getLast? else none

/-- A typedef together with the module it was found in and the typedef's ancestors (nearest first). -/
structure TdRef where
  td : Stmt
  root : Mod
  scope : List Stmt
  deriving Inhabited

inductive Lookup where
  | found (r : TdRef)
  | notFound
  | outOfFuel
  deriving Inhabited

/-- The loop `for n := Node(t); n != nil; n = n.ParentNode()` over `t :: scope`. -/
def findInScope (root : Mod) (name : String) : List Stmt → Option TdRef
  | [] => none
  | n :: up =>
    match findIn n name with
    | some td => some { td := td, root := root, scope := n :: up }
    | none => findInScope root name up

/-- What the type layer reads from the rest of the loaded set. -/
structure Env where
  reg : Registry
  /-- the `Include.Module` pointers set by `Modules.include` -/
  link : Identity.Link
  /-- `typeDict.identities.dict` -/
  dict : Identity.Dict
  /-- recursion budget for type resolution -/
  fuel : Nat
  /-- `regexp/syntax.Parse(p, syntax.POSIX)` succeeds -/
  posixOk : String → Bool := fun _ => true

/-- `for _, in := range m.Include { … in.Module … }`: the linked include targets, in order. -/
def Env.includeTargets (env : Env) (m : Mod) : List Mod := Identity.includeTargets env.reg env.link m

/-- First hit of a search that threads a visited set through a list. -/
def firstHit {α σ : Type} (f : α → σ → Lookup × σ) : List α → σ → Lookup × σ
  | [], s => (.notFound, s)
  | a :: rest, s =>
    match f a s with
    | (.notFound, s') => firstHit f rest s'
    | r => r

/-- Go: `d.findInModule(m, name, seen)` (repair 15ed7d1) for a non-nil `m`; `seen` holds module
sequence numbers. -/
def findInModule (env : Env) (name : String) : Nat → Mod → List Nat → Lookup × List Nat
  | 0, _, seen => (.outOfFuel, seen)
  | fuel + 1, m, seen =>
    if seen.contains m.seq then (.notFound, seen) else
    let seen := m.seq :: seen
    match findIn m.stmt name with
    | some td => (.found { td := td, root := m, scope := [m.stmt] }, seen)
    | none => firstHit (fun im s => findInModule env name fuel im s) (env.includeTargets m) seen

def Env.modFuel (env : Env) : Nat := env.reg.mods.length + 1

/-- The module-level part of the local lookup: `mods := []*Module{root}`, plus the module `root`
belongs to when `root` is a submodule (a nil entry, i.e. an owner that is not loaded, finds
nothing). -/
def findLocalModules (env : Env) (root : Mod) (name : String) : Lookup :=
  let mods : List Mod :=
    match root.belongsTo? with
    | some b => root :: (env.reg.getModule b).toList
    | none => [root]
  (firstHit (fun m s => findInModule env name env.modFuel m s) mods []).1

/-- How `Type.resolve` came by its typedef (`source` in the Go code). -/
inductive Source | builtin | local_ | imported
  deriving Repr, BEq, DecidableEq, Inhabited

/-- Outcome of the lookup switch at the head of `Type.resolve`. -/
inductive Bound where
  | builtin (y : YType)
  | typedef (src : Source) (r : TdRef)
  | error (e : Err)
  deriving Inhabited

/-- The `switch` at the head of `Type.resolve`: `scope` are the ancestors of `t`, nearest first,
ending with the statement of `root`. -/
def lookup (env : Env) (root : Mod) (scope : List Stmt) (t : Stmt) : Bound :=
  match builtin? t.arg with
  | some y => .builtin y
  | none =>
    let pn := splitPrefix t.arg
    let rootPrefix := root.getPrefix
    if pn.1 == "" || rootPrefix == pn.1 then
      match findInScope root pn.2 (t :: scope) with
      | some r => .typedef .local_ r
      | none =>
        match findLocalModules env root pn.2 with
        | .found r => .typedef .local_ r
        | .notFound => .error (Err.at_ t "unknown-type")
        | .outOfFuel => .error (Err.at_ t "out-of-fuel")
    else
      -- findExternal
      match env.reg.findModuleByPrefix root pn.1 with
      | none => .error (Err.at_ t "unknown-prefix")
      | some ext =>
        match (findInModule env pn.2 env.modFuel ext []).1 with
        | .found r => .typedef .imported r
        | .notFound => .error (Err.at_ t "unknown-type")
        | .outOfFuel => .error (Err.at_ t "out-of-fuel")

/-! ## Typedef.resolve (the part after the type it is based on has been resolved) -/

/-- Result of a resolution: what `YangType` holds afterwards (`none` = nil) and the errors returned. -/
structure Res where
  ty : Option YType
  errs : List Err
  deriving Inhabited

/-- `y := *t.Type.YangType; y.Name = t.Name` -/
def tdCopy (td : Stmt) (ty : YType) : YType := { ty.copyOf with name := td.arg }

/-- `if t.Units != nil { y.Units = t.Units.Name }` -/
def tdUnits (td : Stmt) (y : YType) : YType :=
  match td.one? "units" with
  | some u => { y with units := u.arg }
  | none => y

/-- `if t.Default != nil { y.HasDefault = true; y.Default = t.Default.Name }` -/
def tdDefault (td : Stmt) (y : YType) : YType :=
  match td.one? "default" with
  | some d => { y with hasDefault := true, default := d.arg }
  | none => y

/-- `if t.Type.IdentityBase != nil { … }`; `none` = "could not resolve identity base for typedef". -/
def tdIdentity (env : Env) (root : Mod) (tt : Stmt) (y : YType) : Option YType :=
  match tt.one? "base" with
  | none => some y
  | some b =>
    match Identity.findIdentityBase env.reg env.dict root b.arg with
    | .ok e => some { y with identityBase := some e.key }
    | .error _ => none

/-- `if y.Root == t.Type.YangType || !y.Equal(y.Root) { y.Root = &y }` -/
def tdRoot (ty y : YType) : YType := if ty.root.isNone || !y.equalsRoot then { y with root := none } else y

/-- Go: `Typedef.resolve` from "Make a copy of the YangType we are based on" on; `ty` is
`t.Type.YangType`, `tt` the typedef's type statement, `root` the module the typedef stands in. -/
def typedefOverlay (env : Env) (root : Mod) (td tt : Stmt) (ty : YType) : Res :=
  match tdIdentity env root tt (tdDefault td (tdUnits td (tdCopy td ty))) with
  | none => { ty := none, errs := [Err.bare "identity-base-typedef"] }
  | some y => { ty := some (tdRoot ty y), errs := [] }

/-! ## Type.resolve: the overlays -/

/-- Extension substatements of a statement (`Exts()`): the builder files a substatement whose
keyword is not a field of the node and has exactly one colon under `Extensions`. -/
def extsOf (t : Stmt) : List Stmt :=
  -- `len(strings.Split(ss.Keyword, ":")) == 2`: exactly one colon
  t.subs.filter fun s => (s.kw.toList.filter (· == ':')).length == 1

/-- Go: `MatchingExtensions(t, "openconfig-extensions", "posix-pattern")`; `none` = the error
"module prefix not found". -/
def posixPatterns (env : Env) (root : Mod) (t : Stmt) : Option (List Stmt) :=
  (extsOf t).foldl (fun acc ext =>
      match acc with
      | none => none
      | some l =>
        let pn := splitPrefix ext.kw
        match env.reg.findModuleByPrefix root pn.1 with
        | none => none
        | some m => if pn.2 == "posix-pattern" && m.name == "openconfig-extensions" then some (l ++ [ext]) else some l)
    (some [])

/-- Append the strings not yet present (the `seenPatterns` loop). -/
def appendNew (have_ : List String) : List String → List String
  | [] => have_
  | p :: rest => if have_.contains p then appendNew have_ rest else appendNew (have_ ++ [p]) rest

/-- The enum / bit loop: a fresh table, one error per rejected member (positioned at the member). -/
def enumFold (start : EnumTab) (valueKw : String) (members : List Stmt) : EnumTab × List Err :=
  let r := Enum.foldText start (members.map fun e => (bytesOf e.arg, (e.argOf? valueKw).map bytesOf))
  (r.1, r.2.filterMap fun ie => (members[ie.1]?).map fun e => Err.at_ e (enumErrClass ie.2))

/-- The `looking:` loop: append the resolved members that are not `Equal` to one already there. -/
def addMembers (have_ : List YType) : List Res → List YType
  | [] => have_
  | r :: rest =>
    match r.ty with
    | some m => if have_.any (fun yt => m.equal yt) then addMembers have_ rest else addMembers (have_ ++ [m]) rest
    | none => addMembers have_ rest

/-- The resolved type under construction and the errors collected so far (`y`, `errs`). -/
abbrev St := YType × List Err

/-- `if v := t.RequireInstance; v != nil { … }` -/
def stepRequireInstance (t : Stmt) (s : St) : St :=
  match t.one? "require-instance" with
  | none => s
  | some v =>
    if v.arg == "true" then ({ s.1 with optionalInstance := false }, s.2)
    else if v.arg == "false" then ({ s.1 with optionalInstance := true }, s.2)
    else ({ s.1 with optionalInstance := true }, s.2 ++ [Err.bare "other"])

/-- `if v := t.Path; v != nil { y.Path = v.asString() }` -/
def stepPath (t : Stmt) (s : St) : St :=
  match t.one? "path" with
  | some v => ({ s.1 with path := v.arg }, s.2)
  | none => s

/-- Go: `isDecimal64 := y.Kind == Ydecimal64 && (t.Name == "decimal64" || y.FractionDigits != 0)`. -/
def isDecimal64 (t : Stmt) (y : YType) : Bool :=
  y.kind == "decimal64" && (t.arg == "decimal64" || y.fractionDigits != 0)

/-- The `switch` on the kind, but for its first arm's early return: fraction-digits of a direct
decimal64, a misplaced fraction-digits, the base of a direct identityref. -/
def stepKind (env : Env) (root : Mod) (t : Stmt) (source : Source) (dec : Bool) (s : St) : St :=
  let fdStmt := t.one? "fraction-digits"
  if dec && s.1.fractionDigits != 0 then s
  else if dec then
    match Number.asRangeInt (fdStmt.map fun f => bytesOf f.arg) 1 18 with
    | .ok i => ({ s.1 with fractionDigits := i.toNat, range := Range.decimalBase i.toNat }, s.2)
    | .error _ => ({ s.1 with fractionDigits := 0, range := Range.decimalBase 0 }, s.2 ++ [Err.at_ t "other"])
  else if fdStmt.isSome then (s.1, s.2 ++ [Err.at_ t "fraction-digits-not-decimal"])
  else if s.1.kind == "identityref" then
    if source != .builtin then s
    else
      match t.one? "base" with
      | none => (s.1, s.2 ++ [Err.at_ t "identityref-no-base"])
      | some b =>
        match Identity.findIdentityBase env.reg env.dict root b.arg with
        | .error e => (s.1, s.2 ++ [e])
        | .ok e => ({ s.1 with identityBase := some e.key }, s.2)
  else s

/-- `if t.Range != nil { … }` -/
def stepRange (t : Stmt) (dec : Bool) (s : St) : St :=
  match t.one? "range" with
  | none => s
  | some r =>
    match Range.applyRange s.1.range (bytesOf r.arg) dec s.1.fractionDigits with
    | (yr, none) => ({ s.1 with range := yr }, s.2)
    | (yr, some _) => ({ s.1 with range := yr }, s.2 ++ [Err.at_ r "bad-range"])

/-- `if t.Length != nil { … }` -/
def stepLength (t : Stmt) (s : St) : St :=
  match t.one? "length" with
  | none => s
  | some l =>
    match Range.applyLength s.1.length (bytesOf l.arg) with
    | (yl, none) => ({ s.1 with length := yl }, s.2)
    | (yl, some .negLength) => ({ s.1 with length := yl }, s.2 ++ [Err.at_ l "negative-length"])
    | (yl, some _) => ({ s.1 with length := yl }, s.2 ++ [Err.at_ l "bad-length"])

/-- `if len(t.Enum) > 0 { … }` -/
def stepEnum (t : Stmt) (s : St) : St :=
  match t.all "enum" with
  | [] => s
  | es => ({ s.1 with enum := some (enumFold newEnum "value" es).1 }, s.2 ++ (enumFold newEnum "value" es).2)

/-- `if len(t.Bit) > 0 { … }` -/
def stepBit (t : Stmt) (s : St) : St :=
  match t.all "bit" with
  | [] => s
  | bs => ({ s.1 with bit := some (enumFold newBits "position" bs).1 }, s.2 ++ (enumFold newBits "position" bs).2)

/-- the pattern loop -/
def stepPattern (t : Stmt) (s : St) : St :=
  ({ s.1 with pattern := appendNew s.1.pattern ((t.all "pattern").map Stmt.arg) }, s.2)

/-- the posix-pattern loop over the matching extension statements -/
def stepPosix (env : Env) (pps : List Stmt) (s : St) : St :=
  ({ s.1 with posixPattern := appendNew s.1.posixPattern (pps.map Stmt.arg) },
   s.2 ++ (pps.filter fun e => !env.posixOk e.arg).map fun e => Err.at_ e "bad-pattern")

/-- Append the errors that are not yet in the list (repair 673b372: "keep one of each"). -/
def appendNewErrs (have_ : List Err) : List Err → List Err
  | [] => have_
  | e :: rest =>
    if have_.any (fun o => decide (o = e)) then appendNewErrs have_ rest else appendNewErrs (have_ ++ [e]) rest

/-- the `looking:` loop over the resolved member types.

Since 673b372 the loop appends a member's error only when the same error *value* (Go: the same
`error` pointer, `o == err`) is not in `errs` yet.  Go meets the same pointer twice exactly when two
members hand back the memoised errors of one and the same failed type statement (both are derived
from the same typedef).  The model has no pointers and compares `(file, line, col, class)`.  Same
pointer implies same fields; the converse holds for every error that carries the position of the
statement that raised it (the type statement itself, its range / length / enum / bit / extension
substatement): one statement raises one error of a class.  It can fail for errors without a
position of their own — "invalid boolean" of require-instance and the typedef identity-base error
(no position), identity-base errors (positioned at the module statement), and reports of a cycle
(made anew at every re-entry): two *different* members failing that way give two equal records, of
which Go keeps both and the model one.  The difference is confined to how often such a record is
repeated: removing repeated records (keeping first occurrences) from Go's list and from the
model's gives the same list, because that operation commutes with both ways of appending
(`dedup (a ++ b)` depends only on `dedup a` and `dedup b`).  The correspondence run compares
error lists in that form; the property (an unknown, unresolvable or cyclic reference is an error)
does not speak about multiplicity. -/
def stepMembers (members : List Res) (s : St) : St :=
  ({ s.1 with members := addMembers s.1.members members }, appendNewErrs s.2 (members.flatMap (·.errs)))

/-- `if !y.Equal(y.Root) { y.Root = &y }` -/
def fixRoot (y : YType) : YType := if !y.equalsRoot then { y with root := none } else y

/-- The overlays up to and including the patterns. -/
def overlayLocal (env : Env) (root : Mod) (t : Stmt) (source : Source) (tdY : YType) (s : St) : St :=
  let dec := isDecimal64 t tdY
  stepPattern t (stepBit t (stepEnum t (stepLength t (stepRange t dec (stepKind env root t source dec s)))))

/-- Go: `Type.resolve` from `y := *td.YangType` on.  `tdY` is `td.YangType`, `members` the results
of resolving the `type` substatements of `t` (used only when the code gets that far). -/
def overlayType (env : Env) (root : Mod) (t : Stmt) (source : Source) (tdY : YType) (members : List Res) : Res :=
  let s1 := stepPath t (stepRequireInstance t (tdY.copyOf, []))
  if isDecimal64 t tdY && tdY.fractionDigits != 0 && (t.one? "fraction-digits").isSome then
    { ty := some s1.1, errs := s1.2 ++ [Err.at_ t "fraction-digits-override"] }
  else
    let s7 := overlayLocal env root t source tdY s1
    match posixPatterns env root t with
    | none => { ty := some s7.1, errs := [Err.bare "other"] }
    | some pps =>
      let s9 := stepMembers members (stepPosix env pps s7)
      { ty := some (fixRoot s9.1), errs := s9.2 }

/-! ## The recursion -/

/-- Identity of a `type` statement (Go: the `*Type` pointer). -/
abbrev TypeKey := Nat × Nat × Nat

def typeKey (root : Mod) (t : Stmt) : TypeKey := (root.seq, t.line, t.col)

/-- Go: `(*Type).resolve` (and, inlined, `(*Typedef).resolve` of the typedef it is based on).
`scope`: ancestors of `t`, nearest first, ending with `root.stmt`; `stack`: the types whose
`resolving` flag is set. -/
def resolveTypeF (env : Env) : Nat → Mod → List Stmt → Stmt → List TypeKey → Res
  | 0, _, _, t, _ => { ty := none, errs := [Err.at_ t "out-of-fuel"] }
  | fuel + 1, root, scope, t, stack =>
    let key := typeKey root t
    if stack.contains key then { ty := none, errs := [Err.at_ t "cycle"] } else
    let stack := key :: stack
    let members := fun (_ : Unit) => (t.all "type").map fun ut => resolveTypeF env fuel root (t :: scope) ut stack
    match lookup env root scope t with
    | .error e => { ty := none, errs := [e] }
    | .builtin y => overlayType env root t .builtin y (members ())
    | .typedef src r =>
      -- td.resolve(d)
      match r.td.one? "type" with
      | none => { ty := none, errs := [Err.at_ r.td "crash"] }   -- the builder requires a type
      | some tt =>
        let base := resolveTypeF env fuel r.root (r.td :: r.scope) tt stack
        if !base.errs.isEmpty then { ty := none, errs := base.errs } else
        match base.ty with
        | none => { ty := none, errs := [Err.at_ tt "crash"] }   -- cannot happen: no errors means a YangType
        | some bty =>
          let tdr := typedefOverlay env r.root r.td tt bty
          if !tdr.errs.isEmpty then { ty := none, errs := tdr.errs } else
          match tdr.ty with
          | none => { ty := none, errs := [Err.at_ r.td "no-yangtype"] }
          | some tdY => overlayType env root t src tdY (members ())

/-- Go: `(*Typedef).resolve` for a typedef `td` standing in `root` with ancestors `scope`. -/
def resolveTypedefF (env : Env) (fuel : Nat) (root : Mod) (scope : List Stmt) (td : Stmt) : Res :=
  match td.one? "type" with
  | none => { ty := none, errs := [Err.at_ td "crash"] }
  | some tt =>
    let base := resolveTypeF env fuel root (td :: scope) tt []
    if !base.errs.isEmpty then { ty := none, errs := base.errs } else
    match base.ty with
    | none => { ty := none, errs := [Err.at_ tt "crash"] }
    | some bty => typedefOverlay env root td tt bty

/-! ## Walking the loaded set -/

/-- Is `s` kept as a raw extension statement (its substatements never become AST nodes)? -/
def isExt (s : Stmt) : Bool := s.kw.contains ':'

mutual
/-- A statement and everything below it, in document order. -/
def descendants : Stmt → List Stmt
  | .mk kw ha a f l c subs => Stmt.mk kw ha a f l c subs :: descendantsL subs
def descendantsL : List Stmt → List Stmt
  | [] => []
  | s :: rest => descendants s ++ descendantsL rest
end

mutual
/-- All statements with keyword in `kws` below `s` that the builder turns into AST nodes, each
with its ancestors (nearest first), in document order. `up` = ancestors of `s`. -/
def collect (kws : List String) (up : List Stmt) : Stmt → List (Stmt × List Stmt)
  | .mk kw ha a f l c subs =>
    let s := Stmt.mk kw ha a f l c subs
    if kw.contains ':' then [] else
    (if kws.contains kw then [(s, up)] else []) ++ collectL kws (s :: up) subs
def collectL (kws : List String) (up : List Stmt) : List Stmt → List (Stmt × List Stmt)
  | [] => []
  | s :: rest => collect kws up s ++ collectL kws up rest
end

/-- The identities of all `type` statements of a (sub)module. -/
def typeKeysOf (m : Mod) : List TypeKey := ((descendants m.stmt).filter (·.kw == "type")).map (typeKey m)

/-- The identities of all `type` statements of the loaded set: no chain of types in progress can be
longer than this list (`Goyang.Lemmas.TypesFuel`). -/
def allTypeKeys (reg : Registry) : List TypeKey := reg.mods.flatMap typeKeysOf

/-- The environment of a loaded set: links and identity dictionary as `process` builds them
(insertion-order oracle), fuel above every possible depth. -/
def Env.of (reg : Registry) : Env :=
  let o := Identity.Oracle.ofNat 0
  let link := match Identity.linkAll o reg with
    | some (lk, _) => lk
    | none => {}
  let dict := match Identity.buildDict o reg link with
    | some (d, _) => d
    | none => []
  { reg := reg, link := link, dict := dict, fuel := (allTypeKeys reg).length + 2 }

/-- Did `process` link every include and import (otherwise it reports an error and what is linked
depends on the iteration order: outside the type model)? -/
def linkOk (reg : Registry) : Bool :=
  match Identity.linkAll (Identity.Oracle.ofNat 0) reg with
  | some (_, []) => true
  | _ => false

/-- Go: `Type.resolve` for the type statement `t` with ancestors `scope` in module `root`:
`(t.YangType, errs)`. -/
def resolveTypeE (env : Env) (root : Mod) (scope : List Stmt) (t : Stmt) : Option YType × List Err :=
  let r := resolveTypeF env env.fuel root scope t []
  (r.ty, r.errs)

def resolveType (reg : Registry) (root : Mod) (scope : List Stmt) (t : Stmt) : Option YType × List Err :=
  resolveTypeE (Env.of reg) root scope t

/-- The typedefs `typeDict` holds for module `m`: per Typedefer node the last one of every name. -/
def dictTypedefs (m : Mod) : List (Stmt × List Stmt) :=
  (collect typedeferKinds [] m.stmt).flatMap fun (n, up) =>
    let tds : List Stmt := n.all "typedef"
    (tds.filter fun (td : Stmt) => (findIn n td.arg).any (· == td)).map fun (td : Stmt) => (td, n :: up)

/-- Go: `typeDict.resolveTypedefs()` over every loaded module and submodule (document order; Go
resolves in order of source position, the errors are sorted afterwards). -/
def resolveAllTypedefsE (env : Env) : List Err :=
  env.reg.mods.flatMap fun m =>
    (dictTypedefs m).flatMap fun (td, scope) => (resolveTypedefF env env.fuel m scope td).errs

def resolveAllTypedefs (reg : Registry) : List Err := resolveAllTypedefsE (Env.of reg)

/-! ## Entry.DefaultValues -/

/-- Go: `Entry.DefaultValues()` for a leaf (`isLeafList = false`; `mandatory` = argument of the
leaf's `mandatory` statement) or a leaf-list (`minElements` = `ListAttr.MinElements`), given the
entry's own `Default` and its `Type`. -/
def defaultValues (own : List String) (isLeafList : Bool) (mandatory : Option String) (minElements : Nat)
    (ty : Option YType) : List String :=
  if !own.isEmpty then own else
  match ty with
  | some t =>
    if t.hasDefault then
      if !isLeafList && (mandatory.isNone || mandatory == some "false") then [t.default]
      else if isLeafList && minElements == 0 then [t.default]
      else []
    else []
  | none => []

/-! ## Canonical dump -/

open Goyang.Proto in
def hexList (l : List String) : String := "[" ++ ",".intercalate (l.map encStr) ++ "]"

open Goyang.Proto in
def dumpEnum : Option EnumTab → String
  | none => "-"
  | some e => "[" ++ ",".intercalate (e.nameMap.map fun (n, v) => encBytes n ++ ":" ++ toString v) ++ "]"

def rangeStr (r : YangRange) : String := Goyang.Proto.encBytes (Range.toStr r)

open Goyang.Proto in
mutual
/-- Canonical one-line dump of a resolved type (the Go side prints `Entry.Type` the same way:
harness/lib/typedump.go). -/
def YType.dump : YType → String
  | ⟨n, k, u, d, h, f, l, r, o, p, pt, pp, e, b, i, m, rt⟩ =>
    "{k=" ++ k ++ ";n=" ++ encStr n ++ ";u=" ++ encStr u ++ ";d=" ++ encStr d ++ ";hd=" ++ (if h then "1" else "0") ++
    ";fd=" ++ toString f ++ ";pat=" ++ hexList pt ++ ";ppat=" ++ hexList pp ++ ";enum=" ++ dumpEnum e ++
    ";bit=" ++ dumpEnum b ++ ";path=" ++ encStr p ++ ";range=" ++ rangeStr r ++ ";len=" ++ rangeStr l ++
    ";oi=" ++ (if o then "1" else "0") ++ ";idb=" ++ (match i with | some key => encStr key | none => "~") ++
    ";root=" ++ encStr (match rt with | some r => r.name | none => n) ++
    ";mem=[" ++ dumpL m ++ "]}"
def dumpL : List YType → String
  | [] => ""
  | [a] => a.dump
  | a :: rest => a.dump ++ "," ++ dumpL rest
end

end Goyang.Model.Types
