import Goyang.Model.Entry
/-
Placeholder type resolution for the entry layer: the type's written name only, no errors.
Replaced by Goyang.Model.Types (C09 layer) in the resolver driver once that layer is connected.
-/
namespace Goyang.Model

def typesLite : TypeRes where
  resolve := fun _ _ _ t => (some { dump := t.arg }, [])

end Goyang.Model
