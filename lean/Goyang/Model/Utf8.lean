/-
Go's UTF-8 primitives as the lexer uses them (`unicode/utf8`, Go 1.23), re-implemented over byte
lists.  Trusted glue: not proved against the Go source, exercised by every text of the C02/C16
correspondence runs (which include ill-formed byte sequences).

* `decodeRune`  = `utf8.DecodeRuneInString`: `(rune, width)`; an invalid or short encoding is
  `(U+FFFD, 1)`; the empty string is `(U+FFFD, 0)`.  Go's table `first`/`acceptRanges` is written
  out as comparisons: lead byte C2..DF two bytes; E0 (second byte A0..BF), E1..EC, ED (second byte
  80..9F), EE..EF three bytes; F0 (second 90..BF), F1..F3, F4 (second 80..8F) four bytes; every
  other byte >= 0x80 is invalid.  Bit masks are written as subtractions (`s0 & 0x1F = s0 - 0xC0` on
  C2..DF and so on), so that `omega` can reason about them.
* `encodeRune`  = the conversion `string(rune)`: UTF-8 of the code point, of U+FFFD when the value
  is not a valid rune (surrogate or above U+10FFFF).  Same arithmetic as core's `String.utf8EncodeChar`.
* `runes`       = the rune sequence `for _, r := range s` visits; `utf8.RuneCountInString s` is its length.
-/
namespace Goyang.Model.Utf8

def runeError : Nat := 0xFFFD
def maxRune : Nat := 0x10FFFF

/-- `utf8.ValidRune` -/
def validRune (r : Nat) : Bool := r < 0xD800 || (0xDFFF < r && r ≤ maxRune)

/-- continuation byte 80..BF -/
def isCont (b : Nat) : Bool := 0x80 ≤ b && b ≤ 0xBF

/-- second byte of a two-byte form (lead byte `s0` in C2..DF) -/
def dec2 (s0 : Nat) : List UInt8 → Nat × Nat
  | b1 :: _ =>
    if isCont b1.toNat then ((s0 - 0xC0) * 64 + (b1.toNat - 0x80), 2) else (runeError, 1)
  | [] => (runeError, 1)

/-- bounds of the second byte: E0 wants A0..BF, ED wants 80..9F, F0 wants 90..BF, F4 wants 80..8F -/
def lo2 (s0 : Nat) : Nat := if s0 = 0xE0 then 0xA0 else if s0 = 0xF0 then 0x90 else 0x80
def hi2 (s0 : Nat) : Nat := if s0 = 0xED then 0x9F else if s0 = 0xF4 then 0x8F else 0xBF

/-- rest of a three-byte form (lead byte `s0` in E0..EF) -/
def dec3 (s0 : Nat) : List UInt8 → Nat × Nat
  | b1 :: b2 :: _ =>
    if lo2 s0 ≤ b1.toNat && b1.toNat ≤ hi2 s0
        && isCont b2.toNat then
      ((s0 - 0xE0) * 4096 + (b1.toNat - 0x80) * 64 + (b2.toNat - 0x80), 3)
    else (runeError, 1)
  | _ => (runeError, 1)

/-- rest of a four-byte form (lead byte `s0` in F0..F4) -/
def dec4 (s0 : Nat) : List UInt8 → Nat × Nat
  | b1 :: b2 :: b3 :: _ =>
    if lo2 s0 ≤ b1.toNat && b1.toNat ≤ hi2 s0
        && isCont b2.toNat && isCont b3.toNat then
      ((s0 - 0xF0) * 262144 + (b1.toNat - 0x80) * 4096 + (b2.toNat - 0x80) * 64 + (b3.toNat - 0x80), 4)
    else (runeError, 1)
  | _ => (runeError, 1)

/-- `utf8.DecodeRuneInString` -/
def decodeRune : List UInt8 → Nat × Nat
  | [] => (runeError, 0)
  | b0 :: t =>
    if b0.toNat < 0x80 then (b0.toNat, 1)
    else if b0.toNat < 0xC2 then (runeError, 1)
    else if b0.toNat < 0xE0 then dec2 b0.toNat t
    else if b0.toNat < 0xF0 then dec3 b0.toNat t
    else if b0.toNat < 0xF5 then dec4 b0.toNat t
    else (runeError, 1)

/-- `string(rune(r))` -/
def encodeRune (r : Nat) : List UInt8 :=
  let v := if validRune r then r else runeError
  if v ≤ 127 then [UInt8.ofNat v]
  else if v ≤ 2047 then [UInt8.ofNat (v / 64 % 32 + 192), UInt8.ofNat (v % 64 + 128)]
  else if v ≤ 65535 then
    [UInt8.ofNat (v / 4096 % 16 + 224), UInt8.ofNat (v / 64 % 64 + 128), UInt8.ofNat (v % 64 + 128)]
  else
    [UInt8.ofNat (v / 262144 % 8 + 240), UInt8.ofNat (v / 4096 % 64 + 128),
     UInt8.ofNat (v / 64 % 64 + 128), UInt8.ofNat (v % 64 + 128)]

/-- UTF-8 of a character sequence -/
def encodeChars (cs : List Char) : List UInt8 := cs.flatMap fun c => encodeRune c.toNat

/-- runes of `s` in order, as `for _, r := range s` yields them (fuel: one rune takes at least one byte) -/
def runesAux : Nat → List UInt8 → List Nat
  | 0, _ => []
  | _, [] => []
  | f + 1, b :: bs =>
    let (r, w) := decodeRune (b :: bs)
    r :: runesAux f ((b :: bs).drop w)

def runes (s : List UInt8) : List Nat := runesAux s.length s

/-- `utf8.RuneCountInString` -/
def runeCount (s : List UInt8) : Nat := (runes s).length

/-- `utf8.ValidString` (used by the driver to decide whether the reference reader applies) -/
def validAux : Nat → List UInt8 → Bool
  | 0, s => s.isEmpty
  | _, [] => true
  | f + 1, b :: bs =>
    let (r, w) := decodeRune (b :: bs)
    if r = runeError && w = 1 then false else validAux f ((b :: bs).drop w)

def valid (s : List UInt8) : Bool := validAux s.length s

end Goyang.Model.Utf8
