import Goyang.Lemmas.Fuel
import Goyang.Lemmas.FuelCycle
import Goyang.Lemmas.FuelProcess
import Goyang.Props.C02
import Goyang.Props.C09
import Goyang.Props.C11
/-
C01 — no input can crash, overflow or hang the loader and resolver (DESIGN.md 7.1).

The logic part of "bounded time, no unbounded recursion, cycles are errors", about the impl
models of the loader and resolver (Model/Lex, Parse, Ctx, Entry, ToEntry, Find, Process, Dump,
Identity, Types):

* Every model function is a total Lean definition: nothing in `Goyang/Model` is `partial`
  (`Model/Proto.lean`, the stdin loop of the driver executables, is the one exception and is not a
  model function).  The kernel accepted each definition by structural or well-founded recursion,
  so each terminates on every input; the C01 runner greps for `partial def` in `Goyang/Model` on
  every run and reports it as a broken obligation.
* Recursion that the Go code bounds by the shape of its input (nesting depth, a visited set) is
  modelled with a fuel argument.  Totality alone would then be cheap: the theorems below give, for
  every such recursion, a closed-form bound on the fuel under which the out-of-fuel answer is never
  produced — so the recursion depth of the modelled code is bounded by that function of the loaded
  input, which is the precise sense of "no unbounded recursion":
    (a) `includeWalk_fuel`, `linking_never_out_of_fuel`     import / include linking
    (b) `findGrouping_fuel`                                 grouping lookup
    (c) `toEntry_fuel`, `toEntry_fuel_of_entryFuel`         ToEntry
    (e) `dump_fuel`, `augmentPass_fuel`, `augmentLoop_terminates`
        lexer and parser: `lexer_parser_total` (C02), type resolution: `type_resolution_fuel` (C09),
        identity closure: `identity_walk_terminates` (C11)
* (d) Cycles are errors, never divergence: `cycles_are_errors` (a `uses` that leads back into a
  grouping under conversion answers the `cycle` error entry), `typedef_cycle_is_error_below` (C09;
  the older `typedef_cycle_is_error` is vacuous — its hypothesis `Unambiguous` holds of no registry,
  `Goyang.Props.C09.unambiguous_false` — and is kept only for the record),
  `identity_cycle_is_error` (C11); include / import cycles are cut by the visited set of
  `includeWalk` (a).

Partial scope (DESIGN 7.1 "Partial").  Proved here: the models terminate within the fuel bounds
and cycles are errors.  Not provable here: that the Go binary has no other fault site than the
ones the models make explicit, runtime faults inside `reflect`, memory exhaustion on exponentially
expanding legal schemas, stack depth around 10^7.  Those are covered by the fuzzing stream of
harness/cmd/corr-c01 only, and reported separately in the evidence.

`toEntry_fuel` is stated with the bound `entryNeed` that the proof yields (a product: tracked
statements × statement height); `toEntry_fuel_model` shows that the fuel the model passes
(`entryFuel reg`, quadratic in the number of loaded statements) is at least that, and
`toEntry_fuel_of_entryFuel` is the statement for the calls `processAll` makes.
-/
namespace Goyang.Props.C01
open Goyang.Model
open Goyang.Lemmas.Fuel

/-! ## (a) import / include linking -/

/-- `Modules.include` as modelled, with the fuel `linkAll` passes (number of loaded modules + 1),
never answers out-of-fuel, whatever has been visited before: every recursive call first adds a
module that was not yet visited.  Import and include cycles are cut by the visited set. -/
theorem includeWalk_fuel (reg : Registry) (visited : List Nat) (m : Mod) (hm : m ∈ reg.mods) :
    (includeWalk reg (reg.mods.length + 1) visited m).2 ≠ some (Err.bare "out-of-fuel") :=
  Goyang.Lemmas.Fuel.includeWalk_fuel reg _ visited m hm
    (Nat.succ_le_succ (Goyang.Lemmas.Fuel.unvisited_le reg visited))

/-- … and more fuel changes nothing. -/
theorem includeWalk_fuel_stable (reg : Registry) (fuel : Nat) (visited : List Nat) (m : Mod) (hm : m ∈ reg.mods)
    (hf : reg.mods.length + 1 ≤ fuel) :
    includeWalk reg (fuel + 1) visited m = includeWalk reg fuel visited m :=
  Goyang.Lemmas.Fuel.includeWalk_fuel_stable reg fuel visited m hm
    (Nat.le_trans (Nat.succ_le_succ (Goyang.Lemmas.Fuel.unvisited_le reg visited)) hf)

/-- The linking stage of `Process` reports no out-of-fuel error, for every registry. -/
theorem linking_never_out_of_fuel (reg : Registry) : Err.bare "out-of-fuel" ∉ (linkAll reg).2 :=
  Goyang.Lemmas.Fuel.linkAll_never_out_of_fuel reg

/-! ## (b) grouping lookup -/

/-- `FindGrouping` as modelled: above `groupingNeed` (closed form: scope length, name length,
loaded modules not yet seen, widest statement) the fuel does not matter, so the lookup is not
cut short.  Import hops shorten the name, include and owner hops consume an unseen module. -/
theorem findGrouping_fuel (reg : Registry) (linked : List Nat) (fuel fuel' : Nat) (root : Mod) (scope : List Stmt)
    (name : String) (seen : List String) (h : groupingNeed reg scope name seen ≤ fuel) (h' : fuel ≤ fuel') :
    findGrouping reg linked fuel' root scope name seen = findGrouping reg linked fuel root scope name seen :=
  findGrouping_fuel_ge h h'

/-- The bound in terms of the input alone. -/
theorem groupingNeed_closed_form (reg : Registry) (scope : List Stmt) (name : String) (seen : List String) :
    groupingNeed reg scope name seen ≤
      scope.length + (name.length + reg.mods.length + 1) * (groupingWidth reg scope + 4) :=
  groupingNeed_le reg scope name seen

/-- What the lookup returns is a grouping statement of a loaded module (or of the module the
lookup started in), together with the scope it was found in. -/
theorem findGrouping_returns_a_grouping {reg : Registry} {linked : List Nat} {fuel : Nat} {root : Mod}
    {scope : List Stmt} {name : String} {seen : List String} {g : Stmt} {groot : Mod} {gscope : List Stmt}
    (h : (findGrouping reg linked fuel root scope name seen).1 = some (g, groot, gscope)) :
    g.kw = "grouping" ∧ (∃ n up, gscope = n :: up ∧ g ∈ n.subs) ∧
    ((groot = root ∧ ∃ pre, scope = pre ++ gscope) ∨ (groot ∈ reg.mods ∧ gscope = [groot.stmt])) :=
  findGrouping_sound h

/-! ## (c) ToEntry -/

/-- **`ToEntry` never runs out of fuel.**  For a call on a statement `n` of a loaded module `root`
(`scope` statements of it) with `fuel ≥ entryNeed reg = (tracked statements + 1) × (maximal
statement height + 2)`, `toEntry` equals `toEntryZ z` — the same function with the answer of its
out-of-fuel branch replaced by `z` — for every `z`: nothing of what that branch would answer
reaches the result, the recursion ends before.  Along a call path every grouping and module is
entered at most once (`visiting`), and between two of them the statement height decreases. -/
theorem toEntry_fuel (env : Env) (fuel : Nat) (root : Mod) (scope : List Stmt) (n : Stmt) (visiting : List NodeId)
    (st : TState) (hroot : root ∈ env.reg.mods) (hn : Sub n root.stmt) (hscope : ∀ s ∈ scope, Sub s root.stmt)
    (hfuel : entryNeed env.reg ≤ fuel) (z : Mod → Stmt → TState → Entry × TState) :
    toEntry env fuel root scope n visiting st = toEntryZ env z fuel root scope n visiting st :=
  Goyang.Lemmas.Fuel.toEntry_fuel env fuel root scope n visiting st ⟨hroot, hn, hscope⟩ hfuel z

/-- `toEntryZ` really is `toEntry` with another out-of-fuel answer (so the statement above is not
about some other function). -/
theorem toEntryZ_is_toEntry (env : Env) (fuel : Nat) : toEntryZ env oofAnswer fuel = toEntry env fuel :=
  toEntryZ_oof env fuel

theorem toEntryZ_zero (env : Env) (z : Mod → Stmt → TState → Entry × TState) (root : Mod) (scope : List Stmt)
    (n : Stmt) (visiting : List NodeId) (st : TState) : toEntryZ env z 0 root scope n visiting st = z root n st := rfl

theorem toEntryZ_succ (env : Env) (z : Mod → Stmt → TState → Entry × TState) (fuel : Nat) :
    toEntryZ env z (fuel + 1) = toEntryBody env fuel (toEntryZ env z fuel) := rfl

/-- The copy of the body the proof works on is the model's (kernel-checked by `rfl`). -/
theorem toEntry_unfolds (env : Env) (fuel : Nat) : toEntry env (fuel + 1) = toEntryBody env fuel (toEntry env fuel) :=
  toEntry_succ env fuel

/-- The bound is at most quadratic in the number of loaded statements. -/
theorem entryNeed_quadratic (reg : Registry) : entryNeed reg ≤ (totalStmts reg + 1) * (totalStmts reg + 2) :=
  entryNeed_le_quadratic reg

/-- The fuel the model passes, `entryFuel reg = (totalStmts reg + 2)² + 64`, is at least the bound. -/
theorem toEntry_fuel_model (reg : Registry) : entryNeed reg ≤ entryFuel reg :=
  entryNeed_le_entryFuel reg

/-- **The calls `processAll` makes never run out of fuel**: every module and submodule statement
from an empty `visiting`, and every deviate statement, with the fuel the model passes
(`entryFuel reg`), for every registry, every state and every answer `z` of the out-of-fuel
branch.  (`processAll` takes its modules from `reg.distinctModules` / `distinctSubs` / `byId`, all
of which are members of `reg.mods`: `processAll_calls_are_loaded`.) -/
theorem toEntry_fuel_of_entryFuel (env : Env) (z : Mod → Stmt → TState → Entry × TState) :
    (∀ m ∈ env.reg.mods, ∀ st, toEntry env (entryFuel env.reg) m [] m.stmt [] st =
        toEntryZ env z (entryFuel env.reg) m [] m.stmt [] st) ∧
    (∀ m ∈ env.reg.mods, ∀ dv ∈ m.stmt.all "deviation", ∀ ds ∈ dv.all "deviate", ∀ st,
        toEntry env (entryFuel env.reg) m [dv, m.stmt] ds [] st =
        toEntryZ env z (entryFuel env.reg) m [dv, m.stmt] ds [] st) :=
  ⟨fun _ hm st => Goyang.Lemmas.Fuel.toEntry_fuel env _ _ _ _ _ st (Inv.top hm) (toEntry_fuel_model env.reg) z,
   fun _ hm _ hdv _ hds st =>
     Goyang.Lemmas.Fuel.toEntry_fuel env _ _ _ _ _ st (Inv.deviate hm hdv hds) (toEntry_fuel_model env.reg) z⟩

/-- The modules `processAll` converts are loaded modules. -/
theorem processAll_calls_are_loaded (reg : Registry) :
    (∀ m ∈ reg.distinctModules, m ∈ reg.mods) ∧ (∀ m ∈ reg.distinctSubs, m ∈ reg.mods) ∧
    (∀ id m, reg.byId id = some m → m ∈ reg.mods) :=
  ⟨fun _ h => (List.mem_filter.mp h).1, fun _ h => (List.mem_filter.mp h).1,
   fun _ _ h => List.mem_of_find?_eq_some h⟩

/-! ## (d) cycles are errors -/

/-- **A grouping that (transitively) uses itself yields a `cycle` error, never divergence.**
While a grouping `g` is being converted it is in `visiting` (so are all groupings entered on the
way down).  A `uses` statement reached from there that resolves to `g` — directly (`grouping g {
uses g; }`) or through any chain of other groupings — is answered by the error entry `cycle`
positioned at `g`, with the state untouched, for every fuel ≥ 2.  Together with `toEntry_fuel`
(which holds for cyclic registries like for all others) this is "reported, not diverging". -/
theorem cycles_are_errors (env : Env) (k : Nat) (root : Mod) (scope : List Stmt) (u : Stmt)
    (visiting : List NodeId) (st : TState) (g : Stmt) (groot : Mod) (gscope : List Stmt)
    (hu : u.kw = "uses")
    (hfind : (findGrouping env.reg env.linked (2 * (k + 1) + 16) root scope u.arg []).1 = some (g, groot, gscope))
    (hv : visiting.contains (nodeId groot g) = true)
    (hg : st.gcache.find? (·.1 == nodeId groot g) = none) :
    toEntry env (k + 2) root scope u visiting st = (errorEntry groot g "cycle", st) :=
  uses_of_grouping_in_progress env k root scope u visiting st g groot gscope hu hfind hv hg

/-- The same for modules and submodules (include cycles that reach `ToEntry`): re-entering any
tracked statement under conversion answers `cycle`. -/
theorem reentry_is_cycle_error (env : Env) (k : Nat) (root : Mod) (scope : List Stmt) (n : Stmt)
    (visiting : List NodeId) (st : TState) (ht : isTracked n = true) (hv : visiting.contains (nodeId root n) = true)
    (hcache : (if (n.kw == "module" || n.kw == "submodule") then st.cache.find? (·.1 == root.seq) else none) = none)
    (hg : (if n.kw == "grouping" then st.gcache.find? (·.1 == nodeId root n) else none) = none) :
    toEntry env (k + 1) root scope n visiting st = (errorEntry root n "cycle", st) :=
  toEntry_reentry env k root scope n visiting st ht hv hcache hg

/-- Typedef cycles (C09), first form.  SUPERSEDED by `typedef_cycle_is_error_below`: the hypothesis
`Unambiguous env.reg` quantifies over every conceivable site (made-up enclosing statements
included) and holds of no registry (`Goyang.Props.C09.unambiguous_false`), so this statement is
vacuous.  Kept as it was for the record. -/
theorem typedef_cycle_is_error (env : Goyang.Model.Types.Env) (hU : Goyang.Spec.Types.Unambiguous env.reg) (fuel : Nat)
    (root : Mod) (scope : List Stmt) (t : Stmt) (stack : List Goyang.Model.Types.TypeKey)
    (ht : Goyang.Spec.Types.scopeKinds.contains t.kw = false)
    (hc : Goyang.Spec.Types.Cyclic env.reg (root, scope, t)) :
    (Goyang.Model.Types.resolveTypeF env fuel root scope t stack).errs ≠ [] :=
  Goyang.Props.C09.cyclic_is_error env hU fuel root scope t stack ht hc

/-- Typedef cycles (C09): a type statement that is defined in terms of itself, or depends on one
that is, resolves with an error — for every fuel and every stack, so also without divergence —
whenever no name met while resolving it denotes two typedefs (`UnambiguousBelow`: only the sites
reachable from the reference through "names the typedef whose type is" / "has the member type"
steps; satisfiable, see the example). -/
theorem typedef_cycle_is_error_below (env : Goyang.Model.Types.Env) (fuel : Nat)
    (root : Mod) (scope : List Stmt) (t : Stmt)
    (hU : Goyang.Lemmas.TypesDefs.UnambiguousBelow env.reg (root, scope, t))
    (stack : List Goyang.Model.Types.TypeKey)
    (ht : Goyang.Spec.Types.scopeKinds.contains t.kw = false)
    (hc : Goyang.Spec.Types.Cyclic env.reg (root, scope, t)) :
    (Goyang.Model.Types.resolveTypeF env fuel root scope t stack).errs ≠ [] :=
  Goyang.Props.C09.cyclic_is_error_below env fuel root scope t hU stack ht hc

/-- Non-vacuity: `typedef a { type b; } typedef b { type a; } leaf l { type a; }` (the schema
`Goyang.Props.C09.Ex.env4`): the leaf's type is `Cyclic` (`cyclic_q0`), no name met denotes two
typedefs (`unamb_q0`, discharged through the executable binding), and the model answers `cycle`. -/
example (fuel : Nat) (stack : List Goyang.Model.Types.TypeKey) :
    (Goyang.Model.Types.resolveTypeF Goyang.Props.C09.Ex.env4 fuel Goyang.Props.C09.Ex.mD
      [Goyang.Props.C09.Ex.leafQ, Goyang.Props.C09.Ex.d] Goyang.Props.C09.Ex.tyQ stack).errs ≠ [] :=
  typedef_cycle_is_error_below Goyang.Props.C09.Ex.env4 fuel Goyang.Props.C09.Ex.mD
    [Goyang.Props.C09.Ex.leafQ, Goyang.Props.C09.Ex.d] Goyang.Props.C09.Ex.tyQ
    Goyang.Props.C09.Ex.unamb_q0 stack (by decide) Goyang.Props.C09.Ex.cyclic_q0
example : ((Goyang.Model.Types.resolveTypeF Goyang.Props.C09.Ex.env4 10 Goyang.Props.C09.Ex.mD
      [Goyang.Props.C09.Ex.leafQ, Goyang.Props.C09.Ex.d] Goyang.Props.C09.Ex.tyQ []).errs.map (·.cls)) = ["cycle"] := by
  decide

/-- Type resolution never reports an exhausted budget with the fuel the model supplies (C09). -/
theorem type_resolution_fuel (reg : Registry) (root : Mod) (scope : List Stmt) (t : Stmt)
    (hroot : root ∈ reg.mods) (ht : t ∈ Goyang.Model.Types.descendants root.stmt) (hkw : t.kw = "type")
    (hscope : ∀ s ∈ scope, s ∈ Goyang.Model.Types.descendants root.stmt) :
    ∀ e ∈ (Goyang.Model.Types.resolveType reg root scope t).2, e.cls ≠ "out-of-fuel" :=
  Goyang.Props.C09.fuel_suffices reg root scope t hroot ht hkw hscope

/-- Identity cycles (C11): an undefined base or a cycle of base statements is reported by
`resolveIdentities`, which terminates, for every map order. -/
theorem identity_cycle_is_error (r : Registry) (lk : Goyang.Model.Identity.Link)
    (hl : Goyang.Props.C11.Linked r lk) (hw : Goyang.Props.C11.WellFormed r)
    (G : Goyang.Spec.Identity.Graph) (hG : Goyang.Spec.Identity.graph r = some G)
    (hbad : G.dangling ≠ [] ∨ ¬ Goyang.Spec.Identity.Acyclic G)
    (o : Goyang.Model.Identity.Oracle) (ho : o.Valid) :
    ∃ res, Goyang.Model.Identity.resolveIdentities o r lk (fun _ => []) = some res ∧ res.errs ≠ [] :=
  Goyang.Props.C11.identity_errors r lk hl hw G hG hbad o ho

/-- Go's recursive closure walk (`addChildren`, `includeClosure`) terminates on every graph, cyclic
ones included, within fuel `|U| + 1`, and returns the reachable nodes, each once (C11). -/
theorem identity_walk_terminates {α : Type} [DecidableEq α] (succ : α → List α) (U : List α)
    (hU : ∀ x ∈ U, ∀ y ∈ succ x, y ∈ U) (fuel : Nat) (r : α) (hr : r ∈ U) (hf : U.length < fuel) :
    ∃ out, Goyang.Model.Identity.walk succ fuel r [] = some out ∧ out.Nodup ∧
      ∀ y, y ∈ out ↔ Goyang.Spec.Identity.Reach succ r y :=
  Goyang.Props.C11.walk_terminates_and_is_reachability succ U hU fuel r hr hf

/-! ## (e) dump, augment loop; lexer and parser -/

/-- The canonical dump never prints the out-of-fuel marker with the fuel `dumpOutcome` passes
(`entryDepth root + 1`), and any fuel from the depth of the tree on gives the same dump. -/
theorem dump_fuel (reg : Registry) (f : Forest) (modName : String) (root : Entry) (id : Nat) (fuel : Nat)
    (path : Path) (e : Entry) (h : entryDepth e ≤ fuel) :
    "N out-of-fuel" ∉ dumpTree reg f modName root id fuel path e ∧
    dumpTree reg f modName root id fuel path e = dumpTree reg f modName root id (entryDepth e) path e :=
  ⟨dumpTree_never_out_of_fuel reg f modName root id fuel path e h,
   dumpTree_fuel_stable reg f modName root id fuel path e h⟩

/-- One pass of the augment loop ends within `mods.size - i + 1` steps: every step either drops a
module or advances. -/
theorem augmentPass_fuel (reg : Registry) (fuel : Nat) (mods : Array Nat) (i processed : Nat) (s : PState)
    (h : mods.size - i + 1 ≤ fuel) :
    augmentPass reg fuel mods i processed s = augmentPass reg (mods.size - i + 1) mods i processed s :=
  Goyang.Lemmas.Fuel.augmentPass_fuel reg fuel mods i processed s h

/-- **The augment loop ends within `total + 1` passes** (`total` = number of pending augments; the
model passes `total + 2`): every pass but the last applies at least one augment, and an applied
augment leaves the pending lists.  Hypothesis: the pending lists are keyed by distinct trees, as
`processAll` builds them from the distinct loaded modules (without it the count can grow:
`augmentTree_pending_needs_nodup`). -/
theorem augmentLoop_terminates (reg : Registry) (fuel : Nat) (mods : Array Nat) (s : PState)
    (hnd : (s.pending.map (·.1)).Nodup) (h : pendingTotal s + 1 ≤ fuel) :
    augmentLoop reg fuel mods s = augmentLoop reg (pendingTotal s + 1) mods s :=
  Goyang.Lemmas.Fuel.augmentLoop_terminates reg fuel mods s hnd h

/-- … in particular with the fuel `processAll` computes. -/
theorem augmentLoop_model_fuel (reg : Registry) (mods : Array Nat) (s : PState)
    (hnd : (s.pending.map (·.1)).Nodup) :
    augmentLoop reg (s.pending.foldl (fun n p => n + p.2.length) 0 + 2) mods s =
      augmentLoop reg (pendingTotal s + 1) mods s :=
  Goyang.Lemmas.Fuel.augmentLoop_model_fuel reg mods s hnd

/-- The hypothesis of `augmentLoop_terminates` holds of the state `processAll` starts the loop
from — one pending list per distinct module, then per distinct submodule, keyed by sequence number
— for every registry of the shape loading produces (`LoadedShape`: sequence numbers distinct, no
module bound in both tables), whatever the pending lists hold. -/
theorem processAll_pending_keys_distinct (reg : Registry) (h : LoadedShape reg) (augsOf : Mod → List Entry) :
    (((reg.distinctModules ++ reg.distinctSubs).map fun m => (m.seq, augsOf m)).map (·.1)).Nodup :=
  processAll_pending_keys_nodup reg h augsOf

/-- Every pass accounts for what it applied: pending after + applied = pending before. -/
theorem augmentPass_accounts (reg : Registry) (fuel : Nat) (mods : Array Nat) (i processed : Nat) (s : PState)
    (hnd : (s.pending.map (·.1)).Nodup) :
    (augmentPass reg fuel mods i processed s).2.2.pending.map (·.1) = s.pending.map (·.1) ∧
    pendingTotal (augmentPass reg fuel mods i processed s).2.2 + (augmentPass reg fuel mods i processed s).2.1 =
      pendingTotal s + processed :=
  augmentPass_pending reg fuel mods i processed s hnd

/-- Lexer and parser (C02): `yang.Parse` as modelled is total on arbitrary bytes; with the fuel
the model supplies no loop runs dry, no slice is taken out of range. -/
theorem lexer_parser_total (file text : List UInt8) (f : Goyang.Model.Lex.Fault) :
    Goyang.Model.Parse.parseText file text ≠ .fault f :=
  Goyang.Props.C02.parse_no_fault file text f

/-- … and answers either a forest or a non-empty list of error lines (the error budget: after
eight errors the lexer drops its input). -/
theorem lexer_parser_answers (file text : List UInt8) :
    (∃ forest, Goyang.Model.Parse.parseText file text = .ok forest) ∨
    (∃ errs, errs ≠ [] ∧ Goyang.Model.Parse.parseText file text = .rejected errs) :=
  Goyang.Props.C02.parse_ok_or_rejected file text

/-! ## Non-vacuity -/
namespace Ex

/-- `module m { grouping g { uses g; } uses g; }` -/
def usesInner : Stmt := .mk "uses" true "g" "m.yang" 1 25 []
def gS : Stmt := .mk "grouping" true "g" "m.yang" 1 12 [usesInner]
def usesTop : Stmt := .mk "uses" true "g" "m.yang" 1 35 []
def mS : Stmt := .mk "module" true "m" "m.yang" 1 1 [gS, usesTop]
def m0 : Mod := ⟨0, mS⟩
def reg0 : Registry := { mods := [m0], modules := [("m", 0)] }
def env0 : Env := { reg := reg0, tres := ⟨fun _ _ _ _ => (none, [])⟩, linked := [0] }

/-- The self-using grouping: conversion of the module ends (100 units of fuel, 15 needed) and
reports the cycle at the grouping, twice (once from the grouping's own conversion, once from the
module-level `uses`). -/
example : ((toEntry env0 (entryFuel reg0) m0 [] mS [] {}).1.allErrors.map (·.render)) =
    ["m.yang:1:12:cycle", "m.yang:1:12:cycle"] := by decide

example : entryNeed reg0 = 15 ∧ entryFuel reg0 = 100 ∧ (tracked reg0).length = 2 ∧ maxHeight reg0 = 3 := by decide

/-- `toEntry_fuel` instantiated: the result is the same whatever the out-of-fuel branch answers. -/
example (z : Mod → Stmt → TState → Entry × TState) :
    toEntry env0 (entryFuel reg0) m0 [] mS [] {} = toEntryZ env0 z (entryFuel reg0) m0 [] mS [] {} :=
  (toEntry_fuel_of_entryFuel env0 z).1 m0 (List.mem_singleton.mpr rfl) {}

/-- With too little fuel the out-of-fuel answer does show, so the bound is not vacuous: at fuel 3
the inner `uses` is not reached. -/
example : ((toEntry env0 3 m0 [] mS [] {}).1.allErrors.map (·.cls)).contains "out-of-fuel" = true := by decide

/-- `cycles_are_errors` instantiated: inside `g` (in progress) the inner `uses g` answers `cycle`. -/
example : toEntry env0 5 m0 [gS, mS] usesInner [nodeId m0 gS, nodeId m0 mS] {} =
    (errorEntry m0 gS "cycle", {}) :=
  cycles_are_errors env0 3 m0 [gS, mS] usesInner [nodeId m0 gS, nodeId m0 mS] {} gS m0 [mS] rfl rfl (by decide) rfl

/-- Two groupings using each other: `module m { grouping g { uses h; } grouping h { uses g; } uses g; }`. -/
def uH : Stmt := .mk "uses" true "h" "m.yang" 2 14 []
def uG : Stmt := .mk "uses" true "g" "m.yang" 3 14 []
def g2 : Stmt := .mk "grouping" true "g" "m.yang" 2 3 [uH]
def h2 : Stmt := .mk "grouping" true "h" "m.yang" 3 3 [uG]
def top2 : Stmt := .mk "uses" true "g" "m.yang" 4 3 []
def mS2 : Stmt := .mk "module" true "m" "m.yang" 1 1 [g2, h2, top2]
def m2 : Mod := ⟨0, mS2⟩
def reg2 : Registry := { mods := [m2], modules := [("m", 0)] }
def env2 : Env := { reg := reg2, tres := ⟨fun _ _ _ _ => (none, [])⟩, linked := [0] }

example : ((toEntry env2 (entryFuel reg2) m2 [] mS2 [] {}).1.allErrors.map (·.cls)).all (· == "cycle") = true ∧
    (toEntry env2 (entryFuel reg2) m2 [] mS2 [] {}).1.allErrors ≠ [] ∧ entryNeed reg2 ≤ entryFuel reg2 := by decide

/-- Linking a module that imports itself and a pair that import each other: the walk ends. -/
def impSelf : Stmt := .mk "module" true "a" "a.yang" 1 1 [.mk "import" true "a" "a.yang" 2 3 [], .mk "import" true "b" "a.yang" 3 3 []]
def impBack : Stmt := .mk "module" true "b" "b.yang" 1 1 [.mk "import" true "a" "b.yang" 2 3 []]
def reg3 : Registry := { mods := [⟨0, impSelf⟩, ⟨1, impBack⟩], modules := [("a", 0), ("b", 1)] }
example : linkAll reg3 = ([1, 0], []) := by decide

/-- `LoadedShape` holds of a registry with two modules and a submodule. -/
example : LoadedShape { mods := [⟨0, impSelf⟩, ⟨1, impBack⟩, ⟨2, .mk "submodule" true "s" "s.yang" 1 1 []⟩],
                        modules := [("a", 0), ("b", 1)], subModules := [("s", 2)] } :=
  ⟨by decide, by decide⟩

/-- The `Nodup` hypothesis of `augmentLoop_terminates` is satisfiable on a non-empty state. -/
example : ∃ s : PState, s.pending ≠ [] ∧ (s.pending.map (·.1)).Nodup ∧ pendingTotal s = 1 :=
  ⟨{ pending := [(0, [.mk { name := "a" } [] [] []]), (1, [])] }, by decide, by decide, by decide⟩

end Ex

end Goyang.Props.C01
