/-
C02 — generic parsing agrees with the RFC 7950 section 6 reading of the text (DESIGN.md 7.2).

Impl model: `Goyang.Model.Lex` + `Goyang.Model.Parse` (`parseText file bytes`, a transliteration of
`yang.Parse` after the repairs D20, D29, D42).  Reference reader: `Goyang.Spec.Parse`
(`parse : List Char → Option (List Stmt)`, `Admissible`).

The main theorem is `parse_refines_spec`, at full strength: for **every** Unicode text (`List Char`,
handed to the model as its UTF-8 encoding in core Lean's sense) that contains none of the four
excluded constructs, the model returns exactly the reference reader's forest — keywords, argument
presence, exact argument bytes, nesting, sibling order, and the position of every statement — or,
when the reference reader rejects the text, a non-empty list of error lines and no statements.
It is proved by simulation (`Goyang/Lemmas/`): (a) totality of lexer and parser for arbitrary
bytes (`Lex.lean`, `Parse.lean`); (b) the double-quoted-string loop = the three RFC passes
(`QStr.lean`); (c) the parser over the reference reader's tokens = the statement grammar
(`ListSrc.lean`); (d) `NextToken` = the next token of the reference reader, character by character
with `line`/`col`/`tcol` bookkeeping (`LexSim.lean`, `TokSim.lean`); (e) composition (`ParseSim.lean`,
`Newline.lean`, `Compose.lean`).
-/
import Goyang.Model.Parse
import Goyang.Spec.Parse
import Goyang.Lemmas.Parse
import Goyang.Lemmas.Compose

namespace Goyang.Props.C02
open Goyang.Model Goyang.Model.Parse
open Goyang.Spec.Parse (Stmt Admissible QItem PTok)

/-- UTF-8 of a Unicode text, as core Lean defines it -/
def utf8 (t : List Char) : List UInt8 := t.flatMap String.utf8EncodeChar

/-- a statement of the reference reader as a statement of the model: strings as UTF-8, `arg = none`
as `hasArg = false`, the file name added -/
abbrev encForest (file : List UInt8) (forest : List Stmt) : List Statement :=
  Goyang.Lemmas.ListSrc.encStmts file forest

theorem utf8_eq (t : List Char) : Goyang.Model.Utf8.encodeChars t = utf8 t := by
  unfold utf8 Goyang.Model.Utf8.encodeChars
  congr 1
  funext c
  exact Goyang.Lemmas.Utf8.encChar_eq_core c

/-! ## totality (also the lexer/parser part of C01) -/

/-- `yang.Parse` as modelled is total on arbitrary bytes (also ill-formed UTF-8): with the fuel the
model supplies no loop of lexer or parser runs dry, no slice is taken out of range and the cursor
never leaves the input. -/
theorem parse_no_fault (file text : List UInt8) (f : Lex.Fault) : parseText file text ≠ .fault f :=
  Goyang.Lemmas.Parse.parseText_no_fault file text f

/-- On rejection the error is non-empty (and, `ParseResult` being a sum, no statements are returned). -/
theorem rejected_nonempty (file text : List UInt8) (errs : List Lex.ErrLine)
    (h : parseText file text = .rejected errs) : errs ≠ [] := by
  unfold parseText parseWith at h
  simp only at h
  split at h
  · cases h
  · split at h
    · cases h
    · split at h
      · cases h
      · rename_i hne
        injection h with h
        subst h
        intro he
        apply hne
        simp [he]

/-- The result is either a forest or a non-empty list of error lines. -/
theorem parse_ok_or_rejected (file text : List UInt8) :
    (∃ forest, parseText file text = .ok forest) ∨
    (∃ errs, errs ≠ [] ∧ parseText file text = .rejected errs) := by
  cases h : parseText file text with
  | ok forest => exact Or.inl ⟨forest, rfl⟩
  | rejected errs => exact Or.inr ⟨errs, rejected_nonempty file text errs h, rfl⟩
  | fault f => exact absurd h (parse_no_fault file text f)

/-! ## the steps of the refinement that are of independent interest -/

/-- **(b)** The single-pass loop of `lexQString` (as the fold `stepC` over the raw items: one case per
`switch` arm of the Go loop, with the flag `over` and the column `tcol`) computes what RFC 7950
6.1.3 prescribes as three separate passes — trailing blanks dropped before each line break,
continuation lines stripped up to the column of the opening quote, backslash pairs substituted.
In pattern mode every raw text has that value; otherwise it has it iff all backslash pairs are
defined.  The only hypothesis is exclusion (3) of the property. -/
theorem dq_string_refines_rfc (qcol : Nat) (raw : List QItem) (h : Goyang.Lemmas.QStr.noEscBlankEnd raw) :
    Goyang.Spec.Parse.dequote true qcol raw = some (Goyang.Lemmas.QStr.implValue qcol raw) ∧
    Goyang.Spec.Parse.dequote false qcol raw =
      if raw.all Goyang.Lemmas.QStr.validEsc then some (Goyang.Lemmas.QStr.implValue qcol raw) else none :=
  ⟨Goyang.Lemmas.QStr.dequote_true qcol raw h, Goyang.Lemmas.QStr.dequote_false qcol raw h⟩

/-- **(c)** Over the reference reader's tokens (handed out as the lexer would hand them out) the
parser model — `next` with its look-ahead and LIFO push-back, `nextStatement`, the depth counter, the
shared sentinels — returns a forest exactly when the statement grammar of RFC 7950 6.3 derives one
from all the tokens, and it is that forest. -/
theorem parser_refines_grammar (text : List Char) (file : List UInt8) (toks : List PTok) (fuel : Nat)
    (hf : toks.length + 2 ≤ fuel) (hadm : ∀ x ∈ toks, Goyang.Lemmas.ListSrc.okTok x) (forest : List Statement) :
    parseWith Goyang.Lemmas.ListSrc.listSource fuel
        { text := text, file := file, toks := toks, errs := [], tail := none } = .ok forest ↔
      ∃ ss, Goyang.Spec.Parse.parseTokens text toks = some ss ∧ forest = encForest file ss := by
  rw [Goyang.Lemmas.ListSrc.parse_list text file toks none fuel hf hadm forest]
  simp

/-! ## the property -/

/-- **C02.**  For every Unicode text without the four excluded constructs: if the text is a
well-formed sequence of YANG statements in the reading of RFC 7950 section 6 (`Spec.parse t = some
forest`), generic parsing returns exactly that forest — keywords, argument presence, exact argument
strings (single-quoted verbatim; double-quoted with escapes substituted, indentation and trailing
blanks stripped; `+`-joined pieces concatenated; unquoted verbatim), nesting, sibling order and the
`file:line:col` of every statement; otherwise it returns no statements and a non-empty error. -/
theorem parse_refines_spec (file : List UInt8) (t : List Char) (ha : Admissible t = true) :
    match Goyang.Spec.Parse.parse t with
    | some forest => parseText file (utf8 t) = .ok (encForest file forest)
    | none => ∃ msgs, msgs ≠ [] ∧ parseText file (utf8 t) = .rejected msgs := by
  rw [← utf8_eq]
  cases hp : Goyang.Spec.Parse.parse t with
  | some forest =>
    simp only
    exact (Goyang.Lemmas.Compose.parseText_ok_iff file t ha _).2 ⟨forest, hp, rfl⟩
  | none =>
    simp only
    rcases parse_ok_or_rejected file (Goyang.Model.Utf8.encodeChars t) with ⟨forest, h⟩ | h
    · obtain ⟨ss, hss, _⟩ := (Goyang.Lemmas.Compose.parseText_ok_iff file t ha forest).1 h
      rw [hp] at hss; cases hss
    · exact h

/-- Generic parsing accepts a text exactly when it is a well-formed sequence of statements. -/
theorem accepts_iff_wellformed (file : List UInt8) (t : List Char) (ha : Admissible t = true) :
    (∃ forest, parseText file (utf8 t) = .ok forest) ↔ (Goyang.Spec.Parse.parse t).isSome = true := by
  have h := parse_refines_spec file t ha
  cases hp : Goyang.Spec.Parse.parse t with
  | some forest => rw [hp] at h; simp only at h; exact ⟨fun _ => rfl, fun _ => ⟨_, h⟩⟩
  | none =>
    rw [hp] at h
    simp only at h
    obtain ⟨msgs, _, hm⟩ := h
    constructor
    · rintro ⟨forest, hf⟩; rw [hm] at hf; cases hf
    · intro hc; cases hc

/-! ## the hypotheses are satisfiable: a text with a block, a tab-indented line, a comment before a
three-line-free multi-line string whose continuation line mixes tabs and blanks, an escape, a
`+`-joined single-quoted piece -/

/-- `a {` LF TAB `b /**/ "x` LF TAB TAB SP SP `y \t z" + 'q';` LF `}` -/
def exampleText : List Char :=
  ['a', ' ', '{', '\n', '\t', 'b', ' ', '/', '*', '*', '/', ' ', '"', 'x', '\n', '\t', '\t', ' ', ' ', 'y', ' ',
   '\\', 't', ' ', 'z', '"', ' ', '+', ' ', '\'', 'q', '\'', ';', '\n', '}']

def exampleForest : List Stmt :=
  [⟨['a'], none, 1, 1, [⟨['b'], some ['x', '\n', ' ', ' ', 'y', ' ', '\t', ' ', 'z', 'q'], 2, 2, []⟩]⟩]

set_option maxRecDepth 8000 in
example : Admissible exampleText = true := by decide

set_option maxRecDepth 8000 in
/-- the reference reader on it: the quote stands in column 16, the two tabs are stripped, the two blanks stay -/
example : Goyang.Spec.Parse.parse exampleText = some exampleForest := by rfl

set_option maxRecDepth 20000 in
/-- the model on it, evaluated -/
example : parseText [102] (utf8 exampleText) = .ok (encForest [102] exampleForest) := by rfl

/-- a rejected text: the closing brace is missing -/
example : Goyang.Spec.Parse.parse ['a', ' ', '{', ' ', 'b', ';'] = none := by rfl

example : Admissible ['a', ' ', '{', ' ', 'b', ';'] = true := by decide

/-- exclusion (3) is satisfiable and not vacuous -/
example : Goyang.Lemmas.QStr.noEscBlankEnd [.lit 'x', .lit ' ', .lit '\n', .lit '\t', .esc 't', .lit 'y'] := by
  intro x hx q hq
  simp [Goyang.Spec.Parse.splitLines] at hx
  subst hx
  simp [Goyang.Spec.Parse.stripTrail, Goyang.Spec.Parse.isLitBlank, Goyang.Spec.Parse.isBlank] at hq
  subst hq
  rfl

end Goyang.Props.C02
