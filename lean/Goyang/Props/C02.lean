/-
C02 — generic parsing agrees with the RFC 7950 section 6 reading of the text (DESIGN.md 7.2).
Impl model: `Goyang.Model.Lex`, `Goyang.Model.Parse`; reference reader: `Goyang.Spec.Parse`.
-/
import Goyang.Model.Parse
import Goyang.Spec.Parse

namespace Goyang.Props.C02
open Goyang.Model Goyang.Model.Parse

/-- On rejection the error is non-empty (and, `ParseResult` being a sum, no statements are returned). -/
theorem rejected_nonempty (file text : List UInt8) (errs : List Lex.ErrLine)
    (h : parseText file text = .rejected errs) : errs ≠ [] := by
  unfold parseText parseWith at h
  simp only at h
  split at h
  · cases h
  · split at h
    · cases h
    · split at h
      · cases h
      · rename_i hne
        injection h with h
        subst h
        intro he
        apply hne
        simp [he]

end Goyang.Props.C02
