/-
C02 — generic parsing agrees with the RFC 7950 section 6 reading of the text (DESIGN.md 7.2).
Impl model: `Goyang.Model.Lex`, `Goyang.Model.Parse`; reference reader: `Goyang.Spec.Parse`.
-/
import Goyang.Model.Parse
import Goyang.Spec.Parse
import Goyang.Lemmas.Parse

namespace Goyang.Props.C02
open Goyang.Model Goyang.Model.Parse

/-- `yang.Parse` as modelled is total on arbitrary bytes (also ill-formed UTF-8): with the fuel the
model supplies no loop of lexer or parser runs dry, no slice is taken out of range and the cursor
never leaves the input.  (This is the lexer/parser part of C01 as well.) -/
theorem parse_no_fault (file text : List UInt8) (f : Lex.Fault) : parseText file text ≠ .fault f :=
  Goyang.Lemmas.Parse.parseText_no_fault file text f

/-- On rejection the error is non-empty (and, `ParseResult` being a sum, no statements are returned). -/
theorem rejected_nonempty (file text : List UInt8) (errs : List Lex.ErrLine)
    (h : parseText file text = .rejected errs) : errs ≠ [] := by
  unfold parseText parseWith at h
  simp only at h
  split at h
  · cases h
  · split at h
    · cases h
    · split at h
      · cases h
      · rename_i hne
        injection h with h
        subst h
        intro he
        apply hne
        simp [he]

/-- The result is either a forest or a non-empty list of error lines. -/
theorem parse_ok_or_rejected (file text : List UInt8) :
    (∃ forest, parseText file text = .ok forest) ∨
    (∃ errs, errs ≠ [] ∧ parseText file text = .rejected errs) := by
  cases h : parseText file text with
  | ok forest => exact Or.inl ⟨forest, rfl⟩
  | rejected errs => exact Or.inr ⟨errs, rejected_nonempty file text errs h, rfl⟩
  | fault f => exact absurd h (parse_no_fault file text f)

end Goyang.Props.C02
