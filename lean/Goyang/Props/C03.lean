import Goyang.Model.Ast
import Goyang.Spec.Ast
import Goyang.Gen.AstSchema
import Goyang.Lemmas.Ast
/-
C03 — the AST mirrors the statement tree one-to-one or the build fails.
Property theorems only; helper lemmas live in Goyang/Lemmas/Ast.lean.

Reading aid.
 * `build tbl s parent` is the model of `build` in pkg/yang/ast.go, generic over the tag table `tbl`
   exactly as the Go code is generic by reflection; `parseTop tbl dup ss` is `Modules.Parse` on the
   statements `ss` the generic parser returned (build all, then `Modules.add` each; `dup` stands for
   whatever `add` decides about colliding module names, the theorems hold for every such policy).
 * `Mirrors tbl a s` (`mirrors tbl parent a s = true`): node `a` is the image of statement `s` — see
   `mirrors_unfold` for what that says, one level at a time.
 * `accepts tbl s = true`: the tree below `s` has none of the defects that must be rejected
   (`accepts_unfold`, `acceptsSubs_unfold`, `Goyang.Spec.Ast.cardOk`).
 * `WF tbl`: well-formedness of the table.  The theorems hold for every well-formed table;
   `gen_table_wf` re-proves well-formedness of the table regenerated from the Go source on every run
   by kernel evaluation, `gen_table_mandatory` that the regenerated table still demands the
   mandatory substatements the property names.
 * A Go panic is the error class `crash`; `build_total` / `parse_total` say it is unreachable.

Everything is stated for all statement trees (any keyword under any keyword, any multiplicity, any
order, any arguments and positions).  The model mirrors the repaired code (fix commits a6c22d9 and
40e58d4 in /repo); on the tree before them the statements below were false: `foo;` at top level
and `Parent x;` under `module` dereferenced nil / panicked in reflect (`build_total`),
`Statement x;` replaced the node's source statement and `Name x;` set the name of a node without
argument (`build_mirrors`, `build_rejects_unknown`).
-/
namespace Goyang.Props.C03
open Goyang.Model.Ast Goyang.Spec.Ast
open Goyang.Lemmas.Ast (ParentOk WF.toP fails_of_not_ok)

abbrev table : Schema := Goyang.Gen.AstSchema.table

/-! ### per-run obligations on the regenerated table -/

/-- The tag table regenerated from pkg/yang on this run is well-formed (kernel evaluation). -/
theorem gen_table_wf : WF table := by decide +kernel

/-- The regenerated table still demands the mandatory substatements the property names
(leaf/leaf-list/typedef: type; import, belongs-to: prefix; module: namespace, prefix;
submodule: belongs-to; deviation: deviate). -/
theorem gen_table_mandatory : namedMandatory.all (fun pc => requiresB table pc.1 pc.2) = true := by
  decide +kernel

/-! ### what `Mirrors` and `accepts` say -/

/-- `Mirrors`, one level unfolded: type, name, source reference, parent link; the extension list is
the prefixed substatements unknown in the context, in order; every substatement is known or
prefixed; one child list per struct field, and for each field `fieldOk` (next theorem). -/
theorem mirrors_unfold {tbl : Schema} {p : Option Nat} {a : ANode} {s : Stmt} :
    mirrors tbl p a s = true ↔
      ∃ T, typeFor tbl s.kw = some a.ty ∧ tbl.types[a.ty]? = some T ∧
        a.name = s.arg ∧ a.src = some s ∧ a.parent = p ∧
        a.exts = extsOf tbl T s.subs ∧
        s.subs.all (fun ss => knownIn tbl T ss.kw || prefixed ss.kw) = true ∧
        a.fields.length = T.fields.length ∧
        ∀ (i : Nat) (f : Field) (kids : List ANode), T.fields[i]? = some f → a.fields[i]? = some kids →
          Goyang.Lemmas.Ast.fieldOk tbl a.ty s.subs f kids = true :=
  Goyang.Lemmas.Ast.mirrors_iff

/-- A substatement field holds, in source order, the images (with this node as parent) of exactly
the substatements spelled like its tag — at most one for a pointer field; a meta field holds nothing. -/
theorem fieldOk_unfold (tbl : Schema) (t : Nat) (subs : List Stmt) (f : Field) (kids : List ANode) :
    Goyang.Lemmas.Ast.fieldOk tbl t subs f kids =
      if f.kind.isSub then
        mirrorsKids tbl t kids (subs.filter (fun ss => tbl.kwName f.tag == some ss.kw)) &&
          (f.kind != .ptr || kids.length ≤ 1)
      else kids.isEmpty := rfl

/-- Children correspond to statements one to one, in order. -/
theorem mirrorsKids_unfold (tbl : Schema) (t : Nat) (k : ANode) (ks : List ANode) (s : Stmt) (ss : List Stmt) :
    mirrorsKids tbl t [] [] = true ∧ mirrorsKids tbl t (k :: ks) [] = false ∧
    mirrorsKids tbl t [] (s :: ss) = false ∧
    mirrorsKids tbl t (k :: ks) (s :: ss) = (mirrors tbl (some t) k s && mirrorsKids tbl t ks ss) := by
  simp [mirrorsKids]

theorem accepts_unfold {tbl : Schema} {s : Stmt} :
    accepts tbl s = true ↔
      ∃ t T, typeFor tbl s.kw = some t ∧ tbl.types[t]? = some T ∧
        acceptsSubs tbl T s.subs = true ∧ T.fields.all (cardOk tbl s.kw s.subs) = true :=
  Goyang.Lemmas.Ast.accepts_iff

theorem acceptsSubs_unfold {tbl : Schema} {T : TypeDef} (subs : List Stmt) :
    acceptsSubs tbl T subs = true ↔
      ∀ ss ∈ subs, (knownIn tbl T ss.kw = true → accepts tbl ss = true) ∧
        (knownIn tbl T ss.kw = false → prefixed ss.kw = true) :=
  Goyang.Lemmas.Ast.acceptsSubs_iff subs

/-! ### a successful build mirrors the statement tree -/

/-- Main theorem: whenever building the top-level statement `s` succeeds, the node mirrors `s`
(recursively: every substatement exactly once, under the field of its keyword and in source order,
or in the extension list when prefixed; name = argument; parent link; source reference). -/
theorem build_mirrors {tbl : Schema} (h : WF tbl) {s : Stmt} {a : ANode}
    (hb : build tbl s none = .ok a) : Mirrors tbl a s :=
  (Goyang.Lemmas.Ast.build_sound (WF.toP h) s none a hb).1

/-- The same for a statement built below a node of type `p`. -/
theorem build_mirrors_nested {tbl : Schema} (h : WF tbl) {s : Stmt} {p : Option Nat} {a : ANode}
    (hb : build tbl s p = .ok a) : mirrors tbl p a s = true :=
  (Goyang.Lemmas.Ast.build_sound (WF.toP h) s p a hb).1

/-- A successful build means the whole tree (through every known substatement) has no defect. -/
theorem build_accepts {tbl : Schema} (h : WF tbl) {s : Stmt} {p : Option Nat} {a : ANode}
    (hb : build tbl s p = .ok a) : accepts tbl s = true :=
  (Goyang.Lemmas.Ast.build_sound (WF.toP h) s p a hb).2

/-- The build fails on exactly the defective trees: it succeeds iff `accepts`. -/
theorem build_exact {tbl : Schema} (h : WF tbl) (s : Stmt) {p : Option Nat} (hp : ParentOk tbl p) :
    (∃ a, build tbl s p = .ok a) ↔ accepts tbl s = true :=
  ⟨fun ⟨_, hb⟩ => build_accepts h hb, Goyang.Lemmas.Ast.build_complete (WF.toP h) s p hp⟩

/-- `Modules.Parse`: on success there is one node per top-level statement, in order, each mirroring
its statement, in `SubModules` exactly for the keyword `submodule`; and every top-level statement is
a module or submodule whose tree has no defect.  (`dup`: whatever `Modules.add` decides about
colliding module names.) -/
theorem parse_mirrors {tbl : Schema} (h : WF tbl) {dup : List TopMod → TopMod → Bool} {ss : List Stmt}
    {mods : List TopMod} (hp : parseTop tbl dup ss = .ok mods) :
    mirrorsTop tbl (mods.map fun m => (m.isSub, m.node)) ss = true ∧ acceptsTop tbl ss = true :=
  Goyang.Lemmas.Ast.parseTop_sound (WF.toP h) hp

/-! ### what is always rejected -/

/-- A statement whose keyword has no node type (top level: anything but the table's keywords) fails. -/
theorem build_rejects_unknown_statement {tbl : Schema} (h : WF tbl) {s : Stmt} {p : Option Nat}
    (hk : typeFor tbl s.kw = none) : ∃ e, build tbl s p = .error e := by
  apply fails_of_not_ok
  intro a hb
  obtain ⟨t, _, ht, _⟩ := accepts_unfold.1 (build_accepts h hb)
  rw [hk] at ht; cases ht

/-- A substatement whose keyword is unknown in its context and not prefixed is rejected. -/
theorem build_rejects_unknown {tbl : Schema} (h : WF tbl) {s ss : Stmt} {p : Option Nat}
    (hss : ss ∈ s.subs) (hnp : prefixed ss.kw = false)
    (hunk : ∀ t T, typeFor tbl s.kw = some t → tbl.types[t]? = some T → knownIn tbl T ss.kw = false) :
    ∃ e, build tbl s p = .error e := by
  apply fails_of_not_ok
  intro a hb
  obtain ⟨t, T, ht, hT, hsubs, _⟩ := accepts_unfold.1 (build_accepts h hb)
  have := ((acceptsSubs_unfold s.subs).1 hsubs ss hss).2 (hunk t T ht hT)
  rw [hnp] at this; cases this

/-- A second occurrence of a single-valued (pointer field) substatement is rejected. -/
theorem build_rejects_duplicate_single {tbl : Schema} (h : WF tbl) {s : Stmt} {p : Option Nat}
    {t : Nat} {T : TypeDef} {f : Field} (ht : typeFor tbl s.kw = some t) (hT : tbl.types[t]? = some T)
    (hf : f ∈ T.fields) (hp : f.kind = .ptr) (hdup : 2 ≤ (subsOf tbl f s.subs).length) :
    ∃ e, build tbl s p = .error e := by
  apply fails_of_not_ok
  intro a hb
  have hc := Goyang.Lemmas.Ast.card_of_ok (WF.toP h) hb ht hT hf
  have hs : f.kind.isSub = true := by rw [hp]; rfl
  simp only [cardOk, hs, Bool.not_true, Bool.false_or, Bool.and_eq_true, Bool.or_eq_true,
    decide_eq_true_eq] at hc
  rcases hc.1.1.1 with h1 | h1
  · simp [hp] at h1
  · omega

/-- An absent mandatory (`required`) substatement is rejected. -/
theorem build_rejects_missing_required {tbl : Schema} (h : WF tbl) {s : Stmt} {p : Option Nat}
    {t : Nat} {T : TypeDef} {f : Field} (ht : typeFor tbl s.kw = some t) (hT : tbl.types[t]? = some T)
    (hf : f ∈ T.fields) (hs : f.kind.isSub = true) (hr : f.required = true)
    (hnone : subsOf tbl f s.subs = []) : ∃ e, build tbl s p = .error e := by
  apply fails_of_not_ok
  intro a hb
  have hc := Goyang.Lemmas.Ast.card_of_ok (WF.toP h) hb ht hT hf
  simp only [cardOk, hs, hr, hnone, Bool.not_true, Bool.false_or, Bool.and_eq_true, Bool.or_eq_true,
    decide_eq_true_eq, List.length_nil] at hc
  omega

/-- An absent substatement that is mandatory for this keyword (`required=KIND`: module without
namespace or prefix, submodule without belongs-to) is rejected. -/
theorem build_rejects_missing_required_kind {tbl : Schema} (h : WF tbl) {s : Stmt} {p : Option Nat}
    {t : Nat} {T : TypeDef} {f : Field} (ht : typeFor tbl s.kw = some t) (hT : tbl.types[t]? = some T)
    (hf : f ∈ T.fields) (hs : f.kind.isSub = true)
    (hk : f.reqKinds.any (fun k => tbl.kwName k == some s.kw) = true)
    (hnone : subsOf tbl f s.subs = []) : ∃ e, build tbl s p = .error e := by
  apply fails_of_not_ok
  intro a hb
  have hc := Goyang.Lemmas.Ast.card_of_ok (WF.toP h) hb ht hT hf
  simp only [cardOk, hs, hk, hnone, Bool.not_true, Bool.false_or, Bool.and_eq_true, Bool.or_eq_true,
    decide_eq_true_eq, List.length_nil] at hc
  omega

/-- A substatement that is mandatory for a different keyword only (belongs-to in a module,
namespace in a submodule) is rejected. -/
theorem build_rejects_foreign_required {tbl : Schema} (h : WF tbl) {s : Stmt} {p : Option Nat}
    {t : Nat} {T : TypeDef} {f : Field} (ht : typeFor tbl s.kw = some t) (hT : tbl.types[t]? = some T)
    (hf : f ∈ T.fields) (hs : f.kind.isSub = true)
    (hk : f.reqKinds.any (fun k => tbl.kwName k != some s.kw) = true)
    (hsome : subsOf tbl f s.subs ≠ []) : ∃ e, build tbl s p = .error e := by
  apply fails_of_not_ok
  intro a hb
  have hc := Goyang.Lemmas.Ast.card_of_ok (WF.toP h) hb ht hT hf
  simp only [cardOk, hs, hk, Bool.not_true, Bool.false_or, Bool.and_eq_true, Bool.or_eq_true,
    beq_iff_eq] at hc
  exact hsome (List.length_eq_zero_iff.1 hc.2)

/-- A defect anywhere below a known substatement makes the enclosing build fail as well (so the
four rejections above apply at every depth). -/
theorem build_rejects_nested {tbl : Schema} (h : WF tbl) {s ss : Stmt} {p : Option Nat}
    (hss : ss ∈ s.subs)
    (hknown : ∀ t T, typeFor tbl s.kw = some t → tbl.types[t]? = some T → knownIn tbl T ss.kw = true)
    (hbad : accepts tbl ss = false) : ∃ e, build tbl s p = .error e := by
  apply fails_of_not_ok
  intro a hb
  obtain ⟨t, T, ht, hT, hsubs, _⟩ := accepts_unfold.1 (build_accepts h hb)
  have := ((acceptsSubs_unfold s.subs).1 hsubs ss hss).1 (hknown t T ht hT)
  rw [hbad] at this; cases this

/-- By spelling: when the table demands substatement `C` of statement `P` (`requiresB`), a `P`
without any `C` is rejected. -/
theorem build_rejects_missing_named {tbl : Schema} (h : WF tbl) {P C : Bytes} (hreq : requiresB tbl P C = true)
    {s : Stmt} {p : Option Nat} (hkw : s.kw = P) (hnone : ∀ ss ∈ s.subs, ss.kw ≠ C) :
    ∃ e, build tbl s p = .error e := by
  unfold requiresB at hreq
  split at hreq
  · cases hreq
  rename_i t ht
  split at hreq
  · cases hreq
  rename_i T hT
  rw [List.any_eq_true] at hreq
  obtain ⟨f, hf, hfc⟩ := hreq
  simp only [Bool.and_eq_true, fieldIs, beq_iff_eq, Bool.or_eq_true] at hfc
  obtain ⟨⟨hs, hname⟩, hr⟩ := hfc
  have hempty : subsOf tbl f s.subs = [] := by
    simp only [subsOf, List.filter_eq_nil_iff, beq_iff_eq]
    intro ss hss he
    rw [hname] at he
    exact hnone ss hss (Option.some.inj he).symm
  subst hkw
  rcases hr with hr | hr
  · exact build_rejects_missing_required h ht hT hf hs hr hempty
  · exact build_rejects_missing_required_kind h ht hT hf hs hr hempty

/-- For the regenerated table: leaf / leaf-list / typedef without type, import / belongs-to without
prefix, module without namespace or prefix, submodule without belongs-to, deviation without deviate
are rejected, wherever they occur. -/
theorem gen_rejects_named_mandatory {P C : Bytes} (hpc : (P, C) ∈ namedMandatory) {s : Stmt} {p : Option Nat}
    (hkw : s.kw = P) (hnone : ∀ ss ∈ s.subs, ss.kw ≠ C) : ∃ e, build table s p = .error e :=
  build_rejects_missing_named gen_table_wf
    (List.all_eq_true.1 gen_table_mandatory (P, C) hpc) hkw hnone

/-- A top-level statement that is not a module or submodule is always rejected — whatever else the
text contains — and not by a crash. -/
theorem build_rejects_toplevel_non_module {tbl : Schema} (h : WF tbl) {dup : List TopMod → TopMod → Bool}
    {ss : List Stmt} {s : Stmt} (hs : s ∈ ss) (hkw : s.kw ≠ kwModule ∧ s.kw ≠ kwSubmodule) :
    ∃ e, parseTop tbl dup ss = .error e ∧ e.cls ≠ .crash := by
  cases hp : parseTop tbl dup ss with
  | error e => exact ⟨e, rfl, Goyang.Lemmas.Ast.parseTop_no_crash (WF.toP h) hp⟩
  | ok mods =>
    exfalso
    have hacc := (parse_mirrors h hp).2
    simp only [acceptsTop, List.all_eq_true, Bool.and_eq_true, Bool.or_eq_true, beq_iff_eq] at hacc
    rcases (hacc s hs).1 with h1 | h1
    · exact hkw.1 h1
    · exact hkw.2 h1

/-! ### totality: no input reaches a panic -/

/-- `build` never reaches a path on which the Go code panics (nil `typeMap` entry, reflect type
mismatch, `Parent` of a non-`Node`), for an absent or proper enclosing node. -/
theorem build_total {tbl : Schema} (h : WF tbl) (s : Stmt) {p : Option Nat} (hp : ParentOk tbl p) :
    ∀ e, build tbl s p = .error e → e.cls ≠ .crash :=
  fun e he => Goyang.Lemmas.Ast.build_no_crash (WF.toP h) s p e hp he

/-- The same at top level (no enclosing node). -/
theorem build_total_top {tbl : Schema} (h : WF tbl) (s : Stmt) :
    ∀ e, build tbl s none = .error e → e.cls ≠ .crash :=
  build_total h s (Goyang.Lemmas.Ast.parentOk_none tbl)

/-- `Modules.Parse` (build of every top-level statement, then `add` of every node) never reaches a panic. -/
theorem parse_total {tbl : Schema} (h : WF tbl) (dup : List TopMod → TopMod → Bool) (ss : List Stmt) :
    ∀ e, parseTop tbl dup ss = .error e → e.cls ≠ .crash :=
  fun _ he => Goyang.Lemmas.Ast.parseTop_no_crash (WF.toP h) he

/-! ### non-vacuity: concrete inputs over the regenerated table -/

section Examples

private def b (s : String) : Bytes := s.toList.map (fun c => c.toNat.toUInt8)
private def st (kw arg : String) (subs : List Stmt := []) : Stmt := .mk (b kw) true (b arg) 1 1 subs
private def okB : Except Err ANode → Bool | .ok _ => true | .error _ => false
private def clsOf : Except Err ANode → Option ErrClass | .ok _ => none | .error e => some e.cls
private def topCls : Except Err (List TopMod) → Option ErrClass | .ok _ => none | .error e => some e.cls

private def goodModule : Stmt :=
  st "module" "m" [st "namespace" "n", st "prefix" "p", st "oc:ext" "v" [st "anything" "x"],
    st "leaf" "l" [st "type" "string"], st "leaf" "k" [st "type" "string" [st "length" "1..2"]]]

-- WF is satisfiable by a non-trivial table: `gen_table_wf` (the regenerated one: ~37 struct types).
example : 30 ≤ table.types.length ∧ 60 ≤ table.kwNames.length := by decide +kernel

-- build succeeds on a module with extensions, repeated and nested statements; the result mirrors it
example : okB (build table goodModule none) = true := by decide +kernel
example : (match build table goodModule none with
    | .ok a => mirrors table none a goodModule | .error _ => false) = true := by decide +kernel
example : accepts table goodModule = true := by decide +kernel

-- the four rejections, on concrete inputs (error class as the Go code reports it)
example : clsOf (build table (st "module" "m" [st "namespace" "n", st "prefix" "p", st "foo" "x"]) none)
    = some .unknownField := by decide +kernel
example : clsOf (build table (st "module" "m" [st "namespace" "n", st "prefix" "p", st "namespace" "q"]) none)
    = some .alreadySet := by decide +kernel
example : clsOf (build table (st "module" "m" [st "namespace" "n", st "prefix" "p", st "leaf" "l"]) none)
    = some .missing := by decide +kernel
example : clsOf (build table (st "submodule" "s") none) = some .missing := by decide +kernel
example : clsOf (build table (st "module" "m" [st "namespace" "n", st "prefix" "p",
    st "belongs-to" "x" [st "prefix" "p"]]) none) = some .unknownField := by decide +kernel
example : topCls (parseTop table (fun _ _ => false) [st "container" "c"]) = some .notModule := by decide +kernel
example : topCls (parseTop table (fun _ _ => false) [goodModule, st "foo" "x"]) = some .unknownStmt := by decide +kernel

-- an extension statement whose local name is that of the mandatory substatement does not stand in for it
example : clsOf (build table (st "leaf" "x" [st "d2:type" "string"]) none) = some .missing := by decide +kernel
example : clsOf (build table (st "module" "m" [st "prefix" "m", st "m:namespace" "urn:m"]) none)
    = some .missing := by decide +kernel
example : accepts table (st "leaf" "x" [st "d2:type" "string"]) = false := by decide +kernel
example : okB (build table (st "leaf" "x" [st "d2:type" "int8", st "type" "string"]) none) = true := by
  decide +kernel

-- Modules.add refuses a module name with '@' (registry rule, fix b0bffce), after the kind check
example : topCls (parseTop table (fun _ _ => false) [st "module" "a@b" [st "namespace" "n", st "prefix" "p"]])
    = some .badName := by decide +kernel
example : topCls (parseTop table (fun _ _ => false) [st "container" "a@b"]) = some .notModule := by
  decide +kernel

-- the witnesses of the repaired defects D1 / D2 are now plain rejections
example : clsOf (build table (st "foo" "x") none) = some .unknownStmt := by decide +kernel
example : clsOf (build table (st "module" "m" [st "namespace" "n", st "prefix" "p", st "Parent" "x"]) none)
    = some .unknownField := by decide +kernel
example : clsOf (build table (st "module" "m" [st "namespace" "n", st "prefix" "p", st "Statement" "x"]) none)
    = some .unknownField := by decide +kernel
example : clsOf (build table (st "module" "" [st "namespace" "n", st "prefix" "p", st "Name" "x"]) none)
    = some .unknownField := by decide +kernel

-- hypotheses of the rejection theorems are satisfiable
example : typeFor table (b "foo") = none := by decide +kernel
example : (b "leaf", b "type") ∈ namedMandatory := by decide +kernel
example : prefixed (b "foo") = false ∧ prefixed (b "oc:ext") = true ∧ prefixed (b "a:b:c") = false := by
  decide +kernel
example : (match typeFor table (b "leaf") with
    | some t =>
      match table.types[t]? with
      | some T => T.fields.any (fun f => f.kind == .ptr && f.required && table.kwName f.tag == some (b "type"))
      | none => false
    | none => false) = true := by decide +kernel

-- `build_rejects_unknown`: `foo` is neither prefixed nor known under `module`
example : (match typeFor table (b "module") with
    | some t =>
      match table.types[t]? with
      | some T => knownIn table T (b "foo") || knownIn table T (b "Parent") || knownIn table T (b "Name") ||
          knownIn table T (b "Statement") || knownIn table T (b "Ext")
      | none => true
    | none => true) = false := by decide +kernel

-- `build_rejects_duplicate_single`: `namespace` twice under `module` is two entries of one pointer field
example : (match typeFor table (b "module") with
    | some t =>
      match table.types[t]? with
      | some T => T.fields.any (fun f => f.kind == .ptr &&
          decide (2 ≤ (subsOf table f [st "namespace" "n", st "prefix" "p", st "namespace" "q"]).length))
      | none => false
    | none => false) = true := by decide +kernel

-- `build_rejects_foreign_required`: `belongs-to` is mandatory for `submodule`, hence forbidden in `module`
example : (match typeFor table (b "module") with
    | some t =>
      match table.types[t]? with
      | some T => T.fields.any (fun f => f.kind.isSub && table.kwName f.tag == some (b "belongs-to") &&
          f.reqKinds.any (fun k => table.kwName k != some (b "module")))
      | none => false
    | none => false) = true := by decide +kernel

-- `build_rejects_toplevel_non_module`, `build_total`: their hypotheses on concrete data
example : b "container" ≠ kwModule ∧ b "container" ≠ kwSubmodule := by decide +kernel
example : ParentOk table none := Goyang.Lemmas.Ast.parentOk_none table
example : ParentOk table (some table.moduleTy) := by
  intro pt hpt
  cases hpt
  have hlt : table.moduleTy < table.types.length := by decide +kernel
  exact ⟨table.types[table.moduleTy], List.getElem?_eq_getElem hlt,
    ((WF.toP gen_table_wf).types _ (List.getElem_mem hlt)).isNode⟩

end Examples

end Goyang.Props.C03
