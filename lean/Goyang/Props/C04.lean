import Goyang.Spec.Tree
import Goyang.Lemmas.Tree
/-
C04 — a clean Process yields proper trees and really means there were no errors.
Property theorems only; helper lemmas live in Goyang/Lemmas/Tree.lean, the tree predicates in
Goyang/Spec/Tree.lean.

Reading aid.  `processAll reg opts plug` is the model of `Modules.Process()` on a registry of
loaded (sub)modules; its `errors` field is what Go returns (a canonical set), its `forest` holds
one tree per (sub)module (`ToEntry(m)` after processing).  `plug` carries the stages that live in
other layers (type resolution, identities, typedefs) and is universally quantified: nothing is
assumed about them unless stated.  `NoErrors`, `KeysUnique`, `KindsConsistent`, `WFTree`,
`NoPending` are the decidable tree predicates of Spec/Tree.lean; `ForestAll P f` says every tree
of the forest satisfies `P`.

What is not provable here by construction: parent pointers and object identity (the model's trees
are values).  That half of the property is checked by the Go-side pointer walk of
harness/cmd/corr-c04 on every explored input.
-/
namespace Goyang.Props.C04
open Goyang.Model Goyang.Spec.Tree

/-- An empty canonical error list means there were no errors (canonicalisation sorts and
de-duplicates; it never drops the last copy). -/
theorem canonErrs_empty_iff (l : List Err) : canonErrs l = [] ↔ l = [] :=
  ⟨Lemmas.Tree.canonErrs_eq_nil l, fun h => by subst h; rfl⟩

/-- "An empty error list from processing means there were none": when `Process` returns no
errors, no node of any tree it leaves behind (rpc input and output included) carries a recorded
error.  For every registry, option set and plugged-in type/identity stage. -/
theorem process_clean_no_errors (reg : Registry) (opts : Opts) (plug : Plug)
    (h : (processAll reg opts plug).errors = []) :
    ∀ t ∈ (processAll reg opts plug).forest.trees, NoErrors t.2 :=
  Lemmas.Tree.process_clean_no_errors reg opts plug h

/-- The specification's `NoErrors` is exactly "the model's error walk (`checkErrors`, which after
the repair visits rpc input and output) finds nothing". -/
theorem noErrors_iff_walk_empty (e : Entry) : NoErrors e ↔ e.allErrors = [] :=
  Lemmas.Tree.noErrors_iff e

/-- "No augment is left unapplied": when `Process` returns no errors, the pending-augment list
(`Entry.Augments`) of every tree is empty in the state `Process` reaches before it applies the
deviations (`Lemmas.Tree.preDev`: the `processAll` pipeline up to that point, named; deviations do
not touch pending lists).  Reason: the last pass records an `augment-not-found` error on the root of
every tree that keeps one, and a root error never disappears. -/
theorem process_clean_no_pending (reg : Registry) (opts : Opts) (plug : Plug)
    (h : (processAll reg opts plug).errors = []) : NoPending (Lemmas.Tree.preDev reg opts plug) :=
  Lemmas.Tree.process_clean_no_pending reg opts plug h

/-- `Lemmas.Tree.preDev` really is the state inside `processAll`: the outcome is computed from it
(definitional unfolding of `processAll` into its named stages). -/
theorem processAll_stages (reg : Registry) (opts : Opts) (plug : Plug) :
    processAll reg opts plug =
      if !(Lemmas.Tree.stage1Errs reg plug).isEmpty then
        { errors := canonErrs (Lemmas.Tree.stage1Errs reg plug), forest := {}, reg := reg } else
      if !(Lemmas.Tree.forestErrs (Lemmas.Tree.forest0 reg opts plug)).isEmpty then
        { errors := canonErrs (Lemmas.Tree.forestErrs (Lemmas.Tree.forest0 reg opts plug)),
          forest := Lemmas.Tree.forest0 reg opts plug, reg := reg } else
      { errors := canonErrs (Lemmas.Tree.forestErrs (Lemmas.Tree.preDev reg opts plug).forest ++
          (Lemmas.Tree.devStage reg opts plug (Lemmas.Tree.preDev reg opts plug).forest).2.1),
        forest := (Lemmas.Tree.devStage reg opts plug (Lemmas.Tree.preDev reg opts plug).forest).1, reg := reg } :=
  Lemmas.Tree.processAll_eq reg opts plug

/-- After `FixChoice`, every child of every choice node that carries no error of its own is a
case (for every tree). -/
theorem fixChoice_cases (e : Entry) : ChoiceCases (fixChoice e) := Lemmas.Tree.fixChoice_cases e

/-- `FixChoice` is idempotent. -/
theorem fixChoice_idem (e : Entry) : fixChoice (fixChoice e) = fixChoice e := Lemmas.Tree.fixChoice_idem e

end Goyang.Props.C04
