import Goyang.Spec.Tree
import Goyang.Lemmas.Tree
/-
C04 — a clean Process yields proper trees and really means there were no errors.
Property theorems only; helper lemmas live in Goyang/Lemmas/Tree.lean, the tree predicates in
Goyang/Spec/Tree.lean.

Reading aid.  `processAll reg opts plug` is the model of `Modules.Process()` on a registry of
loaded (sub)modules; its `errors` field is what Go returns (a canonical set), its `forest` holds
one tree per (sub)module (`ToEntry(m)` after processing).  `plug` carries the stages that live in
other layers (type resolution, identities, typedefs) and is universally quantified: nothing is
assumed about them unless stated (`TypeResTotal`).  `NoErrors`, `KeysUnique`, `KindsConsistent`,
`WFTree` (= `KeysUnique ∧ KindsConsistent`), `TypesPresent`, `ChoiceCases`, `NoPending` are the
decidable tree predicates of Spec/Tree.lean, each of the form "this local condition holds at every
node, rpc input and output included".

What is not provable here by construction: parent pointers and object identity (the model's trees
are values: a copy is a copy).  That half of the property — `child.Parent == parent`, every
`*Entry`, `*ListAttr`, `*RPCEntry` reached by exactly one path over all modules and the grouping
cache — is checked by the Go-side pointer walk of harness/cmd/corr-c04 on every explored input.
-/
namespace Goyang.Props.C04
open Goyang.Model Goyang.Spec.Tree

/-! ### an empty error list means there were none -/

/-- An empty canonical error list means there were no errors (canonicalisation sorts and
de-duplicates; it never drops the last copy). -/
theorem canonErrs_empty_iff (l : List Err) : canonErrs l = [] ↔ l = [] :=
  ⟨Lemmas.Tree.canonErrs_eq_nil l, fun h => by subst h; rfl⟩

/-- The specification's `NoErrors` is exactly "the model's error walk (`checkErrors`, which after
the repair visits rpc input and output) finds nothing". -/
theorem noErrors_iff_walk_empty (e : Entry) : NoErrors e ↔ e.allErrors = [] :=
  Lemmas.Tree.noErrors_iff e

/-- "An empty error list from processing means there were none": when `Process` returns no
errors, no node of any tree it leaves behind (rpc input and output included) carries a recorded
error.  For every registry, option set and plugged-in type/identity stage.  (The deviation stage
returns its errors instead of recording them; a deviation whose target prefix cannot be resolved
records one on the tree and then fails, so it is returned as well.) -/
theorem process_clean_no_errors (reg : Registry) (opts : Opts) (plug : Plug)
    (h : (processAll reg opts plug).errors = []) :
    ∀ t ∈ (processAll reg opts plug).forest.trees, NoErrors t.2 :=
  Lemmas.Tree.process_clean_no_errors reg opts plug h

/-! ### no augment is left unapplied -/

/-- `Lemmas.Tree.preDev` really is the state inside `processAll` before the deviations are
applied: the outcome is computed from it (definitional unfolding of `processAll` into its named
stages; the pending lists are not part of the `Outcome`, so they are exposed this way). -/
theorem processAll_stages (reg : Registry) (opts : Opts) (plug : Plug) :
    processAll reg opts plug =
      if !(Lemmas.Tree.stage1Errs reg plug).isEmpty then
        { errors := canonErrs (Lemmas.Tree.stage1Errs reg plug), forest := {}, reg := reg } else
      if !(Lemmas.Tree.forestErrs (Lemmas.Tree.forest0 reg opts plug)).isEmpty then
        { errors := canonErrs (Lemmas.Tree.forestErrs (Lemmas.Tree.forest0 reg opts plug)),
          forest := Lemmas.Tree.forest0 reg opts plug, reg := reg } else
      { errors := canonErrs (Lemmas.Tree.forestErrs (Lemmas.Tree.preDev reg opts plug).forest ++
          (Lemmas.Tree.devStage reg opts plug (Lemmas.Tree.preDev reg opts plug).forest).2.1),
        forest := (Lemmas.Tree.devStage reg opts plug (Lemmas.Tree.preDev reg opts plug).forest).1, reg := reg } :=
  Lemmas.Tree.processAll_eq reg opts plug

/-- "No augment is left unapplied": when `Process` returns no errors, the pending-augment list
(`Entry.Augments`) of every tree is empty.  Reason: every tree with pending augments exists and is
still in the work list when the loop ends; the last pass records an `augment-not-found` error on
the root of every tree that keeps one; and a root error never disappears. -/
theorem process_clean_no_pending (reg : Registry) (opts : Opts) (plug : Plug)
    (h : (processAll reg opts plug).errors = []) : NoPending (Lemmas.Tree.preDev reg opts plug) :=
  Lemmas.Tree.process_clean_no_pending reg opts plug h

/-! ### FixChoice -/

/-- After `FixChoice`, every child of every choice node that carries no error of its own is a
case (for every tree whatsoever). -/
theorem fixChoice_cases (e : Entry) : ChoiceCases (fixChoice e) := Lemmas.Tree.fixChoice_cases e

/-- `FixChoice` is idempotent. -/
theorem fixChoice_idem (e : Entry) : fixChoice (fixChoice e) = fixChoice e := Lemmas.Tree.fixChoice_idem e

/-! ### ToEntry -/

/-- `ToEntry` of any statement, from a fresh cache, for every fuel: if the resulting tree carries
no error then the names of the children of every node are pairwise different (the directory case
is a fold over the statement's fields; `add` and `merge` refuse a taken name with an error). -/
theorem toEntry_keysUnique (env : Env) (fuel : Nat) (root : Mod) (scope : List Stmt) (n : Stmt)
    (visiting : List NodeId) :
    NoErrors (toEntry env fuel root scope n visiting {}).1 → KeysUnique (toEntry env fuel root scope n visiting {}).1 := by
  intro hne
  have := (Lemmas.Tree.toEntry_ok (Lemmas.Tree.closed_cond (Lemmas.Tree.localOK_wfq env)) fuel root scope n visiting {}
    [] (Lemmas.Tree.stOK_empty _ _)).1 hne
  exact Lemmas.Tree.everyNode_imp _ _ (fun x hx => by
    simp only [Lemmas.Tree.wfq, Bool.and_eq_true] at hx; exact hx.1.1) _ this

/-! ### the proper-tree half that a pure tree can express -/

/-- **C04, value level.**  When `Process` returns no errors, every tree it leaves behind is a
proper tree — sibling names pairwise different at every node, at most one rpc input and output;
a node is of leaf kind exactly when it has no child map; only leaf-lists and lists carry list
attributes; every child of a choice is a case — and carries no recorded error anywhere.  For every
registry, option set and plugged-in type/identity stage; along the whole pipeline: `ToEntry` with
`uses`, `include`, grouping cache; the augment loop with its lazily created rpc input/output; both
`FixChoice` passes; the deviations with replacement and removal of nodes. -/
theorem process_clean_wf (reg : Registry) (opts : Opts) (plug : Plug)
    (h : (processAll reg opts plug).errors = []) :
    ∀ t ∈ (processAll reg opts plug).forest.trees, WFTree t.2 ∧ NoErrors t.2 :=
  Lemmas.Tree.process_clean_wf reg opts plug h

/-- "Leaves and leaf-lists have a resolved type", relative to the plugged-in resolver: if the
resolver reports an error whenever it yields no type, then after a clean `Process` every leaf-kind
node whose source statement has a `type` substatement (the AST builder rejects a leaf or leaf-list
without one) has a type. -/
theorem process_clean_types (reg : Registry) (opts : Opts) (plug : Plug) (htot : TypeResTotal plug.tres)
    (h : (processAll reg opts plug).errors = []) :
    ∀ t ∈ (processAll reg opts plug).forest.trees, TypesPresent t.2 :=
  Lemmas.Tree.process_clean_types reg opts plug htot h

/-! ### the hypotheses are satisfiable (kernel-checked on concrete registries) -/

namespace Ex

def st (line : Nat) (kw arg : String) (subs : List Stmt := []) : Stmt := .mk kw true arg "x.yang" line 1 subs

/-- `module a`: a grouping, a container that uses it, a choice with a shorthand member and a case. -/
def modA : Stmt :=
  st 1 "module" "a" [
    st 2 "namespace" "urn:a", st 3 "prefix" "a",
    st 4 "grouping" "g" [st 5 "leaf" "x" [st 6 "type" "string"]],
    st 7 "container" "c" [
      st 8 "uses" "g",
      st 9 "choice" "ch" [
        st 10 "leaf" "y" [st 11 "type" "string"],
        st 12 "case" "k" [st 13 "leaf" "z" [st 14 "type" "string"]]]]]

/-- `module b`: imports `a` and augments `/a:c`. -/
def modB : Stmt :=
  st 1 "module" "b" [
    st 2 "namespace" "urn:b", st 3 "prefix" "b",
    st 4 "import" "a" [st 5 "prefix" "a"],
    st 6 "augment" "/a:c" [st 7 "leaf" "w" [st 8 "type" "string"]]]

def reg1 : Registry := (Registry.loadAll [modA]).1
def reg2 : Registry := (Registry.loadAll [modA, modB]).1

def plug : Plug :=
  { tres := { resolve := fun _ _ _ t => (some { dump := t.arg }, []) },
    identityErrs := fun _ => [], typedefErrs := fun _ => [] }

/-- The whole pipeline on `a` (uses, choice with a shorthand member): no errors, one tree, and the
conclusions of the theorems hold of it (evaluated by the kernel, independently of the proofs). -/
example : (processAll reg1 {} plug).errors = [] := by decide +kernel
example : (processAll reg1 {} plug).forest.trees.length = 1 := by decide +kernel
example : ∀ t ∈ (processAll reg1 {} plug).forest.trees, WFTree t.2 ∧ NoErrors t.2 ∧ TypesPresent t.2 := by
  decide +kernel
example : TypeResTotal plug.tres := fun _ _ _ _ _ => rfl

/-- The two-module set with the augment: the first two stages are clean and the augment of `b` is
pending (kernel-checked).  The rest of the pipeline on this set (`find` of `/a:c`) goes through
`String.splitOn`, which the kernel does not evaluate on a string that starts with the separator;
`#eval (processAll reg2 {} plug).errors` gives `[]` with the augment applied, and the
correspondence run exercises such sets by the thousand. -/
example : Lemmas.Tree.stage1Errs reg2 plug = [] ∧
    Lemmas.Tree.forestErrs (Lemmas.Tree.forest0 reg2 {} plug) = [] ∧
    (Lemmas.Tree.pending0 reg2 {} plug).map (fun p => (p.1, p.2.length)) = [(0, 0), (1, 1)] := by decide +kernel

end Ex

end Goyang.Props.C04
