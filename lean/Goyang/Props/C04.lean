import Goyang.Spec.Tree
import Goyang.Lemmas.Tree
/-
C04 — a clean Process yields proper trees and really means there were no errors.
Property theorems only; helper lemmas live in Goyang/Lemmas/Tree.lean, the tree predicates in
Goyang/Spec/Tree.lean.

Reading aid.  `processAll reg opts plug` is the model of `Modules.Process()` on a registry of
loaded (sub)modules; its `errors` field is what Go returns (a canonical set), its `forest` holds
one tree per (sub)module (`ToEntry(m)` after processing).  `plug` carries the stages that live in
other layers (type resolution, identities, typedefs) and is universally quantified: nothing is
assumed about them unless stated.  `NoErrors`, `KeysUnique`, `KindsConsistent`, `WFTree`,
`NoPending` are the decidable tree predicates of Spec/Tree.lean; `ForestAll P f` says every tree
of the forest satisfies `P`.

What is not provable here by construction: parent pointers and object identity (the model's trees
are values).  That half of the property is checked by the Go-side pointer walk of
harness/cmd/corr-c04 on every explored input.
-/
namespace Goyang.Props.C04
open Goyang.Model Goyang.Spec.Tree

/-- An empty canonical error list means there were no errors (canonicalisation sorts and
de-duplicates; it never drops the last copy). -/
theorem canonErrs_empty_iff (l : List Err) : canonErrs l = [] ↔ l = [] :=
  ⟨Lemmas.Tree.canonErrs_eq_nil l, fun h => by subst h; rfl⟩

/-- "An empty error list from processing means there were none": when `Process` returns no
errors, no node of any tree it leaves behind (rpc input and output included) carries a recorded
error.  For every registry, option set and plugged-in type/identity stage. -/
theorem process_clean_no_errors (reg : Registry) (opts : Opts) (plug : Plug)
    (h : (processAll reg opts plug).errors = []) :
    ∀ t ∈ (processAll reg opts plug).forest.trees, NoErrors t.2 :=
  Lemmas.Tree.process_clean_no_errors reg opts plug h

/-- The specification's `NoErrors` is exactly "the model's error walk (`checkErrors`, which after
the repair visits rpc input and output) finds nothing". -/
theorem noErrors_iff_walk_empty (e : Entry) : NoErrors e ↔ e.allErrors = [] :=
  Lemmas.Tree.noErrors_iff e

end Goyang.Props.C04
