import Goyang.Lemmas.ErrorSort
/-
Property C05: same sources and options give the same result, whatever the load order.

Part 1 (this section): the returned error list.  `errorSort` (pkg/yang/entry.go, as repaired by
ba2230f + b1f5bf9) orders the collected errors with a comparator that is a strict total order on
message strings; therefore the sorted, de-duplicated list is a function of the *set* of messages:
it does not depend on the order in which the errors were collected (any map iteration order, any
load order that yields the same messages) nor on which permutation the unstable `sort.Sort`
leaves among candidates — there are no ties.  The list is ordered by file, then line and column
numerically, without duplicates (Spec/ErrorSort.lean).

The comparator of the unchanged tree was not transitive (D24/D37) and the one of ba2230f alone
still left ties between different messages (D47); both are kept in the model and refuted here on
the witnesses that were observed on the real code.
-/
namespace Goyang.Props.C05
open Goyang.Model.ErrorSort Goyang.Lemmas.ErrorSort

/-- Strictly sorted with respect to `sortedErrors.Less`. -/
abbrev StrictSorted (l : List Msg) : Prop := l.Pairwise (fun a b => less a b = true)

/-- `sortedErrors.Less` is a strict total order on message strings: irreflexive, transitive, and
any two different messages are comparable.  (What the comparator of the unchanged tree lacked.) -/
theorem less_strict_total :
    (∀ a, less a a = false) ∧
    (∀ a b c, less a b = true → less b c = true → less a c = true) ∧
    (∀ a b, a ≠ b → less a b = true ∨ less b a = true) :=
  ⟨less_irrefl, fun _ _ _ => less_trans, fun _ _ => less_total⟩

/-- A multiset of messages has at most one strictly sorted arrangement. -/
theorem errorSort_unique {l₁ l₂ : List Msg} (h₁ : StrictSorted l₁) (h₂ : StrictSorted l₂) (hp : l₁.Perm l₂) :
    l₁ = l₂ :=
  sorted_ext h₁ h₂ fun _ => hp.mem_iff

/-- The model's `errorSort` is one of the results Go's `errorSort` may return … -/
theorem errorSort_isResult (l : List Msg) : IsResult l (errorSort l) :=
  Lemmas.ErrorSort.errorSort_isResult l

/-- … and whatever `sort.Sort` does within its contract (a permutation on which `sort.IsSorted`
holds), and in whatever order the errors were collected — even with what multiplicity —, the
returned list is the same: it is a function of the set of messages. -/
theorem errorSort_set_invariant {l₁ l₂ r₁ r₂ : List Msg} (hm : ∀ x, x ∈ l₁ ↔ x ∈ l₂)
    (h₁ : IsResult l₁ r₁) (h₂ : IsResult l₂ r₂) : r₁ = r₂ := by
  have s₁ := isResult_spec h₁
  have s₂ := isResult_spec h₂
  exact sorted_ext s₁.1 s₂.1 fun x => (s₁.2 x).trans ((hm x).trans (s₂.2 x).symm)

/-- The result does not depend on the order in which the errors were collected. -/
theorem errorSort_perm_invariant {l₁ l₂ r₁ r₂ : List Msg} (hp : l₁.Perm l₂)
    (h₁ : IsResult l₁ r₁) (h₂ : IsResult l₂ r₂) : r₁ = r₂ :=
  errorSort_set_invariant (fun _ => hp.mem_iff) h₁ h₂

/-- In particular every possible Go result is the model's. -/
theorem errorSort_determined {l r : List Msg} (h : IsResult l r) : r = errorSort l :=
  errorSort_perm_invariant (List.Perm.refl l) h (errorSort_isResult l)

/-- The returned list is ordered by file, then line and column numerically, has no duplicates
(`Spec.ErrorSort.Sorted`), consists of exactly the collected messages, and is strictly sorted by
the comparator. -/
theorem errorSort_sorted_dedup {l r : List Msg} (h : IsResult l r) :
    Spec.ErrorSort.Sorted r ∧ (∀ x, x ∈ r ↔ x ∈ l) ∧ StrictSorted r := by
  have s := isResult_spec h
  refine ⟨⟨s.1.imp less_inOrder, s.1.imp ?_⟩, s.2, s.1⟩
  intro a b hab e
  subst e
  rw [less_irrefl] at hab
  exact absurd hab (by simp)

/-- The executable form of the specification used by the correspondence runner is the
specification. -/
theorem sortedB_iff (l : List Msg) : Spec.ErrorSort.sortedB l = true ↔ Spec.ErrorSort.Sorted l :=
  Lemmas.ErrorSort.sortedB_iff l

/-! Non-vacuity and the witnesses.  `m2`, `m10`, `m1x` are the three position-less messages of
D37, shortened to `t, /b:2`, `t, /b:10`, `t, /b:1x` (the text before the comma does not matter). -/

def m2 : Msg := [116, 44, 32, 47, 98, 58, 50]
def m10 : Msg := [116, 44, 32, 47, 98, 58, 49, 48]
def m1x : Msg := [116, 44, 32, 47, 98, 58, 49, 120]
/-- `a.yang:2:1: x`, `a.yang:10:1: x`, `a.yang:10:1: x` again, `b.yang:1:1: x` -/
def pA2 : Msg := [97, 46, 121, 97, 110, 103, 58, 50, 58, 49, 58, 32, 120]
def pA10 : Msg := [97, 46, 121, 97, 110, 103, 58, 49, 48, 58, 49, 58, 32, 120]
def pB1 : Msg := [98, 46, 121, 97, 110, 103, 58, 49, 58, 49, 58, 32, 120]

/-- Numbers before text: 2 < 10 < 1x, in every collection order, duplicates dropped. -/
example : errorSort [m1x, m10, m2] = [m2, m10, m1x] := by decide
example : errorSort [m10, m2, m1x, m2] = [m2, m10, m1x] := by decide
example : errorSort [m2, m1x, m10] = [m2, m10, m1x] := by decide
/-- Lines are compared as numbers (2 before 10), files as strings, duplicates dropped; messages
without a position sort by their own text (`t…` after `a.yang…`, `b.yang…`). -/
example : errorSort [pB1, pA10, m2, pA2, pA10] = [pA2, pA10, pB1, m2] := by decide
example : Spec.ErrorSort.Sorted [pA2, pA10, pB1, m2] := (sortedB_iff _).mp (by decide)
example : ¬ Spec.ErrorSort.Sorted [pA10, pA2] := fun h => absurd ((sortedB_iff _).mpr h) (by decide)
example : ¬ Spec.ErrorSort.Sorted [pA2, pA2] := fun h => absurd ((sortedB_iff _).mpr h) (by decide)
example : StrictSorted [m2, m10, m1x] ∧ [m2, m10, m1x].Perm [m1x, m2, m10] := by decide
/-- `strconv.Atoi` boundary: 2^63 - 1 is a number, 2^63 is text (range error), -2^63 is a number. -/
example : atoi [57, 50, 50, 51, 51, 55, 50, 48, 51, 54, 56, 53, 52, 55, 55, 53, 56, 48, 55] = some 9223372036854775807 := by decide
example : atoi [57, 50, 50, 51, 51, 55, 50, 48, 51, 54, 56, 53, 52, 55, 55, 53, 56, 48, 56] = none := by decide
example : atoi [45, 57, 50, 50, 51, 51, 55, 50, 48, 51, 54, 56, 53, 52, 55, 55, 53, 56, 48, 56] = some (-9223372036854775808) := by decide
example : atoi [43, 48, 50] = some 2 ∧ atoi [45] = none ∧ atoi [] = none ∧ atoi [49, 95, 48] = none := by decide

/-- D24/D37: the comparator of the unchanged tree is not transitive — on the observed witness it
is even cyclic: `/b:2` < `/b:10` (as numbers), `/b:10` < `/b:1x` and `/b:1x` < `/b:2` (as text). -/
theorem less_old_not_transitive :
    lessOld m2 m10 = true ∧ lessOld m10 m1x = true ∧ lessOld m2 m1x = false ∧ lessOld m1x m2 = true := by
  decide

/-- D47: with ba2230f alone two different short messages whose fields are equal as numbers
(`t, /b:2` and `t, /b:02`) were still tied, so the unstable sort decided their order. -/
theorem less_mid_not_total :
    let a : Msg := [116, 44, 32, 47, 98, 58, 50]
    let b : Msg := [116, 44, 32, 47, 98, 58, 48, 50]
    a ≠ b ∧ lessMid a b = false ∧ lessMid b a = false ∧ (less a b = true ∨ less b a = true) := by
  decide

end Goyang.Props.C05
