import Goyang.Lemmas.ErrorSort
import Goyang.Lemmas.OrderIndep
import Goyang.Lemmas.Cli
import Goyang.Model.Pipeline
/-
Property C05: same sources and options give the same result, whatever the load order.

Part 1 (this section): the returned error list.  `errorSort` (pkg/yang/entry.go, as repaired by
ba2230f + b1f5bf9) orders the collected errors with a comparator that is a strict total order on
message strings; therefore the sorted, de-duplicated list is a function of the *set* of messages:
it does not depend on the order in which the errors were collected (any map iteration order, any
load order that yields the same messages) nor on which permutation the unstable `sort.Sort`
leaves among candidates — there are no ties.  The list is ordered by file, then line and column
numerically, without duplicates (Spec/ErrorSort.lean).

The comparator of the unchanged tree was not transitive (D24/D37) and the one of ba2230f alone
still left ties between different messages (D47); both are kept in the model and refuted here on
the witnesses that were observed on the real code.
-/
namespace Goyang.Props.C05
open Goyang.Model.ErrorSort Goyang.Lemmas.ErrorSort

/-- Strictly sorted with respect to `sortedErrors.Less`. -/
abbrev StrictSorted (l : List Msg) : Prop := l.Pairwise (fun a b => less a b = true)

/-- `sortedErrors.Less` is a strict total order on message strings: irreflexive, transitive, and
any two different messages are comparable.  (What the comparator of the unchanged tree lacked.) -/
theorem less_strict_total :
    (∀ a, less a a = false) ∧
    (∀ a b c, less a b = true → less b c = true → less a c = true) ∧
    (∀ a b, a ≠ b → less a b = true ∨ less b a = true) :=
  ⟨less_irrefl, fun _ _ _ => less_trans, fun _ _ => less_total⟩

/-- A multiset of messages has at most one strictly sorted arrangement. -/
theorem errorSort_unique {l₁ l₂ : List Msg} (h₁ : StrictSorted l₁) (h₂ : StrictSorted l₂) (hp : l₁.Perm l₂) :
    l₁ = l₂ :=
  sorted_ext h₁ h₂ fun _ => hp.mem_iff

/-- The model's `errorSort` is one of the results Go's `errorSort` may return … -/
theorem errorSort_isResult (l : List Msg) : IsResult l (errorSort l) :=
  Lemmas.ErrorSort.errorSort_isResult l

/-- … and whatever `sort.Sort` does within its contract (a permutation on which `sort.IsSorted`
holds), and in whatever order the errors were collected — even with what multiplicity —, the
returned list is the same: it is a function of the set of messages. -/
theorem errorSort_set_invariant {l₁ l₂ r₁ r₂ : List Msg} (hm : ∀ x, x ∈ l₁ ↔ x ∈ l₂)
    (h₁ : IsResult l₁ r₁) (h₂ : IsResult l₂ r₂) : r₁ = r₂ := by
  have s₁ := isResult_spec h₁
  have s₂ := isResult_spec h₂
  exact sorted_ext s₁.1 s₂.1 fun x => (s₁.2 x).trans ((hm x).trans (s₂.2 x).symm)

/-- The result does not depend on the order in which the errors were collected. -/
theorem errorSort_perm_invariant {l₁ l₂ r₁ r₂ : List Msg} (hp : l₁.Perm l₂)
    (h₁ : IsResult l₁ r₁) (h₂ : IsResult l₂ r₂) : r₁ = r₂ :=
  errorSort_set_invariant (fun _ => hp.mem_iff) h₁ h₂

/-- In particular every possible Go result is the model's. -/
theorem errorSort_determined {l r : List Msg} (h : IsResult l r) : r = errorSort l :=
  errorSort_perm_invariant (List.Perm.refl l) h (errorSort_isResult l)

/-- The returned list is ordered by file, then line and column numerically, has no duplicates
(`Spec.ErrorSort.Sorted`), consists of exactly the collected messages, and is strictly sorted by
the comparator. -/
theorem errorSort_sorted_dedup {l r : List Msg} (h : IsResult l r) :
    Spec.ErrorSort.Sorted r ∧ (∀ x, x ∈ r ↔ x ∈ l) ∧ StrictSorted r := by
  have s := isResult_spec h
  refine ⟨⟨s.1.imp less_inOrder, s.1.imp ?_⟩, s.2, s.1⟩
  intro a b hab e
  subst e
  rw [less_irrefl] at hab
  exact absurd hab (by simp)

/-- The executable form of the specification used by the correspondence runner is the
specification. -/
theorem sortedB_iff (l : List Msg) : Spec.ErrorSort.sortedB l = true ↔ Spec.ErrorSort.Sorted l :=
  Lemmas.ErrorSort.sortedB_iff l

/-! Non-vacuity and the witnesses.  `m2`, `m10`, `m1x` are the three position-less messages of
D37, shortened to `t, /b:2`, `t, /b:10`, `t, /b:1x` (the text before the comma does not matter). -/

def m2 : Msg := [116, 44, 32, 47, 98, 58, 50]
def m10 : Msg := [116, 44, 32, 47, 98, 58, 49, 48]
def m1x : Msg := [116, 44, 32, 47, 98, 58, 49, 120]
/-- `a.yang:2:1: x`, `a.yang:10:1: x`, `a.yang:10:1: x` again, `b.yang:1:1: x` -/
def pA2 : Msg := [97, 46, 121, 97, 110, 103, 58, 50, 58, 49, 58, 32, 120]
def pA10 : Msg := [97, 46, 121, 97, 110, 103, 58, 49, 48, 58, 49, 58, 32, 120]
def pB1 : Msg := [98, 46, 121, 97, 110, 103, 58, 49, 58, 49, 58, 32, 120]

/-- Numbers before text: 2 < 10 < 1x, in every collection order, duplicates dropped. -/
example : errorSort [m1x, m10, m2] = [m2, m10, m1x] := by decide
example : errorSort [m10, m2, m1x, m2] = [m2, m10, m1x] := by decide
example : errorSort [m2, m1x, m10] = [m2, m10, m1x] := by decide
/-- Lines are compared as numbers (2 before 10), files as strings, duplicates dropped; messages
without a position sort by their own text (`t…` after `a.yang…`, `b.yang…`). -/
example : errorSort [pB1, pA10, m2, pA2, pA10] = [pA2, pA10, pB1, m2] := by decide
example : Spec.ErrorSort.Sorted [pA2, pA10, pB1, m2] := (sortedB_iff _).mp (by decide)
example : ¬ Spec.ErrorSort.Sorted [pA10, pA2] := fun h => absurd ((sortedB_iff _).mpr h) (by decide)
example : ¬ Spec.ErrorSort.Sorted [pA2, pA2] := fun h => absurd ((sortedB_iff _).mpr h) (by decide)
example : StrictSorted [m2, m10, m1x] ∧ [m2, m10, m1x].Perm [m1x, m2, m10] := by decide
/-- `strconv.Atoi` boundary: 2^63 - 1 is a number, 2^63 is text (range error), -2^63 is a number. -/
example : atoi [57, 50, 50, 51, 51, 55, 50, 48, 51, 54, 56, 53, 52, 55, 55, 53, 56, 48, 55] = some 9223372036854775807 := by decide
example : atoi [57, 50, 50, 51, 51, 55, 50, 48, 51, 54, 56, 53, 52, 55, 55, 53, 56, 48, 56] = none := by decide
example : atoi [45, 57, 50, 50, 51, 51, 55, 50, 48, 51, 54, 56, 53, 52, 55, 55, 53, 56, 48, 56] = some (-9223372036854775808) := by decide
example : atoi [43, 48, 50] = some 2 ∧ atoi [45] = none ∧ atoi [] = none ∧ atoi [49, 95, 48] = none := by decide

/-- D24/D37: the comparator of the unchanged tree is not transitive — on the observed witness it
is even cyclic: `/b:2` < `/b:10` (as numbers), `/b:10` < `/b:1x` and `/b:1x` < `/b:2` (as text). -/
theorem less_old_not_transitive :
    lessOld m2 m10 = true ∧ lessOld m10 m1x = true ∧ lessOld m2 m1x = false ∧ lessOld m1x m2 = true := by
  decide

/-- D47: with ba2230f alone two different short messages whose fields are equal as numbers
(`t, /b:2` and `t, /b:02`) were still tied, so the unstable sort decided their order. -/
theorem less_mid_not_total :
    let a : Msg := [116, 44, 32, 47, 98, 58, 50]
    let b : Msg := [116, 44, 32, 47, 98, 58, 48, 50]
    a ≠ b ∧ lessMid a b = false ∧ lessMid b a = false ∧ (less a b = true ∨ less b a = true) := by
  decide

/-! ## Part 2: the places where the resolver still walks a map

After the repairs every map walk of `Modules.Process` whose order could reach the result goes
over sorted keys (linking, conversion, the augment loop, deviations; identities and typedefs in
their layers), and the model follows those fixed orders.  What is left are walks whose order
provably cannot matter; in the model a Go map is the list of its values in *some* order, and
"any map order" is "any permutation of that list". -/

open Goyang.Model in
/-- `Entry.merge` (`for k, v := range oe.Dir`): walking `oe.Dir` in another order gives the same
children (as a set), the same multiset of recorded errors, and the same everything else.  The
keys of a map are unique: `hnd`. -/
theorem merge_perm (e : Entry) (ns : Option String) (od : EData) {c₁ c₂ : List Entry} (oi oo : List Entry)
    (h : c₁.Perm c₂) (hnd : (c₁.map Entry.name).Nodup) :
    (e.merge ns (.mk od c₁ oi oo)).dir.Perm (e.merge ns (.mk od c₂ oi oo)).dir ∧
    (e.merge ns (.mk od c₁ oi oo)).d.errors.Perm (e.merge ns (.mk od c₂ oi oo)).d.errors ∧
    { (e.merge ns (.mk od c₁ oi oo)).d with errors := [] } = { (e.merge ns (.mk od c₂ oi oo)).d with errors := [] } ∧
    (e.merge ns (.mk od c₁ oi oo)).inp = (e.merge ns (.mk od c₂ oi oo)).inp ∧
    (e.merge ns (.mk od c₁ oi oo)).out = (e.merge ns (.mk od c₂ oi oo)).out :=
  Lemmas.OrderIndep.merge_perm e ns od oi oo h hnd

open Goyang.Model in
/-- `checkErrors` / `importErrors` (`for _, e := range e.Dir`): the errors of a tree are collected
as a multiset, whatever the order of the walk. -/
theorem allErrors_perm (d : EData) {c₁ c₂ : List Entry} (i o : List Entry) (h : c₁.Perm c₂) :
    (Entry.allErrors (.mk d c₁ i o)).Perm (Entry.allErrors (.mk d c₂ i o)) :=
  Lemmas.OrderIndep.allErrors_perm d i o h

open Goyang.Model in
/-- `FixChoice` (two `range e.Dir` loops): another order of the walk gives the same children (as
a set) and changes nothing else; the new child is a function of the old child alone. -/
theorem fixChoice_perm (d : EData) {c₁ c₂ : List Entry} (i o : List Entry) (h : c₁.Perm c₂) :
    (fixChoice (.mk d c₁ i o)).dir.Perm (fixChoice (.mk d c₂ i o)).dir ∧
    (fixChoice (.mk d c₁ i o)).d = (fixChoice (.mk d c₂ i o)).d ∧
    (fixChoice (.mk d c₁ i o)).inp = (fixChoice (.mk d c₂ i o)).inp ∧
    (fixChoice (.mk d c₁ i o)).out = (fixChoice (.mk d c₂ i o)).out :=
  Lemmas.OrderIndep.fixChoice_perm d i o h

open Goyang.Model in
theorem fixChoice_children (d : EData) (c i o : List Entry) :
    (fixChoice (.mk d c i o)).dir =
      c.map fun ce => if d.kind == .choice && d.errors.isEmpty then Lemmas.OrderIndep.wrapOne (fixChoice ce) else fixChoice ce :=
  Lemmas.OrderIndep.fixChoice_children d c i o

open Goyang.Model in
/-- The canonical error set the model's outcome carries (and both sides of the correspondence
print) is a function of the multiset of collected errors. -/
theorem canonErrs_perm_invariant {l₁ l₂ : List Err} (h : l₁.Perm l₂) : canonErrs l₁ = canonErrs l₂ :=
  Lemmas.OrderIndep.canonErrs_perm_invariant h

open Goyang.Model in
/-- Putting the last two together: the errors `Process` reports after the augment stage do not
depend on the order in which the children of any one node were walked. -/
theorem sweep_perm_invariant (d : EData) {c₁ c₂ : List Entry} (i o : List Entry) (h : c₁.Perm c₂) (more : List Err) :
    canonErrs (Entry.allErrors (.mk d c₁ i o) ++ more) = canonErrs (Entry.allErrors (.mk d c₂ i o) ++ more) :=
  canonErrs_perm_invariant (List.Perm.append_right _ (allErrors_perm d i o h))

-- non-vacuity: two children, one of them colliding with a child of the target
section
open Goyang.Model
private def leafE (n : String) (errs : List Err := []) : Entry := .mk { name := n, kind := .leaf, hasDir := false, errors := errs } [] [] []
private def tgt : Entry := .mk { name := "c" } [leafE "x"] [] []
example : (([leafE "z", leafE "x"].map Entry.name).Nodup) ∧ [leafE "z", leafE "x"].Perm [leafE "x", leafE "z"] := by
  refine ⟨by decide, List.Perm.swap _ _ _⟩
example : ((tgt.merge (some "urn:a") (.mk {} [leafE "z", leafE "x"] [] [])).dir.map Entry.name,
           (tgt.merge (some "urn:a") (.mk {} [leafE "z", leafE "x"] [] [])).d.errors.length) = (["x", "z"], 1) := by decide
example : ((tgt.merge (some "urn:a") (.mk {} [leafE "x", leafE "z"] [] [])).dir.map Entry.name,
           (tgt.merge (some "urn:a") (.mk {} [leafE "x", leafE "z"] [] [])).d.errors.length) = (["x", "z"], 1) := by decide
example : canonErrs [Err.bare "b", { file := "f", line := 10, col := 1, cls := "a" }, { file := "f", line := 2, col := 1, cls := "a" }, Err.bare "b"] =
    [Err.bare "b", { file := "f", line := 2, col := 1, cls := "a" }, { file := "f", line := 10, col := 1, cls := "a" }] := by decide
end

/-! ### load order

Full strength as first written: processing does not depend on the order in which the sources
were loaded, for ANY list of texts.  Stated here as a proposition; as written it is FALSE of model
and code: two texts that define the same (kind, name, revision) are not a module set — the second
is refused, first come, first served — and the two orders give different results
(`Props.C05Order.process_load_order_unconditional_fails : ¬ ProcessLoadOrderIrrelevant`, witness
of `distinct_needed`, kernel-evaluated).  What is proved
(`Goyang/Props/C05Order.lean`, simulation through every layer of the resolver model under
renaming of the load sequence numbers `Mod.seq`):
* `C05Order.process_files_load_order_irrelevant`: this statement for texts whose modules are
  pairwise different (`Distinct`), arbitrary module names (a name with `@` is refused in every
  order); `process_files_load_order_irrelevant_acceptable`: texts refused on their own may be present;
* `C05Order.process_load_order_irrelevant`: the same for statement lists;
* `C05Order.process_determined_by_first_loads` / `process_stable_order_irrelevant`: for arbitrary
  load lists the outcome is a function of the first load of every header, hence invariant under
  rearrangements that keep the loads of each header in their relative order;
* `C05Order.refused_load_errors_perm`, `load_outcomes_perm`: the refusals are order independent;
* `C05Order.process_files_eq_accepted` / `process_files_determined_by_accepted`: texts that share
  headers (atomic `Modules.Parse`) — `processFiles` of a list of texts is `processFiles` of the
  texts accepted in that order, and orders that accept the same texts have the same outcome;
  `process_files_order_matters_with_shared_headers`: the accepted texts do depend on the order
  (first come, first served; same behaviour of the Go code).
The tie to the code: load-order independence of the *code* is checked by the correspondence
runner on every generated set (all or 24 / 200 sampled permutations per set; the driver is asked
for the reversed and a shuffled load order as well). -/
open Goyang.Model in
def ProcessLoadOrderIrrelevant : Prop :=
  ∀ (opts : Opts) (files₁ files₂ : List SrcFile), files₁.Perm files₂ →
    (processFiles opts files₁).toOption.map dumpOutcome = (processFiles opts files₂).toOption.map dumpOutcome

/-! ## Part 3: the command's renderings -/

open Goyang.Model.Cli in
/-- `--format tree` (tree.go `Write`): the rendering of an entry is a function of its `Dir` as a
set: walking the map in any order (any permutation of the children, whose keys are unique) prints
the same bytes. -/
theorem tree_render_deterministic (n : TNode) (inp out : List Tree) {d₁ d₂ : List Tree} (h : d₁.Perm d₂)
    (hnd : (d₁.map fun c => c.n.name).Nodup) : write (.mk n inp out d₁) = write (.mk n inp out d₂) := by
  simp only [write]
  rw [Lemmas.Cli.writeKids_eq_map d₁, Lemmas.Cli.writeKids_eq_map d₂]
  rw [Lemmas.Cli.sortBy_keyLt_perm (h.map _) (by rw [List.map_map]; exact hnd)]

open Goyang.Model.Cli in
/-- `--format types` (types.go `doTypes`): the set of types is rendered, the renderings are
sorted, so the output does not depend on the order in which the map `Types` is walked. -/
theorem types_render_deterministic {τ : Type} (printType : τ → Model.Indent.Bytes) {t₁ t₂ : List τ} (h : t₁.Perm t₂) :
    doTypes printType t₁ = doTypes printType t₂ := by
  simp only [doTypes]
  rw [Lemmas.Cli.sortBy_bytes_perm (h.map _)]

open Goyang.Model.Cli in
/-- The end of `main`: which entries are printed, and in which order, depends on `ms.Modules`
only as a set of (key, module name) pairs and on what the bare names are bound to (D51). -/
theorem select_deterministic {m₁ m₂ : List (Model.Indent.Bytes × Model.Indent.Bytes × Tree)} (bound : Model.Indent.Bytes → Option Tree)
    (h : ∀ x, x ∈ m₁.map (·.2.1) ↔ x ∈ m₂.map (·.2.1)) : selectEntries m₁ bound = selectEntries m₂ bound := by
  simp only [selectEntries]
  rw [Lemmas.Cli.sortBy_eraseDups_ext h]

section
open Goyang.Model.Cli
private def lf (k : String) : Tree := .mk { name := str k, shown := str k, hasDir := false, typeName := some (str "string") } [] [] []
private def top : TNode := { name := str "m", shown := str "m" }
example : write (.mk top [] [] [lf "z", lf "a", lf "k"]) = write (.mk top [] [] [lf "k", lf "z", lf "a"]) :=
  tree_render_deterministic top [] [] (List.perm_append_comm (l₁ := [lf "z", lf "a"]) (l₂ := [lf "k"])) (by decide +kernel)
example : write (.mk top [] [] [lf "z", lf "a"]) = str "rw: m {\n  rw: string a\n  rw: string z\n}\n" := by decide +kernel
example : doTypes (fun (s : String) => str s) ["b;\n", "a;\n"] = str "a;\nb;\n" := by decide +kernel
end

end Goyang.Props.C05
