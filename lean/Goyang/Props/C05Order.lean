import Goyang.Lemmas.LoadOrderDump
import Goyang.Lemmas.LoadOrderLoad
import Goyang.Lemmas.LoadOrderKept
import Goyang.Lemmas.LoadOrderPlug
import Goyang.Model.Pipeline
import Goyang.Model.TypesLite
/-
Property C05, load order: the same sources give the same result whatever the order in which they
were loaded.  This file proves the open core statement `Props.C05.ProcessLoadOrderIrrelevant`
(there only stated) — with the two hypotheses it needs: module names are identifiers (`NamesOk`,
as in C13) and no two sources define the same (kind, name, revision) (`Distinct`; without it the
statement is false, `distinct_needed`; for `NamesOk` see `names_rejected` at the end).

In the resolver model a loaded module is identified by its load sequence number `Mod.seq`
(tree ids, `nodeMod`, visited sets, caches, pending augments, link sets, the identity dictionary
and the type-resolution stack are keyed by it) and `Registry.mods` is in load order.  Another load
order permutes those numbers.  The proof is a simulation through every stage of the pipeline
(`Lemmas/LoadOrder*.lean`, about 3600 lines, core Lean only):

* `Lemmas.LoadOrder.regRel_of_perm` (on top of C13's registry invariant): two load orders of
  pairwise different modules give registries that hold the same modules under renamed sequence
  numbers, every key of both tables bound to corresponding modules (`RegRel σ r₁ r₂`);
* every registry lookup, `findGrouping`, `toEntry` (with its caches and visited set), `find` /
  `walkParts`, linking, the augment loop, `FixChoice`, the leftover pass, deviations commute with
  the renaming `σ` (`toEntry_ren`, `find_ren`, `augmentPhase_rel`, `applyDeviations_ren`,
  `processAll_rel`); the orders in which `Process` walks the tables are sorted orders over distinct
  keys / full names and therefore correspond element by element (`Lemmas/SortUnique`);
* the layers plugged into `processAll` — `Type.resolve` / `resolveTypedefs` (C09 layer) and
  `resolveIdentities` (C11 layer, with the oracle the pipeline uses) — do the same
  (`plugFull_rel`: `resolveTypeF_ren`, `buildDict_ren`, `identityErrsOf_eq`, …);
* the canonical dump mentions no sequence number (`dumpOutcome_ren`).

The theorems are stated for an arbitrary plug that respects the renaming (`PlugRel`) and then
instantiated: `process_load_order_irrelevant` (statement lists, `plugFull`),
`process_files_load_order_irrelevant` (`processFiles` on texts: the statement of
`ProcessLoadOrderIrrelevant`), `process_load_order_irrelevant_resolver` (placeholder type layer).
-/
namespace Goyang.Props.C05Order
open Goyang.Model Goyang.Lemmas.LoadOrder
open Goyang.Lemmas.Registry (NoAt)
open Goyang.Lemmas.Registry renaming hdr → header
open Goyang.Spec.Registry (Header)

/-- Module names are identifiers: no `@` (as in C13). -/
def NamesOk (loads : List Stmt) : Prop := ∀ s ∈ loads, '@' ∉ s.arg.toList

/-- No two loads have the same header (kind, name, latest revision): nothing is rejected as a
duplicate.  (Of two loads with one header the second is rejected, `Props.C13.duplicate_rejected`:
which text survives depends on the order, so such sets are outside the claim.) -/
def Distinct (loads : List Stmt) : Prop := (loads.map header).Nodup

instance (loads : List Stmt) : Decidable (NamesOk loads) := by unfold NamesOk; infer_instance
instance (loads : List Stmt) : Decidable (Distinct loads) := by unfold Distinct; infer_instance

/-- **Registry level.**  Two registries that hold the same modules under renamed sequence numbers
(`RegRel`: the module lists correspond up to order, every key of `ms.Modules` / `ms.SubModules` is
bound to corresponding modules) are processed to outcomes with the same canonical dump — for any
plugged layers that respect the renaming. -/
theorem processAll_renaming_invariant {σ : Nat → Nat} {r₁ r₂ : Registry} (h : RegRel σ r₁ r₂) (opts : Opts)
    {p₁ p₂ : Plug} (hp : PlugRel σ r₁ r₂ p₁ p₂) :
    dumpOutcome (processAll r₂ opts p₂) = dumpOutcome (processAll r₁ opts p₁) := by
  obtain ⟨h1, h2, h3, h4⟩ := processAll_rel h opts hp
  have e₂ : processAll r₂ opts p₂ =
      { errors := (processAll r₁ opts p₁).errors, forest := Forest.ren σ (processAll r₁ opts p₁).forest, reg := r₂ } := by
    rw [← h1, ← h2]
    cases hh : processAll r₂ opts p₂
    rw [hh] at h3
    simp only at h3 ⊢
    rw [h3]
  have e₁ : processAll r₁ opts p₁ =
      { errors := (processAll r₁ opts p₁).errors, forest := (processAll r₁ opts p₁).forest, reg := r₁ } := by
    cases hh : processAll r₁ opts p₁
    rw [hh] at h4
    simp only at h4 ⊢
    rw [h4]
  rw [e₂, dumpOutcome_ren h, ← e₁]

/-- **Load order does not matter**, for any plugged layers that respect the renaming.  Loading
pairwise different modules in two orders and processing gives the same canonical dump: the same
error set, or the same trees node by node.  `plug` builds the plugged layers from the registry
(as `plugFull` does). -/
theorem process_load_order_irrelevant_of_plug {loads₁ loads₂ : List Stmt} (hperm : loads₁.Perm loads₂)
    (hd : Distinct loads₁) (opts : Opts) (plug : Registry → Plug)
    (hplug : ∀ σ, RegRel σ (Registry.loadAll loads₁).1 (Registry.loadAll loads₂).1 →
      PlugRel σ (Registry.loadAll loads₁).1 (Registry.loadAll loads₂).1
        (plug (Registry.loadAll loads₁).1) (plug (Registry.loadAll loads₂).1)) :
    dumpOutcome (processAll (Registry.loadAll loads₁).1 opts (plug (Registry.loadAll loads₁).1)) =
      dumpOutcome (processAll (Registry.loadAll loads₂).1 opts (plug (Registry.loadAll loads₂).1)) := by
  obtain ⟨σ, h⟩ := regRel_of_sameFirsts (sameFirsts_of_perm_nodup hperm hd)
  exact (processAll_renaming_invariant h opts (hplug σ h)).symm

/-- The placeholder layers: a type is its written name, no identity or typedef errors. -/
def plugLite : Registry → Plug :=
  fun _ => { tres := typesLite, identityErrs := fun _ => [], typedefErrs := fun _ => [] }

theorem plugLite_rel (σ : Nat → Nat) (r₁ r₂ : Registry) : PlugRel σ r₁ r₂ (plugLite r₁) (plugLite r₂) where
  tres := fun _ _ _ => rfl
  identityErrs := List.Perm.refl _
  typedefErrs := List.Perm.refl _

/-- **Load order does not matter for the resolver proper** (linking, `ToEntry` with groupings,
uses, submodule merging, rpcs, the augment loop, `FixChoice`, deviations, error collection), with
the placeholder type layer: unconditionally for pairwise different modules. -/
theorem process_load_order_irrelevant_resolver {loads₁ loads₂ : List Stmt} (hperm : loads₁.Perm loads₂)
    (hd : Distinct loads₁) (opts : Opts) :
    dumpOutcome (processAll (Registry.loadAll loads₁).1 opts (plugLite (Registry.loadAll loads₁).1)) =
      dumpOutcome (processAll (Registry.loadAll loads₂).1 opts (plugLite (Registry.loadAll loads₂).1)) :=
  process_load_order_irrelevant_of_plug hperm hd opts plugLite (fun σ _ => plugLite_rel σ _ _)

/-- The layers of the real pipeline (`plugFull`: `Type.resolve` / `resolveTypedefs` of the C09
layer, `resolveIdentities` of the C11 layer with the insertion-order oracle — every map walk of
the repaired code sorts first) respect the renaming. -/
theorem plugFull_respects_renaming {σ : Nat → Nat} {r₁ r₂ : Registry} (h : RegRel σ r₁ r₂) :
    PlugRel σ r₁ r₂ (plugFull r₁) (plugFull r₂) :=
  plugFull_rel h

/-- **Load order does not matter** — the whole pipeline after generic parsing (`Modules.add` of
every load, then `Modules.Process` with type, typedef and identity resolution plugged in).  Two
load orders of pairwise different modules give the same canonical dump: the same error set
(file, line, column, class), or — when there are no errors — the same trees, node by node, with
the same kinds, types, defaults, config / mandatory flags, list attributes, namespaces and
instantiating modules. -/
theorem process_load_order_irrelevant {loads₁ loads₂ : List Stmt} (hperm : loads₁.Perm loads₂)
    (hd : Distinct loads₁) (opts : Opts) :
    dumpOutcome (processAll (Registry.loadAll loads₁).1 opts (plugFull (Registry.loadAll loads₁).1)) =
      dumpOutcome (processAll (Registry.loadAll loads₂).1 opts (plugFull (Registry.loadAll loads₂).1)) :=
  process_load_order_irrelevant_of_plug hperm hd opts plugFull (fun _ h => plugFull_rel h)

/-- The statements of all texts, in load order. -/
def stmtsOf (files : List SrcFile) : List Stmt := files.flatMap (·.stmts)

/-- **The open core statement `Props.C05.ProcessLoadOrderIrrelevant`, with the hypothesis it
needs**: for texts whose modules are pairwise different, the result of `processFiles`
(`Modules.Parse` of every text in order, atomically, then `Modules.Process`) does not depend on
the order of the texts — also not whether the set is inside the model at all.  Names are
arbitrary: a text with a name containing `@` is refused as a whole in every order. -/
theorem process_files_load_order_irrelevant (opts : Opts) {files₁ files₂ : List SrcFile} (hperm : files₁.Perm files₂)
    (hd : Distinct (stmtsOf files₁)) :
    (processFiles opts files₁).toOption.map dumpOutcome = (processFiles opts files₂).toOption.map dumpOutcome := by
  have hps : (stmtsOf files₁).Perm (stmtsOf files₂) := List.Perm.flatMap_right _ hperm
  have hd₂ : Distinct (stmtsOf files₂) := (hps.map header).nodup_iff.mp hd
  unfold processFiles
  cases h1 : files₁.findSome? fun f => outsideL "" f.stmts with
  | some why =>
    cases h2 : files₂.findSome? fun f => outsideL "" f.stmts with
    | some why' => rfl
    | none =>
      exfalso
      rw [List.findSome?_eq_none_iff] at h2
      obtain ⟨f, hf, hw⟩ := List.exists_of_findSome?_eq_some h1
      rw [h2 f (hperm.mem_iff.mp hf)] at hw
      cases hw
  | none =>
    cases h2 : files₂.findSome? fun f => outsideL "" f.stmts with
    | some why' =>
      exfalso
      rw [List.findSome?_eq_none_iff] at h1
      obtain ⟨f, hf, hw⟩ := List.exists_of_findSome?_eq_some h2
      rw [h1 f (hperm.mem_iff.mpr hf)] at hw
      cases hw
    | none =>
      simp only [Except.toOption, Option.map_some, Option.some.injEq]
      -- the texts refused for a name leave no trace, in either order
      have hpf : (files₁.filter goodFile).Perm (files₂.filter goodFile) := hperm.filter _
      have hd' : Distinct (stmtsOf (files₁.filter goodFile)) :=
        List.Nodup.sublist ((sublist_flatMap_filter files₁).map header) hd
      have hd₂' : Distinct (stmtsOf (files₂.filter goodFile)) :=
        List.Nodup.sublist ((sublist_flatMap_filter files₂).map header) hd₂
      rw [loadFiles_filter_good files₁, loadFiles_filter_good files₂,
        loadFiles_eq_loadAll _ (noAt_filter_goodFile files₁) hd', loadFiles_eq_loadAll _ (noAt_filter_goodFile files₂) hd₂']
      exact process_load_order_irrelevant (List.Perm.flatMap_right _ hpf) hd' opts

/-! ### several loads with one header: the first one decides

`Distinct` excludes load lists in which two loads carry the same (kind, name, latest revision).
Such a list is not a *set of modules* in the sense of the property: the registry holds one module
per header, `Modules.add` refuses the second load (`Props.C13.duplicate_rejected`), and which text
survives is decided by the order (`distinct_needed`) — first come, first served.  What does hold
for arbitrary load lists is proved here: the outcome is a function of the *first* load of every
header.  A refused load leaves no trace (`refused_loads_leave_no_trace`); two load lists — not
even permutations of each other — with the same first load for every header give the same dump
(`process_determined_by_first_loads`); in particular every permutation that keeps the loads of
each header in their relative order does (`process_stable_order_irrelevant`).  The refusals agree
too: as errors, for every permutation whatever (`refused_load_errors_perm`), and load by load
when the first loads agree (`load_outcomes_perm`). -/

/-- The first load that carries header `h`. -/
def firstLoad (h : Header) (loads : List Stmt) : Option Stmt := loads.find? fun s => header s == h

/-- The two load lists have the same first load for every header (with an `@`-free name: the
other loads are refused anyway). -/
def SameFirstLoads (loads₁ loads₂ : List Stmt) : Prop :=
  ∀ h : Header, '@' ∉ h.name.toList → firstLoad h loads₁ = firstLoad h loads₂

/-- The loads of every header stand in the same relative order in both lists. -/
def StableRearrangement (loads₁ loads₂ : List Stmt) : Prop :=
  ∀ h : Header, loads₁.filter (fun s => header s == h) = loads₂.filter (fun s => header s == h)

theorem sameFirsts_of_sameFirstLoads {loads₁ loads₂ : List Stmt} (h : SameFirstLoads loads₁ loads₂) :
    SameFirsts loads₁ loads₂ := by
  intro x hx
  apply h x
  simpa [Spec.Registry.nameOk] using hx

/-- Pairwise different headers: every permutation has the same first loads. -/
theorem sameFirstLoads_of_distinct {loads₁ loads₂ : List Stmt} (hperm : loads₁.Perm loads₂) (hd : Distinct loads₁) :
    SameFirstLoads loads₁ loads₂ :=
  fun h _ => find?_perm_unique header hperm hd h

/-- A rearrangement that keeps the loads of every header in their relative order has the same
first loads. -/
theorem sameFirstLoads_of_stable {loads₁ loads₂ : List Stmt} (h : StableRearrangement loads₁ loads₂) :
    SameFirstLoads loads₁ loads₂ := by
  intro x _
  unfold firstLoad
  rw [← List.head?_filter, ← List.head?_filter, h x]

/-- The loads `Modules.add` accepts, in load order: of every header with an `@`-free name the
first load that carries it. -/
def acceptedLoads (loads : List Stmt) : List Stmt := kept loads

theorem mem_acceptedLoads (loads : List Stmt) (s : Stmt) :
    s ∈ acceptedLoads loads ↔ '@' ∉ s.arg.toList ∧ firstLoad (header s) loads = some s := by
  unfold acceptedLoads
  rw [mem_kept]
  constructor
  · rintro ⟨hg, hf⟩; exact ⟨Lemmas.Registry.noAt_of_good hg, hf⟩
  · rintro ⟨hg, hf⟩; exact ⟨Lemmas.Registry.good_of_noAt hg, hf⟩

/-- **A refused load leaves no trace**: the registry after any list of loads is the registry
after the accepted loads alone — whose names are `@`-free and whose headers are pairwise
different, so that everything proved under `NamesOk` and `Distinct` applies to it. -/
theorem refused_loads_leave_no_trace (loads : List Stmt) :
    (Registry.loadAll loads).1 = (Registry.loadAll (acceptedLoads loads)).1 ∧
    NamesOk (acceptedLoads loads) ∧ Distinct (acceptedLoads loads) :=
  ⟨loadAll_kept loads, kept_noAt loads, kept_nodup loads⟩

/-- **Registry level: the first load of every header decides.**  Two load lists with the same
first loads give registries that hold the same modules under renamed sequence numbers, every key
of `ms.Modules` / `ms.SubModules` bound to corresponding modules. -/
theorem registry_determined_by_first_loads {loads₁ loads₂ : List Stmt} (h : SameFirstLoads loads₁ loads₂) :
    ∃ σ, RegRel σ (Registry.loadAll loads₁).1 (Registry.loadAll loads₂).1 :=
  regRel_of_sameFirsts (sameFirsts_of_sameFirstLoads h)

/-- The accepted loads are the same set. -/
theorem accepted_loads_perm {loads₁ loads₂ : List Stmt} (h : SameFirstLoads loads₁ loads₂) :
    (acceptedLoads loads₁).Perm (acceptedLoads loads₂) :=
  kept_perm_of_sameFirsts (sameFirsts_of_sameFirstLoads h)

/-- **The whole pipeline: the first load of every header decides**, for any plugged layers that
respect the renaming. -/
theorem process_determined_by_first_loads_of_plug {loads₁ loads₂ : List Stmt} (hf : SameFirstLoads loads₁ loads₂)
    (opts : Opts) (plug : Registry → Plug)
    (hplug : ∀ σ, RegRel σ (Registry.loadAll loads₁).1 (Registry.loadAll loads₂).1 →
      PlugRel σ (Registry.loadAll loads₁).1 (Registry.loadAll loads₂).1
        (plug (Registry.loadAll loads₁).1) (plug (Registry.loadAll loads₂).1)) :
    dumpOutcome (processAll (Registry.loadAll loads₁).1 opts (plug (Registry.loadAll loads₁).1)) =
      dumpOutcome (processAll (Registry.loadAll loads₂).1 opts (plug (Registry.loadAll loads₂).1)) := by
  obtain ⟨σ, h⟩ := registry_determined_by_first_loads hf
  exact (processAll_renaming_invariant h opts (hplug σ h)).symm

/-- **The whole pipeline (`plugFull`): the first load of every header decides.**  Arbitrary load
lists — names with `@`, several texts for one header, the lists need not even be permutations of
each other: when the first load of every header is the same, the canonical dumps are equal. -/
theorem process_determined_by_first_loads {loads₁ loads₂ : List Stmt} (hf : SameFirstLoads loads₁ loads₂)
    (opts : Opts) :
    dumpOutcome (processAll (Registry.loadAll loads₁).1 opts (plugFull (Registry.loadAll loads₁).1)) =
      dumpOutcome (processAll (Registry.loadAll loads₂).1 opts (plugFull (Registry.loadAll loads₂).1)) :=
  process_determined_by_first_loads_of_plug hf opts plugFull (fun _ h => plugFull_rel h)

/-- **Load order does not matter as long as the loads of each header keep their relative
order** — the strongest order independence that holds when several texts define one (kind, name,
revision). -/
theorem process_stable_order_irrelevant {loads₁ loads₂ : List Stmt} (hs : StableRearrangement loads₁ loads₂)
    (opts : Opts) :
    dumpOutcome (processAll (Registry.loadAll loads₁).1 opts (plugFull (Registry.loadAll loads₁).1)) =
      dumpOutcome (processAll (Registry.loadAll loads₂).1 opts (plugFull (Registry.loadAll loads₂).1)) :=
  process_determined_by_first_loads (sameFirstLoads_of_stable hs) opts

/-- **The refusals do not depend on the load order** — no hypothesis at all: the errors
`Modules.add` answers the refused loads with (`bad module name` with kind and name, `duplicate`
with kind and full name) are the same multiset in every order. -/
theorem refused_load_errors_perm {loads₁ loads₂ : List Stmt} (hperm : loads₁.Perm loads₂) :
    ((Registry.loadAll loads₁).2.filterMap id).Perm ((Registry.loadAll loads₂).2.filterMap id) :=
  load_errors_perm hperm

/-- **Load by load**: when the first loads agree (in particular for pairwise different headers,
`sameFirstLoads_of_distinct`), every load has the same outcome — accepted, or refused with the
same error — in both orders. -/
theorem load_outcomes_perm {loads₁ loads₂ : List Stmt} (hperm : loads₁.Perm loads₂) (hf : SameFirstLoads loads₁ loads₂) :
    (loads₁.zip (Registry.loadAll loads₁).2).Perm (loads₂.zip (Registry.loadAll loads₂).2) :=
  Lemmas.LoadOrder.load_outcomes_perm hperm (sameFirsts_of_sameFirstLoads hf)

/-- The outcome of every load, read off the load list: refused for its name, refused as a
duplicate of an earlier `@`-free load with the same header, or accepted. -/
theorem load_outcomes (loads : List Stmt) : (Registry.loadAll loads).2 = outsAfter [] loads :=
  loadAll_outs loads

/-! ### the hypotheses are satisfiable, and they are needed

`exA` includes its submodule `exAs` (which uses a typedef), `exB` imports `exA`, augments its
container and deviates its leaf: linking, submodule merging, type resolution, the augment loop
and deviations all run.  Three load orders. -/

private def st (file kw arg : String) (l : Nat) (subs : List Stmt := []) : Stmt := .mk kw true arg file l 1 subs

def exA : Stmt :=
  st "a.yang" "module" "a" 1 [st "a.yang" "namespace" "urn:a" 2, st "a.yang" "prefix" "a" 3,
    st "a.yang" "include" "as" 4,
    st "a.yang" "container" "c" 5 [st "a.yang" "leaf" "x" 6 [st "a.yang" "type" "string" 7]]]
def exAs : Stmt :=
  st "as.yang" "submodule" "as" 1 [st "as.yang" "belongs-to" "a" 2 [st "as.yang" "prefix" "a" 3],
    st "as.yang" "leaf" "z" 4 [st "as.yang" "type" "t" 5],
    st "as.yang" "typedef" "t" 6 [st "as.yang" "type" "int8" 7]]
def exB : Stmt :=
  st "b.yang" "module" "b" 1 [st "b.yang" "namespace" "urn:b" 2, st "b.yang" "prefix" "b" 3,
    st "b.yang" "import" "a" 4 [st "b.yang" "prefix" "a" 5],
    st "b.yang" "augment" "/a:c" 6 [st "b.yang" "leaf" "y" 7 [st "b.yang" "type" "int8" 8]],
    st "b.yang" "deviation" "/a:c/a:x" 9 [st "b.yang" "deviate" "add" 10 [st "b.yang" "default" "d" 11]]]

example : NamesOk [exA, exAs, exB] := by decide
example : Distinct [exA, exAs, exB] := by decide
theorem exPerm : [exA, exAs, exB].Perm [exB, exAs, exA] :=
  (List.Perm.swap exAs exA [exB]).trans (((List.Perm.swap exB exA []).cons exAs).trans (List.Perm.swap exB exAs [exA]))
/-- the instance of the theorem for these loads -/
example (opts : Opts) :
    dumpOutcome (processAll (Registry.loadAll [exA, exAs, exB]).1 opts (plugFull (Registry.loadAll [exA, exAs, exB]).1)) =
      dumpOutcome (processAll (Registry.loadAll [exB, exAs, exA]).1 opts (plugFull (Registry.loadAll [exB, exAs, exA]).1)) :=
  process_load_order_irrelevant exPerm (by decide) opts
/-- the sequence numbers really are permuted: `a` is module 0 in one order and module 2 in the other -/
example : ((Registry.loadAll [exA, exAs, exB]).1.getModule "a").map (·.seq) = some 0 ∧
    ((Registry.loadAll [exB, exAs, exA]).1.getModule "a").map (·.seq) = some 2 := by decide
/-- processing is not trivial (placeholder type layer, module and submodule only, which the
kernel can evaluate): no errors, two trees, the submodule's leaf merged into the module -/
example : (processAll (Registry.loadAll [exAs, exA]).1 {} (plugLite (Registry.loadAll [exAs, exA]).1)).errors = [] ∧
    (processAll (Registry.loadAll [exAs, exA]).1 {} (plugLite (Registry.loadAll [exAs, exA]).1)).forest.trees.map
      (fun p => (p.1, p.2.dir.map (·.name))) = [(0, ["z"]), (1, ["z", "c"])] := by
  decide +kernel

/-- Two texts for one module name (no revision): the second load is rejected as a duplicate
(`Props.C13.duplicate_rejected`), so which text is processed depends on the order. -/
def dupA : Stmt :=
  st "a1.yang" "module" "a" 1 [st "a1.yang" "namespace" "urn:a" 2, st "a1.yang" "prefix" "a" 3,
    st "a1.yang" "container" "c" 4]
def dupA' : Stmt :=
  st "a2.yang" "module" "a" 1 [st "a2.yang" "namespace" "urn:a" 2, st "a2.yang" "prefix" "a" 3]

/-- **`Distinct` cannot be dropped**: for two different texts of one module the dumps of the two
load orders differ (here: in length).  The unconditional statement
`Props.C05.ProcessLoadOrderIrrelevant` is therefore too strong as written: "the same sources"
must not contain two sources for one (kind, name, revision). -/
theorem distinct_needed :
    NamesOk [dupA, dupA'] ∧ [dupA, dupA'].Perm [dupA', dupA] ∧ ¬ Distinct [dupA, dupA'] ∧
    dumpOutcome (processAll (Registry.loadAll [dupA, dupA']).1 {} (plugLite (Registry.loadAll [dupA, dupA']).1)) ≠
      dumpOutcome (processAll (Registry.loadAll [dupA', dupA]).1 {} (plugLite (Registry.loadAll [dupA', dupA]).1)) := by
  refine ⟨by decide, List.Perm.swap _ _ _, by decide, ?_⟩
  intro h
  have hl := congrArg String.length h
  revert hl
  decide +kernel

/-- A module whose *name* contains `@` (not a YANG identifier; goyang does not check identifiers)
and a module whose full name `name@revision` is the same string. -/
def atA : Stmt :=
  st "x.yang" "module" "m@2020" 1 [st "x.yang" "namespace" "urn:x" 2, st "x.yang" "prefix" "x" 3,
    st "x.yang" "container" "c" 4]
def atB : Stmt :=
  st "m.yang" "module" "m" 1 [st "m.yang" "namespace" "urn:m" 2, st "m.yang" "prefix" "m" 3,
    st "m.yang" "revision" "2020" 4]

/-- **The ambiguity behind `NamesOk` is gone from the code** (defect D61, repaired: `Modules.add`
refuses a name containing `@`).  Before the repair the key `m@2020` was claimed by both modules
and whichever was loaded first kept it, so the two load orders gave different dumps; now `m@2020`
is refused in both orders, the registries are equal and so are the dumps.  (`NamesOk` remains a
hypothesis of the theorems above; `Props.C13` shows the registry half without it.) -/
theorem names_rejected :
    Distinct [atA, atB] ∧ [atA, atB].Perm [atB, atA] ∧ ¬ NamesOk [atA, atB] ∧
    (Registry.loadAll [atA, atB]).2.map Option.isSome = [true, false] ∧
    (Registry.loadAll [atB, atA]).2.map Option.isSome = [false, true] ∧
    dumpOutcome (processAll (Registry.loadAll [atA, atB]).1 {} (plugLite (Registry.loadAll [atA, atB]).1)) =
      dumpOutcome (processAll (Registry.loadAll [atB, atA]).1 {} (plugLite (Registry.loadAll [atB, atA]).1)) := by
  have hreg : (Registry.loadAll [atA, atB]).1 = (Registry.loadAll [atB, atA]).1 := by rfl
  refine ⟨by decide, List.Perm.swap _ _ _, by decide, by decide, by decide, ?_⟩
  rw [hreg]

end Goyang.Props.C05Order
